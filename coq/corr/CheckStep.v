(** * CheckStep: the boolean step comparison evaluated by [vm_compute] in the correspondence
    check.  The harness hands over the implementation's pre-state, the operation, and the
    implementation's outcome / messages / post-state as literals; [check_step] runs the model's
    [step] from the *implementation's* pre-state and compares, component by component.  The
    per-property projections of DESIGN.md §4.2 are unions of these components (tools/props.py). *)
From FM Require Export World Totals Reentry ReentryDeep.

(** ** Observations *)
Record cfgT := mkCfg {
  c_kinds : list (addr * akind);
  c_self : addr;
  c_reg : addr;
  c_pool : addr;
  c_addrs : list addr;            (* the universe of accounts *)
  c_denoms : list denom;
  c_tokens : list addr;           (* honest cw20 contracts *)
  c_nfts : list (addr * tokid)    (* every NFT that exists *)
}.

Record obs := mkObs {
  o_time : N;
  o_height : N;
  o_market : mstate;
  o_registry : rstate;
  o_bank : list (addr * denom * N);
  o_cw20 : list (addr * addr * N);
  o_nft : list (addr * tokid * addr);
  o_admin : list (addr * option addr);
  o_hfail : bool
}.

Fixpoint lookup3 (l : list (N * N * N)) (a b : N) : option N :=
  match l with
  | [] => None
  | (x, y, v) :: r => if (x =? a) && (y =? b) then Some v else lookup3 r a b
  end.

Fixpoint lookup_kind (l : list (addr * akind)) (a : addr) : akind :=
  match l with
  | [] => KUser
  | (x, k) :: r => if x =? a then k else lookup_kind r a
  end.

Fixpoint lookup_admin (l : list (addr * option addr)) (a : addr) : option addr :=
  match l with
  | [] => None
  | (x, v) :: r => if x =? a then v else lookup_admin r a
  end.

Definition abs (c : cfgT) (o : obs) : world :=
  mkW (fun a d => match lookup3 (o_bank o) a d with Some v => v | None => 0 end)
      (fun t a => match lookup3 (o_cw20 o) t a with Some v => v | None => 0 end)
      (fun cl k => lookup3 (o_nft o) cl k)
      (lookup_kind (c_kinds c))
      (lookup_admin (o_admin o))
      (o_market o) (o_registry o) (o_time o) (o_height o) (o_hfail o)
      (c_self c) (c_reg c) (c_pool c).

(** ** Canonical forms and boolean equalities *)
Definition pair_leb (a b : N * N) : bool :=
  if fst a <? fst b then true else if fst b <? fst a then false else snd a <=? snd b.

Definition canon_pairs (l : list (N * N)) : list (N * N) := isort pair_leb l.

Fixpoint list_eqb {A} (eqb : A -> A -> bool) (a b : list A) : bool :=
  match a, b with
  | [], [] => true
  | x :: r, y :: t => eqb x y && list_eqb eqb r t
  | _, _ => false
  end.

Definition pairs_eqb (a b : list (N * N)) : bool := list_eqb pair_eqb (canon_pairs a) (canon_pairs b).

Definition gbal_eqb (a b : gbal) : bool :=
  pairs_eqb (native a) (native b) && pairs_eqb (cw20 a) (cw20 b) && pairs_eqb (nfts a) (nfts b).

Definition optpair_eqb (a b : option (N * N)) : bool :=
  match a, b with
  | None, None => true
  | Some x, Some y => pair_eqb x y
  | _, _ => false
  end.

Definition listing_eqb (a b : listing) : bool :=
  (creator a =? creator b) && (lid a =? lid b) && opt_eqb (fin a) (fin b) && opt_eqb (exp a) (exp b)
  && status_eqb (lstatus a) (lstatus b) && opt_eqb (claimant a) (claimant b) && opt_eqb (wl a) (wl b)
  && gbal_eqb (for_sale a) (for_sale b) && gbal_eqb (ask a) (ask b) && optpair_eqb (lfee a) (lfee b).

Definition bucket_eqb (a b : bucket) : bool :=
  (owner a =? owner b) && gbal_eqb (funds a) (funds b) && optpair_eqb (bfee a) (bfee b).

Definition key_leb {V} (a b : key * V) : bool := pair_leb (fst a) (fst b).

Definition entries_eqb {V} (veqb : V -> V -> bool) (a b : list (key * V)) : bool :=
  list_eqb (fun x y => key_eqb (fst x) (fst y) && veqb (snd x) (snd y))
           (isort key_leb a) (isort key_leb b).

Definition set_eqb (a b : list N) : bool :=
  list_eqb N.eqb (isort N.leb (dedupN a)) (isort N.leb (dedupN b)).

Definition fee_eqb (a b : feedenom) : bool :=
  match a, b with
  | JUNO x, JUNO y | USDC x, USDC y => x =? y
  | _, _ => false
  end.

Definition rinfo_eqb (a b : rinfo) : bool :=
  (last_updated a =? last_updated b) && (bps a =? bps b) && (payout a =? payout b).

Definition registry_eqb (a b : rstate) : bool :=
  list_eqb (fun x y => (fst x =? fst y) && rinfo_eqb (snd x) (snd y))
           (isort (fun x y => fst x <=? fst y) a) (isort (fun x y => fst x <=? fst y) b).

(** Messages as a multiset: a canonical numeric encoding, then sorted. *)
Definition msg_code (m : out_msg) : list N :=
  match m with
  | BankSend to cs => 1 :: to :: flat_map (fun c => [fst c; snd c]) (canon_pairs cs)
  | Cw20Transfer t to a => [2; t; to; a]
  | NftTransfer c to k => [3; c; to; k]
  | FundPool dep c => [4; dep; fst c; snd c]
  end.

Fixpoint code_leb (a b : list N) : bool :=
  match a, b with
  | [], _ => true
  | _ :: _, [] => false
  | x :: r, y :: t => if x <? y then true else if y <? x then false else code_leb r t
  end.

Definition msgs_eqb (a b : list out_msg) : bool :=
  list_eqb (list_eqb N.eqb) (isort code_leb (map msg_code a)) (isort code_leb (map msg_code b)).

(** ** The comparison *)
Definition bit (i : N) (mismatch : bool) : N := if mismatch then 2 ^ i else 0.

Definition all_pairs (xs ys : list N) : list (N * N) :=
  flat_map (fun x => map (fun y => (x, y)) ys) xs.

Definition check_step_with (stepf : world -> world * outcome) (c : cfgT) (pre : obs) (ok_o : bool) (msgs_o : list out_msg) (post : obs) : N :=
  let w := abs c pre in
  let '(w', out) := stepf w in
  let p := abs c post in
  let s' := market w' in
  let sp := market p in
  let me := c_self c in
  let others := filter (fun a => negb (a =? me)) (c_addrs c) in
  let ledger_eq (accts : list addr) :=
      forallb (fun ad => bank w' (fst ad) (snd ad) =? bank p (fst ad) (snd ad)) (all_pairs accts (c_denoms c))
      && forallb (fun ta => cw20bal w' (fst ta) (snd ta) =? cw20bal p (fst ta) (snd ta)) (all_pairs (c_tokens c) accts) in
  let nft_eq (pred : option addr -> bool) :=
      forallb (fun n => let a := nft_owner w' (fst n) (snd n) in let b := nft_owner p (fst n) (snd n) in
                        if pred a || pred b then opt_eqb a b else true) (c_nfts c) in
  let is_me (x : option addr) := match x with Some a => a =? me | None => false end in
    bit 0 (negb (Bool.eqb (ok out) ok_o))
  + bit 1 (negb (entries_eqb (fun a b => (creator a =? creator b) && opt_eqb (claimant a) (claimant b)
                                         && status_eqb (lstatus a) (lstatus b)) (listings s') (listings sp)))
  + bit 2 (negb (entries_eqb listing_eqb (listings s') (listings sp)))
  + bit 3 (negb (entries_eqb (fun a b => owner a =? owner b) (buckets s') (buckets sp)))
  + bit 4 (negb (entries_eqb bucket_eqb (buckets s') (buckets sp)))
  + bit 5 (negb (set_eqb (l_used s') (l_used sp)))
  + bit 6 (negb (set_eqb (b_used s') (b_used sp)))
  + bit 7 (negb (fee_eqb (fee s') (fee sp)))
  + bit 8 (negb (opt_eqb (registry_item s') (registry_item sp)))
  + bit 9 (negb (registry_eqb (registry w') (registry p)))
  + bit 10 (negb (ledger_eq others && nft_eq (fun x => negb (is_me x))))
  + bit 11 (negb (ledger_eq [me] && nft_eq is_me))
  + bit 12 (negb (msgs_eqb (msgs out) msgs_o))
  + bit 13 (negb (forallb (fun d => owed_native s' d =? owed_native sp d) (c_denoms c)
                  && forallb (fun t => owed_cw20 s' t =? owed_cw20 sp t) (c_tokens c)
                  && pairs_eqb (recorded_nfts s') (recorded_nfts sp)))
  + bit 14 (negb (forallb (fun d => pending_fees s' d =? pending_fees sp d) (c_denoms c)
                  && entries_eqb (fun a b => optpair_eqb (lfee a) (lfee b)) (listings s') (listings sp)
                  && entries_eqb (fun a b => optpair_eqb (bfee a) (bfee b)) (buckets s') (buckets sp)))
  + bit 15 (negb (forallb (fun d => bank w' (c_pool c) d =? bank p (c_pool c) d) (c_denoms c)))
  + bit 16 (negb (entries_eqb (fun a b => status_eqb (lstatus a) (lstatus b) && gbal_eqb (for_sale a) (for_sale b)
                                          && gbal_eqb (ask a) (ask b) && opt_eqb (wl a) (wl b)
                                          && opt_eqb (fin a) (fin b) && opt_eqb (exp a) (exp b))
                              (listings s') (listings sp)))
  + bit 17 (negb (forallb (fun d => sent_native (msgs out) d =? sent_native msgs_o d) (c_denoms c)
                  && forallb (fun t => sent_cw20 (msgs out) t =? sent_cw20 msgs_o t) (c_tokens c)
                  && pairs_eqb (sent_nfts (msgs out)) (sent_nfts msgs_o)))
  + bit 18 (negb (entries_eqb (fun a b => gbal_eqb (for_sale a) (for_sale b)) (listings s') (listings sp)
                  && entries_eqb (fun a b => gbal_eqb (funds a) (funds b)) (buckets s') (buckets sp)))
  + bit 19 (negb ((wnow w' =? wnow p) && (height w' =? height p) && Bool.eqb (hostile_fail w') (hostile_fail p)
                  && forallb (fun a => opt_eqb (admin w' a) (admin p a)) (c_addrs c))).

Definition check_step (c : cfgT) (pre : obs) (o : op) (ok_o : bool) (msgs_o : list out_msg) (post : obs) : N :=
  check_step_with (fun w => step w o) c pre ok_o msgs_o post.

(** The same comparison for a transaction during which a hostile token re-enters the marketplace
    with the program [prog] (model/Reentry.v). *)
(** Which of the re-entrant calls went through ([None]: the program did not run, or the
    transaction failed) — recomputed along the same path as [rstep]. *)
Fixpoint run_outcomes (w : world) (ops : list op) : list bool :=
  match ops with
  | [] => []
  | o :: r => let '(w', out) := step w o in ok out :: run_outcomes w' r
  end.

Fixpoint rdispatch_nested (w : world) (i : nat) (fail : option nat) (prog : list op) (ms : list out_msg)
  : option (list bool) :=
  match ms with
  | [] => None
  | m :: r =>
      if (match fail with Some j => Nat.eqb i j | None => false end) then None
      else match dispatch1 w m with
           | Ok w1 =>
               if to_hostile w m
               then (match prog with [] => None | _ => Some (run_outcomes w1 prog) end)
               else rdispatch_nested w1 (S i) fail prog r
           | Err => None
           end
  end.

Definition rstep_nested (w : world) (o : op) (prog : list op) : option (list bool) :=
  if negb (ok (snd (rstep w o prog))) then None else
  let go (w1 : world) (sender : addr) (fs : list coin) (m : exec_msg) (fail : option nat) :=
      match execute (oracle_of w1) (env_of w1) sender fs m (market w1) with
      | Ok (s', out) => rdispatch_nested (set_market w1 s') 0 fail prog out
      | Err => None
      end in
  match o with
  | Exec sender fs m fail =>
      match pay_funds (bank w) sender (self_addr w) fs with Ok b => go (set_bank w b) sender fs m fail | Err => None end
  | Cw20Send user t amt inner fail =>
      match cw20_move (cw20bal w) t user (self_addr w) amt with
      | Ok c => go (set_cw20 w c) t [] (Receive user amt inner) fail | Err => None end
  | NftSend user c k inner fail =>
      match nft_move (nft_owner w) c k user (self_addr w) with
      | Ok n => go (set_nft w n) c [] (ReceiveNft user k inner) fail | Err => None end
  | _ => None
  end.

Definition nested_eqb (a b : option (list bool)) : bool :=
  match a, b with
  | None, None => true
  | Some x, Some y => list_eqb Bool.eqb x y
  | _, _ => false
  end.

Definition check_rstep (c : cfgT) (pre : obs) (o : op) (prog : list op) (ok_o : bool) (msgs_o : list out_msg)
           (nested_o : option (list bool)) (post : obs) : N :=
  check_step_with (fun w => rstep w o prog) c pre ok_o msgs_o post
  + bit 21 (negb (nested_eqb (rstep_nested (abs c pre) o prog) nested_o)).

(** The same for a transaction given as a tree (model/ReentryDeep.v): nested calls that are themselves re-entered. *)
Definition check_tstep (c : cfgT) (pre : obs) (t : rop) (ok_o : bool) (msgs_o : list out_msg) (post : obs) : N :=
  check_step_with (fun w => tstep w t) c pre ok_o msgs_o post.

(** ** Queries *)
Definition res_eqb {A} (eqb : A -> A -> bool) (a b : result A) : bool :=
  match a, b with
  | Ok x, Ok y => eqb x y
  | Err, Err => true
  | _, _ => false
  end.

Record qobs := mkQ {
  q_fee : result (N * denom * N);
  q_royalty_addr : option addr;
  q_by_owner : list (addr * N * result (list listing));
  q_buckets : list (addr * N * result (list (N * bucket)));
  q_whitelist : list (addr * result (list listing));
  q_market : list (N * result (list listing));
  q_single : list (addr * option rinfo);
  q_multi : list (list addr * result (list (option rinfo)))
}.

Definition optr_eqb (a b : option rinfo) : bool :=
  match a, b with
  | None, None => true
  | Some x, Some y => rinfo_eqb x y
  | _, _ => false
  end.

Definition check_queries (c : cfgT) (o : obs) (q : qobs) : N :=
  let s := o_market o in
  let t := o_time o in
    bit 0 (negb (res_eqb (fun a b => (fst (fst a) =? fst (fst b)) && (snd (fst a) =? snd (fst b)) && (snd a =? snd b))
                         (Ok (get_fee_denom s)) (q_fee q)))
  + bit 1 (negb (forallb (fun e => res_eqb (list_eqb listing_eqb)
                                           (get_listings_by_owner s (fst (fst e)) (snd (fst e))) (snd e)) (q_by_owner q)))
  + bit 2 (negb (forallb (fun e => res_eqb (list_eqb (fun a b => (fst a =? fst b) && bucket_eqb (snd a) (snd b)))
                                           (get_buckets s (fst (fst e)) (snd (fst e))) (snd e)) (q_buckets q)))
  + bit 3 (negb (forallb (fun e => res_eqb (list_eqb listing_eqb) (get_whitelisted s t (fst e)) (snd e)) (q_whitelist q)))
  + bit 4 (negb (forallb (fun e => res_eqb (list_eqb listing_eqb) (get_listings_for_market s t (fst e)) (snd e)) (q_market q)))
  + bit 5 (negb (opt_eqb (get_royalty_contract s) (q_royalty_addr q)))
  + bit 6 (negb (forallb (fun e => optr_eqb (get_single (o_registry o) (fst e)) (snd e)) (q_single q)))
  + bit 7 (negb (forallb (fun e => res_eqb (list_eqb optr_eqb) (get_multi (o_registry o) (fst e)) (snd e)) (q_multi q))).

(** ** Direct calls of the pure functions (C17 / C11 / C02 tie) *)
Definition check_calc_fee (fd_is_usdc : bool) (g : gbal) (r : result (option coin * gbal)) : bool :=
  res_eqb (fun a b => optpair_eqb (fst a) (fst b) && gbal_eqb (snd a) (snd b))
          (calc_fee_coin (if fd_is_usdc then USDC 0 else JUNO 0) g) r.

Definition check_royalties (g : gbal) (resp : list (option rinfo)) (r : result (list out_msg * N * gbal)) : bool :=
  res_eqb (fun a b => msgs_eqb (fst (fst a)) (fst (fst b)) && (snd (fst a) =? snd (fst b)) && gbal_eqb (snd a) (snd b))
          (royalties g resp) r.

Definition check_genbal_cmp (one two : gbal) (r : bool) : bool := Bool.eqb (genbal_cmp one two) r.
