(** * Balance: [GenericBalance] and the functions on it (state.rs, msg.rs). *)
From FM Require Export Base.

Record gbal := mkG {
  native : list (denom * N);
  cw20 : list (addr * N);
  nfts : list (addr * tokid)
}.

Definition gempty : gbal := mkG [] [] [].

(** [cw20::Balance]: native coins attached to a message, or one CW20 amount from the hook. *)
Inductive balance :=
| BNative (cs : list (denom * N))
| BCw20 (t : addr) (a : N).

(** [BalanceUtil::normalized_check] (state.rs:580). *)
Definition normalized_check (b : balance) : bool :=
  match b with
  | BNative cs =>
      negb (match cs with [] => true | _ => false end)
      && forallb (fun c => negb (snd c =? 0)) cs
      && nodupN (map fst cs)
  | BCw20 _ a => negb (a =? 0)
  end.

Definition from_balance (b : balance) : gbal :=
  match b with
  | BNative cs => mkG cs [] []
  | BCw20 t a => mkG [] [(t, a)] []
  end.

Definition from_nft (n : addr * tokid) : gbal := mkG [] [] [n].

(** Merge one (key, amount) into a vector: add to the first entry with that key ([+=] on
    [Uint128] panics on overflow), push otherwise (state.rs:349-378). *)
Fixpoint add_coin (l : list (N * N)) (k a : N) : result (list (N * N)) :=
  match l with
  | [] => Ok [(k, a)]
  | (k', a') :: r =>
      if k' =? k then (s <- add128 a' a ;; Ok ((k', s) :: r))
      else (r' <- add_coin r k a ;; Ok ((k', a') :: r'))
  end.

Fixpoint add_coins (l : list (N * N)) (cs : list (N * N)) : result (list (N * N)) :=
  match cs with
  | [] => Ok l
  | (k, a) :: r => l' <- add_coin l k a ;; add_coins l' r
  end.

Definition add_tokens (g : gbal) (b : balance) : result gbal :=
  match b with
  | BNative cs => n <- add_coins (native g) cs ;; Ok (mkG n (cw20 g) (nfts g))
  | BCw20 t a => c <- add_coin (cw20 g) t a ;; Ok (mkG (native g) c (nfts g))
  end.

Definition add_nft (g : gbal) (n : addr * tokid) : gbal :=
  mkG (native g) (cw20 g) (nfts g ++ [n]).

Definition gsize (g : gbal) : N :=
  N.of_nat (length (native g) + length (cw20 g) + length (nfts g)).

Definition MAX_NUM_ASSETS : N := 25.

(** [GenericBalance::check_valid] (state.rs:390). *)
Definition check_valid (g : gbal) : bool :=
  forallb (fun c => negb (snd c =? 0)) (native g)
  && forallb (fun c => negb (snd c =? 0)) (cw20 g)
  && negb (gsize g =? 0) && (gsize g <=? MAX_NUM_ASSETS)
  && nodupN (map fst (native g))
  && nodupN (map fst (cw20 g))
  && nodupP (nfts g).

(** [GenericBalanceUnvalidated::validate] (msg.rs:163): an ask.  Unvalidated addresses are
    numbers too; [valid_addr] is [addr_validate]; amounts are [Uint128] (the JSON decoder
    rejects anything else). *)
Definition validate_ask (g : gbal) : result gbal :=
  if forallb (fun c => negb (snd c =? 0) && (snd c <? U128)) (native g)
     && forallb (fun c => valid_addr (fst c) && negb (snd c =? 0) && (snd c <? U128)) (cw20 g)
     && forallb (fun n => valid_addr (fst n)) (nfts g)
     && negb (gsize g =? 0) && (gsize g <=? MAX_NUM_ASSETS)
     && nodupN (map fst (native g))
     && nodupN (map fst (cw20 g))
     && nodupP (nfts g)
  then Ok g else Err.

(** [genbal_cmp] (state.rs:548): every element of [one] occurs in [two] and the lengths agree,
    per vector. *)
Definition list_cmp (one two : list (N * N)) : bool :=
  forallb (fun c => memP c two) one && Nat.eqb (length one) (length two).

Definition genbal_cmp (one two : gbal) : bool :=
  list_cmp (native one) (native two)
  && list_cmp (cw20 one) (cw20 two)
  && list_cmp (nfts one) (nfts two).

(** Amount of a key in a vector (sum over all entries with that key). *)
Fixpoint amount_of (k : N) (l : list (N * N)) : N :=
  match l with
  | [] => 0
  | (k', a) :: r => (if k' =? k then a else 0) + amount_of k r
  end.
