(** * Base: carriers, the [result] monad, small list utilities.
    Executable definitions only; no proofs live under model/. *)
From Coq Require Export List NArith Bool.
Export ListNotations.
Open Scope N_scope.

(** Addresses, denominations and NFT token ids are numbers; the harness owns the
    name <-> number table.  Addresses below [1000] are the ones [addr_validate] accepts. *)
Definition addr := N.
Definition denom := N.
Definition tokid := N.

Definition valid_addr (a : addr) : bool := a <? 1000.

(** A failed handler (error return or Rust panic) has no effect on chain; the model keeps one
    error class. *)
Inductive result (A : Type) : Type :=
| Ok (a : A)
| Err.
Arguments Ok {A} a.
Arguments Err {A}.

Definition bind {A B} (r : result A) (f : A -> result B) : result B :=
  match r with Ok a => f a | Err => Err end.

Notation "x <- e1 ;; e2" := (bind e1 (fun x => e2))
  (at level 61, e1 at next level, right associativity).
Notation "' p <- e1 ;; e2" := (bind e1 (fun x => match x with p => e2 end))
  (at level 61, p pattern, e1 at next level, right associativity).

Definition guard (b : bool) : result unit := if b then Ok tt else Err.

Definition is_ok {A} (r : result A) : bool := match r with Ok _ => true | Err => false end.

Definition is_some {A} (o : option A) : bool := match o with Some _ => true | None => false end.

(** Bounds of the Rust integer types. *)
Definition U128 : N := 2 ^ 128.
Definition U64 : N := 2 ^ 64.

(** [Uint128] arithmetic: every operation that can overflow, underflow or divide by zero in
    the implementation returns [Err] here. *)
Definition add128 (a b : N) : result N := if a + b <? U128 then Ok (a + b) else Err.
Definition checked_sub (a b : N) : result N := if b <=? a then Ok (a - b) else Err.
Definition mul_ratio (a n d : N) : result N :=
  if d =? 0 then Err else let q := a * n / d in if q <? U128 then Ok q else Err.

Definition sat_add64 (a b : N) : N := N.min (a + b) (U64 - 1).

(** Lists of numbers as sets. *)
Fixpoint memN (x : N) (l : list N) : bool :=
  match l with [] => false | y :: r => (y =? x) || memN x r end.

Fixpoint nodupN (l : list N) : bool :=
  match l with [] => true | x :: r => negb (memN x r) && nodupN r end.

(** First-occurrence de-duplication (the code collects into a [BTreeSet]). *)
Fixpoint dedupN (l : list N) : list N :=
  match l with [] => [] | x :: r => x :: filter (fun y => negb (y =? x)) (dedupN r) end.

Definition pair_eqb (a b : N * N) : bool := (fst a =? fst b) && (snd a =? snd b).

Fixpoint memP (x : N * N) (l : list (N * N)) : bool :=
  match l with [] => false | y :: r => pair_eqb y x || memP x r end.

Fixpoint nodupP (l : list (N * N)) : bool :=
  match l with [] => true | x :: r => negb (memP x r) && nodupP r end.

Definition opt_eqb (a b : option N) : bool :=
  match a, b with
  | None, None => true
  | Some x, Some y => x =? y
  | _, _ => false
  end.

(** Generic insertion sort (used by the queries and by the canonicalisation in corr/). *)
Section Sort.
  Context {A : Type} (leb : A -> A -> bool).
  Fixpoint insert_sorted (x : A) (l : list A) : list A :=
    match l with
    | [] => [x]
    | y :: r => if leb x y then x :: y :: r else y :: insert_sorted x r
    end.
  Fixpoint isort (l : list A) : list A :=
    match l with [] => [] | x :: r => insert_sorted x (isort r) end.
End Sort.

Definition sumN (l : list N) : N := fold_right N.add 0 l.
