(** * Fees: the 0.5 % community-pool fee (utils.rs:96) and the royalty split (state.rs:448). *)
From FM Require Export Balance.

Inductive feedenom :=
| JUNO (last : N)
| USDC (last : N).

Definition D_JUNO : denom := 0.
Definition D_USDC : denom := 1.

Definition fee_denom_value (fd : feedenom) : denom :=
  match fd with JUNO _ => D_JUNO | USDC _ => D_USDC end.

Definition fee_last (fd : feedenom) : N :=
  match fd with JUNO t => t | USDC t => t end.

Definition coin := (denom * N)%type.

(** [calc_fee_coin]: find the first coin in the fee denomination; fee = amount * 5 / 1000
    ([multiply_ratio], full-width product); zero fee => unchanged; otherwise the fee coin is
    removed from the vector ([retain]) and re-appended with the reduced amount. *)
Definition calc_fee_coin (fd : feedenom) (g : gbal) : result (option coin * gbal) :=
  let fv := fee_denom_value fd in
  match find (fun c => fst c =? fv) (native g) with
  | None => Ok (None, g)
  | Some (_, a) =>
      f <- mul_ratio a 5 1000 ;;
      if f =? 0 then Ok (None, g)
      else
        rest <- checked_sub a f ;;
        Ok (Some (fv, f),
            mkG (filter (fun c => negb (fst c =? fv)) (native g) ++ [(fv, rest)])
                (cw20 g) (nfts g))
  end.

(** Registry entry ([packages/royalties]). *)
Record rinfo := mkR { last_updated : N; bps : N; payout : addr }.

(** Outgoing messages of the marketplace. *)
Inductive out_msg :=
| BankSend (to : addr) (coins : list coin)
| Cw20Transfer (token to : addr) (amt : N)
| NftTransfer (coll to : addr) (tok : tokid)
| FundPool (depositor : addr) (c : coin).

(** The fold of state.rs:452: sum of bps in [u64] (overflow is a panic) and the registered
    entries in order. *)
Fixpoint sum_bps (rs : list rinfo) : result N :=
  match rs with
  | [] => Ok 0
  | r :: t => s <- sum_bps t ;; if s + bps r <? U64 then Ok (s + bps r) else Err
  end.

Definition registered (resp : list (option rinfo)) : list rinfo :=
  flat_map (fun o => match o with Some r => [r] | None => [] end) resp.

(** Amount sent for one royalty: [checked_multiply_ratio(bps, 10000).unwrap_or(0)]. *)
Definition royalty_amt (a : N) (r : rinfo) : N :=
  let q := a * bps r / 10000 in if q <? U128 then q else 0.

(** Inner loop over the royalties for one asset: messages and the running balance. *)
Fixpoint pay_royalties (mk : addr -> N -> out_msg) (orig : N) (rs : list rinfo) (bal : N)
  : result (list out_msg * N) :=
  match rs with
  | [] => Ok ([], bal)
  | r :: t =>
      let x := royalty_amt orig r in
      if x =? 0 then pay_royalties mk orig t bal
      else
        bal' <- checked_sub bal x ;;
        '(ms, b) <- pay_royalties mk orig t bal' ;;
        Ok (mk (payout r) x :: ms, b)
  end.

(** Outer loop over a vector of (key, amount). *)
Fixpoint royalties_vec (mk : N -> addr -> N -> out_msg) (rs : list rinfo) (l : list (N * N))
  : result (list out_msg * list (N * N)) :=
  match l with
  | [] => Ok ([], [])
  | (k, a) :: t =>
      '(ms, b) <- pay_royalties (mk k) a rs a ;;
      '(ms', t') <- royalties_vec mk rs t ;;
      Ok (ms ++ ms', (k, b) :: t')
  end.

Definition ROYALTY_CAP : N := 5000.

(** [GenericBalance::royalties]: returns the messages, the bps total and the reduced balance. *)
Definition royalties (g : gbal) (resp : list (option rinfo)) : result (list out_msg * N * gbal) :=
  let rs := registered resp in
  total <- sum_bps rs ;;
  if ROYALTY_CAP <? total then Err
  else
    '(m1, n') <- royalties_vec (fun d to x => BankSend to [(d, x)]) rs (native g) ;;
    '(m2, c') <- royalties_vec (fun t to x => Cw20Transfer t to x) rs (cw20 g) ;;
    Ok (m1 ++ m2, total, mkG n' c' (nfts g)).
