(** * Market: state and handlers of the marketplace contract
    (contracts/marketplace/src/{contract,execute,state,utils}.rs). *)
From FM Require Export Registry.

Inductive status := BeingPrepared | FinalizedReady | Closed.

Definition status_eqb (a b : status) : bool :=
  match a, b with
  | BeingPrepared, BeingPrepared | FinalizedReady, FinalizedReady | Closed, Closed => true
  | _, _ => false
  end.

Record listing := mkL {
  creator : addr;
  lid : N;
  fin : option N;          (* finalized_time, nanoseconds *)
  exp : option N;          (* expiration_time, nanoseconds *)
  lstatus : status;
  claimant : option addr;
  wl : option addr;        (* whitelisted_buyer *)
  for_sale : gbal;
  ask : gbal;
  lfee : option coin       (* fee_amount *)
}.

Record bucket := mkB {
  owner : addr;
  funds : gbal;
  bfee : option coin
}.

Definition key := (addr * N)%type.
Definition key_eqb (a b : key) : bool := (fst a =? fst b) && (snd a =? snd b).

Record mstate := mkS {
  listings : list (key * listing);
  buckets : list (key * bucket);
  l_used : list N;
  b_used : list N;
  fee : feedenom;
  registry_item : option addr
}.

(** Association-list store primitives (cw-storage-plus [Map] / [IndexedMap]). *)
Section Store.
  Context {V : Type}.
  Fixpoint find_key (k : key) (l : list (key * V)) : option V :=
    match l with
    | [] => None
    | (k', v) :: r => if key_eqb k' k then Some v else find_key k r
    end.
  Fixpoint remove_key (k : key) (l : list (key * V)) : list (key * V) :=
    match l with
    | [] => []
    | (k', v) :: r => if key_eqb k' k then remove_key k r else (k', v) :: remove_key k r
    end.
  Definition put (k : key) (v : V) (l : list (key * V)) : list (key * V) :=
    (k, v) :: remove_key k l.
End Store.

(** The unique index on [Listing.id]: [listingz().idx.id.item(id)]. *)
Definition find_by_id (id : N) (l : list (key * listing)) : option (key * listing) :=
  find (fun e => lid (snd e) =? id) l.

(** [IndexedMap::save] / [replace]: fails when another primary key already carries the same
    [id] (unique index). *)
Definition save_listing (k : key) (v : listing) (l : list (key * listing))
  : result (list (key * listing)) :=
  if existsb (fun e => negb (key_eqb (fst e) k) && (lid (snd e) =? lid v)) l then Err
  else Ok (put k v l).

Definition set_listings (s : mstate) (ls : list (key * listing)) : mstate :=
  mkS ls (buckets s) (l_used s) (b_used s) (fee s) (registry_item s).
Definition set_buckets (s : mstate) (bs : list (key * bucket)) : mstate :=
  mkS (listings s) bs (l_used s) (b_used s) (fee s) (registry_item s).
Definition mark_l (s : mstate) (id : N) : mstate :=
  mkS (listings s) (buckets s) (id :: l_used s) (b_used s) (fee s) (registry_item s).
Definition mark_b (s : mstate) (id : N) : mstate :=
  mkS (listings s) (buckets s) (l_used s) (id :: b_used s) (fee s) (registry_item s).
Definition set_fee (s : mstate) (f : feedenom) : mstate :=
  mkS (listings s) (buckets s) (l_used s) (b_used s) f (registry_item s).

Definition MAX_SAFE_INT : N := 9007199254740990.
Definition max_ok (id : N) : bool := id <? MAX_SAFE_INT.

Definition WEEK_IN_SECS : N := 604800.
Definition NANOS : N := 1000000000.
Definition seconds (t : N) : N := t / NANOS.

(** What a handler sees of the chain. *)
Record env := mkEnv { now : N; self : addr }.

(** The querier, as an explicit oracle (instantiated by World.v with the modelled chain). *)
Record oracle := mkOrc {
  answers_token_info : addr -> bool;
  contract_info : addr -> option (option addr);
  registry_multi : addr -> list addr -> result (list (option rinfo))
}.

(** Messages (msg.rs).  [inner = None] is a hook payload that does not parse. *)
Inductive recv_msg :=
| CreateListingCw20 (id : N) (a : gbal) (w : option addr)
| AddToListingCw20 (id : N)
| CreateBucketCw20 (id : N)
| AddToBucketCw20 (id : N).

Inductive recv_nft_msg :=
| CreateListingCw721 (id : N) (a : gbal) (w : option addr)
| AddToListingCw721 (id : N)
| CreateBucketCw721 (id : N)
| AddToBucketCw721 (id : N).

Inductive exec_msg :=
| FeeCycle
| Receive (sender : addr) (amt : N) (inner : option recv_msg)
| ReceiveNft (sender : addr) (tok : tokid) (inner : option recv_nft_msg)
| CreateListing (id : N) (a : gbal) (w : option addr)
| AddToListing (id : N)
| ChangeAsk (id : N) (a : gbal)
| Finalize (id : N) (secs : N)
| DeleteListing (id : N)
| CreateBucket (id : N)
| AddToBucket (id : N)
| RemoveBucket (id : N)
| BuyListing (l b : N)
| WithdrawPurchased (id : N).

Definition response := (mstate * list out_msg)%type.

(** [send_tokens_cosmos] (utils.rs:24): one bank message when there are native coins, one
    transfer per CW20 entry, one per NFT. *)
Definition send_tokens_cosmos (to : addr) (g : gbal) : list out_msg :=
  (match native g with [] => [] | cs => [BankSend to cs] end)
  ++ map (fun c => Cw20Transfer (fst c) to (snd c)) (cw20 g)
  ++ map (fun n => NftTransfer (fst n) to (snd n)) (nfts g).

(** [withdraw_msgs] (state.rs:114,166): the assets, then the community-pool fee if any. *)
Definition fee_msgs (me : addr) (f : option coin) : list out_msg :=
  match f with Some c => [FundPool me c] | None => [] end.

Definition withdraw_msgs (me to : addr) (g : gbal) (f : option coin) : list out_msg :=
  send_tokens_cosmos to g ++ fee_msgs me f.

(** ** Buckets *)

(** Creation, generic in how the first deposit arrives: [ok] is the validity check of the
    deposit ([normalized_check] for coins / CW20; the NFT path has none), [g] its content. *)
Definition create_bucket_g (creator_ : addr) (ok : bool) (g : gbal) (id : N) (s : mstate)
  : result response :=
  if max_ok id && negb (memN id (b_used s))
     && negb (is_some (find_key (creator_, id) (buckets s)))
     && ok
  then Ok (mark_b (set_buckets s (put (creator_, id) (mkB creator_ g None) (buckets s))) id, [])
  else Err.

Definition execute_create_bucket (creator_ : addr) (b : balance) (id : N) (s : mstate)
  : result response := create_bucket_g creator_ (normalized_check b) (from_balance b) id s.

Definition execute_create_bucket_cw721 (user : addr) (n : addr * tokid) (id : N) (s : mstate)
  : result response := create_bucket_g user true (from_nft n) id s.

(** Top-up, generic in the deposit: [ok] its validity check, [upd] how it is merged into the
    funds (may panic on [Uint128] overflow). *)
Definition add_to_bucket_g (sender : addr) (ok : bool) (upd : gbal -> result gbal) (id : N)
           (s : mstate) : result response :=
  if negb ok then Err else
  match find_key (sender, id) (buckets s) with
  | None => Err
  | Some bk =>
      if negb (sender =? owner bk) then Err else
      g <- upd (funds bk) ;;
      if genbal_cmp (funds bk) g then Err else
      if negb (check_valid g) then Err else
      Ok (set_buckets s (put (sender, id) (mkB (owner bk) g (bfee bk)) (buckets s)), [])
  end.

Definition execute_add_to_bucket (sender : addr) (b : balance) (id : N) (s : mstate)
  : result response :=
  add_to_bucket_g sender (normalized_check b) (fun g => add_tokens g b) id s.

Definition execute_add_to_bucket_cw721 (user : addr) (n : addr * tokid) (id : N) (s : mstate)
  : result response :=
  add_to_bucket_g user true (fun g => Ok (add_nft g n)) id s.

Definition execute_withdraw_bucket (e : env) (user : addr) (id : N) (s : mstate)
  : result response :=
  match find_key (user, id) (buckets s) with
  | None => Err
  | Some bk =>
      if negb (owner bk =? user) then Err else
      Ok (set_buckets s (remove_key (user, id) (buckets s)),
          withdraw_msgs (self e) (owner bk) (funds bk) (bfee bk))
  end.

(** ** Listings *)

Definition wl_ok (user : addr) (w : option addr) : bool :=
  match w with
  | None => true
  | Some a => valid_addr a && negb (a =? user)
  end.

Definition new_listing (user : addr) (id : N) (w : option addr) (g a : gbal) : listing :=
  mkL user id None None BeingPrepared None w g a None.

Definition create_listing_g (user : addr) (ok : bool) (g : gbal) (id : N) (a : gbal) (w : option addr)
           (s : mstate) : result response :=
  if max_ok id && ok && negb (memN id (l_used s))
     && negb (is_some (find_by_id id (listings s)))
     && wl_ok user w
  then
    va <- validate_ask a ;;
    ls <- save_listing (user, id) (new_listing user id w g va) (listings s) ;;
    Ok (mark_l (set_listings s ls) id, [])
  else Err.

Definition execute_create_listing (user : addr) (b : balance) (id : N) (a : gbal) (w : option addr)
           (s : mstate) : result response :=
  create_listing_g user (normalized_check b) (from_balance b) id a w s.

Definition execute_create_listing_cw721 (user : addr) (n : addr * tokid) (id : N) (a : gbal)
           (w : option addr) (s : mstate) : result response :=
  create_listing_g user true (from_nft n) id a w s.

Definition with_ask (l : listing) (a : gbal) : listing :=
  mkL (creator l) (lid l) (fin l) (exp l) (lstatus l) (claimant l) (wl l) (for_sale l) a (lfee l).
Definition with_for_sale (l : listing) (g : gbal) : listing :=
  mkL (creator l) (lid l) (fin l) (exp l) (lstatus l) (claimant l) (wl l) g (ask l) (lfee l).

(** The guards shared by ChangeAsk / AddToListing* / Finalize: the listing is the sender's and
    still in preparation. *)
Definition editable (sender : addr) (l : listing) : bool :=
  (sender =? creator l) && status_eqb (lstatus l) BeingPrepared && negb (is_some (claimant l)).

Definition execute_change_ask (sender : addr) (id : N) (a : gbal) (s : mstate) : result response :=
  match find_key (sender, id) (listings s) with
  | None => Err
  | Some l =>
      if negb (editable sender l && negb (is_some (fin l))) then Err else
      va <- validate_ask a ;;
      ls <- save_listing (sender, id) (with_ask l va) (listings s) ;;
      Ok (set_listings s ls, [])
  end.

(** Top-up of a listing, generic in the deposit: [chk] is the final check (the coin path only
    counts the assets, execute.rs:445; the NFT path runs [check_valid], execute.rs:512). *)
Definition add_to_listing_g (sender : addr) (ok : bool) (upd : gbal -> result gbal)
           (chk : gbal -> bool) (id : N) (s : mstate) : result response :=
  if negb ok then Err else
  match find_key (sender, id) (listings s) with
  | None => Err
  | Some l =>
      if negb (editable sender l) then Err else
      g <- upd (for_sale l) ;;
      if genbal_cmp (for_sale l) g then Err else
      if negb (chk g) then Err else
      ls <- save_listing (sender, id) (with_for_sale l g) (listings s) ;;
      Ok (set_listings s ls, [])
  end.

Definition execute_add_to_listing (sender : addr) (b : balance) (id : N) (s : mstate)
  : result response :=
  add_to_listing_g sender (normalized_check b) (fun g => add_tokens g b)
                   (fun g => gsize g <=? MAX_NUM_ASSETS) id s.

Definition execute_add_to_listing_cw721 (user : addr) (n : addr * tokid) (id : N) (s : mstate)
  : result response :=
  add_to_listing_g user true (fun g => Ok (add_nft g n)) check_valid id s.

Definition MIN_LIFE : N := 600.
Definition MAX_LIFE : N := 1209600.

Definition execute_finalize (e : env) (sender : addr) (id secs : N) (s : mstate) : result response :=
  match find_key (sender, id) (listings s) with
  | None => Err
  | Some l =>
      if negb (editable sender l && negb (is_some (fin l))) then Err else
      if negb ((MIN_LIFE <=? secs) && (secs <=? MAX_LIFE)) then Err else
      let l' := mkL (creator l) (lid l) (Some (now e)) (Some (now e + secs * NANOS)) FinalizedReady
                    (claimant l) (wl l) (for_sale l) (ask l) (lfee l) in
      ls <- save_listing (sender, id) l' (listings s) ;;
      Ok (set_listings s ls, [])
  end.

Definition execute_delete_listing (e : env) (sender : addr) (id : N) (s : mstate) : result response :=
  match find_key (sender, id) (listings s) with
  | None => Err
  | Some l =>
      if negb (sender =? creator l) then Err else
      if is_some (claimant l) then Err else
      if (match exp l with Some x => now e <? x | None => false end) then Err else
      Ok (set_listings s (remove_key (sender, id) (listings s)),
          send_tokens_cosmos (creator l) (for_sale l))
  end.

(** ** Purchasing *)

(** One side's royalties: no lookup at all when the other side carries no NFT. *)
Definition side_royalties (o : oracle) (reg : addr) (colls : list addr) (g : gbal)
  : result (list out_msg * gbal) :=
  match colls with
  | [] => Ok ([], g)
  | _ =>
      rs <- registry_multi o reg colls ;;
      '(ms, _, g') <- royalties g rs ;;
      Ok (ms, g')
  end.

Definition execute_buy_listing (o : oracle) (e : env) (buyer : addr) (l_id b_id : N) (s : mstate)
  : result response :=
  match find_key (buyer, b_id) (buckets s) with
  | None => Err
  | Some bk =>
  match find_by_id l_id (listings s) with
  | None => Err
  | Some (_, l) =>
      if negb (buyer =? owner bk) then Err else
      if negb (genbal_cmp (funds bk) (ask l)) then Err else
      if negb (status_eqb (lstatus l) FinalizedReady) then Err else
      if negb (match wl l with None => true | Some w => w =? buyer end) then Err else
      if is_some (claimant l) then Err else
      if (match exp l with Some x => x <? now e | None => false end) then Err else
      '(l_fee, l_bal) <- calc_fee_coin (fee s) (for_sale l) ;;
      '(b_fee, b_bal) <- calc_fee_coin (fee s) (funds bk) ;;
      let seller_colls := dedupN (map fst (nfts (for_sale l))) in
      let buyer_colls := dedupN (map fst (nfts (funds bk))) in
      match registry_item s with
      | None => Err
      | Some reg =>
          '(m1, final_b) <- side_royalties o reg seller_colls b_bal ;;
          '(m2, final_l) <- side_royalties o reg buyer_colls l_bal ;;
          let l' := mkL buyer (lid l) (fin l) (exp l) Closed (Some buyer) (wl l) final_l (ask l) l_fee in
          ls <- save_listing (buyer, l_id) l' (remove_key (creator l, l_id) (listings s)) ;;
          let bs := put (creator l, b_id) (mkB (creator l) final_b b_fee)
                        (remove_key (buyer, b_id) (buckets s)) in
          (* a fee still pending on a re-used (traded) bucket is flushed to the pool here *)
          Ok (set_buckets (set_listings s ls) bs, m1 ++ m2 ++ fee_msgs (self e) (bfee bk))
      end
  end end.

Definition execute_withdraw_purchased (e : env) (who : addr) (id : N) (s : mstate) : result response :=
  match find_by_id id (listings s) with
  | None => Err
  | Some (_, l) =>
      match claimant l with
      | None => Err
      | Some c =>
          if negb (who =? c) then Err else
          if negb (status_eqb (lstatus l) Closed) then Err else
          Ok (set_listings s (remove_key (c, id) (listings s)),
              withdraw_msgs (self e) c (for_sale l) (lfee l))
      end
  end.

(** ** Fee cycle (contract.rs:127) *)
Definition execute_cycle_fee (e : env) (s : mstate) : result response :=
  let t := seconds (now e) in
  let '(updatable, new) :=
    match fee s with
    | JUNO last => (sat_add64 last WEEK_IN_SECS, USDC t)
    | USDC last => (sat_add64 last WEEK_IN_SECS, JUNO t)
    end in
  if t <=? updatable then Err else Ok (set_fee s new, []).

(** ** Receive hooks (contract.rs:149,192) *)
Definition execute_receive (o : oracle) (info_sender : addr) (funds_ : list coin)
           (sender : addr) (amt : N) (inner : option recv_msg) (s : mstate) : result response :=
  if negb (match funds_ with [] => true | _ => false end) then Err else
  if negb (answers_token_info o info_sender) then Err else
  match inner with
  | None => Err
  | Some m =>
      if negb (valid_addr sender) then Err else
      let b := BCw20 info_sender amt in
      match m with
      | CreateListingCw20 id a w => execute_create_listing sender b id a w s
      | AddToListingCw20 id => execute_add_to_listing sender b id s
      | CreateBucketCw20 id => execute_create_bucket sender b id s
      | AddToBucketCw20 id => execute_add_to_bucket sender b id s
      end
  end.

Definition execute_receive_nft (o : oracle) (info_sender : addr) (funds_ : list coin)
           (sender : addr) (tok : tokid) (inner : option recv_nft_msg) (s : mstate) : result response :=
  if negb (match funds_ with [] => true | _ => false end) then Err else
  if negb (is_some (contract_info o info_sender)) then Err else
  match inner with
  | None => Err
  | Some m =>
      if negb (valid_addr sender) then Err else
      let n := (info_sender, tok) in
      match m with
      | CreateListingCw721 id a w => execute_create_listing_cw721 sender n id a w s
      | AddToListingCw721 id => execute_add_to_listing_cw721 sender n id s
      | CreateBucketCw721 id => execute_create_bucket_cw721 sender n id s
      | AddToBucketCw721 id => execute_add_to_bucket_cw721 sender n id s
      end
  end.

(** ** The dispatcher (contract.rs:64).  Messages that are not deposits refuse attached
    coins; message fields are range-checked as the JSON decoder does. *)
Definition no_funds (funds_ : list coin) : bool := match funds_ with [] => true | _ => false end.

Definition coins_in_range (cs : list coin) : bool := forallb (fun c => snd c <? U128) cs.

Definition execute (o : oracle) (e : env) (sender : addr) (funds_ : list coin) (m : exec_msg)
           (s : mstate) : result response :=
  if negb (coins_in_range funds_) then Err else
  match m with
  | FeeCycle => if no_funds funds_ then execute_cycle_fee e s else Err
  | Receive sd amt inner =>
      if amt <? U128 then execute_receive o sender funds_ sd amt inner s else Err
  | ReceiveNft sd tok inner => execute_receive_nft o sender funds_ sd tok inner s
  | CreateListing id a w =>
      if id <? U64 then execute_create_listing sender (BNative funds_) id a w s else Err
  | AddToListing id =>
      if id <? U64 then execute_add_to_listing sender (BNative funds_) id s else Err
  | ChangeAsk id a =>
      if (id <? U64) && no_funds funds_ then execute_change_ask sender id a s else Err
  | Finalize id secs =>
      if (id <? U64) && (secs <? U64) && no_funds funds_ then execute_finalize e sender id secs s else Err
  | DeleteListing id =>
      if (id <? U64) && no_funds funds_ then execute_delete_listing e sender id s else Err
  | CreateBucket id =>
      if id <? U64 then execute_create_bucket sender (BNative funds_) id s else Err
  | AddToBucket id =>
      if id <? U64 then execute_add_to_bucket sender (BNative funds_) id s else Err
  | RemoveBucket id =>
      if (id <? U64) && no_funds funds_ then execute_withdraw_bucket e sender id s else Err
  | BuyListing l b =>
      if (l <? U64) && (b <? U64) && no_funds funds_ then execute_buy_listing o e sender l b s else Err
  | WithdrawPurchased id =>
      if (id <? U64) && no_funds funds_ then execute_withdraw_purchased e sender id s else Err
  end.

(** Every message of an [execute] response is attached with [add_messages], i.e. as a
    sub-message that never asks for a reply. *)
Inductive reply_on := ReplyNever | ReplySuccess | ReplyError | ReplyAlways.
Record submsg := mkSub { sm_msg : out_msg; sm_id : N; sm_reply : reply_on }.
Definition add_messages (ms : list out_msg) : list submsg :=
  map (fun m => mkSub m 0 ReplyNever) ms.

(** Instantiate (contract.rs:18) and its reply (contract.rs:242). *)
Definition instantiate (now_ns : N) : mstate :=
  mkS [] [] [0] [0] (JUNO (seconds now_ns)) None.
Definition reply_instantiate (reg : addr) (s : mstate) : result mstate :=
  if valid_addr reg then Ok (mkS (listings s) (buckets s) (l_used s) (b_used s) (fee s) (Some reg))
  else Err.
