(** * Queries (contracts/marketplace/src/query.rs). *)
From FM Require Export Market.

(** Page arithmetic: [usize::from(page_num).saturating_mul(20).saturating_sub(20)];
    [page_num] is a [u8]. *)
Definition PAGE : nat := 20.
Definition to_skip (page : N) : nat := N.to_nat (page * 20 - 20).
Definition page_ok (page : N) : bool := page <? 256.

Definition page_of {A} (page : N) (l : list A) : list A := firstn PAGE (skipn (to_skip page) l).

(** [get_fee_denom]: name, denom and the time from which a cycle is possible. *)
Definition get_fee_denom (s : mstate) : (N * denom * N) :=
  match fee s with
  | JUNO last => (0, D_JUNO, sat_add64 last WEEK_IN_SECS)
  | USDC last => (1, D_USDC, sat_add64 last WEEK_IN_SECS)
  end.

(** Records of one owner in ascending id order (the storage order under the owner prefix). *)
Definition id_leb {V} (a b : key * V) : bool := snd (fst a) <=? snd (fst b).

Definition owned {V} (o : addr) (l : list (key * V)) : list (key * V) :=
  isort id_leb (filter (fun e => fst (fst e) =? o) l).

Definition get_buckets (s : mstate) (o : addr) (page : N) : result (list (N * bucket)) :=
  if valid_addr o && page_ok page
  then Ok (map (fun e => (snd (fst e), snd e)) (page_of page (owned o (buckets s))))
  else Err.

Definition get_listings_by_owner (s : mstate) (o : addr) (page : N) : result (list listing) :=
  if valid_addr o && page_ok page
  then Ok (map snd (page_of page (owned o (listings s))))
  else Err.

(** The filter shared by the market and whitelist queries: an expiration that is not in the
    past (nanosecond comparison, as in [BuyListing]) and not sold. *)
Definition open_offer_b (now_ns : N) (l : listing) : bool :=
  (match exp l with Some x => now_ns <=? x | None => false end)
  && negb (status_eqb (lstatus l) Closed).

Definition lid_leb (a b : key * listing) : bool := lid (snd a) <=? lid (snd b).

(** [get_whitelisted]: the whitelist index under the prefix of that buyer, in id order. *)
Definition get_whitelisted (s : mstate) (now_ns : N) (b : addr) : result (list listing) :=
  if valid_addr b
  then Ok (filter (open_offer_b now_ns)
             (map snd (isort lid_leb
                (filter (fun e => match wl (snd e) with Some w => w =? b | None => false end)
                        (listings s)))))
  else Err.

(** [get_listings_for_market]: the finalisation-second index from two weeks ago upward, in
    index order (second, owner, id), paged *before* filtering. *)
Definition fin_secs (l : listing) : N := match fin l with Some t => seconds t | None => 0 end.

Definition market_leb (a b : key * listing) : bool :=
  let sa := fin_secs (snd a) in let sb := fin_secs (snd b) in
  if sa <? sb then true else if sb <? sa then false else
  if fst (fst a) <? fst (fst b) then true else if fst (fst b) <? fst (fst a) then false else
  snd (fst a) <=? snd (fst b).

Definition market_window (s : mstate) (now_ns : N) : list (key * listing) :=
  isort market_leb
    (filter (fun e => seconds now_ns - MAX_LIFE <=? fin_secs (snd e)) (listings s)).

Definition get_listings_for_market (s : mstate) (now_ns : N) (page : N) : result (list listing) :=
  if page_ok page
  then Ok (filter (open_offer_b now_ns) (map snd (page_of page (market_window s now_ns))))
  else Err.

Definition get_royalty_contract (s : mstate) : option addr := registry_item s.
