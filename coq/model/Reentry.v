(** * Reentry: a hostile token contract that calls back into the marketplace while the
    marketplace's outgoing messages are being dispatched.

    CosmWasm dispatches the messages of a response depth-first.  When one of them is addressed
    to a contract, that contract's handler runs and may itself return messages — among them calls
    of the marketplace — which are executed *before* the remaining messages of the first response.
    Among the contracts of this universe only a hostile token does that (the bank module, cw20-base
    [Transfer] and cw721-base [TransferNft] call nobody), and the marketplace addresses a hostile
    contract only when a record holds one of its "tokens".

    [World.step] treats such a transfer as a no-op.  Here the hostile contract carries a
    *program*: a list of operations it performs, as sub-transactions whose failure it swallows
    (submessages with reply-on-error), the first time the marketplace sends it a transfer during
    the transaction.  The marketplace has committed its state before dispatching, so each nested
    operation is an ordinary [step] on the world as it is at that point: new state, the earlier
    messages delivered, the later ones still in flight. *)
From FM Require Export World.

Definition to_hostile (w : world) (m : out_msg) : bool :=
  match m with
  | Cw20Transfer t _ _ | NftTransfer t _ _ => match kind w t with KHostile => true | _ => false end
  | _ => false
  end.

(** Dispatch with re-entry.  The program runs once, after the first message delivered to a
    hostile contract (which consumes it); a failing message still aborts everything. *)
Fixpoint rdispatch (w : world) (i : nat) (fail : option nat) (prog : list op) (ms : list out_msg)
  : result world :=
  match ms with
  | [] => Ok w
  | m :: r =>
      if (match fail with Some j => Nat.eqb i j | None => false end) then Err
      else
        w1 <- dispatch1 w m ;;
        if to_hostile w m then rdispatch (run w1 prog) (S i) fail [] r
        else rdispatch w1 (S i) fail prog r
  end.

Definition rrun_market (w : world) (sender : addr) (funds_ : list coin) (m : exec_msg)
           (fail : option nat) (prog : list op) : result (world * list out_msg) :=
  '(s', out) <- execute (oracle_of w) (env_of w) sender funds_ m (market w) ;;
  w' <- rdispatch (set_market w s') 0 fail prog out ;;
  Ok (w', out).

Definition rtry_step (w : world) (o : op) (prog : list op) : result (world * list out_msg) :=
  match o with
  | Exec sender funds_ m fail =>
      b <- pay_funds (bank w) sender (self_addr w) funds_ ;;
      rrun_market (set_bank w b) sender funds_ m fail prog
  | Cw20Send user t amt inner fail =>
      match kind w t with
      | KCw20 =>
          c <- cw20_move (cw20bal w) t user (self_addr w) amt ;;
          rrun_market (set_cw20 w c) t [] (Receive user amt inner) fail prog
      | _ => Err
      end
  | NftSend user c k inner fail =>
      match kind w c with
      | KCw721 =>
          n <- nft_move (nft_owner w) c k user (self_addr w) ;;
          rrun_market (set_nft w n) c [] (ReceiveNft user k inner) fail prog
      | _ => Err
      end
  | _ => try_step w o
  end.

Definition rstep (w : world) (o : op) (prog : list op) : world * outcome :=
  match rtry_step w o prog with
  | Ok (w', out) => (w', mkOut true out)
  | Err => (w, mkOut false [])
  end.
