(** * ReentryDeep: re-entrancy nested to any depth.

    [Reentry.v] lets a hostile contract run a flat program of marketplace calls when it is handed
    a transfer.  Here what the hostile contract does at that moment is an arbitrary function
    [k : world -> world]; [gstep k] is the transaction.  The class [behaviour] is the closure of
    "do nothing", sequencing, and "perform a marketplace call during which the hostile contract
    (when handed a transfer) again behaves like a member of the class" — so nested calls may
    themselves be re-entered, without bound on depth or width.  [Reentry.rstep] is the instance
    in which nested calls are not re-entered again ([ReentrantDeep.gstep_run_is_rstep]), which is
    the instance the correspondence check executes against the implementation. *)
From FM Require Export Reentry.

(** [armed]: the contract has not yet acted in this transaction (it acts once, as in [rdispatch]). *)
Fixpoint gdispatch (k : world -> world) (w : world) (i : nat) (fail : option nat) (armed : bool)
         (ms : list out_msg) : result world :=
  match ms with
  | [] => Ok w
  | m :: r =>
      if (match fail with Some j => Nat.eqb i j | None => false end) then Err
      else
        w1 <- dispatch1 w m ;;
        if armed && to_hostile w m then gdispatch k (k w1) (S i) fail false r
        else gdispatch k w1 (S i) fail armed r
  end.

Definition grun_market (k : world -> world) (w : world) (sender : addr) (funds_ : list coin) (m : exec_msg)
           (fail : option nat) : result (world * list out_msg) :=
  '(s', out) <- execute (oracle_of w) (env_of w) sender funds_ m (market w) ;;
  w' <- gdispatch k (set_market w s') 0 fail true out ;;
  Ok (w', out).

Definition gtry_step (k : world -> world) (w : world) (o : op) : result (world * list out_msg) :=
  match o with
  | Exec sender funds_ m fail =>
      b <- pay_funds (bank w) sender (self_addr w) funds_ ;;
      grun_market k (set_bank w b) sender funds_ m fail
  | Cw20Send user t amt inner fail =>
      match kind w t with
      | KCw20 =>
          c <- cw20_move (cw20bal w) t user (self_addr w) amt ;;
          grun_market k (set_cw20 w c) t [] (Receive user amt inner) fail
      | _ => Err
      end
  | NftSend user c n inner fail =>
      match kind w c with
      | KCw721 =>
          nn <- nft_move (nft_owner w) c n user (self_addr w) ;;
          grun_market k (set_nft w nn) c [] (ReceiveNft user n inner) fail
      | _ => Err
      end
  | _ => try_step w o
  end.

Definition gstep (k : world -> world) (w : world) (o : op) : world * outcome :=
  match gtry_step k w o with
  | Ok (w', out) => (w', mkOut true out)
  | Err => (w, mkOut false [])
  end.

(** Programs as trees: every nested call carries the program that runs if it is re-entered. *)
Inductive rop := RNode (o : op) (prog : list rop).

Fixpoint tstep (w : world) (t : rop) : world * outcome :=
  match t with
  | RNode o prog => gstep (fun w1 => fold_left (fun w2 t' => fst (tstep w2 t')) prog w1) w o
  end.

Definition trun (w : world) (prog : list rop) : world := fold_left (fun w2 t' => fst (tstep w2 t')) prog w.
