(** * Registry: the royalty registry contract (contracts/royalty/src/contract.rs). *)
From FM Require Export Fees.

Definition rstate := list (addr * rinfo).

Fixpoint reg_lookup (c : addr) (r : rstate) : option rinfo :=
  match r with
  | [] => None
  | (c', e) :: t => if c' =? c then Some e else reg_lookup c t
  end.

Fixpoint reg_remove (c : addr) (r : rstate) : rstate :=
  match r with
  | [] => []
  | (c', e) :: t => if c' =? c then reg_remove c t else (c', e) :: reg_remove c t
  end.

Definition reg_put (c : addr) (e : rinfo) (r : rstate) : rstate := (c, e) :: reg_remove c r.

Inductive reg_msg :=
| Register (c p : addr) (b : N)
| Update (c : addr) (p : option addr) (b : option N)
| Remove (c : addr).

Definition COOLDOWN_BLOCKS : N := 100.
Definition MAX_BPS : N := 300.
Definition MIN_BPS : N := 10.

Definition bps_ok (b : N) : bool := (MIN_BPS <=? b) && (b <=? MAX_BPS).

(** [contract_admin c] is the answer of [query_wasm_contract_info]: [None] when [c] is not a
    contract (the query fails), [Some a] with [a] the optional wasm admin otherwise. *)
Definition is_admin (contract_admin : addr -> option (option addr)) (c sender : addr) : bool :=
  match contract_admin c with
  | Some (Some a) => a =? sender
  | _ => false
  end.

Definition reg_execute (contract_admin : addr -> option (option addr)) (height : N)
           (sender : addr) (m : reg_msg) (r : rstate) : result rstate :=
  match m with
  | Register c p b =>
      if (b <? U64) && bps_ok b && valid_addr p && valid_addr c
         && is_admin contract_admin c sender
         && negb (is_some (reg_lookup c r))
      then Ok (reg_put c (mkR height b p) r) else Err
  | Update c p b =>
      if valid_addr c && is_admin contract_admin c sender then
        match reg_lookup c r with
        | None => Err
        | Some e =>
            if height <? sat_add64 (last_updated e) COOLDOWN_BLOCKS then Err
            else
              match (match b with Some x => if (x <? U64) && bps_ok x then Some x else None
                                | None => Some (bps e) end),
                    (match p with Some a => if valid_addr a then Some a else None
                                | None => Some (payout e) end) with
              | Some b', Some p' => Ok (reg_put c (mkR height b' p') r)
              | _, _ => Err
              end
        end
      else Err
  | Remove c =>
      if valid_addr c && is_admin contract_admin c sender then
        match reg_lookup c r with
        | None => Err
        | Some e =>
            if height <? sat_add64 (last_updated e) COOLDOWN_BLOCKS then Err
            else Ok (reg_remove c r)
        end
      else Err
  end.

Definition get_single (r : rstate) (c : addr) : option rinfo := reg_lookup c r.

Definition get_multi (r : rstate) (cs : list addr) : result (list (option rinfo)) :=
  match cs with
  | [] => Err
  | _ => Ok (map (fun c => reg_lookup c r) cs)
  end.
