(** * Totals: what the marketplace owes, per asset (used by the C01 / C05 / C10 statements and by
    the correspondence projections). *)
From FM Require Export World.

Definition fee_amt (d : denom) (f : option coin) : N :=
  match f with Some (d', a) => if d' =? d then a else 0 | None => 0 end.

Definition owed_native (s : mstate) (d : denom) : N :=
  sumN (map (fun e => amount_of d (native (for_sale (snd e))) + fee_amt d (lfee (snd e))) (listings s))
  + sumN (map (fun e => amount_of d (native (funds (snd e))) + fee_amt d (bfee (snd e))) (buckets s)).

Definition owed_cw20 (s : mstate) (t : addr) : N :=
  sumN (map (fun e => amount_of t (cw20 (for_sale (snd e)))) (listings s))
  + sumN (map (fun e => amount_of t (cw20 (funds (snd e)))) (buckets s)).

Definition recorded_nfts (s : mstate) : list (addr * tokid) :=
  flat_map (fun e => nfts (for_sale (snd e))) (listings s)
  ++ flat_map (fun e => nfts (funds (snd e))) (buckets s).

Definition pending_fees (s : mstate) (d : denom) : N :=
  sumN (map (fun e => fee_amt d (lfee (snd e))) (listings s))
  + sumN (map (fun e => fee_amt d (bfee (snd e))) (buckets s)).

Definition sent_native (ms : list out_msg) (d : denom) : N :=
  sumN (map (fun m => match m with
                      | BankSend _ cs => amount_of d cs
                      | FundPool _ c => fee_amt d (Some c)
                      | _ => 0 end) ms).

Definition sent_cw20 (ms : list out_msg) (t : addr) : N :=
  sumN (map (fun m => match m with Cw20Transfer t' _ a => if t' =? t then a else 0 | _ => 0 end) ms).

Definition sent_nfts (ms : list out_msg) : list (addr * tokid) :=
  flat_map (fun m => match m with NftTransfer c _ k => [(c, k)] | _ => [] end) ms.

