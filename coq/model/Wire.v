(** * Wire: the bytes of the community-pool message (state.rs:628, built with the `anybuf` crate):
    protobuf encoding of
      MsgFundCommunityPool { repeated Coin amount = 1; string depositor = 2 }   Coin { string denom = 1; string amount = 2 }
    Bytes are numbers below 256; strings are lists of bytes. *)
From FM Require Export Base.

Definition byte := N.

(** Base-128 varint, least significant group first; [fuel] bounds the number of groups
    (10 groups cover 64 bits; lengths here are far smaller). *)
Fixpoint varint_fuel (fuel : nat) (n : N) : list byte :=
  match fuel with
  | O => [n mod 128]
  | S f => if n <? 128 then [n] else (n mod 128 + 128) :: varint_fuel f (n / 128)
  end.
Definition varint (n : N) : list byte := varint_fuel 10 n.

(** Field key: (field number << 3) | wire type; wire type 2 = length-delimited. *)
Definition key_ld (field : N) : list byte := varint (field * 8 + 2).

Definition lenN {A} (l : list A) : N := N.of_nat (length l).

(** anybuf [append_string] / [append_bytes]: empty values are omitted; [append_message]
    always emits the field. *)
Definition pb_string (field : N) (s : list byte) : list byte :=
  match s with [] => [] | _ => key_ld field ++ varint (lenN s) ++ s end.
Definition pb_message (field : N) (m : list byte) : list byte := key_ld field ++ varint (lenN m) ++ m.

Definition encode_coin (denom amount : list byte) : list byte := pb_string 1 denom ++ pb_string 2 amount.

Definition encode_fund_pool (denom amount depositor : list byte) : list byte :=
  pb_message 1 (encode_coin denom amount) ++ pb_string 2 depositor.

(** Decimal rendering of a [Uint128] ([Uint128::to_string]): ASCII digits, no leading zeros. *)
Fixpoint digits_fuel (fuel : nat) (n : N) (acc : list byte) : list byte :=
  match fuel with
  | O => acc
  | S f => let acc' := (48 + n mod 10) :: acc in if n <? 10 then acc' else digits_fuel f (n / 10) acc'
  end.
Definition decimal (n : N) : list byte := digits_fuel 40 n [].

Definition FUND_POOL_URL : list byte :=   (* "/cosmos.distribution.v1beta1.MsgFundCommunityPool" *)
  [47;99;111;115;109;111;115;46;100;105;115;116;114;105;98;117;116;105;111;110;46;118;49;98;101;116;97;49;46;
   77;115;103;70;117;110;100;67;111;109;109;117;110;105;116;121;80;111;111;108].

(** ** A decoder for exactly this schema (what the chain's distribution module must read back) *)
Fixpoint read_varint (fuel : nat) (bs : list byte) : option (N * list byte) :=
  match fuel, bs with
  | O, _ => None
  | _, [] => None
  | S f, b :: r =>
      if b <? 128 then Some (b, r)
      else match read_varint f r with Some (v, r') => Some ((b - 128) + 128 * v, r') | None => None end
  end.

Definition take_bytes (k : N) (bs : list byte) : option (list byte * list byte) :=
  if k <=? lenN bs then Some (firstn (N.to_nat k) bs, skipn (N.to_nat k) bs) else None.

(** Read one length-delimited field with the expected number. *)
Definition read_ld (field : N) (bs : list byte) : option (list byte * list byte) :=
  match read_varint 11 bs with
  | Some (k, r) =>
      if k =? field * 8 + 2 then
        match read_varint 11 r with
        | Some (len, r') => take_bytes len r'
        | None => None
        end
      else None
  | None => None
  end.

Definition decode_coin (bs : list byte) : option (list byte * list byte) :=
  match read_ld 1 bs with
  | Some (denom, r) =>
      match read_ld 2 r with
      | Some (amount, []) => Some (denom, amount)
      | _ => None
      end
  | None => None
  end.

Definition decode_fund_pool (bs : list byte) : option (list byte * list byte * list byte) :=
  match read_ld 1 bs with
  | Some (coin, r) =>
      match decode_coin coin, read_ld 2 r with
      | Some (denom, amount), Some (depositor, []) => Some (denom, amount, depositor)
      | _, _ => None
      end
  | None => None
  end.

Fixpoint parse_decimal (bs : list byte) (acc : N) : option N :=
  match bs with
  | [] => Some acc
  | b :: r => if (48 <=? b) && (b <=? 57) then parse_decimal r (acc * 10 + (b - 48)) else None
  end.

Fixpoint list_eqbN (a b : list N) : bool :=
  match a, b with
  | [], [] => true
  | x :: r, y :: s => (x =? y) && list_eqbN r s
  | _, _ => false
  end.

(** The comparison evaluated by the correspondence: the payload the implementation produced
    for (denom, amount, depositor) is byte-for-byte the model's. *)
Definition wire_ok (denom : list byte) (amount : N) (depositor : list byte) (url raw : list byte) : bool :=
  list_eqbN url FUND_POOL_URL && list_eqbN raw (encode_fund_pool denom (decimal amount) depositor).
