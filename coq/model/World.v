(** * World: the slice of the chain the contracts talk to, and the transaction rule. *)
From FM Require Export Queries.

Inductive akind := KUser | KCw20 | KCw721 | KHostile | KMarket | KRegistry.

Definition is_contract_kind (k : akind) : bool :=
  match k with KUser => false | _ => true end.

Record world := mkW {
  bank : addr -> denom -> N;
  cw20bal : addr -> addr -> N;               (* token, holder *)
  nft_owner : addr -> tokid -> option addr;  (* collection, token *)
  kind : addr -> akind;
  admin : addr -> option addr;               (* wasm admin of a contract *)
  market : mstate;
  registry : rstate;
  wnow : N;
  height : N;
  hostile_fail : bool;
  self_addr : addr;
  reg_addr : addr;
  pool_addr : addr
}.

Definition upd2 (f : N -> N -> N) (a b v : N) : N -> N -> N :=
  fun x y => if (x =? a) && (y =? b) then v else f x y.

Definition upd2o (f : N -> N -> option N) (a b : N) (v : option N) : N -> N -> option N :=
  fun x y => if (x =? a) && (y =? b) then v else f x y.

Definition set_bank (w : world) (b : addr -> denom -> N) : world :=
  mkW b (cw20bal w) (nft_owner w) (kind w) (admin w) (market w) (registry w) (wnow w) (height w)
      (hostile_fail w) (self_addr w) (reg_addr w) (pool_addr w).
Definition set_cw20 (w : world) (c : addr -> addr -> N) : world :=
  mkW (bank w) c (nft_owner w) (kind w) (admin w) (market w) (registry w) (wnow w) (height w)
      (hostile_fail w) (self_addr w) (reg_addr w) (pool_addr w).
Definition set_nft (w : world) (n : addr -> tokid -> option addr) : world :=
  mkW (bank w) (cw20bal w) n (kind w) (admin w) (market w) (registry w) (wnow w) (height w)
      (hostile_fail w) (self_addr w) (reg_addr w) (pool_addr w).
Definition set_market (w : world) (m : mstate) : world :=
  mkW (bank w) (cw20bal w) (nft_owner w) (kind w) (admin w) m (registry w) (wnow w) (height w)
      (hostile_fail w) (self_addr w) (reg_addr w) (pool_addr w).
Definition set_registry (w : world) (r : rstate) : world :=
  mkW (bank w) (cw20bal w) (nft_owner w) (kind w) (admin w) (market w) r (wnow w) (height w)
      (hostile_fail w) (self_addr w) (reg_addr w) (pool_addr w).
Definition set_admin (w : world) (a : addr -> option addr) : world :=
  mkW (bank w) (cw20bal w) (nft_owner w) (kind w) a (market w) (registry w) (wnow w) (height w)
      (hostile_fail w) (self_addr w) (reg_addr w) (pool_addr w).
Definition set_clock (w : world) (t h : N) : world :=
  mkW (bank w) (cw20bal w) (nft_owner w) (kind w) (admin w) (market w) (registry w) t h
      (hostile_fail w) (self_addr w) (reg_addr w) (pool_addr w).
Definition set_hfail (w : world) (b : bool) : world :=
  mkW (bank w) (cw20bal w) (nft_owner w) (kind w) (admin w) (market w) (registry w) (wnow w) (height w)
      b (self_addr w) (reg_addr w) (pool_addr w).

(** ** Ledgers *)

(** One coin from [src] to [dst]; fails when not covered. *)
Definition bank_move1 (b : addr -> denom -> N) (src dst : addr) (c : coin) : result (addr -> denom -> N) :=
  let '(d, a) := c in
  if a <=? b src d then
    let b1 := upd2 b src d (b src d - a) in
    Ok (upd2 b1 dst d (b1 dst d + a))
  else Err.

Fixpoint bank_move (b : addr -> denom -> N) (src dst : addr) (cs : list coin) : result (addr -> denom -> N) :=
  match cs with
  | [] => Ok b
  | c :: r => b' <- bank_move1 b src dst c ;; bank_move b' src dst r
  end.

(** Coins attached to a message, as the test chain moves them: zero coins are dropped, and a
    non-empty attachment that is all zeros fails. *)
Definition pay_funds (b : addr -> denom -> N) (src dst : addr) (cs : list coin) : result (addr -> denom -> N) :=
  match cs with
  | [] => Ok b
  | _ =>
      let nz := filter (fun c => negb (snd c =? 0)) cs in
      match nz with [] => Err | _ => bank_move b src dst nz end
  end.

(** Cosmos-SDK strictness for a bank send issued by a contract. *)
Definition strict_coins (cs : list coin) : bool :=
  negb (match cs with [] => true | _ => false end)
  && forallb (fun c => negb (snd c =? 0)) cs
  && nodupN (map fst cs).

(** cw20-base [Transfer]: positive, covered. *)
Definition cw20_move (c : addr -> addr -> N) (t src dst : addr) (a : N) : result (addr -> addr -> N) :=
  if negb (a =? 0) && (a <=? c t src) then
    let c1 := upd2 c t src (c t src - a) in
    Ok (upd2 c1 t dst (c1 t dst + a))
  else Err.

(** cw721-base [TransferNft]: only the owner (nobody holds approvals in this universe). *)
Definition nft_move (n : addr -> tokid -> option addr) (c : addr) (k : tokid) (src dst : addr)
  : result (addr -> tokid -> option addr) :=
  match n c k with
  | Some o => if o =? src then Ok (upd2o n c k (Some dst)) else Err
  | None => Err
  end.

(** ** Dispatch of the marketplace's outgoing messages, in order; the first failure aborts. *)
Definition dispatch1 (w : world) (m : out_msg) : result world :=
  let me := self_addr w in
  match m with
  | BankSend to cs =>
      if strict_coins cs then (b <- bank_move (bank w) me to cs ;; Ok (set_bank w b)) else Err
  | Cw20Transfer t to a =>
      match kind w t with
      | KCw20 => c <- cw20_move (cw20bal w) t me to a ;; Ok (set_cw20 w c)
      | KHostile => if hostile_fail w then Err else Ok w
      | _ => Err
      end
  | NftTransfer c to k =>
      match kind w c with
      | KCw721 => n <- nft_move (nft_owner w) c k me to ;; Ok (set_nft w n)
      | KHostile => if hostile_fail w then Err else Ok w
      | _ => Err
      end
  | FundPool dep (d, a) =>
      if (dep =? me) && negb (a =? 0) then
        (b <- bank_move1 (bank w) me (pool_addr w) (d, a) ;; Ok (set_bank w b))
      else Err
  end.

(** [fail = Some i]: fault injection, the i-th message fails. *)
Fixpoint dispatch (w : world) (i : nat) (fail : option nat) (ms : list out_msg) : result world :=
  match ms with
  | [] => Ok w
  | m :: r =>
      if (match fail with Some j => Nat.eqb i j | None => false end) then Err
      else w' <- dispatch1 w m ;; dispatch w' (S i) fail r
  end.

(** ** The oracle the marketplace sees *)
Definition contract_info_of (w : world) (a : addr) : option (option addr) :=
  if is_contract_kind (kind w a) then Some (admin w a) else None.

Definition oracle_of (w : world) : oracle :=
  mkOrc (fun a => match kind w a with KCw20 | KHostile => true | _ => false end)
        (contract_info_of w)
        (fun target cs => if target =? reg_addr w then get_multi (registry w) cs else Err).

Definition env_of (w : world) : env := mkEnv (wnow w) (self_addr w).

(** ** Operations *)
Inductive op :=
| Exec (sender : addr) (funds_ : list coin) (m : exec_msg) (fail : option nat)
| Cw20Send (user token : addr) (amt : N) (inner : option recv_msg) (fail : option nat)
| NftSend (user coll : addr) (tok : tokid) (inner : option recv_nft_msg) (fail : option nat)
| Cw20Xfer (user token to : addr) (amt : N)
| NftXfer (user coll : addr) (tok : tokid) (to : addr)
| BankXfer (user to : addr) (cs : list coin)
| RegExec (sender : addr) (m : reg_msg)
| SetAdmin (c : addr) (a : option addr)
| Advance (dns dh : N)
| HostileFail (on : bool).

(** Run the marketplace on a message and dispatch its response: the CosmWasm transaction rule
    (state is committed, then messages are dispatched; any failure reverts everything) is
    rendered by computing in the [result] monad and falling back to the old world. *)
Definition run_market (w : world) (sender : addr) (funds_ : list coin) (m : exec_msg)
           (fail : option nat) : result (world * list out_msg) :=
  '(s', out) <- execute (oracle_of w) (env_of w) sender funds_ m (market w) ;;
  w' <- dispatch (set_market w s') 0 fail out ;;
  Ok (w', out).

Definition try_step (w : world) (o : op) : result (world * list out_msg) :=
  match o with
  | Exec sender funds_ m fail =>
      b <- pay_funds (bank w) sender (self_addr w) funds_ ;;
      run_market (set_bank w b) sender funds_ m fail
  | Cw20Send user t amt inner fail =>
      match kind w t with
      | KCw20 =>
          c <- cw20_move (cw20bal w) t user (self_addr w) amt ;;
          run_market (set_cw20 w c) t [] (Receive user amt inner) fail
      | _ => Err
      end
  | NftSend user c k inner fail =>
      match kind w c with
      | KCw721 =>
          n <- nft_move (nft_owner w) c k user (self_addr w) ;;
          run_market (set_nft w n) c [] (ReceiveNft user k inner) fail
      | _ => Err
      end
  | Cw20Xfer user t to amt =>
      match kind w t with
      | KCw20 => c <- cw20_move (cw20bal w) t user to amt ;; Ok (set_cw20 w c, [])
      | _ => Err
      end
  | NftXfer user c k to =>
      match kind w c with
      | KCw721 => n <- nft_move (nft_owner w) c k user to ;; Ok (set_nft w n, [])
      | _ => Err
      end
  | BankXfer user to cs =>
      match filter (fun c => negb (snd c =? 0)) cs with
      | [] => Err
      | nz => b <- bank_move (bank w) user to nz ;; Ok (set_bank w b, [])
      end
  | RegExec sender m =>
      r <- reg_execute (contract_info_of w) (height w) sender m (registry w) ;;
      Ok (set_registry w r, [])
  | SetAdmin c a =>
      if is_contract_kind (kind w c) && is_some (admin w c)
      then Ok (set_admin w (fun x => if x =? c then a else admin w x), [])
      else Err
  | Advance dns dh => Ok (set_clock w (wnow w + dns) (height w + dh), [])
  | HostileFail on => Ok (set_hfail w on, [])
  end.

Record outcome := mkOut { ok : bool; msgs : list out_msg }.

Definition step (w : world) (o : op) : world * outcome :=
  match try_step w o with
  | Ok (w', out) => (w', mkOut true out)
  | Err => (w, mkOut false [])
  end.

Definition run (w : world) (ops : list op) : world := fold_left (fun w o => fst (step w o)) ops w.
