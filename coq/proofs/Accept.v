(** * Accept: deposits that keep a record well-formed are accepted, and only those (C12,
    completeness direction for all deposit paths). *)
From FM Require Export Drain.

Lemma wf_check_valid g : wf_gbal g -> gsize g <= MAX_NUM_ASSETS -> check_valid g = true.
Proof.
  intros [W1 W2 W3 W4 W5 W6] Hs. unfold check_valid.
  repeat (apply andb_true_iff; split).
  - apply pos_ok_forallb, W2.
  - apply pos_ok_forallb, W3.
  - apply negb_true_iff, N.eqb_neq, W1.
  - apply N.leb_le, Hs.
  - apply nodupN_NoDup, W4.
  - apply nodupN_NoDup, W5.
  - apply nodupP_NoDup, W6.
Qed.

Lemma perm_amount_of d (l l' : list (N * N)) : Permutation l l' -> amount_of d l = amount_of d l'.
Proof.
  induction 1 as [| [k a] l l' _ IH | [k a] [k' a'] l | l l' l'' _ IH1 _ IH2]; simpl; try lia.
Qed.

Lemma amount_of_pos_first (cs : list (N * N)) : cs <> [] -> pos_ok cs -> exists d, 0 < amount_of d cs.
Proof.
  intros Hne Hp. destruct cs as [|[d a] r]; [congruence|]. inv Hp. exists d. simpl in *. rewrite N.eqb_refl. lia.
Qed.

(** Adding a valid deposit really changes the balance (the code refuses a no-op top-up). *)
Lemma add_tokens_changes g b g' :
  wf_gbal g -> normalized_check b = true -> balance_in_range b -> add_tokens g b = Ok g' -> genbal_cmp g g' = false.
Proof.
  intros W Hn Hr H. pose proof (add_tokens_wf _ _ _ H W Hn Hr) as W'.
  destruct (genbal_cmp g g') eqn:E; [|reflexivity]. exfalso.
  apply (genbal_cmp_iff g g' W W') in E. destruct E as (P1 & P2 & _).
  destruct b as [cs | t a]; simpl in H; step H; inv H; simpl in *.
  - apply andb_true_iff in Hn. destruct Hn as [Hn Hnd]. apply andb_true_iff in Hn. destruct Hn as [Hne Hz].
    assert (Hp : pos_ok cs) by (apply forallb_pos_ok; assumption).
    destruct (amount_of_pos_first cs) as [d Hd]; [destruct cs; [discriminate | congruence] | exact Hp|].
    pose proof (add_coins_amount _ _ _ d Hb) as Ea. pose proof (perm_amount_of d _ _ P1) as Eb. lia.
  - apply negb_true_iff, N.eqb_neq in Hn.
    pose proof (add_coin_amount _ _ _ _ t Hb) as Ea. rewrite N.eqb_refl in Ea. pose proof (perm_amount_of t _ _ P2) as Eb. lia.
Qed.

Lemma add_nft_changes g n : genbal_cmp g (add_nft g n) = false.
Proof.
  unfold genbal_cmp, add_nft. simpl. apply andb_false_iff. right. unfold list_cmp. apply andb_false_iff. right.
  apply Nat.eqb_neq. rewrite app_length. simpl. rewrite Nat.add_1_r. apply Nat.neq_succ_diag_r.
Qed.

(** ** Buckets *)
Theorem create_bucket_accept_iff c ok g id s :
  Inv s -> (is_ok (create_bucket_g c ok g id s) = true <-> id < MAX_SAFE_INT /\ ~ In id (b_used s) /\ ok = true).
Proof.
  intros I. unfold create_bucket_g. split.
  - intros H. destruct (_ && _ && _ && _) eqn:E; [|discriminate].
    apply andb_true_iff in E as [E H4]. apply andb_true_iff in E as [E H3]. apply andb_true_iff in E as [H1 H2].
    apply max_ok_lt in H1. apply negb_true_iff, memN_false in H2. tauto.
  - intros (H1 & H2 & ->). apply N.ltb_lt in H1. unfold max_ok. rewrite H1. apply memN_false in H2. rewrite H2. simpl.
    destruct (find_key (c, id) (buckets s)) as [b|] eqn:E; [|reflexivity]. exfalso.
    destruct (Inv_find_bucket _ _ _ I E) as [_ Hin]. apply memN_false in H2. apply H2. apply (inv_bused s I _ _ Hin).
Qed.

Theorem add_to_bucket_accept_iff sender b id s bk :
  Inv s -> find_key (sender, id) (buckets s) = Some bk -> balance_in_range b ->
  (is_ok (execute_add_to_bucket sender b id s) = true <->
   normalized_check b = true /\ exists g, add_tokens (funds bk) b = Ok g /\ gsize g <= MAX_NUM_ASSETS).
Proof.
  intros I Hf Hr. destruct (Inv_find_bucket _ _ _ I Hf) as [W _]. split.
  - intros H. destruct (execute_add_to_bucket sender b id s) as [[s' out]|] eqn:E; [|discriminate].
    unfold execute_add_to_bucket in E. apply add_to_bucket_g_inv in E.
    destruct E as (bk' & g & Hn & Hf' & _ & Hu & _ & Hv & _). rewrite Hf in Hf'. inv Hf'.
    split; [exact Hn|]. exists g. split; [exact Hu | apply check_valid_size, Hv].
  - intros (Hn & g & Hu & Hs). unfold execute_add_to_bucket, add_to_bucket_g. rewrite Hn, Hf. cbn [negb].
    assert (Eo : sender =? owner bk = true) by (apply N.eqb_eq; rewrite <- (wb_key _ _ W); reflexivity). rewrite Eo. cbn [negb].
    rewrite Hu. cbn [bind]. rewrite (add_tokens_changes _ _ _ (wb_funds _ _ W) Hn Hr Hu).
    rewrite (wf_check_valid g (add_tokens_wf _ _ _ Hu (wb_funds _ _ W) Hn Hr) Hs). reflexivity.
Qed.

Theorem add_nft_to_bucket_accept_iff user n id s bk :
  Inv s -> find_key (user, id) (buckets s) = Some bk ->
  (is_ok (execute_add_to_bucket_cw721 user n id s) = true <->
   ~ In n (nfts (funds bk)) /\ gsize (funds bk) + 1 <= MAX_NUM_ASSETS).
Proof.
  intros I Hf. destruct (Inv_find_bucket _ _ _ I Hf) as [W _]. pose proof (wb_funds _ _ W) as [W1 W2 W3 W4 W5 W6].
  assert (Hsz : gsize (add_nft (funds bk) n) = gsize (funds bk) + 1).
  { unfold gsize, add_nft. simpl. rewrite app_length. simpl. lia. }
  split.
  - intros H. destruct (execute_add_to_bucket_cw721 user n id s) as [[s' out]|] eqn:E; [|discriminate].
    unfold execute_add_to_bucket_cw721 in E. apply add_to_bucket_g_inv in E.
    destruct E as (bk' & g & _ & Hf' & _ & Hu & _ & Hv & _). rewrite Hf in Hf'. inv Hf'. inv Hu.
    split; [|rewrite <- Hsz; apply check_valid_size, Hv].
    pose proof (check_valid_wf _ Hv (wf_gbal_amounts _ (mkWfG _ W1 W2 W3 W4 W5 W6))) as [[_ _ _ _ _ Hnd] _]. simpl in Hnd.
    intros Hin. apply NoDup_remove_2 in Hnd. rewrite app_nil_r in Hnd. exact (Hnd Hin).
  - intros (Hnin & Hs). unfold execute_add_to_bucket_cw721, add_to_bucket_g. rewrite Hf. cbn [negb].
    assert (Eo : user =? owner bk = true) by (apply N.eqb_eq; rewrite <- (wb_key _ _ W); reflexivity). rewrite Eo. cbn [negb bind].
    rewrite add_nft_changes. rewrite wf_check_valid; [reflexivity | | rewrite Hsz; exact Hs].
    constructor; simpl; try assumption.
    + rewrite Hsz. lia.
    + apply NoDup_app_single; assumption.
Qed.

(** ** Listings *)
Theorem create_listing_accept_iff user ok g id a w s :
  Inv s ->
  (is_ok (create_listing_g user ok g id a w s) = true <->
   id < MAX_SAFE_INT /\ ok = true /\ ~ In id (l_used s) /\ wl_ok user w = true /\ ask_ok a).
Proof.
  intros I. split.
  - intros H. destruct (create_listing_g user ok g id a w s) as [[s' out]|] eqn:E; [|discriminate].
    apply create_listing_g_inv in E. destruct E as (va & H1 & H2 & H3 & _ & H5 & H6 & _).
    apply max_ok_lt in H1. splits; try assumption. apply validate_ask_iff. exists va. exact H6.
  - intros (H1 & -> & H3 & H4 & H5). apply validate_ask_iff in H5. destruct H5 as [va Hva].
    unfold create_listing_g. apply N.ltb_lt in H1. unfold max_ok. rewrite H1. pose proof H3 as H3'. apply memN_false in H3. rewrite H3, H4. simpl.
    assert (Hnone : find_by_id id (listings s) = None).
    { apply find_by_id_None. intros k l Hin Hid. apply H3'. rewrite <- Hid. apply (inv_lused s I _ _ Hin). }
    rewrite Hnone. simpl. rewrite Hva. cbn [bind]. rewrite save_listing_complete; [reflexivity|].
    intros k' v' Hin _ Heq. simpl in Heq. apply H3'. rewrite <- Heq. apply (inv_lused s I _ _ Hin).
Qed.

Theorem add_to_listing_accept_iff sender b id s l :
  Inv s -> find_key (sender, id) (listings s) = Some l -> balance_in_range b ->
  (is_ok (execute_add_to_listing sender b id s) = true <->
   lstatus l = BeingPrepared /\ normalized_check b = true /\
   exists g, add_tokens (for_sale l) b = Ok g /\ gsize g <= MAX_NUM_ASSETS).
Proof.
  intros I Hf Hr. destruct (Inv_find_listing _ _ _ I Hf) as [W _]. split.
  - intros H. destruct (execute_add_to_listing sender b id s) as [[s' out]|] eqn:E; [|discriminate].
    unfold execute_add_to_listing in E. apply add_to_listing_g_inv in E.
    destruct E as (l' & g & Hn & Hf' & He & Hu & _ & Hv & _). rewrite Hf in Hf'. inv Hf'.
    apply editable_inv in He. split; [tauto|]. split; [exact Hn|]. exists g. split; [exact Hu | apply N.leb_le, Hv].
  - intros (Hst & Hn & g & Hu & Hs). unfold execute_add_to_listing, add_to_listing_g. rewrite Hn, Hf. cbn [negb].
    destruct (listing_editable _ _ _ I Hf Hst) as [He _]. simpl in He. rewrite He. cbn [negb].
    rewrite Hu. cbn [bind]. rewrite (add_tokens_changes _ _ _ (wl_goods _ _ W) Hn Hr Hu).
    apply N.leb_le in Hs. rewrite Hs. cbn [negb]. rewrite (save_same_key_ok s (sender, id) l) by (try assumption; reflexivity). reflexivity.
Qed.

Theorem add_nft_to_listing_accept_iff user n id s l :
  Inv s -> find_key (user, id) (listings s) = Some l ->
  (is_ok (execute_add_to_listing_cw721 user n id s) = true <->
   lstatus l = BeingPrepared /\ ~ In n (nfts (for_sale l)) /\ gsize (for_sale l) + 1 <= MAX_NUM_ASSETS).
Proof.
  intros I Hf. destruct (Inv_find_listing _ _ _ I Hf) as [W _]. pose proof (wl_goods _ _ W) as [W1 W2 W3 W4 W5 W6].
  assert (Hsz : gsize (add_nft (for_sale l) n) = gsize (for_sale l) + 1).
  { unfold gsize, add_nft. simpl. rewrite app_length. simpl. lia. }
  split.
  - intros H. destruct (execute_add_to_listing_cw721 user n id s) as [[s' out]|] eqn:E; [|discriminate].
    unfold execute_add_to_listing_cw721 in E. apply add_to_listing_g_inv in E.
    destruct E as (l' & g & _ & Hf' & He & Hu & _ & Hv & _). rewrite Hf in Hf'. inv Hf'. inv Hu.
    apply editable_inv in He. split; [tauto|]. split; [|rewrite <- Hsz; apply check_valid_size, Hv].
    pose proof (check_valid_wf _ Hv (wf_gbal_amounts _ (mkWfG _ W1 W2 W3 W4 W5 W6))) as [[_ _ _ _ _ Hnd] _]. simpl in Hnd.
    intros Hin. apply NoDup_remove_2 in Hnd. rewrite app_nil_r in Hnd. exact (Hnd Hin).
  - intros (Hst & Hnin & Hs). unfold execute_add_to_listing_cw721, add_to_listing_g. rewrite Hf. cbn [negb].
    destruct (listing_editable _ _ _ I Hf Hst) as [He _]. simpl in He. rewrite He. cbn [negb bind].
    rewrite add_nft_changes. rewrite wf_check_valid.
    + cbn [negb]. rewrite (save_same_key_ok s (user, id) l) by (try assumption; reflexivity). reflexivity.
    + constructor; simpl; try assumption; [rewrite Hsz; lia | apply NoDup_app_single; assumption].
    + rewrite Hsz. exact Hs.
Qed.
