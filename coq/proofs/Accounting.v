(** * Accounting: every successful message conserves value per asset — what the records
    promise afterwards plus what the response sends equals what they promised before plus
    what was deposited (contract-local layer of C01, C05, C10). *)
From FM Require Export BuySpec.

(** ** Sums over a store *)
Section StoreSums.
  Context {V : Type} (f : V -> N).
  Definition ssum (l : list (key * V)) : N := sumN (map (fun e => f (snd e)) l).

  Lemma ssum_remove k v l : NoDup (map fst l) -> find_key k l = Some v -> ssum l = f v + ssum (remove_key k l).
  Proof.
    unfold ssum. induction l as [|[k' v'] r IH]; simpl; intros Hnd H; [discriminate|]. inv Hnd.
    dK k' k.
    - inv H. rewrite remove_key_notin by assumption. reflexivity.
    - simpl. rewrite (IH H3 H). lia.
  Qed.

  Lemma ssum_remove_absent k l : find_key k l = None -> ssum (remove_key k l) = ssum l.
  Proof. intros H. apply find_key_None in H. rewrite remove_key_notin by assumption. reflexivity. Qed.

  Lemma ssum_put k v l : ssum (put k v l) = f v + ssum (remove_key k l).
  Proof. reflexivity. Qed.

  Lemma ssum_put_fresh k v l : find_key k l = None -> ssum (put k v l) = f v + ssum l.
  Proof. intros H. rewrite ssum_put, ssum_remove_absent by assumption. reflexivity. Qed.

  Lemma ssum_replace k v0 v l : NoDup (map fst l) -> find_key k l = Some v0 -> ssum (put k v l) + f v0 = f v + ssum l.
  Proof. intros Hnd H. rewrite ssum_put, (ssum_remove k v0 l Hnd H). lia. Qed.
End StoreSums.

(** ** Assets and what is owed *)
Inductive asset := ANative (d : denom) | ACw20 (t : addr) | ANft (c : addr) (k : tokid).

(** Number of occurrences of an NFT in a vector (a record holds each at most once). *)
Fixpoint countP (n : N * N) (l : list (N * N)) : N :=
  match l with [] => 0 | y :: r => (if pair_eqb y n then 1 else 0) + countP n r end.

Lemma countP_app n a b : countP n (a ++ b) = countP n a + countP n b.
Proof. induction a as [|y r IH]; simpl; [reflexivity | rewrite IH; lia]. Qed.

Definition amt (x : asset) (g : gbal) : N :=
  match x with ANative d => amount_of d (native g) | ACw20 t => amount_of t (cw20 g) | ANft c k => countP (c, k) (nfts g) end.
Definition feeamt (x : asset) (f : option coin) : N :=
  match x with ANative d => fee_amt d f | _ => 0 end.
Definition lval (x : asset) (l : listing) : N := amt x (for_sale l) + feeamt x (lfee l).
Definition bval (x : asset) (b : bucket) : N := amt x (funds b) + feeamt x (bfee b).
Definition owed (x : asset) (s : mstate) : N := ssum (lval x) (listings s) + ssum (bval x) (buckets s).

Lemma owed_native_eq s d : owed (ANative d) s = owed_native s d.
Proof. reflexivity. Qed.
Lemma owed_cw20_eq s t : owed (ACw20 t) s = owed_cw20 s t.
Proof.
  unfold owed, owed_cw20, ssum, lval, bval. simpl. f_equal; f_equal; apply map_ext; intros e; lia.
Qed.

Definition msg_val (x : asset) (m : out_msg) : N :=
  match x, m with
  | ANative d, BankSend _ cs => amount_of d cs
  | ANative d, FundPool _ c => fee_amt d (Some c)
  | ACw20 t, Cw20Transfer t' _ a => if t' =? t then a else 0
  | ANft c k, NftTransfer c' _ k' => if pair_eqb (c', k') (c, k) then 1 else 0
  | _, _ => 0
  end.
Definition sent (x : asset) (ms : list out_msg) : N := sumN (map (msg_val x) ms).

Lemma sent_native_eq ms d : sent (ANative d) ms = sent_native ms d.
Proof. unfold sent, sent_native. f_equal; try (apply map_ext; intros m; destruct m; reflexivity). Qed.
Lemma sent_cw20_eq ms t : sent (ACw20 t) ms = sent_cw20 ms t.
Proof. unfold sent, sent_cw20. f_equal; try (apply map_ext; intros m; destruct m; reflexivity). Qed.

Lemma sent_app x a b : sent x (a ++ b) = sent x a + sent x b.
Proof. unfold sent. rewrite map_app, sumN_app. reflexivity. Qed.

(** What a message deposits. *)
Definition dep (x : asset) (sender : addr) (fs : list coin) (m : exec_msg) : N :=
  match x with
  | ANative d => amount_of d fs
  | ACw20 t => match m with Receive _ a _ => if sender =? t then a else 0 | _ => 0 end
  | ANft c k => match m with ReceiveNft _ tok _ => if pair_eqb (sender, tok) (c, k) then 1 else 0 | _ => 0 end
  end.

(** ** Balance operations *)
Lemma add_coin_amount l k a l' d : add_coin l k a = Ok l' -> amount_of d l' = amount_of d l + (if k =? d then a else 0).
Proof.
  revert l'. induction l as [|[k' a'] r IH]; simpl; intros l' H.
  - inv H. simpl. lia.
  - dN k' k.
    + subst. step H. inv H. unfold add128 in Hb. step Hb; [|discriminate]. inv Hb. simpl. dN k d; lia.
    + step H. inv H. simpl. rewrite (IH _ Hb). dN k' d; dN k d; lia.
Qed.

Lemma add_coins_amount cs : forall l l' d, add_coins l cs = Ok l' -> amount_of d l' = amount_of d l + amount_of d cs.
Proof.
  induction cs as [|[k a] r IH]; simpl; intros l l' d H; [inv H; lia|].
  step H. rewrite (IH _ _ d H), (add_coin_amount _ _ _ _ d Hb). lia.
Qed.

Definition bal_amt (x : asset) (b : balance) : N :=
  match x, b with
  | ANative d, BNative cs => amount_of d cs
  | ACw20 t, BCw20 t' a => if t' =? t then a else 0
  | _, _ => 0
  end.

Lemma add_tokens_amt x g b g' : add_tokens g b = Ok g' -> amt x g' = amt x g + bal_amt x b /\ nfts g' = nfts g.
Proof.
  intros H. destruct b as [cs | t a]; simpl in H; step H; inv H; split; try reflexivity; destruct x; simpl; try lia.
  - apply add_coins_amount. assumption.
  - rewrite (add_coin_amount _ _ _ _ t0 Hb). reflexivity.
Qed.

Lemma from_balance_amt x b : amt x (from_balance b) = bal_amt x b.
Proof. destruct x, b; simpl; lia. Qed.

Definition nft_amt (x : asset) (n : addr * tokid) : N :=
  match x with ANft c k => if pair_eqb n (c, k) then 1 else 0 | _ => 0 end.

Lemma from_nft_amt x n : amt x (from_nft n) = nft_amt x n.
Proof. destruct x; simpl; try reflexivity. lia. Qed.

Lemma add_nft_amt x g n : amt x (add_nft g n) = amt x g + nft_amt x n.
Proof. destruct x; simpl; try lia. rewrite countP_app. simpl. lia. Qed.

(** What [send_tokens_cosmos] / [withdraw_msgs] carry. *)
Lemma sent_cw20_part x to (l : list (N * N)) :
  sent x (map (fun c => Cw20Transfer (fst c) to (snd c)) l) = match x with ACw20 t => amount_of t l | _ => 0 end.
Proof.
  unfold sent. induction l as [|[t' a] r IH]; simpl; [destruct x; reflexivity|]. rewrite IH. destruct x; simpl; lia.
Qed.

Lemma sent_nft_part x to (l : list (addr * tokid)) :
  sent x (map (fun n => NftTransfer (fst n) to (snd n)) l) = match x with ANft c k => countP (c, k) l | _ => 0 end.
Proof.
  unfold sent. induction l as [|[c' k'] r IH]; [destruct x; reflexivity|].
  rewrite !map_cons. change (sumN (?a :: ?l)) with (a + sumN l). rewrite IH. cbn [fst snd].
  destruct x; cbn [msg_val countP]; try lia.
Qed.

Lemma sent_send_tokens x to g : sent x (send_tokens_cosmos to g) = amt x g.
Proof.
  unfold send_tokens_cosmos. rewrite !sent_app, sent_cw20_part, sent_nft_part.
  destruct g as [n c f]. cbn [native cw20 nfts amt].
  destruct n as [|[d0 a0] r]; destruct x; unfold sent; simpl; lia.
Qed.

Lemma sent_fee_msgs x me f : sent x (fee_msgs me f) = feeamt x f.
Proof. destruct f as [[d a]|]; destruct x; unfold sent; simpl; try reflexivity; lia. Qed.

Lemma sent_withdraw x me to g f : sent x (withdraw_msgs me to g f) = amt x g + feeamt x f.
Proof. unfold withdraw_msgs. rewrite sent_app, sent_send_tokens, sent_fee_msgs. reflexivity. Qed.

(** ** The royalty split conserves every asset, whatever the registry answers *)
Definition wsum (sel : N -> bool) (l : list (N * N)) : N :=
  sumN (map (fun c => if sel (fst c) then snd c else 0) l).

Lemma amount_of_wsum d l : amount_of d l = wsum (fun k => k =? d) l.
Proof. unfold wsum. induction l as [|[k a] r IH]; simpl; [reflexivity | rewrite IH; reflexivity]. Qed.

Lemma wsum_false l : wsum (fun _ => false) l = 0.
Proof. unfold wsum. induction l as [|c r IH]; simpl; [reflexivity | rewrite IH; reflexivity]. Qed.

Lemma pay_royalties_sent (v : out_msg -> N) mk orig rs (sel : bool) :
  (forall to y, v (mk to y) = if sel then y else 0) ->
  forall bal ms b, pay_royalties mk orig rs bal = Ok (ms, b) ->
  sumN (map v ms) = (if sel then bal - b else 0) /\ b <= bal.
Proof.
  intros Hv. induction rs as [|r t IH]; simpl; intros bal ms b H.
  - inv H. simpl. split; [destruct sel; lia | lia].
  - step H; [apply IH; exact H|].
    unfold checked_sub in H. step H. step Hb; [|discriminate]. inv Hb. step H. destruct x as [ms' b']. inv H.
    apply N.leb_le in Hc0. destruct (IH _ _ _ Hb) as [I1 I2]. simpl. rewrite Hv, I1. split; [destruct sel; lia | lia].
Qed.

Lemma royalties_vec_sent (v : out_msg -> N) mk rs (sel : N -> bool) :
  (forall k to y, v (mk k to y) = if sel k then y else 0) ->
  forall l ms l', royalties_vec mk rs l = Ok (ms, l') -> sumN (map v ms) + wsum sel l' = wsum sel l.
Proof.
  intros Hv. induction l as [|[k a] t IH]; simpl; intros ms l' H; [inv H; reflexivity|].
  step H. destruct x as [m1 b]. step H. destruct x as [m2 t']. inv H.
  destruct (pay_royalties_sent v (mk k) a rs (sel k) (Hv k) _ _ _ Hb) as [P1 P2].
  specialize (IH _ _ Hb0). unfold wsum in *. simpl. rewrite map_app, sumN_app, P1.
  destruct (sel k); lia.
Qed.

Theorem royalties_conserve x g resp ms t g' :
  royalties g resp = Ok (ms, t, g') -> amt x g' + sent x ms = amt x g /\ nfts g' = nfts g.
Proof.
  unfold royalties. intros H. step H. step H; [discriminate|]. step H. destruct x1 as [m1 n']. step H. destruct x1 as [m2 c']. inv H.
  split; [|reflexivity]. rewrite sent_app. unfold sent. destruct x as [d | tk | c k]; simpl.
  - pose proof (royalties_vec_sent (msg_val (ANative d)) (fun d0 to y => BankSend to [(d0, y)]) (registered resp) (fun k => k =? d)) as A.
    assert (Hv : forall k to y, msg_val (ANative d) (BankSend to [(k, y)]) = if k =? d then y else 0) by (intros k to y; simpl; lia).
    specialize (A Hv _ _ _ Hb0).
    rewrite (amount_of_wsum d n'), (amount_of_wsum d (native g)). rewrite <- A.
    pose proof (royalties_vec_sent (msg_val (ANative d)) (fun t0 to y => Cw20Transfer t0 to y) (registered resp) (fun _ => false)) as B.
    specialize (B (fun _ _ _ => eq_refl) _ _ _ Hb1). rewrite !wsum_false in B. lia.
  - pose proof (royalties_vec_sent (msg_val (ACw20 tk)) (fun t0 to y => Cw20Transfer t0 to y) (registered resp) (fun k => k =? tk)) as A.
    rewrite (amount_of_wsum tk c'), (amount_of_wsum tk (cw20 g)). rewrite <- (A (fun _ _ _ => eq_refl) _ _ _ Hb1).
    pose proof (royalties_vec_sent (msg_val (ACw20 tk)) (fun d0 to y => BankSend to [(d0, y)]) (registered resp) (fun _ => false)) as B.
    specialize (B (fun _ _ _ => eq_refl) _ _ _ Hb0). rewrite !wsum_false in B. lia.
  - pose proof (royalties_vec_sent (msg_val (ANft c k)) (fun d0 to y => BankSend to [(d0, y)]) (registered resp) (fun _ => false) (fun _ _ _ => eq_refl) _ _ _ Hb0) as A.
    pose proof (royalties_vec_sent (msg_val (ANft c k)) (fun t0 to y => Cw20Transfer t0 to y) (registered resp) (fun _ => false) (fun _ _ _ => eq_refl) _ _ _ Hb1) as B.
    rewrite !wsum_false in A, B. lia.
Qed.

Lemma side_royalties_conserve x o reg colls g ms g' :
  side_royalties o reg colls g = Ok (ms, g') -> amt x g' + sent x ms = amt x g /\ nfts g' = nfts g.
Proof.
  unfold side_royalties. intros H. destruct colls; [inv H; split; [unfold sent; simpl; lia | reflexivity]|].
  step H. step H. destruct x1 as [[ms' t] g2]. inv H. eapply royalties_conserve. exact Hb0.
Qed.

(** The fee split conserves every asset. *)
Lemma calc_fee_conserve x fd g fee g1 :
  wf_gbal g -> calc_fee_coin fd g = Ok (fee, g1) -> amt x g1 + feeamt x fee = amt x g /\ nfts g1 = nfts g.
Proof.
  intros W H.
  destruct (calc_fee_total_exact fd g (wf_gbal_amounts _ W) (wg_nd_native _ W))
    as (fee' & g' & Hf' & Hn & Hc & Hoth & Hsum & Hamt & Hnone & Hsome & _).
  rewrite H in Hf'. inv Hf'. split; [|exact Hn]. destruct x as [d | t | c k]; simpl; [| | rewrite Hn; lia].
  - dN d (fee_denom_value fd).
    + subst d. exact Hsum.
    + rewrite (Hoth d n). destruct fee' as [[d' a]|]; simpl; [|lia].
      destruct (Hsome d' a eq_refl) as [-> _]. dN (fee_denom_value fd) d; [congruence | lia].
  - rewrite Hc. lia.
Qed.

(** ** Handler by handler *)
Lemma sent_nil x : sent x [] = 0.
Proof. reflexivity. Qed.

Lemma create_bucket_g_acct x c ok g id s s' out :
  create_bucket_g c ok g id s = Ok (s', out) -> owed x s' + sent x out = owed x s + amt x g.
Proof.
  intros H. apply create_bucket_g_inv in H. destruct H as (_ & _ & Hn & _ & -> & ->).
  unfold owed. sstate. rewrite (ssum_put_fresh _ _ _ _ Hn), sent_nil. unfold bval at 1. simpl.
  destruct x; simpl; lia.
Qed.

Lemma add_to_bucket_g_acct x sender ok upd id s s' out da :
  Inv s -> (forall g g', upd g = Ok g' -> amt x g' = amt x g + da) ->
  add_to_bucket_g sender ok upd id s = Ok (s', out) -> owed x s' + sent x out = owed x s + da.
Proof.
  intros I Hupd H. apply add_to_bucket_g_inv in H. destruct H as (bk & g & _ & Hf & _ & Hu & _ & _ & -> & ->).
  unfold owed. sstate. pose proof (ssum_replace (bval x) _ bk (mkB (owner bk) g (bfee bk)) _ (Inv_bkeys _ I) Hf) as E.
  rewrite sent_nil. unfold bval at 2 3 in E. simpl in E. rewrite (Hupd _ _ Hu) in E. lia.
Qed.

Lemma create_listing_g_acct x user ok g id a w s s' out :
  Inv s -> create_listing_g user ok g id a w s = Ok (s', out) -> owed x s' + sent x out = owed x s + amt x g.
Proof.
  intros I H. apply create_listing_g_inv in H. destruct H as (va & _ & _ & Hn & _ & _ & _ & _ & -> & ->).
  assert (Hnone : find_key (user, id) (listings s) = None).
  { destruct (find_key (user, id) (listings s)) as [l|] eqn:E; [|reflexivity]. exfalso.
    destruct (Inv_find_listing _ _ _ I E) as [W Hin]. pose proof (wl_key _ _ W) as K. inv K.
    apply Hn. apply (inv_lused s I _ _ Hin). }
  unfold owed. sstate. rewrite (ssum_put_fresh _ _ _ _ Hnone), sent_nil. unfold lval at 1. simpl.
  destruct x; simpl; lia.
Qed.

Lemma add_to_listing_g_acct x sender ok upd chk id s s' out da :
  Inv s -> (forall g g', upd g = Ok g' -> amt x g' = amt x g + da) ->
  add_to_listing_g sender ok upd chk id s = Ok (s', out) -> owed x s' + sent x out = owed x s + da.
Proof.
  intros I Hupd H. apply add_to_listing_g_inv in H. destruct H as (l & g & _ & Hf & _ & Hu & _ & _ & -> & ->).
  unfold owed. sstate. pose proof (ssum_replace (lval x) _ l (with_for_sale l g) _ (Inv_lkeys _ I) Hf) as E.
  rewrite sent_nil. unfold lval at 2 3 in E. simpl in E. rewrite (Hupd _ _ Hu) in E. lia.
Qed.

Lemma buy_acct x o e buyer l_id b_id s s' out :
  Inv s -> execute_buy_listing o e buyer l_id b_id s = Ok (s', out) -> owed x s' + sent x out = owed x s.
Proof.
  intros I H. apply buy_inv in H.
  destruct H as (bk & kl & l & l_fee & l_bal & b_fee & b_bal & reg & m1 & final_b & m2 & final_l &
                 Hfb & Hfl & Hown & Hcmp & Hst & Hwl & Hcl & Hexp & Hlf & Hbf & Hreg & Hr1 & Hr2 & Hfresh & -> & ->).
  destruct (Inv_find_bucket _ _ _ I Hfb) as [Wb Hinb].
  destruct (Inv_find_by_id _ _ _ _ I Hfl) as (Wl & Hinl & Hid & Hk & Hfk).
  pose proof (wl_life _ _ Wl) as Life. unfold life_ok in Life. rewrite Hst in Life. destruct Life as (_ & Hnofee & _).
  destruct (calc_fee_conserve x _ _ _ _ (wl_goods _ _ Wl) Hlf) as [CL _].
  destruct (calc_fee_conserve x _ _ _ _ (wb_funds _ _ Wb) Hbf) as [CB _].
  destruct (side_royalties_conserve x _ _ _ _ _ _ Hr1) as [RB _].
  destruct (side_royalties_conserve x _ _ _ _ _ _ Hr2) as [RL _].
  (* listings: the seller's entry goes, the closed listing appears under the buyer *)
  assert (HnoneL : find_key (buyer, l_id) (remove_key (creator l, l_id) (listings s)) = None).
  { destruct (find_key (buyer, l_id) (remove_key (creator l, l_id) (listings s))) as [v|] eqn:E; [|reflexivity]. exfalso.
    apply find_key_In in E. apply In_remove_key in E. destruct E as [Hin' Hne'].
    pose proof (wl_key _ _ (inv_l s I _ _ Hin')) as K. inversion K as [[K1 K2]].
    destruct (lids_unique s _ _ _ _ I Hinl Hin') as [E1 _]; [congruence|]. apply Hne'. rewrite E1, Hk. reflexivity. }
  assert (HnoneB : find_key (creator l, b_id) (remove_key (buyer, b_id) (buckets s)) = None).
  { destruct (find_key (creator l, b_id) (remove_key (buyer, b_id) (buckets s))) as [v|] eqn:E; [|reflexivity]. exfalso.
    apply find_key_In in E. apply In_remove_key in E. destruct E as [Hin' Hne'].
    destruct (bids_unique s _ _ _ _ I Hinb Hin') as [E1 _]; [reflexivity|]. congruence. }
  unfold owed. sstate.
  rewrite (ssum_put_fresh _ _ _ _ HnoneL), (ssum_put_fresh _ _ _ _ HnoneB).
  rewrite Hk in Hfk. rewrite (ssum_remove (lval x) _ l _ (Inv_lkeys _ I) Hfk).
  rewrite (ssum_remove (bval x) _ bk _ (Inv_bkeys _ I) Hfb).
  rewrite !sent_app, sent_fee_msgs. unfold lval at 1 3, bval at 1 3. simpl. rewrite Hnofee.
  assert (Z : feeamt x None = 0) by (destruct x; reflexivity). rewrite Z. lia.
Qed.

(** ** The conservation law *)
Theorem accounting x o e sender fs m s s' out :
  Inv s -> execute o e sender fs m s = Ok (s', out) ->
  owed x s' + sent x out = owed x s + dep x sender fs m.
Proof.
  intros I H. unfold execute in H. step H; [discriminate|]. clear Hc.
  assert (Hnf : forall fs', no_funds fs' = true -> fs' = []) by (intros [|? ?] E; [reflexivity | discriminate]).
  assert (Hd0 : forall m', no_funds fs = true -> is_hook m' = false -> dep x sender fs m' = 0).
  { intros m' E Hm'. rewrite (Hnf _ E). destruct x; simpl; [reflexivity | |]; destruct m'; try reflexivity; discriminate. }
  destruct m.
  - (* FeeCycle *) step H; [|discriminate]. apply cycle_fee_effect in H. destruct H as [-> ->].
    rewrite Hd0 by (try assumption; reflexivity). unfold owed. simpl. rewrite sent_nil. lia.
  - (* Receive *) step H; [|discriminate]. unfold execute_receive in H.
    step H; [discriminate|]. apply negb_false_iff in Hc0. apply Hnf in Hc0. subst fs.
    step H; [discriminate|]. destruct inner as [im|]; [|discriminate]. step H; [discriminate|].
    assert (Hdep : dep x sender [] (Receive sender0 amt0 (Some im)) = bal_amt x (BCw20 sender amt0)) by (destruct x; reflexivity).
    rewrite Hdep. destruct im.
    + rewrite <- from_balance_amt. eapply create_listing_g_acct; eassumption.
    + eapply add_to_listing_g_acct; try eassumption. intros g g' Hu. apply (add_tokens_amt x) in Hu. tauto.
    + rewrite <- from_balance_amt. eapply create_bucket_g_acct; eassumption.
    + eapply add_to_bucket_g_acct; try eassumption. intros g g' Hu. apply (add_tokens_amt x) in Hu. tauto.
  - (* ReceiveNft *) unfold execute_receive_nft in H.
    step H; [discriminate|]. apply negb_false_iff in Hc. apply Hnf in Hc. subst fs.
    step H; [discriminate|]. destruct inner as [im|]; [|discriminate]. step H; [discriminate|].
    assert (Hdep : dep x sender [] (ReceiveNft sender0 tok (Some im)) = nft_amt x (sender, tok)) by (destruct x; reflexivity).
    rewrite Hdep. destruct im.
    + rewrite <- (from_nft_amt x (sender, tok)). eapply create_listing_g_acct; eassumption.
    + eapply add_to_listing_g_acct; try eassumption. intros g g' Hu. inv Hu. apply add_nft_amt.
    + rewrite <- (from_nft_amt x (sender, tok)). eapply create_bucket_g_acct; eassumption.
    + eapply add_to_bucket_g_acct; try eassumption. intros g g' Hu. inv Hu. apply add_nft_amt.
  - (* CreateListing *) step H; [|discriminate].
    assert (Hdep : dep x sender fs (CreateListing id a w) = bal_amt x (BNative fs)) by (destruct x; reflexivity).
    rewrite Hdep, <- from_balance_amt. eapply create_listing_g_acct; eassumption.
  - (* AddToListing *) step H; [|discriminate].
    assert (Hdep : dep x sender fs (AddToListing id) = bal_amt x (BNative fs)) by (destruct x; reflexivity).
    rewrite Hdep. eapply add_to_listing_g_acct; try eassumption. intros g g' Hu. apply (add_tokens_amt x) in Hu. tauto.
  - (* ChangeAsk *) step H; [|discriminate]. apply andb_true_iff in Hc. destruct Hc as [_ Hc].
    rewrite Hd0 by (try assumption; reflexivity). apply change_ask_inv in H. destruct H as (l & va & Hf & _ & _ & _ & -> & ->).
    unfold owed. sstate. pose proof (ssum_replace (lval x) _ l (with_ask l va) _ (Inv_lkeys _ I) Hf) as E.
    rewrite sent_nil. unfold lval at 2 3 in E. simpl in E. lia.
  - (* Finalize *) step H; [|discriminate]. apply andb_true_iff in Hc. destruct Hc as [_ Hc].
    rewrite Hd0 by (try assumption; reflexivity). apply finalize_inv in H. destruct H as (l & Hf & _ & _ & _ & _ & -> & ->).
    unfold owed. sstate.
    match goal with |- context [put _ ?v _] => pose proof (ssum_replace (lval x) _ l v _ (Inv_lkeys _ I) Hf) as E end.
    rewrite sent_nil. unfold lval at 2 3 in E. simpl in E. lia.
  - (* DeleteListing *) step H; [|discriminate]. apply andb_true_iff in Hc. destruct Hc as [_ Hc].
    rewrite Hd0 by (try assumption; reflexivity). apply delete_listing_inv in H. destruct H as (l & Hf & _ & Hcl & _ & -> & ->).
    destruct (Inv_find_listing _ _ _ I Hf) as [W _].
    assert (Hnofee : lfee l = None).
    { pose proof (wl_life _ _ W) as Life. unfold life_ok in Life. destruct (lstatus l); try tauto. destruct Life as [E _]. congruence. }
    assert (Z : feeamt x None = 0) by (destruct x; reflexivity).
    assert (E : lval x l = amt x (for_sale l)) by (unfold lval; rewrite Hnofee, Z; lia).
    unfold owed. sstate. rewrite (ssum_remove (lval x) _ l _ (Inv_lkeys _ I) Hf), sent_send_tokens, E. lia.
  - (* CreateBucket *) step H; [|discriminate].
    assert (Hdep : dep x sender fs (CreateBucket id) = bal_amt x (BNative fs)) by (destruct x; reflexivity).
    rewrite Hdep, <- from_balance_amt. eapply create_bucket_g_acct; eassumption.
  - (* AddToBucket *) step H; [|discriminate].
    assert (Hdep : dep x sender fs (AddToBucket id) = bal_amt x (BNative fs)) by (destruct x; reflexivity).
    rewrite Hdep. eapply add_to_bucket_g_acct; try eassumption. intros g g' Hu. apply (add_tokens_amt x) in Hu. tauto.
  - (* RemoveBucket *) step H; [|discriminate]. apply andb_true_iff in Hc. destruct Hc as [_ Hc].
    rewrite Hd0 by (try assumption; reflexivity). apply withdraw_bucket_inv in H. destruct H as (bk & Hf & _ & -> & ->).
    assert (E : bval x bk = amt x (funds bk) + feeamt x (bfee bk)) by reflexivity.
    unfold owed. sstate. rewrite (ssum_remove (bval x) _ bk _ (Inv_bkeys _ I) Hf), sent_withdraw, E. lia.
  - (* BuyListing *) step H; [|discriminate]. apply andb_true_iff in Hc. destruct Hc as [_ Hc].
    rewrite Hd0 by (try assumption; reflexivity). rewrite N.add_0_r. eapply buy_acct; eassumption.
  - (* WithdrawPurchased *) step H; [|discriminate]. apply andb_true_iff in Hc. destruct Hc as [_ Hc].
    rewrite Hd0 by (try assumption; reflexivity). apply withdraw_purchased_inv in H. destruct H as (k & l & Hf & Hcl & Hst & -> & ->).
    destruct (Inv_find_by_id _ _ _ _ I Hf) as (W & Hin & Hid & Hk & Hfk).
    pose proof (wl_life _ _ W) as Life. unfold life_ok in Life. rewrite Hst in Life. destruct Life as (L1 & _).
    assert (Hcs : creator l = sender) by congruence. rewrite Hk, Hcs in Hfk.
    assert (E : lval x l = amt x (for_sale l) + feeamt x (lfee l)) by reflexivity.
    unfold owed. sstate. rewrite (ssum_remove (lval x) _ l _ (Inv_lkeys _ I) Hfk), sent_withdraw, E. lia.
Qed.
