(** * Atomic: all-or-nothing operations (C15). *)
From FM Require Export Offer.

(** Every message of an [execute] response is attached without a reply handler. *)
Theorem execute_fire_and_forget (ms : list out_msg) :
  Forall (fun sm => sm_reply sm = ReplyNever /\ sm_id sm = 0) (add_messages ms).
Proof. unfold add_messages. rewrite Forall_forall. intros sm H. apply in_map_iff in H. destruct H as (m & <- & _). split; reflexivity. Qed.

(** Fault injection: the [i]-th dispatched message fails. *)
Definition set_fail (o : op) (f : option nat) : op :=
  match o with
  | Exec a fs m _ => Exec a fs m f
  | Cw20Send u t a i _ => Cw20Send u t a i f
  | NftSend u c k i _ => NftSend u c k i f
  | _ => o
  end.

Lemma dispatch_fault ms : forall w i j, (i <= j)%nat -> (j < i + length ms)%nat -> dispatch w i (Some j) ms = Err.
Proof.
  induction ms as [|m r IH]; simpl; intros w i j H1 H2; [lia|].
  destruct (Nat.eqb i j) eqn:E; [reflexivity|]. apply Nat.eqb_neq in E.
  destruct (dispatch1 w m) as [w'|]; [|reflexivity]. cbn [bind]. apply IH; lia.
Qed.

Lemma run_market_fault w sender fs m s' out j :
  execute (oracle_of w) (env_of w) sender fs m (market w) = Ok (s', out) -> (j < length out)%nat ->
  run_market w sender fs m (Some j) = Err.
Proof.
  intros H Hj. unfold run_market. rewrite H. cbn [bind]. rewrite dispatch_fault; [reflexivity | lia | simpl; lia].
Qed.

(** If a transfer issued by an operation fails — whichever of its messages it is — the whole
    operation has no effect. *)
Theorem fault_no_effect w o w' out j :
  try_step w (set_fail o None) = Ok (w', out) -> (j < length out)%nat ->
  step w (set_fail o (Some j)) = (w, mkOut false []).
Proof.
  intros H Hj. assert (E : try_step w (set_fail o (Some j)) = Err); [|unfold step; rewrite E; reflexivity].
  unfold try_step in *. destruct o; simpl in *; try (simpl in Hj; exfalso; steps H; simpl in Hj; lia).
  - step H. rewrite Hb. cbn [bind]. unfold run_market in H. step H. destruct x0 as [s' o']. step H. inv H.
    eapply run_market_fault; eassumption.
  - destruct (kind w token); try discriminate. step H. rewrite Hb. cbn [bind].
    unfold run_market in H. step H. destruct x0 as [s' o']. step H. inv H. eapply run_market_fault; eassumption.
  - destruct (kind w coll); try discriminate. step H. rewrite Hb. cbn [bind].
    unfold run_market in H. step H. destruct x0 as [s' o']. step H. inv H. eapply run_market_fault; eassumption.
Qed.

(** The same operation succeeds with its normal effect once the fault is gone: the faulted
    attempt left the world exactly as it was. *)
Theorem retry_after_fault w o w' out j :
  try_step w (set_fail o None) = Ok (w', out) -> (j < length out)%nat ->
  step (fst (step w (set_fail o (Some j)))) (set_fail o None) = (w', mkOut true out).
Proof.
  intros H Hj. rewrite (fault_no_effect _ _ _ _ _ H Hj). simpl. unfold step. rewrite H. reflexivity.
Qed.

(** A failure of any dispatched message — a hostile token refusing, an uncovered or
    malformed bank send, a refused pool deposit — aborts the operation. *)
Theorem dispatch_failure_aborts w sender fs m s' out :
  execute (oracle_of w) (env_of w) sender fs m (market w) = Ok (s', out) ->
  dispatch (set_market w s') 0 None out = Err -> run_market w sender fs m None = Err.
Proof. intros H Hd. unfold run_market. rewrite H. cbn [bind]. rewrite Hd. reflexivity. Qed.
