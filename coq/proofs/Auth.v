(** * Auth: only a record's owner (or a valid purchase) can change it (C04, C03, C08, C18). *)
From FM Require Export Ledger.

Definition is_hook (m : exec_msg) : bool :=
  match m with Receive _ _ _ | ReceiveNft _ _ _ => true | _ => false end.

(** What a valid purchase does to the purchased listing. *)
Definition bought (e : env) (buyer : addr) (s' : mstate) (k : key) (l : listing) : Prop :=
  lstatus l = FinalizedReady /\ claimant l = None /\ (forall x, exp l = Some x -> now e <= x) /\
  exists l', find_key (buyer, snd k) (listings s') = Some l' /\
    lstatus l' = Closed /\ claimant l' = Some buyer /\ creator l' = buyer /\
    ask l' = ask l /\ wl l' = wl l /\ fin l' = fin l /\ exp l' = exp l /\ lid l' = lid l /\
    (fst k <> buyer -> find_key k (listings s') = None).

(** A listing whose owner is neither the sender nor the account the message acts for is
    unchanged — unless the message is a valid purchase of it. *)
Theorem listing_frame o e sender fs m s s' out k l :
  Inv s -> execute o e sender fs m s = Ok (s', out) -> find_key k (listings s) = Some l ->
  fst k <> actor_of sender m -> (is_hook m = false -> fst k <> sender) ->
  find_key k (listings s') = Some l \/
  (exists bid, m = BuyListing (snd k) bid /\ bought e sender s' k l).
Proof.
  intros I H Hf Ha Hs. destruct (execute_lchange _ _ _ _ _ _ _ _ _ _ I H Hf)
    as [Hsame | l' Hact _ _ _ _ _ _ _ | Hm Hsd _ _ _ | Hm Hsd _ _ | bid l' Hm Hst Hcl Hexp Hf' Hst' Hcl' Hcr' Hask Hwl Hfin Hexp' Hlid Hgone].
  - left. exact Hsame.
  - congruence.
  - exfalso. subst m. apply Hs; [reflexivity | symmetry; assumption].
  - exfalso. subst m. apply Hs; [reflexivity | symmetry; assumption].
  - right. exists bid. split; [exact Hm|]. unfold bought. splits; try assumption.
    exists l'. splits; assumption.
Qed.

(** A bucket whose owner is neither the sender nor the account the message acts for is
    unchanged, whatever the message — in particular the buckets of losing buyers. *)
Theorem bucket_frame o e sender fs m s s' out k b :
  Inv s -> execute o e sender fs m s = Ok (s', out) -> find_key k (buckets s) = Some b ->
  fst k <> actor_of sender m -> (is_hook m = false -> fst k <> sender) ->
  find_key k (buckets s') = Some b.
Proof.
  intros I H Hf Ha Hs. destruct (execute_bchange _ _ _ _ _ _ _ _ _ _ I H Hf)
    as [Hsame | b' Hact _ _ _ | Hm Hsd _ | l_id kl l b' Hm Hsd _ _ _ _].
  - exact Hsame.
  - congruence.
  - exfalso. subst m. apply Hs; [reflexivity | symmetry; assumption].
  - exfalso. subst m. apply Hs; [reflexivity | symmetry; assumption].
Qed.

(** ** World level *)
Definition honest_op (o : op) : Prop :=
  match o with Exec _ _ m _ => is_hook m = false | _ => True end.

Lemma honest_actor o m :
  honest_op o -> op_msg o = Some m ->
  op_initiator o = Some (actor_of (op_sender o) m) /\ (is_hook m = false -> op_initiator o = Some (op_sender o)).
Proof.
  destruct o; simpl; intros Hh Hm; inv Hm; simpl.
  - split; [|reflexivity]. destruct m; simpl in *; try reflexivity; discriminate.
  - split; [reflexivity | discriminate].
  - split; [reflexivity | discriminate].
Qed.

Lemma env_of_now w0 w : wnow w0 = wnow w -> now (env_of w0) = wnow w.
Proof. intros H. unfold env_of. simpl. exact H. Qed.

(** No operation initiated by an account other than a listing's owner changes that listing,
    except a valid purchase of it. *)
Theorem step_listing_frame w o k l :
  Inv (market w) -> honest_op o -> find_key k (listings (market w)) = Some l ->
  op_initiator o <> Some (fst k) ->
  let s' := market (fst (step w o)) in
  find_key k (listings s') = Some l \/
  (exists buyer bid fail, o = Exec buyer [] (BuyListing (snd k) bid) fail /\
     bought (env_of w) buyer s' k l).
Proof.
  intros I Hh Hf Hi s'. unfold s'. rewrite step_fst.
  destruct (try_step w o) as [[w' out]|] eqn:H; [|left; exact Hf].
  destruct (op_msg o) as [m|] eqn:Hm; [|left; apply try_step_nomsg in H; [rewrite H; exact Hf | exact Hm]].
  destruct (try_step_exec _ _ _ _ _ H Hm) as (w0 & E1 & E2 & E3 & _ & _ & _ & _ & He).
  destruct (honest_actor _ _ Hh Hm) as [Ha Hs].
  destruct (listing_frame _ _ _ _ _ _ _ _ _ _ I He Hf) as [Hsame | (bid & Hb & Hbt)].
  - intros E. apply Hi. rewrite Ha. f_equal. symmetry. exact E.
  - intros Hk E. apply Hi. rewrite (Hs Hk). f_equal. symmetry. exact E.
  - left. exact Hsame.
  - right. subst m. destruct o; simpl in Hm; try discriminate. inv Hm. simpl in *.
    apply execute_buy_inv in He. destruct He as [_ ->].
    exists sender, bid, fail. split; [reflexivity|].
    unfold bought in *. unfold env_of in *. simpl in *. rewrite E2 in Hbt. exact Hbt.
Qed.

(** No operation initiated by another account changes a bucket at all. *)
Theorem step_bucket_frame w o k b :
  Inv (market w) -> honest_op o -> find_key k (buckets (market w)) = Some b ->
  op_initiator o <> Some (fst k) ->
  find_key k (buckets (market (fst (step w o)))) = Some b.
Proof.
  intros I Hh Hf Hi. rewrite step_fst.
  destruct (try_step w o) as [[w' out]|] eqn:H; [|exact Hf].
  destruct (op_msg o) as [m|] eqn:Hm; [|apply try_step_nomsg in H; [rewrite H; exact Hf | exact Hm]].
  destruct (try_step_exec _ _ _ _ _ H Hm) as (w0 & E1 & E2 & E3 & _ & _ & _ & _ & He).
  destruct (honest_actor _ _ Hh Hm) as [Ha Hs].
  eapply bucket_frame; try eassumption.
  - intros E. apply Hi. rewrite Ha. f_equal. symmetry. exact E.
  - intros Hk E. apply Hi. rewrite (Hs Hk). f_equal. symmetry. exact E.
Qed.

(** ** Messages aimed at somebody else's record are refused *)
Lemma foreign_listing_absent s id k l sender :
  Inv s -> In (k, l) (listings s) -> lid l = id -> fst k <> sender -> find_key (sender, id) (listings s) = None.
Proof.
  intros I Hin Hid Hne. destruct (find_key (sender, id) (listings s)) as [l2|] eqn:E; [|reflexivity].
  exfalso. destruct (Inv_find_listing _ _ _ I E) as [W2 Hin2]. pose proof (wl_key _ _ W2) as K2. inv K2.
  destruct (lids_unique s _ _ _ _ I Hin Hin2) as [E1 _]; [congruence|]. apply Hne. rewrite <- E1. reflexivity.
Qed.

Lemma foreign_bucket_absent s id k b sender :
  Inv s -> In (k, b) (buckets s) -> snd k = id -> fst k <> sender -> find_key (sender, id) (buckets s) = None.
Proof.
  intros I Hin Hid Hne. destruct (find_key (sender, id) (buckets s)) as [b2|] eqn:E; [|reflexivity].
  exfalso. destruct (Inv_find_bucket _ _ _ I E) as [W2 Hin2].
  destruct (bids_unique s _ _ _ _ I Hin Hin2) as [E1 _]; [simpl; congruence|]. apply Hne. rewrite <- E1. reflexivity.
Qed.

Definition aims_at_listing (m : exec_msg) (id : N) : bool :=
  match m with
  | AddToListing i | ChangeAsk i _ | Finalize i _ | DeleteListing i => i =? id
  | _ => false
  end.

Definition aims_at_bucket (m : exec_msg) (id : N) : bool :=
  match m with
  | AddToBucket i | RemoveBucket i => i =? id
  | BuyListing _ b => b =? id
  | _ => false
  end.

(** Altering, re-pricing, finalizing, deleting or topping up a listing one does not own fails
    (whoever the sender is — the deployer has no special role in the state machine). *)
Theorem foreign_listing_refused o e sender fs m s id k l :
  Inv s -> In (k, l) (listings s) -> lid l = id -> fst k <> sender -> aims_at_listing m id = true ->
  execute o e sender fs m s = Err.
Proof.
  intros I Hin Hid Hne Ha. pose proof (foreign_listing_absent _ _ _ _ _ I Hin Hid Hne) as Hn.
  destruct (execute o e sender fs m s) as [[s' out]|] eqn:H; [|reflexivity]. exfalso.
  unfold execute in H. step H; [discriminate|].
  destruct m; simpl in Ha; try discriminate; apply N.eqb_eq in Ha; subst id0; (step H; [|discriminate]).
  - apply add_to_listing_g_inv in H. destruct H as (l0 & g & _ & Hf & _). congruence.
  - apply change_ask_inv in H. destruct H as (l0 & va & Hf & _). congruence.
  - apply finalize_inv in H. destruct H as (l0 & Hf & _). congruence.
  - apply delete_listing_inv in H. destruct H as (l0 & Hf & _). congruence.
Qed.

(** Topping up, removing, or paying with a bucket one does not own fails. *)
Theorem foreign_bucket_refused o e sender fs m s id k b :
  Inv s -> In (k, b) (buckets s) -> snd k = id -> fst k <> sender -> aims_at_bucket m id = true ->
  execute o e sender fs m s = Err.
Proof.
  intros I Hin Hid Hne Ha. pose proof (foreign_bucket_absent _ _ _ _ _ I Hin Hid Hne) as Hn.
  destruct (execute o e sender fs m s) as [[s' out]|] eqn:H; [|reflexivity]. exfalso.
  unfold execute in H. step H; [discriminate|].
  destruct m; simpl in Ha; try discriminate; apply N.eqb_eq in Ha; subst; (step H; [|discriminate]).
  - apply add_to_bucket_g_inv in H. destruct H as (bk & g & _ & Hf & _). congruence.
  - apply withdraw_bucket_inv in H. destruct H as (bk & Hf & _). congruence.
  - apply buy_inv in H. destruct H as (bk & kl & l0 & l_fee & l_bal & b_fee & b_bal & reg & m1 & final_b & m2 & final_l & Hfb & _). congruence.
Qed.

(** Withdrawing a purchased listing is open to its claimant only. *)
Theorem foreign_withdraw_refused o e sender fs s id k l :
  Inv s -> In (k, l) (listings s) -> lid l = id -> claimant l <> Some sender ->
  execute o e sender fs (WithdrawPurchased id) s = Err.
Proof.
  intros I Hin Hid Hne.
  destruct (execute o e sender fs (WithdrawPurchased id) s) as [[s' out]|] eqn:H; [|reflexivity]. exfalso.
  unfold execute in H. step H; [discriminate|]. step H; [|discriminate].
  apply withdraw_purchased_inv in H. destruct H as (k0 & l0 & Hf & Hcl & _).
  destruct (Inv_find_by_id _ _ _ _ I Hf) as (_ & Hin0 & Hid0 & _).
  destruct (lids_unique s _ _ _ _ I Hin Hin0) as [_ E]; [congruence|]. subst l0. congruence.
Qed.
