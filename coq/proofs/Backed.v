(** * Backed: the marketplace's holdings equal what its records promise, per asset, in every
    world reachable through its deposit interface (C01), and the community-pool ledger (C10). *)
From FM Require Export Accounting.

(** ** Exact effect of ledger moves on source and destination *)
Lemma bank_move1_src b src dst c b' d :
  bank_move1 b src dst c = Ok b' -> src <> dst -> b' src d + fee_amt d (Some c) = b src d.
Proof.
  unfold bank_move1. destruct c as [d0 a]. intros H Hne. step H; [|discriminate]. inv H. apply N.leb_le in Hc.
  simpl. rewrite upd2_other by (left; congruence).
  destruct (N.eq_dec d d0) as [->|Hd].
  - rewrite upd2_same, N.eqb_refl. lia.
  - rewrite upd2_other by tauto. apply N.eqb_neq in Hd. rewrite N.eqb_sym, Hd. lia.
Qed.

Lemma bank_move1_dst b src dst c b' d :
  bank_move1 b src dst c = Ok b' -> src <> dst -> b' dst d = b dst d + fee_amt d (Some c).
Proof.
  unfold bank_move1. destruct c as [d0 a]. intros H Hne. step H; [|discriminate]. inv H.
  simpl. destruct (N.eq_dec d d0) as [->|Hd].
  - rewrite upd2_same, N.eqb_refl. rewrite upd2_other by (left; congruence). reflexivity.
  - rewrite !upd2_other by tauto. apply N.eqb_neq in Hd. rewrite N.eqb_sym, Hd. lia.
Qed.

Lemma bank_move1_third b src dst c b' x d :
  bank_move1 b src dst c = Ok b' -> x <> src -> x <> dst -> b' x d = b x d.
Proof.
  unfold bank_move1. destruct c as [d0 a]. intros H H1 H2. step H; [|discriminate]. inv H.
  rewrite !upd2_other by tauto. reflexivity.
Qed.

Lemma fee_amt_coin d (c : coin) : fee_amt d (Some c) = amount_of d [c].
Proof. destruct c as [d' a]. simpl. lia. Qed.

Lemma bank_move_src cs : forall b src dst b' d,
  bank_move b src dst cs = Ok b' -> src <> dst -> b' src d + amount_of d cs = b src d.
Proof.
  induction cs as [|c r IH]; cbn [bank_move]; intros b src dst b' d H Hne; [inv H; simpl; lia|].
  step H. pose proof (bank_move1_src _ _ _ _ _ d Hb Hne) as E1. pose proof (IH _ _ _ _ d H Hne) as E2.
  change (c :: r) with ([c] ++ r). rewrite amount_of_app, <- fee_amt_coin. lia.
Qed.

Lemma bank_move_dst cs : forall b src dst b' d,
  bank_move b src dst cs = Ok b' -> src <> dst -> b' dst d = b dst d + amount_of d cs.
Proof.
  induction cs as [|c r IH]; cbn [bank_move]; intros b src dst b' d H Hne; [inv H; simpl; lia|].
  step H. pose proof (bank_move1_dst _ _ _ _ _ d Hb Hne) as E1. pose proof (IH _ _ _ _ d H Hne) as E2.
  change (c :: r) with ([c] ++ r). rewrite amount_of_app, <- fee_amt_coin. lia.
Qed.

Lemma bank_move_third cs : forall b src dst b' x d,
  bank_move b src dst cs = Ok b' -> x <> src -> x <> dst -> b' x d = b x d.
Proof.
  induction cs as [|c r IH]; cbn [bank_move]; intros b src dst b' x d H H1 H2; [inv H; reflexivity|].
  step H. rewrite (IH _ _ _ _ x d H H1 H2). eapply bank_move1_third; eassumption.
Qed.

Lemma amount_of_nonzero d (cs : list coin) : amount_of d (filter (fun c => negb (snd c =? 0)) cs) = amount_of d cs.
Proof.
  induction cs as [|[d0 a] r IH]; simpl; [reflexivity|]. destruct (N.eqb_spec a 0); simpl; rewrite IH; [|reflexivity].
  subst. destruct (d0 =? d); lia.
Qed.

Lemma pay_funds_dst b src dst cs b' d :
  pay_funds b src dst cs = Ok b' -> src <> dst -> b' dst d = b dst d + amount_of d cs.
Proof.
  unfold pay_funds. intros H Hne. destruct cs as [|c r]; [inv H; simpl; lia|].
  remember (filter (fun c : denom * N => negb (snd c =? 0)) (c :: r)) as nz. destruct nz; [discriminate|].
  rewrite (bank_move_dst _ _ _ _ _ d H Hne). rewrite Heqnz. rewrite amount_of_nonzero. reflexivity.
Qed.

Lemma pay_funds_third b src dst cs b' x d :
  pay_funds b src dst cs = Ok b' -> x <> src -> x <> dst -> b' x d = b x d.
Proof.
  unfold pay_funds. intros H H1 H2. destruct cs as [|c r]; [inv H; reflexivity|].
  remember (filter (fun c : denom * N => negb (snd c =? 0)) (c :: r)) as nz. destruct nz; [discriminate|].
  eapply bank_move_third; eassumption.
Qed.

Lemma cw20_move_src c t src dst a c' : cw20_move c t src dst a = Ok c' -> src <> dst -> c' t src + a = c t src.
Proof.
  unfold cw20_move. intros H Hne. step H; [|discriminate]. inv H. apply andb_true_iff in Hc. destruct Hc as [_ Hc]. apply N.leb_le in Hc.
  rewrite upd2_other by (right; congruence). rewrite upd2_same. lia.
Qed.

Lemma cw20_move_dst c t src dst a c' : cw20_move c t src dst a = Ok c' -> src <> dst -> c' t dst = c t dst + a.
Proof.
  unfold cw20_move. intros H Hne. step H; [|discriminate]. inv H.
  rewrite upd2_same. rewrite upd2_other by (right; congruence). reflexivity.
Qed.

Lemma cw20_move_other c t src dst a c' t' x :
  cw20_move c t src dst a = Ok c' -> (t' <> t \/ (x <> src /\ x <> dst)) -> c' t' x = c t' x.
Proof.
  unfold cw20_move. intros H Ho. step H; [|discriminate]. inv H. rewrite !upd2_other by tauto. reflexivity.
Qed.

(** ** What the marketplace holds *)
Definition honest_asset (w : world) (x : asset) : Prop :=
  match x with ANative _ => True | ACw20 t => kind w t = KCw20 | ANft c _ => kind w c = KCw721 end.

Definition owns (w : world) (a c k : N) : N :=
  match nft_owner w c k with Some o => if o =? a then 1 else 0 | None => 0 end.

Definition held (w : world) (x : asset) : N :=
  match x with
  | ANative d => bank w (self_addr w) d
  | ACw20 t => cw20bal w t (self_addr w)
  | ANft c k => owns w (self_addr w) c k
  end.

Definition backed (w : world) : Prop := forall x, honest_asset w x -> held w x = owed x (market w).

(** ** Who receives the marketplace's messages *)
Definition recipient_ok (me : addr) (m : out_msg) : Prop :=
  match m with
  | BankSend to _ | Cw20Transfer _ to _ | NftTransfer _ to _ => to <> me
  | FundPool _ _ => True
  end.

Lemma send_tokens_recipients me to g : to <> me -> Forall (recipient_ok me) (send_tokens_cosmos to g).
Proof.
  intros H. unfold send_tokens_cosmos. apply Forall_app. split; [|apply Forall_app; split].
  - destruct (native g); constructor; [exact H | constructor].
  - rewrite Forall_forall. intros m Hm. apply in_map_iff in Hm. destruct Hm as (c & <- & _). exact H.
  - rewrite Forall_forall. intros m Hm. apply in_map_iff in Hm. destruct Hm as (c & <- & _). exact H.
Qed.

Lemma fee_msgs_recipients me dp f : Forall (recipient_ok me) (fee_msgs dp f).
Proof. destruct f; simpl; repeat constructor. Qed.

Lemma pay_royalties_forall (P : out_msg -> Prop) mk orig rs :
  (forall r y, In r rs -> P (mk (payout r) y)) ->
  forall bal ms b, pay_royalties mk orig rs bal = Ok (ms, b) -> Forall P ms.
Proof.
  induction rs as [|r t IH]; simpl; intros HP bal ms b H; [inv H; constructor|].
  step H; [eapply IH; [|exact H]; intros; apply HP; tauto|].
  step H. step H. destruct x0 as [ms' b']. inv H. constructor; [apply HP; tauto|].
  eapply IH; [|exact Hb0]. intros; apply HP; tauto.
Qed.

Lemma royalties_vec_forall (P : out_msg -> Prop) mk rs :
  (forall k r y, In r rs -> P (mk k (payout r) y)) ->
  forall l ms l', royalties_vec mk rs l = Ok (ms, l') -> Forall P ms.
Proof.
  intros HP. induction l as [|[k a] t IH]; simpl; intros ms l' H; [inv H; constructor|].
  step H. destruct x as [m1 b]. step H. destruct x as [m2 t']. inv H. apply Forall_app. split.
  - eapply pay_royalties_forall; [|exact Hb]. intros r y Hr. apply HP, Hr.
  - eapply IH, Hb0.
Qed.

Lemma royalties_recipients me g resp ms t g' :
  royalties g resp = Ok (ms, t, g') -> (forall r, In r (registered resp) -> payout r <> me) ->
  Forall (recipient_ok me) ms.
Proof.
  unfold royalties. intros H Hp. step H. step H; [discriminate|]. step H. destruct x0 as [m1 n']. step H. destruct x0 as [m2 c']. inv H.
  apply Forall_app. split.
  - eapply royalties_vec_forall; [|exact Hb0]. intros k r y Hr. simpl. apply Hp, Hr.
  - eapply royalties_vec_forall; [|exact Hb1]. intros k r y Hr. simpl. apply Hp, Hr.
Qed.

Definition oracle_clean (o : oracle) (me : addr) : Prop :=
  forall reg cs resp r, registry_multi o reg cs = Ok resp -> In r (registered resp) -> payout r <> me.

Theorem execute_recipients me o e sender fs m s s' out :
  execute o e sender fs m s = Ok (s', out) -> sender <> me -> oracle_clean o me ->
  Forall (recipient_ok me) out.
Proof.
  intros H Hs Ho. unfold execute in H. step H; [discriminate|]. clear Hc.
  assert (Hnil : forall (r : response), r = (s', out) -> snd r = [] -> Forall (recipient_ok me) out)
    by (intros r -> E; simpl in E; rewrite E; constructor).
  destruct m.
  - step H; [|discriminate]. apply cycle_fee_effect in H. destruct H as [_ ->]. constructor.
  - step H; [|discriminate]. unfold execute_receive in H.
    step H; [discriminate|]. step H; [discriminate|]. destruct inner as [im|]; [|discriminate]. step H; [discriminate|]. destruct im.
    + apply create_listing_g_inv in H. destruct H as (va & _ & _ & _ & _ & _ & _ & _ & _ & ->). constructor.
    + apply add_to_listing_g_inv in H. destruct H as (l0 & g & _ & _ & _ & _ & _ & _ & _ & ->). constructor.
    + apply create_bucket_g_inv in H. destruct H as (_ & _ & _ & _ & _ & ->). constructor.
    + apply add_to_bucket_g_inv in H. destruct H as (bk & g & _ & _ & _ & _ & _ & _ & _ & ->). constructor.
  - unfold execute_receive_nft in H.
    step H; [discriminate|]. step H; [discriminate|]. destruct inner as [im|]; [|discriminate]. step H; [discriminate|]. destruct im.
    + apply create_listing_g_inv in H. destruct H as (va & _ & _ & _ & _ & _ & _ & _ & _ & ->). constructor.
    + apply add_to_listing_g_inv in H. destruct H as (l0 & g & _ & _ & _ & _ & _ & _ & _ & ->). constructor.
    + apply create_bucket_g_inv in H. destruct H as (_ & _ & _ & _ & _ & ->). constructor.
    + apply add_to_bucket_g_inv in H. destruct H as (bk & g & _ & _ & _ & _ & _ & _ & _ & ->). constructor.
  - step H; [|discriminate]. apply create_listing_g_inv in H. destruct H as (va & _ & _ & _ & _ & _ & _ & _ & _ & ->). constructor.
  - step H; [|discriminate]. apply add_to_listing_g_inv in H. destruct H as (l0 & g & _ & _ & _ & _ & _ & _ & _ & ->). constructor.
  - step H; [|discriminate]. apply change_ask_inv in H. destruct H as (l0 & va & _ & _ & _ & _ & _ & ->). constructor.
  - step H; [|discriminate]. apply finalize_inv in H. destruct H as (l0 & _ & _ & _ & _ & _ & _ & ->). constructor.
  - step H; [|discriminate]. apply delete_listing_inv in H. destruct H as (l0 & _ & Hc' & _ & _ & _ & ->).
    apply send_tokens_recipients. congruence.
  - step H; [|discriminate]. apply create_bucket_g_inv in H. destruct H as (_ & _ & _ & _ & _ & ->). constructor.
  - step H; [|discriminate]. apply add_to_bucket_g_inv in H. destruct H as (bk & g & _ & _ & _ & _ & _ & _ & _ & ->). constructor.
  - step H; [|discriminate]. apply withdraw_bucket_inv in H. destruct H as (bk & _ & Hown & _ & ->).
    unfold withdraw_msgs. apply Forall_app. split; [apply send_tokens_recipients; congruence | apply fee_msgs_recipients].
  - step H; [|discriminate]. apply buy_inv in H.
    destruct H as (bk & kl & l0 & l_fee & l_bal & b_fee & b_bal & reg & m1 & final_b & m2 & final_l &
                   _ & _ & _ & _ & _ & _ & _ & _ & _ & _ & _ & Hr1 & Hr2 & _ & _ & ->).
    assert (Hside : forall colls g ms g', side_royalties o reg colls g = Ok (ms, g') -> Forall (recipient_ok me) ms).
    { intros colls g ms g' Hh. unfold side_royalties in Hh. destruct colls; [inv Hh; constructor|].
      step Hh. step Hh. destruct x0 as [[ms' t] g2]. inv Hh. eapply royalties_recipients; [exact Hb0|].
      intros r Hr. eapply Ho; eassumption. }
    apply Forall_app. split; [eapply Hside, Hr1|]. apply Forall_app. split; [eapply Hside, Hr2 | apply fee_msgs_recipients].
  - step H; [|discriminate]. apply withdraw_purchased_inv in H. destruct H as (k0 & l0 & _ & _ & _ & _ & ->).
    unfold withdraw_msgs. apply Forall_app. split; [apply send_tokens_recipients; congruence | apply fee_msgs_recipients].
Qed.

(** ** Dispatch takes exactly what the messages carry out of the marketplace's holdings *)
Definition owns' (n : addr -> tokid -> option addr) (a c k : N) : N :=
  match n c k with Some o => if o =? a then 1 else 0 | None => 0 end.

Lemma nft_move_owns n c k src dst n' a c' k' :
  nft_move n c k src dst = Ok n' ->
  owns' n src c k = 1 /\
  owns' n' a c' k' = if pair_eqb (c', k') (c, k) then (if dst =? a then 1 else 0) else owns' n a c' k'.
Proof.
  unfold nft_move. intros H. destruct (n c k) as [o|] eqn:Eo; [|discriminate]. step H; [|discriminate]. inv H.
  split; [unfold owns'; rewrite Eo, Hc; reflexivity|].
  unfold owns', upd2o, pair_eqb. simpl. destruct ((c' =? c) && (k' =? k)); reflexivity.
Qed.

Lemma dispatch1_held w m w' x :
  dispatch1 w m = Ok w' -> recipient_ok (self_addr w) m -> pool_addr w <> self_addr w -> honest_asset w x ->
  held w' x + msg_val x m = held w x.
Proof.
  unfold dispatch1. intros H Hr Hp Hx. destruct m as [to cs | t to a | c to k | dp [d a]]; simpl in Hr.
  - step H; [|discriminate]. step H. inv H. destruct x; simpl; try lia; try (unfold owns; simpl; lia).
    eapply bank_move_src; [exact Hb | congruence].
  - destruct (kind w t) eqn:Hk; try discriminate.
    + step H. inv H. destruct x as [d | t' | c' k']; simpl; try lia; try (unfold owns; simpl; lia). destruct (N.eqb_spec t t') as [->|Hn].
      * eapply cw20_move_src; [exact Hb | congruence].
      * rewrite (cw20_move_other _ _ _ _ _ _ t' (self_addr w) Hb) by (left; congruence). lia.
    + step H; [discriminate|]. inv H. destruct x as [d | t' | c' k']; simpl; try lia.
      simpl in Hx. destruct (N.eqb_spec t t') as [->|Hn]; [congruence | lia].
  - destruct (kind w c) eqn:Hk; try discriminate.
    + step H. inv H. destruct x as [d | t' | c' k']; simpl; try lia.
      destruct (nft_move_owns _ _ _ _ _ _ (self_addr w) c' k' Hb) as [O1 O2].
      unfold owns. simpl. fold (owns' x0 (self_addr w) c' k'). fold (owns' (nft_owner w) (self_addr w) c' k').
      rewrite O2. destruct (pair_eqb (c', k') (c, k)) eqn:Ep.
      * apply pair_eqb_eq in Ep. inv Ep. unfold pair_eqb. cbn [fst snd]. rewrite !N.eqb_refl. cbn [andb].
        apply N.eqb_neq in Hr. rewrite Hr, O1. reflexivity.
      * unfold pair_eqb in *. cbn [fst snd] in *. rewrite (N.eqb_sym c c'), (N.eqb_sym k k'), Ep. lia.
    + step H; [discriminate|]. inv H. destruct x as [d | t' | c' k']; simpl; try lia.
      simpl in Hx. unfold pair_eqb. simpl. destruct (N.eqb_spec c c') as [->|Hn]; [congruence | simpl; lia].
  - step H; [|discriminate]. step H. inv H. destruct x; simpl; try lia; try (unfold owns; simpl; lia).
    eapply (bank_move1_src _ _ _ (d, a)); [exact Hb | congruence].
Qed.

Lemma dispatch_held ms : forall w i w' x,
  dispatch w i None ms = Ok w' -> Forall (recipient_ok (self_addr w)) ms -> pool_addr w <> self_addr w ->
  honest_asset w x -> held w' x + sent x ms = held w x.
Proof.
  induction ms as [|m r IH]; intros w i w' x H Hr Hp Hx.
  - simpl in H. inv H. unfold sent. simpl. lia.
  - cbn [dispatch] in H. step H. inv Hr.
    pose proof (dispatch1_static _ _ _ Hb) as (_ & _ & Hk & _ & _ & _ & _ & Hs & _ & Hpl).
    pose proof (dispatch1_held _ _ _ x Hb H2 Hp Hx) as E1.
    assert (Hx' : honest_asset x0 x) by (destruct x; simpl in *; congruence).
    rewrite <- Hs in H3. rewrite <- Hs, <- Hpl in Hp.
    pose proof (IH _ _ _ x H H3 Hp Hx') as E2.
    unfold sent in *. simpl. lia.
Qed.

(** ** The deposit interface, and everything that is outside it *)
Definition reg_clean (w : world) : Prop :=
  forall c e, reg_lookup c (registry w) = Some e -> payout e <> self_addr w.

(** The property's proviso made precise: assets reach the marketplace address only through its
    deposit handlers.  Excluded are exactly: the marketplace or an honest token contract acting
    as a plain message sender (honest tokens call the hooks only as part of a Send), direct
    transfers to the marketplace address, and a registry entry naming the marketplace itself as
    royalty payout address (observation O1). *)
Definition outside_ok (w : world) (o : op) : Prop :=
  let me := self_addr w in
  match o with
  | Exec sd _ _ _ => sd <> me /\ (kind w sd = KUser \/ kind w sd = KHostile)
  | Cw20Send u _ _ _ _ | NftSend u _ _ _ _ => u <> me
  | Cw20Xfer u _ to _ | NftXfer u _ _ to | BankXfer u to _ => u <> me /\ to <> me
  | RegExec _ (Register _ p _) => p <> me
  | RegExec _ (Update _ (Some p) _) => p <> me
  | _ => True
  end.

Lemma dispatch_fail_none ms : forall w i fail w', dispatch w i fail ms = Ok w' -> dispatch w i None ms = Ok w'.
Proof.
  induction ms as [|m r IH]; simpl; intros w i fail w' H; [exact H|].
  step H; [discriminate|]. step H. rewrite Hb. cbn [bind]. eapply IH, H.
Qed.

Lemma registered_In r resp : In r (registered resp) <-> In (Some r) resp.
Proof.
  unfold registered. rewrite in_flat_map. split.
  - intros ([x|] & Hin & Hx); simpl in Hx; [destruct Hx as [<- | []]; exact Hin | tauto].
  - intros H. exists (Some r). split; [exact H | left; reflexivity].
Qed.

Lemma oracle_of_clean w : reg_clean w -> oracle_clean (oracle_of w) (self_addr w).
Proof.
  intros Hc reg cs resp r H Hin. unfold oracle_of in H. simpl in H.
  destruct (reg =? reg_addr w); [|discriminate]. unfold get_multi in H.
  assert (E : resp = map (fun c => reg_lookup c (registry w)) cs) by (destruct cs; [discriminate | inversion H; reflexivity]).
  subst resp. apply registered_In in Hin. apply in_map_iff in Hin. destruct Hin as (c & Hc' & _). eapply Hc. exact Hc'.
Qed.

Lemma try_step_static w o w' out :
  try_step w o = Ok (w', out) ->
  kind w' = kind w /\ self_addr w' = self_addr w /\ pool_addr w' = pool_addr w.
Proof.
  assert (Hrm : forall w1 sender fs m fail, run_market w1 sender fs m fail = Ok (w', out) ->
            kind w' = kind w1 /\ self_addr w' = self_addr w1 /\ pool_addr w' = pool_addr w1).
  { intros w1 sender fs m fail H. apply run_market_inv in H. destruct H as (s' & _ & Hd & _).
    apply dispatch_static in Hd. destruct Hd as (_ & _ & Hk & _ & _ & _ & _ & Hs & _ & Hp). simpl in *. tauto. }
  unfold try_step. intros H. destruct o.
  - step H. apply Hrm in H. exact H.
  - destruct (kind w token); try discriminate. step H. apply Hrm in H. exact H.
  - destruct (kind w coll); try discriminate. step H. apply Hrm in H. exact H.
  - steps H; simpl; tauto.
  - steps H; simpl; tauto.
  - steps H; simpl; tauto.
  - steps H; simpl; tauto.
  - steps H; simpl; tauto.
  - steps H; simpl; tauto.
  - steps H; simpl; tauto.
Qed.

(** The core: the deposit is already in the marketplace's ledgers; the handler runs; its
    messages are dispatched. *)
Lemma run_market_backed w1 sender fs m fail w' out :
  Inv (market w1) -> reg_clean w1 -> pool_addr w1 <> self_addr w1 -> sender <> self_addr w1 ->
  (forall x, honest_asset w1 x -> held w1 x = owed x (market w1) + dep x sender fs m) ->
  run_market w1 sender fs m fail = Ok (w', out) ->
  forall x, honest_asset w1 x -> held w' x = owed x (market w').
Proof.
  intros I Hc Hp Hs Hheld H x Hx. apply run_market_inv in H. destruct H as (s' & He & Hd & Hm).
  apply dispatch_fail_none in Hd.
  pose proof (execute_recipients (self_addr w1) _ _ _ _ _ _ _ _ He Hs (oracle_of_clean _ Hc)) as Hr.
  pose proof (accounting x _ _ _ _ _ _ _ _ I He) as Ha.
  pose proof (dispatch_held _ _ _ _ x Hd Hr Hp) as Hh. simpl in Hh.
  assert (Hx' : honest_asset (set_market w1 s') x) by (destruct x; exact Hx).
  specialize (Hh Hx'). assert (E : held (set_market w1 s') x = held w1 x) by (destruct x; reflexivity).
  rewrite E, (Hheld x Hx) in Hh. rewrite Hm. lia.
Qed.

(** ** One step preserves the backing *)
Record good (w : world) : Prop := mkGood {
  g_inv : Inv (market w);
  g_clean : reg_clean w;
  g_pool : pool_addr w <> self_addr w;
  g_self : kind w (self_addr w) = KMarket;
  g_backed : backed w
}.

Lemma kind_ne w a b ka kb : kind w a = ka -> kind w b = kb -> ka <> kb -> a <> b.
Proof. intros H1 H2 Hne E. subst. congruence. Qed.

Lemma owns_other w a b c k : nft_owner w c k = Some a -> a <> b -> owns w b c k = 0.
Proof. intros H Hne. unfold owns. rewrite H. apply N.eqb_neq in Hne. rewrite Hne. reflexivity. Qed.

Theorem step_backed w o : good w -> outside_ok w o -> backed (fst (step w o)).
Proof.
  intros [Iv Hc Hp Hself Hb] Ho. rewrite step_fst. destruct (try_step w o) as [[w' out]|] eqn:H; [|exact Hb].
  destruct (try_step_static _ _ _ _ H) as (Hk & Hs & Hpl).
  assert (Hhon : forall x, honest_asset w' x <-> honest_asset w x) by (intros [d | t | c k]; simpl; rewrite ?Hk; tauto).
  intros x Hx. apply Hhon in Hx. unfold try_step in H. destruct o; simpl in Ho.
  - (* Exec *) destruct Ho as [Hne Hkind]. step H. rename x0 into b.
    eapply (run_market_backed (set_bank w b)); try eassumption.
    intros y Hy. simpl in Hy. destruct y as [d | t | c k]; simpl.
    + rewrite (pay_funds_dst _ _ _ _ _ d Hb0 Hne). rewrite <- (Hb (ANative d) Logic.I). reflexivity.
    + rewrite <- (Hb (ACw20 t) Hy). simpl.
      assert (sender <> t) by (destruct Hkind as [E | E]; eapply kind_ne; try eassumption; discriminate).
      destruct m; try lia. apply N.eqb_neq in H0. rewrite H0. lia.
    + rewrite <- (Hb (ANft c k) Hy). simpl.
      assert (sender <> c) by (destruct Hkind as [E | E]; eapply kind_ne; try eassumption; discriminate).
      unfold held, owns. simpl. destruct m; try lia. unfold pair_eqb. cbn [fst snd]. apply N.eqb_neq in H0. rewrite H0. simpl. lia.
  - (* Cw20Send *) destruct (kind w token) eqn:Hkt; try discriminate. step H. rename x0 into c.
    assert (Htok : token <> self_addr w) by (eapply kind_ne; try eassumption; discriminate).
    eapply (run_market_backed (set_cw20 w c)); try eassumption.
    intros y Hy. simpl in Hy. destruct y as [d | t | c' k]; simpl.
    + rewrite <- (Hb (ANative d) Logic.I). simpl. lia.
    + rewrite <- (Hb (ACw20 t) Hy). simpl. destruct (N.eqb_spec token t) as [->|Hn].
      * eapply cw20_move_dst; [exact Hb0 | exact Ho].
      * rewrite (cw20_move_other _ _ _ _ _ _ t (self_addr w) Hb0) by (left; congruence). lia.
    + rewrite <- (Hb (ANft c' k) Hy). unfold held, owns. simpl. lia.
  - (* NftSend *) destruct (kind w coll) eqn:Hkc; try discriminate. step H. rename x0 into n.
    assert (Hcol : coll <> self_addr w) by (eapply kind_ne; try eassumption; discriminate).
    eapply (run_market_backed (set_nft w n)); try eassumption.
    intros y Hy. simpl in Hy. destruct y as [d | t | c' k]; simpl.
    + rewrite <- (Hb (ANative d) Logic.I). simpl. lia.
    + rewrite <- (Hb (ACw20 t) Hy). simpl. lia.
    + rewrite <- (Hb (ANft c' k) Hy). simpl.
      destruct (nft_move_owns _ _ _ _ _ _ (self_addr w) c' k Hb0) as [O1 O2].
      unfold owns. simpl. fold (owns' n (self_addr w) c' k). fold (owns' (nft_owner w) (self_addr w) c' k).
      rewrite O2. unfold pair_eqb. cbn [fst snd]. rewrite (N.eqb_sym c' coll), (N.eqb_sym k tok).
      destruct ((coll =? c') && (tok =? k)) eqn:E; [|lia].
      apply andb_true_iff in E. destruct E as [E1 E2]. apply N.eqb_eq in E1, E2. subst c' k.
      rewrite N.eqb_refl.
      assert (Z : owns' (nft_owner w) (self_addr w) coll tok = 0).
      { unfold owns' in *. destruct (nft_owner w coll tok) as [o|]; [|reflexivity].
        destruct (N.eqb_spec o user); [|discriminate]. subst o. apply N.eqb_neq in Ho. rewrite Ho. reflexivity. }
      rewrite Z. reflexivity.
  - (* Cw20Xfer *) destruct Ho as [Hu Ht]. destruct (kind w token) eqn:Hkt; try discriminate. step H. inv H.
    match goal with |- _ = owed x (market ?w1) => change (market w1) with (market w) end. rewrite <- (Hb x Hx). destruct x as [d | t | c' k]; simpl; try reflexivity.
    apply (cw20_move_other _ _ _ _ _ _ t (self_addr w) Hb0). right. split; congruence.
  - (* NftXfer *) destruct Ho as [Hu Ht]. destruct (kind w coll) eqn:Hkc; try discriminate. step H. inv H.
    match goal with |- _ = owed x (market ?w1) => change (market w1) with (market w) end. rewrite <- (Hb x Hx). destruct x as [d | t | c' k]; simpl; try reflexivity.
    destruct (nft_move_owns _ _ _ _ _ _ (self_addr w) c' k Hb0) as [O1 O2].
    unfold owns. simpl. fold (owns' x0 (self_addr w) c' k). fold (owns' (nft_owner w) (self_addr w) c' k).
    rewrite O2. unfold pair_eqb. cbn [fst snd]. destruct ((c' =? coll) && (k =? tok)) eqn:E; [|reflexivity].
    apply andb_true_iff in E. destruct E as [E1 E2]. apply N.eqb_eq in E1, E2. subst c' k. apply N.eqb_neq in Ht. rewrite Ht.
    unfold owns' in *. destruct (nft_owner w coll tok) as [o|]; [|reflexivity].
    destruct (N.eqb_spec o user); [|discriminate]. subst o. apply N.eqb_neq in Hu. rewrite Hu. reflexivity.
  - (* BankXfer *) destruct Ho as [Hu Ht].
    remember (filter (fun c : denom * N => negb (snd c =? 0)) cs) as nz. destruct nz; [discriminate|]. step H. inv H.
    match goal with |- _ = owed x (market ?w1) => change (market w1) with (market w) end. rewrite <- (Hb x Hx). destruct x as [d | t | c' k]; simpl; try reflexivity.
    eapply bank_move_third; [exact Hb0 | congruence | congruence].
  - step H. inv H. match goal with |- _ = owed x (market ?w1) => change (market w1) with (market w) end. rewrite <- (Hb x Hx). destruct x; reflexivity.
  - step H; [|discriminate]. inv H. match goal with |- _ = owed x (market ?w1) => change (market w1) with (market w) end. rewrite <- (Hb x Hx). destruct x; reflexivity.
  - inv H. match goal with |- _ = owed x (market ?w1) => change (market w1) with (market w) end. rewrite <- (Hb x Hx). destruct x; reflexivity.
  - inv H. match goal with |- _ = owed x (market ?w1) => change (market w1) with (market w) end. rewrite <- (Hb x Hx). destruct x; reflexivity.
Qed.

Lemma step_reg_clean w o : reg_clean w -> outside_ok w o -> reg_clean (fst (step w o)).
Proof.
  intros Hc Ho. rewrite step_fst. destruct (try_step w o) as [[w' out]|] eqn:H; [|exact Hc].
  destruct (try_step_static _ _ _ _ H) as (_ & Hs & _). unfold reg_clean. rewrite Hs.
  destruct (try_step_registry _ _ _ _ H) as [E | (a & m & -> & Hr)]; [rewrite E; exact Hc|].
  simpl in Ho. intros c e Hl. destruct m as [c0 p b | c0 p b | c0].
  - destruct (register_effect _ _ _ _ _ _ _ _ Hr) as [E1 E2]. destruct (N.eq_dec c c0) as [->|Hn].
    + rewrite E1 in Hl. inv Hl. exact Ho.
    + rewrite (E2 c Hn) in Hl. eapply Hc, Hl.
  - destruct (update_effect _ _ _ _ _ _ _ _ Hr) as (e0 & L0 & E1 & E2). destruct (N.eq_dec c c0) as [->|Hn].
    + rewrite E1 in Hl. inv Hl. simpl. destruct p as [p|]; [exact Ho | eapply Hc, L0].
    + rewrite (E2 c Hn) in Hl. eapply Hc, Hl.
  - destruct (remove_effect _ _ _ _ _ _ Hr) as [E1 E2]. destruct (N.eq_dec c c0) as [->|Hn].
    + rewrite E1 in Hl. discriminate.
    + rewrite (E2 c Hn) in Hl. eapply Hc, Hl.
Qed.

Theorem step_good w o : good w -> outside_ok w o -> good (fst (step w o)).
Proof.
  intros G Ho. pose proof G as [Iv Hc Hp Hself Hb]. constructor.
  - apply step_Inv, Iv.
  - apply step_reg_clean; assumption.
  - rewrite step_fst. destruct (try_step w o) as [[w' out]|] eqn:H; [|exact Hp].
    destruct (try_step_static _ _ _ _ H) as (_ & Hs & Hpl). congruence.
  - rewrite step_fst. destruct (try_step w o) as [[w' out]|] eqn:H; [|exact Hself].
    destruct (try_step_static _ _ _ _ H) as (Hk & Hs & _). congruence.
  - apply step_backed; assumption.
Qed.

(** Histories that stay inside the deposit interface. *)
Fixpoint all_outside_ok (w : world) (ops : list op) : Prop :=
  match ops with [] => True | o :: r => outside_ok w o /\ all_outside_ok (fst (step w o)) r end.

Theorem run_good ops : forall w, good w -> all_outside_ok w ops -> good (run w ops).
Proof.
  unfold run. induction ops as [|o r IH]; simpl; intros w G Ha; [exact G|].
  destruct Ha as [Ho Hr]. apply IH; [apply step_good; assumption | exact Hr].
Qed.

(** A freshly instantiated marketplace that holds nothing, next to an empty registry. *)
Definition fresh (w : world) : Prop :=
  initial w /\ registry w = [] /\ pool_addr w <> self_addr w /\ kind w (self_addr w) = KMarket /\
  (forall d, bank w (self_addr w) d = 0) /\ (forall t, cw20bal w t (self_addr w) = 0) /\
  (forall c k, nft_owner w c k <> Some (self_addr w)).

Lemma fresh_good w : fresh w -> good w.
Proof.
  intros (Hi & Hr & Hp & Hs & Hb & Hc & Hn). constructor; try assumption.
  - destruct Hi as [t Ht]. eapply Inv_init, Ht.
  - unfold reg_clean. rewrite Hr. simpl. discriminate.
  - destruct Hi as [t Ht]. unfold reply_instantiate, instantiate in Ht. step Ht; [|discriminate]. inversion Ht as [E].
    intros x _. unfold owed. rewrite <- E. simpl. destruct x as [d | tk | c k]; simpl; [apply Hb | apply Hc |].
    unfold owns. specialize (Hn c k). destruct (nft_owner w c k) as [o|]; [|reflexivity].
    destruct (N.eqb_spec o (self_addr w)); [subst; congruence | reflexivity].
Qed.

(** C01: at every point of every history through the deposit interface, holdings equal
    obligations for every native denomination, every honest CW20 token and every NFT of every
    honest collection. *)
Theorem escrow_exactly_backed w ops : fresh w -> all_outside_ok w ops -> backed (run w ops).
Proof. intros F Ha. apply g_backed. apply run_good; [apply fresh_good, F | exact Ha]. Qed.

(** Reading the NFT part: a held NFT is recorded exactly once; a recorded NFT of an honest
    collection is held; nothing is recorded twice. *)
Theorem backed_nfts w c k :
  backed w -> kind w c = KCw721 ->
  (nft_owner w c k = Some (self_addr w) -> owed (ANft c k) (market w) = 1) /\
  (nft_owner w c k <> Some (self_addr w) -> owed (ANft c k) (market w) = 0) /\
  owed (ANft c k) (market w) <= 1.
Proof.
  intros Hb Hk. pose proof (Hb (ANft c k) Hk) as E. simpl in E. unfold owns in E. splits.
  - intros Ho. rewrite Ho, N.eqb_refl in E. lia.
  - intros Ho. destruct (nft_owner w c k) as [o|]; [|lia]. destruct (N.eqb_spec o (self_addr w)); [subst; congruence | lia].
  - destruct (nft_owner w c k) as [o|]; [destruct (o =? self_addr w)|]; lia.
Qed.

Lemma owed_nft_count s c k : owed (ANft c k) s = countP (c, k) (recorded_nfts s).
Proof.
  unfold owed, recorded_nfts, ssum, lval, bval. rewrite countP_app. f_equal.
  - induction (listings s) as [|e r IH]; [reflexivity|]. cbn [map flat_map]. rewrite countP_app, <- IH.
    change (sumN (?a :: ?l)) with (a + sumN l). simpl. lia.
  - induction (buckets s) as [|e r IH]; [reflexivity|]. cbn [map flat_map]. rewrite countP_app, <- IH.
    change (sumN (?a :: ?l)) with (a + sumN l). simpl. lia.
Qed.

(** The same statement in the vocabulary of Totals.v. *)
Theorem escrow_exactly_backed_totals w ops : fresh w -> all_outside_ok w ops ->
  let w' := run w ops in let me := self_addr w' in
  (forall d, bank w' me d = owed_native (market w') d) /\
  (forall t, kind w' t = KCw20 -> cw20bal w' t me = owed_cw20 (market w') t) /\
  (forall c k, kind w' c = KCw721 ->
     countP (c, k) (recorded_nfts (market w')) = if opt_eqb (nft_owner w' c k) (Some me) then 1 else 0).
Proof.
  intros F Ha w' me. pose proof (escrow_exactly_backed w ops F Ha) as Hb. fold w' in Hb. splits.
  - intros d. rewrite <- owed_native_eq. apply (Hb (ANative d) Logic.I).
  - intros t Hk. rewrite <- owed_cw20_eq. apply (Hb (ACw20 t) Hk).
  - intros c k Hk. rewrite <- owed_nft_count, <- (Hb (ANft c k) Hk). simpl. unfold owns, opt_eqb. fold me.
    destruct (nft_owner w' c k); reflexivity.
Qed.
