(** * BuyChain: when the published terms are met, the purchase succeeds on chain (step level). *)
From FM Require Export Accept.

Lemma royalty_msgs_payable mk a rs :
  a < U128 -> rates_le 10000 rs ->
  (forall to y, 0 < y -> y < U128 -> msg_payable (mk to y)) ->
  Forall msg_payable (royalty_msgs mk a rs).
Proof.
  intros Ha Hr Hmk. unfold royalty_msgs. rewrite Forall_forall. intros m Hm. apply in_flat_map in Hm.
  destruct Hm as (r & Hin & Hm). unfold rates_le in Hr. rewrite Forall_forall in Hr. specialize (Hr r Hin). cbv zeta in Hm.
  destruct (N.eqb_spec (a * bps r / 10000) 0) as [E | E]; [destruct Hm|]. destruct Hm as [<- | []].
  apply Hmk; [lia|]. assert (a * bps r / 10000 <= a) by (apply N.div_le_upper_bound; nia). lia.
Qed.

Lemma vec_msgs_payable mk rs l :
  amounts_ok l -> rates_le 10000 rs ->
  (forall k to y, 0 < y -> y < U128 -> msg_payable (mk k to y)) ->
  Forall msg_payable (vec_msgs mk rs l).
Proof.
  intros Ha Hr Hmk. unfold vec_msgs. rewrite Forall_forall. intros m Hm. apply in_flat_map in Hm.
  destruct Hm as ([k a] & Hin & Hm). unfold amounts_ok in Ha. rewrite Forall_forall in Ha. specialize (Ha _ Hin). simpl in *.
  pose proof (royalty_msgs_payable (mk k) a rs Ha Hr (Hmk k)) as F. rewrite Forall_forall in F. apply F, Hm.
Qed.

Lemma royalty_out_payable rs g : wf_amounts g -> total_bps rs <= 5000 -> Forall msg_payable (royalty_out rs g).
Proof.
  intros [Hn Hc] Ht. assert (Hr : rates_le 10000 rs) by (apply rates_le_total; lia).
  unfold royalty_out. apply Forall_app. split; apply vec_msgs_payable; try assumption.
  - intros k to y H0 H1. simpl. unfold strict_coins. simpl. apply N.eqb_neq in H0 || idtac.
    assert (E : (y =? 0) = false) by (apply N.eqb_neq; lia). rewrite E. reflexivity.
  - intros k to y H0 H1. simpl. lia.
Qed.

Lemma royalty_msgs_tokens mk a rs (P : out_msg -> Prop) : (forall to y, P (mk to y)) -> Forall P (royalty_msgs mk a rs).
Proof.
  intros HP. unfold royalty_msgs. rewrite Forall_forall. intros m Hm. apply in_flat_map in Hm. destruct Hm as (r & _ & Hm).
  cbv zeta in Hm. destruct (_ =? 0); [destruct Hm|]. destruct Hm as [<- | []]. apply HP.
Qed.

Lemma royalty_out_honest w rs g : Forall (fun c => kind w (fst c) = KCw20) (cw20 g) -> Forall (msg_honest w) (royalty_out rs g).
Proof.
  intros Hc. unfold royalty_out, vec_msgs. apply Forall_app. split.
  - rewrite Forall_forall. intros m Hm. apply in_flat_map in Hm. destruct Hm as ([k a] & _ & Hm).
    pose proof (royalty_msgs_tokens (fun to y => BankSend to [(k, y)]) a rs (msg_honest w) (fun _ _ => Logic.I)) as F.
    rewrite Forall_forall in F. apply F, Hm.
  - rewrite Forall_forall in *. intros m Hm. apply in_flat_map in Hm. destruct Hm as ([k a] & Hin & Hm).
    pose proof (royalty_msgs_tokens (fun to y => Cw20Transfer k to y) a rs (msg_honest w)) as F.
    rewrite Forall_forall in F. apply F; [|exact Hm]. intros to y. simpl. apply (Hc (k, a) Hin).
Qed.

(** If the terms are met, the buyer is a user account, and the CW20 tokens on both sides are
    honest, the purchase operation succeeds on chain: the handler accepts (C02) and every royalty
    payment and the flushed fee are payable, covered (conservation + backed holdings) and
    dispatched. *)
Theorem step_buy_complete w a l_id b_id :
  good w -> reg_link w -> a <> self_addr w -> l_id < U64 -> b_id < U64 ->
  terms_met w a l_id b_id ->
  (forall kl l b, find_by_id l_id (listings (market w)) = Some (kl, l) -> find_key (a, b_id) (buckets (market w)) = Some b ->
     Forall (fun c => kind w (fst c) = KCw20) (cw20 (for_sale l)) /\ Forall (fun c => kind w (fst c) = KCw20) (cw20 (funds b))) ->
  ok (snd (step w (Exec a [] (BuyListing l_id b_id) None))) = true.
Proof.
  intros G L Ha H1 H2 Ht Hh. pose proof G as [Iv Hc Hp Hself Hb].
  assert (Hok : is_ok (execute (oracle_of w) (env_of w) a [] (BuyListing l_id b_id) (market w)) = true)
    by (apply buy_accepted_iff; try assumption; tauto).
  destruct (execute (oracle_of w) (env_of w) a [] (BuyListing l_id b_id) (market w)) as [[s' out]|] eqn:He; [|discriminate].
  pose proof He as He2. apply execute_buy_inv in He2. destruct He2 as [Hbuy _].
  destruct (buy_price _ _ _ _ _ _ Iv L Hbuy) as (kl & l & b & l_fee & l_bal & b_fee & b_bal & Hfl & Hfb & Hlf & Hbf & Hts & Htb & _ & _ & Hout).
  destruct (Hh kl l b Hfl Hfb) as [HhL HhB].
  destruct (Inv_find_bucket _ _ _ Iv Hfb) as [Wb _]. destruct (Inv_find_by_id _ _ _ _ Iv Hfl) as (Wl & _).
  destruct (calc_fee_wf _ _ _ _ Hlf (wl_goods _ _ Wl)) as (Lw & _ & Lc & _).
  destruct (calc_fee_wf _ _ _ _ Hbf (wb_funds _ _ Wb)) as (Bw & _ & Bc & _).
  apply (exec_step_ok w a (BuyListing l_id b_id) s' out He).
  apply dispatch_ok; simpl.
  - rewrite Hout. apply Forall_app. split; [apply royalty_out_payable; [apply wf_gbal_amounts, Bw | exact Hts]|].
    apply Forall_app. split; [apply royalty_out_payable; [apply wf_gbal_amounts, Lw | exact Htb]|].
    destruct (bfee b) as [[d x]|] eqn:Ef; simpl; [|constructor]. constructor; [|constructor]. simpl. apply (wb_fee _ _ Wb d x Ef).
  - apply (execute_recipients (self_addr w) _ _ _ _ _ _ _ _ He Ha (oracle_of_clean _ Hc)).
  - rewrite Hout. apply Forall_app. split; [|apply Forall_app; split].
    + pose proof (royalty_out_honest w (registered (lookups w (colls_of (for_sale l)))) b_bal) as F. rewrite Bc in F. specialize (F HhB).
      rewrite Forall_forall in *. intros m Hm. specialize (F m Hm). destruct m; exact F.
    + pose proof (royalty_out_honest w (registered (lookups w (colls_of (funds b)))) l_bal) as F. rewrite Lc in F. specialize (F HhL).
      rewrite Forall_forall in *. intros m Hm. specialize (F m Hm). destruct m; exact F.
    + destruct (bfee b); simpl; repeat constructor.
  - exact Hp.
  - intros x Hx. assert (Hx' : honest_asset w x) by (destruct x; exact Hx).
    assert (E : held (set_market w s') x = held w x) by (destruct x; reflexivity). rewrite E, (Hb x Hx').
    pose proof (accounting x _ _ _ _ _ _ _ _ Iv He) as Hacc.
    assert (Hd : dep x a [] (BuyListing l_id b_id) = 0) by (destruct x; reflexivity). lia.
Qed.
