(** * BuySpec: a purchase succeeds exactly when the published terms are met (C02), and costs
    exactly the fee plus the registered royalties (C06, C11 at purchase level). *)
From FM Require Export Hostile.

(** ** The royalty split without any assumption on the registry *)
Lemma rates_le_total rs m : total_bps rs <= m -> rates_le m rs.
Proof.
  unfold rates_le. induction rs as [|r t IH]; simpl; intros H; constructor; [lia | apply IH; lia].
Qed.

Theorem royalties_exact g resp :
  wf_amounts g -> let rs := registered resp in total_bps rs <= 5000 ->
  royalties g resp =
    Ok (vec_msgs (fun d to x => BankSend to [(d, x)]) rs (native g)
        ++ vec_msgs (fun t to x => Cw20Transfer t to x) rs (cw20 g),
        total_bps rs,
        mkG (reduce rs (native g)) (reduce rs (cw20 g)) (nfts g)).
Proof.
  intros [Hn Hc] rs Ht. unfold royalties. fold rs.
  rewrite sum_bps_total by (pose proof U64_big; lia). cbn [bind].
  assert (Hcap : ROYALTY_CAP <? total_bps rs = false) by (apply N.ltb_ge; exact Ht).
  rewrite Hcap.
  assert (Hr' : rates_le 10000 rs) by (apply rates_le_total; lia).
  rewrite !royalties_vec_spec by assumption. reflexivity.
Qed.

Lemma vec_msgs_nil mk l : vec_msgs mk [] l = [].
Proof. unfold vec_msgs. induction l as [|c r IH]; simpl; [reflexivity | exact IH]. Qed.

Lemma reduce_nil l : reduce [] l = l.
Proof.
  unfold reduce. induction l as [|[k a] r IH]; simpl; [reflexivity|]. rewrite IH. f_equal. f_equal.
  unfold pay_sum. simpl. lia.
Qed.

(** ** De-duplication of collections (the code collects into a [BTreeSet]) *)
Lemma dedupN_In x l : In x (dedupN l) <-> In x l.
Proof.
  induction l as [|y r IH]; simpl; [tauto|]. rewrite filter_In, IH. split.
  - intros [H | [H _]]; tauto.
  - intros [H | H]; [tauto|]. dN y x; [tauto|]. right. split; [exact H|].
    apply negb_true_iff, N.eqb_neq. congruence.
Qed.

Lemma dedupN_NoDup l : NoDup (dedupN l).
Proof.
  induction l as [|y r IH]; simpl; constructor.
  - intros H. apply filter_In in H. destruct H as [_ H]. rewrite N.eqb_refl in H. discriminate.
  - apply NoDup_filter, IH.
Qed.

(** ** Comparison of bucket and ask *)
Definition same_assets (g h : gbal) : Prop :=
  Permutation (native g) (native h) /\ Permutation (cw20 g) (cw20 h) /\ Permutation (nfts g) (nfts h).

Lemma list_cmp_perm one two : NoDup one -> NoDup two -> (list_cmp one two = true <-> Permutation one two).
Proof.
  intros H1 H2. unfold list_cmp. split.
  - intros H. apply andb_true_iff in H. destruct H as [Hf Hl]. apply Nat.eqb_eq in Hl.
    apply NoDup_Permutation_bis; [exact H1 | lia|].
    intros x Hx. rewrite forallb_forall in Hf. apply memP_In, Hf, Hx.
  - intros P. apply andb_true_iff. split.
    + apply forallb_forall. intros x Hx. apply memP_In. eapply Permutation_in; eassumption.
    + apply Nat.eqb_eq. apply Permutation_length, P.
Qed.

Lemma NoDup_of_keys (l : list (N * N)) : NoDup (map fst l) -> NoDup l.
Proof. apply NoDup_map_inv. Qed.

Theorem genbal_cmp_iff g h : wf_gbal g -> wf_gbal h -> (genbal_cmp g h = true <-> same_assets g h).
Proof.
  intros [_ _ _ G4 G5 G6] [_ _ _ H4 H5 H6]. unfold genbal_cmp, same_assets.
  rewrite !andb_true_iff.
  rewrite (list_cmp_perm (native g) (native h)) by (apply NoDup_of_keys; assumption).
  rewrite (list_cmp_perm (cw20 g) (cw20 h)) by (apply NoDup_of_keys; assumption).
  rewrite (list_cmp_perm (nfts g) (nfts h)) by assumption. tauto.
Qed.

(** ** The registry the marketplace consults is the one it instantiated *)
Definition reg_link (w : world) : Prop := registry_item (market w) = Some (reg_addr w).

Lemma try_step_reg_addr w o w' out : try_step w o = Ok (w', out) -> reg_addr w' = reg_addr w.
Proof.
  unfold try_step. intros H. destruct o.
  - step H. apply run_market_inv in H. destruct H as (s' & _ & Hd & _). apply dispatch_static in Hd.
    destruct Hd as (_ & _ & _ & _ & _ & _ & _ & _ & Hr & _). exact Hr.
  - destruct (kind w token); try discriminate. step H. apply run_market_inv in H. destruct H as (s' & _ & Hd & _).
    apply dispatch_static in Hd. destruct Hd as (_ & _ & _ & _ & _ & _ & _ & _ & Hr & _). exact Hr.
  - destruct (kind w coll); try discriminate. step H. apply run_market_inv in H. destruct H as (s' & _ & Hd & _).
    apply dispatch_static in Hd. destruct Hd as (_ & _ & _ & _ & _ & _ & _ & _ & Hr & _). exact Hr.
  - steps H; reflexivity.
  - steps H; reflexivity.
  - steps H; reflexivity.
  - steps H; reflexivity.
  - steps H; reflexivity.
  - steps H; reflexivity.
  - steps H; reflexivity.
Qed.

Theorem step_reg_link w o : reg_link w -> reg_link (fst (step w o)).
Proof.
  unfold reg_link. intros L. rewrite step_fst. destruct (try_step w o) as [[w' out]|] eqn:H; [|exact L].
  rewrite (try_step_reg_addr _ _ _ _ H).
  destruct (op_msg o) as [m|] eqn:Hm.
  - destruct (try_step_exec _ _ _ _ _ H Hm) as (w0 & _ & _ & _ & _ & _ & _ & _ & He).
    rewrite (execute_regitem_frame _ _ _ _ _ _ _ _ He). exact L.
  - pose proof (try_step_nomsg _ _ _ _ H Hm) as Q. rewrite Q. exact L.
Qed.

Theorem run_reg_link ops : forall w, reg_link w -> reg_link (run w ops).
Proof. unfold run. induction ops as [|o r IH]; simpl; intros w L; [exact L | apply IH, step_reg_link, L]. Qed.

Theorem initial_reg_link w : initial w -> reg_link w.
Proof.
  intros [t Ht]. unfold reg_link. unfold reply_instantiate, instantiate in Ht. step Ht; [|discriminate].
  inversion Ht as [E]. reflexivity.
Qed.

(** ** One side's royalties, as the modelled chain answers the registry query *)
Definition lookups (w : world) (colls : list addr) : list (option rinfo) :=
  map (fun c => reg_lookup c (registry w)) colls.

Definition due (w : world) (colls : list addr) : N := total_bps (registered (lookups w colls)).

Theorem side_royalties_spec w colls g :
  wf_amounts g ->
  let rs := registered (lookups w colls) in
  side_royalties (oracle_of w) (reg_addr w) colls g =
    if 5000 <? due w colls then Err
    else Ok (vec_msgs (fun d to x => BankSend to [(d, x)]) rs (native g)
             ++ vec_msgs (fun t to x => Cw20Transfer t to x) rs (cw20 g),
             mkG (reduce rs (native g)) (reduce rs (cw20 g)) (nfts g)).
Proof.
  intros Hw rs. unfold side_royalties, due. fold rs. destruct colls as [|c r].
  - subst rs. simpl. rewrite !vec_msgs_nil, !reduce_nil. destruct g; reflexivity.
  - assert (Hq : registry_multi (oracle_of w) (reg_addr w) (c :: r) = Ok (lookups w (c :: r))).
    { unfold oracle_of. simpl. rewrite N.eqb_refl. reflexivity. }
    rewrite Hq. cbn [bind]. destruct (5000 <? total_bps rs) eqn:E.
    + apply N.ltb_lt in E. rewrite royalties_gate by exact E. reflexivity.
    + apply N.ltb_ge in E. rewrite (royalties_exact g (lookups w (c :: r)) Hw E). reflexivity.
Qed.

(** ** C02: the purchase is accepted exactly when the published terms are met *)
Definition colls_of (g : gbal) : list addr := dedupN (map fst (nfts g)).

Definition terms_met (w : world) (a : addr) (l_id b_id : N) : Prop :=
  let s := market w in
  exists kl l b,
    find_by_id l_id (listings s) = Some (kl, l) /\ find_key (a, b_id) (buckets s) = Some b /\
    lstatus l = FinalizedReady /\ (wl l = None \/ wl l = Some a) /\
    same_assets (funds b) (ask l) /\
    (forall x, exp l = Some x -> wnow w <= x) /\
    due w (colls_of (for_sale l)) <= 5000 /\ due w (colls_of (funds b)) <= 5000.

Lemma status_eqb_eq a b : status_eqb a b = true <-> a = b.
Proof. destruct a, b; simpl; split; intros; try reflexivity; discriminate. Qed.

Theorem buy_sound w a l_id b_id s' out :
  Inv (market w) -> reg_link w ->
  execute_buy_listing (oracle_of w) (env_of w) a l_id b_id (market w) = Ok (s', out) ->
  terms_met w a l_id b_id.
Proof.
  intros I L H. apply buy_inv in H.
  destruct H as (bk & kl & l & l_fee & l_bal & b_fee & b_bal & reg & m1 & final_b & m2 & final_l &
                 Hfb & Hfl & Hown & Hcmp & Hst & Hwl & Hcl & Hexp & Hlf & Hbf & Hreg & Hr1 & Hr2 & _).
  destruct (Inv_find_bucket _ _ _ I Hfb) as [Wb _]. destruct (Inv_find_by_id _ _ _ _ I Hfl) as (Wl & _).
  unfold reg_link in L. rewrite L in Hreg. inv Hreg.
  destruct (calc_fee_wf _ _ _ _ Hlf (wl_goods _ _ Wl)) as (Lw & _).
  destruct (calc_fee_wf _ _ _ _ Hbf (wb_funds _ _ Wb)) as (Bw & _).
  exists kl, l, bk. splits; try assumption.
  - apply genbal_cmp_iff; [apply (wb_funds _ _ Wb) | apply (wl_ask _ _ Wl) | exact Hcmp].
  - rewrite side_royalties_spec in Hr1 by (apply wf_gbal_amounts, Bw). unfold colls_of.
    destruct (5000 <? due w (dedupN (map fst (nfts (for_sale l))))) eqn:E; [discriminate|]. apply N.ltb_ge, E.
  - rewrite side_royalties_spec in Hr2 by (apply wf_gbal_amounts, Lw). unfold colls_of.
    destruct (5000 <? due w (dedupN (map fst (nfts (funds bk))))) eqn:E; [discriminate|]. apply N.ltb_ge, E.
Qed.

Theorem buy_complete w a l_id b_id :
  Inv (market w) -> reg_link w -> terms_met w a l_id b_id ->
  is_ok (execute_buy_listing (oracle_of w) (env_of w) a l_id b_id (market w)) = true.
Proof.
  intros I L (kl & l & b & Hfl & Hfb & Hst & Hwl & Hsame & Hexp & Hd1 & Hd2).
  destruct (Inv_find_bucket _ _ _ I Hfb) as [Wb Hinb]. destruct (Inv_find_by_id _ _ _ _ I Hfl) as (Wl & Hinl & Hid & Hk & Hfk).
  pose proof (wl_life _ _ Wl) as Life. unfold life_ok in Life. rewrite Hst in Life. destruct Life as (Hcl & _).
  unfold execute_buy_listing. rewrite Hfb, Hfl.
  assert (E1 : a =? owner b = true) by (apply N.eqb_eq; rewrite <- (wb_key _ _ Wb); reflexivity). rewrite E1. cbn [negb].
  assert (E2 : genbal_cmp (funds b) (ask l) = true)
    by (apply genbal_cmp_iff; [apply (wb_funds _ _ Wb) | apply (wl_ask _ _ Wl) | exact Hsame]). rewrite E2. cbn [negb].
  rewrite Hst. cbn [status_eqb negb].
  assert (E3 : (match wl l with None => true | Some w0 => w0 =? a end) = true)
    by (destruct Hwl as [-> | ->]; [reflexivity | apply N.eqb_refl]). rewrite E3. cbn [negb].
  rewrite Hcl. cbn [is_some].
  assert (E4 : (match exp l with Some x => x <? now (env_of w) | None => false end) = false).
  { destruct (exp l) as [x|] eqn:Ex; [|reflexivity]. apply N.ltb_ge. unfold env_of. simpl. apply Hexp. reflexivity. }
  rewrite E4.
  destruct (calc_fee_total_exact (fee (market w)) (for_sale l) (wf_gbal_amounts _ (wl_goods _ _ Wl)) (wg_nd_native _ (wl_goods _ _ Wl)))
    as (l_fee & l_bal & Hlf & _ & _ & _ & _ & _ & _ & _ & Lw & _).
  destruct (calc_fee_total_exact (fee (market w)) (funds b) (wf_gbal_amounts _ (wb_funds _ _ Wb)) (wg_nd_native _ (wb_funds _ _ Wb)))
    as (b_fee & b_bal & Hbf & _ & _ & _ & _ & _ & _ & _ & Bw & _).
  rewrite Hlf, Hbf. cbn [bind]. unfold reg_link in L. rewrite L.
  rewrite (side_royalties_spec w _ b_bal Bw). unfold colls_of in *.
  assert (E5 : 5000 <? due w (dedupN (map fst (nfts (for_sale l)))) = false) by (apply N.ltb_ge, Hd1). rewrite E5. cbn [bind].
  rewrite (side_royalties_spec w _ l_bal Lw).
  assert (E6 : 5000 <? due w (dedupN (map fst (nfts (funds b)))) = false) by (apply N.ltb_ge, Hd2). rewrite E6. cbn [bind].
  rewrite save_listing_complete; [reflexivity|].
  intros k' v' Hin' Hne Heq. simpl in Heq. apply In_remove_key in Hin'. destruct Hin' as [Hin' Hne'].
  destruct (lids_unique _ _ _ _ _ I Hinl Hin' Heq) as [Ek _]. apply Hne'. rewrite Ek, Hk. reflexivity.
Qed.

Theorem buy_accepted_iff w a fs l_id b_id :
  Inv (market w) -> reg_link w ->
  (is_ok (execute (oracle_of w) (env_of w) a fs (BuyListing l_id b_id) (market w)) = true <->
   fs = [] /\ l_id < U64 /\ b_id < U64 /\ terms_met w a l_id b_id).
Proof.
  intros I L. split.
  - intros H. destruct (execute _ _ a fs (BuyListing l_id b_id) (market w)) as [[s' out]|] eqn:E; [|discriminate].
    pose proof E as E'. apply execute_buy_inv in E'. destruct E' as [Hb ->].
    unfold execute in E. step E; [discriminate|]. step E; [|discriminate].
    apply andb_true_iff in Hc0. destruct Hc0 as [Hc0 _]. apply andb_true_iff in Hc0. destruct Hc0 as [H1 H2].
    apply N.ltb_lt in H1, H2. splits; try assumption; try reflexivity. eapply buy_sound; eassumption.
  - intros (-> & H1 & H2 & Ht). unfold execute. cbn [coins_in_range forallb negb].
    apply N.ltb_lt in H1, H2. rewrite H1, H2. cbn [no_funds andb]. apply buy_complete; assumption.
Qed.

(** ** C06: what a purchase costs *)
Definition fee_part (fd : feedenom) (d a : N) : N := if d =? fee_denom_value fd then a * 5 / 1000 else 0.
Definition net (fd : feedenom) (rs : list rinfo) (d a : N) : N :=
  (a - fee_part fd d a) - pay_sum (a - fee_part fd d a) rs.

Definition after_royalties (rs : list rinfo) (g : gbal) : gbal :=
  mkG (reduce rs (native g)) (reduce rs (cw20 g)) (nfts g).
Definition royalty_out (rs : list rinfo) (g : gbal) : list out_msg :=
  vec_msgs (fun d to x => BankSend to [(d, x)]) rs (native g) ++ vec_msgs (fun t to x => Cw20Transfer t to x) rs (cw20 g).

(** Structural form: the two records after the purchase and the messages, exactly. *)
Theorem buy_price w a l_id b_id s' out :
  Inv (market w) -> reg_link w ->
  execute_buy_listing (oracle_of w) (env_of w) a l_id b_id (market w) = Ok (s', out) ->
  exists kl l b l_fee l_bal b_fee b_bal,
    find_by_id l_id (listings (market w)) = Some (kl, l) /\ find_key (a, b_id) (buckets (market w)) = Some b /\
    calc_fee_coin (fee (market w)) (for_sale l) = Ok (l_fee, l_bal) /\
    calc_fee_coin (fee (market w)) (funds b) = Ok (b_fee, b_bal) /\
    let rs_s := registered (lookups w (colls_of (for_sale l))) in   (* collections the seller sells: charged to the bucket *)
    let rs_b := registered (lookups w (colls_of (funds b))) in      (* collections the buyer pays with: charged to the goods *)
    total_bps rs_s <= 5000 /\ total_bps rs_b <= 5000 /\
    find_key (a, l_id) (listings s') =
      Some (mkL a (lid l) (fin l) (exp l) Closed (Some a) (wl l) (after_royalties rs_b l_bal) (ask l) l_fee) /\
    find_key (creator l, b_id) (buckets s') = Some (mkB (creator l) (after_royalties rs_s b_bal) b_fee) /\
    out = royalty_out rs_s b_bal ++ royalty_out rs_b l_bal ++ fee_msgs (self_addr w) (bfee b).
Proof.
  intros I L H. pose proof (buy_sound _ _ _ _ _ _ I L H) as (kl0 & l0 & b0 & T1 & T2 & _ & _ & _ & _ & Hd1 & Hd2).
  apply buy_inv in H.
  destruct H as (bk & kl & l & l_fee & l_bal & b_fee & b_bal & reg & m1 & final_b & m2 & final_l &
                 Hfb & Hfl & Hown & Hcmp & Hst & Hwl & Hcl & Hexp & Hlf & Hbf & Hreg & Hr1 & Hr2 & _ & -> & ->).
  rewrite Hfl in T1. inv T1. rewrite Hfb in T2. inv T2.
  destruct (Inv_find_bucket _ _ _ I Hfb) as [Wb _]. destruct (Inv_find_by_id _ _ _ _ I Hfl) as (Wl & _).
  unfold reg_link in L. rewrite L in Hreg. inv Hreg.
  destruct (calc_fee_wf _ _ _ _ Hlf (wl_goods _ _ Wl)) as (Lw & _).
  destruct (calc_fee_wf _ _ _ _ Hbf (wb_funds _ _ Wb)) as (Bw & _).
  rewrite side_royalties_spec in Hr1 by (apply wf_gbal_amounts, Bw).
  rewrite side_royalties_spec in Hr2 by (apply wf_gbal_amounts, Lw).
  unfold colls_of, due in *.
  assert (E1 : 5000 <? total_bps (registered (lookups w (dedupN (map fst (nfts (for_sale l0)))))) = false) by (apply N.ltb_ge, Hd1).
  assert (E2 : 5000 <? total_bps (registered (lookups w (dedupN (map fst (nfts (funds b0)))))) = false) by (apply N.ltb_ge, Hd2).
  unfold due in Hr1, Hr2. rewrite E1 in Hr1. rewrite E2 in Hr2. inv Hr1. inv Hr2.
  exists kl0, l0, b0, l_fee, l_bal, b_fee, b_bal. sstate. splits; try assumption; try reflexivity.
  all: try apply find_key_put_same.
  all: try (unfold royalty_out; rewrite <- !app_assoc; reflexivity).
Qed.

(** Per-asset form of one side: each fungible amount is reduced by exactly floor(0.5 %) when it
    is in the fee denomination and then by floor(bps/10000 x post-fee amount) for every
    registered collection; NFTs and everything else are untouched. *)
Theorem side_amounts fd g fee g1 rs :
  wf_gbal g -> calc_fee_coin fd g = Ok (fee, g1) -> total_bps rs <= 5000 ->
  let fv := fee_denom_value fd in
  (forall d, amount_of d (native (after_royalties rs g1)) = net fd rs d (amount_of d (native g))) /\
  (forall t, amount_of t (cw20 (after_royalties rs g1)) = amount_of t (cw20 g) - pay_sum (amount_of t (cw20 g)) rs) /\
  nfts (after_royalties rs g1) = nfts g /\
  fee_amt fv fee = amount_of fv (native g) * 5 / 1000 /\
  (fee = None <-> amount_of fv (native g) * 5 / 1000 = 0) /\
  (forall d a, fee = Some (d, a) -> d = fv /\ 0 < a).
Proof.
  intros W Hf Ht fv.
  destruct (calc_fee_total_exact fd g (wf_gbal_amounts _ W) (wg_nd_native _ W))
    as (fee' & g' & Hf' & Hn & Hc & Hoth & Hsum & Hamt & Hnone & Hsome & _ & Hnd & _).
  rewrite Hf in Hf'. inv Hf'. fold fv in Hoth, Hsum, Hamt, Hnone, Hsome.
  unfold after_royalties. cbn [native cw20 nfts]. splits; try assumption.
  - intros d. pose proof (amount_of_reduce_nodup d rs (native g') Hnd Ht) as Hr.
    unfold net, fee_part. fold fv. dN d fv.
    + subst d. assert (amount_of fv (native g') = amount_of fv (native g) - amount_of fv (native g) * 5 / 1000) by lia.
      rewrite <- H. lia.
    + rewrite <- (Hoth d n). rewrite N.sub_0_r. lia.
  - intros t. rewrite Hc. pose proof (amount_of_reduce_nodup t rs (cw20 g) (wg_nd_cw20 _ W) Ht). lia.
Qed.

(** Each registered collection is charged once per side however many of its NFTs are there. *)
Theorem colls_once g : NoDup (colls_of g) /\ (forall c, In c (colls_of g) <-> exists k, In (c, k) (nfts g)).
Proof.
  unfold colls_of. split; [apply dedupN_NoDup|]. intros c. rewrite dedupN_In, in_map_iff. split.
  - intros ([c' k] & <- & Hin). exists k. exact Hin.
  - intros [k Hin]. exists (c, k). split; [reflexivity | exact Hin].
Qed.

(** C11 at purchase level. *)
Theorem over_half_refused w a fs l_id b_id kl l b :
  Inv (market w) -> reg_link w ->
  find_by_id l_id (listings (market w)) = Some (kl, l) -> find_key (a, b_id) (buckets (market w)) = Some b ->
  (5000 < due w (colls_of (for_sale l)) \/ 5000 < due w (colls_of (funds b))) ->
  execute (oracle_of w) (env_of w) a fs (BuyListing l_id b_id) (market w) = Err.
Proof.
  intros I L Hfl Hfb Hd.
  destruct (execute _ _ a fs (BuyListing l_id b_id) (market w)) as [r|] eqn:E; [|reflexivity]. exfalso.
  assert (Hok : is_ok (execute (oracle_of w) (env_of w) a fs (BuyListing l_id b_id) (market w)) = true) by (rewrite E; reflexivity).
  apply buy_accepted_iff in Hok; try assumption. destruct Hok as (_ & _ & _ & (kl' & l' & b' & T1 & T2 & _ & _ & _ & _ & D1 & D2)).
  rewrite Hfl in T1. inv T1. rewrite Hfb in T2. inv T2. lia.
Qed.

(** Step level: a successful purchase operation meets the terms. *)
Theorem step_buy_sound w a fs l_id b_id fail :
  Inv (market w) -> reg_link w ->
  ok (snd (step w (Exec a fs (BuyListing l_id b_id) fail))) = true ->
  fs = [] /\ terms_met w a l_id b_id.
Proof.
  intros I L Hok. apply step_ok_try in Hok. destruct Hok as [out H].
  unfold try_step in H. step H. unfold run_market in H. step H. destruct x0 as [s' o']. step H. inv H.
  assert (Hok : is_ok (execute (oracle_of (set_bank w x)) (env_of (set_bank w x)) a fs (BuyListing l_id b_id) (market (set_bank w x))) = true)
    by (rewrite Hb0; reflexivity).
  assert (E : forall fs', execute (oracle_of (set_bank w x)) (env_of (set_bank w x)) a fs' (BuyListing l_id b_id) (market (set_bank w x)) =
              execute (oracle_of w) (env_of w) a fs' (BuyListing l_id b_id) (market w)) by reflexivity.
  rewrite E in Hok. apply buy_accepted_iff in Hok; try assumption. tauto.
Qed.
