(** * CallSeq: sold once, claimed once — under *every* interleaving of marketplace calls.

    CosmWasm commits a contract's state before its messages are dispatched, and a failing call
    is rolled back.  So whatever happens around the marketplace — competing users, hostile
    contracts re-entering at any depth during any dispatch — its state evolves by a sequence of
    *successful* [execute] calls, each with an arbitrary sender, arbitrary coins, arbitrary
    oracle answers and block time.  [mreach s s'] is that closure.  The theorems below need no
    model of the chain at all: they hold for every such sequence, hence for every schedule and
    every re-entrancy pattern. *)
From FM Require Export Offer.

Inductive mreach : mstate -> mstate -> Prop :=
| mr_refl s : mreach s s
| mr_step s s1 s2 o e sender fs m out :
    mreach s s1 -> execute o e sender fs m s1 = Ok (s2, out) -> mreach s s2.

Lemma mreach_Inv s s' : mreach s s' -> Inv s -> Inv s'.
Proof. induction 1 as [|s s1 s2 o e sender fs m out _ IH He]; intros I; [exact I|]. eapply execute_pres; [apply IH, I | exact He]. Qed.

Lemma mreach_trans a b c : mreach a b -> mreach b c -> mreach a c.
Proof. intros H1 H2. induction H2 as [|s s1 s2 o e sender fs m out _ IH He]; [exact H1|]. eapply mr_step; [apply IH, H1 | exact He]. Qed.

Lemma mreach_lrank s s' id : mreach s s' -> Inv s -> (lrank s id <= lrank s' id)%nat.
Proof.
  induction 1 as [|s s1 s2 o e sender fs m out Hr IH He]; intros I; [lia|].
  pose proof (IH I). pose proof (execute_rank_mono _ _ _ _ _ _ _ _ id (mreach_Inv _ _ Hr I) He). lia.
Qed.

Lemma mreach_brank s s' id : mreach s s' -> Inv s -> (brank s id <= brank s' id)%nat.
Proof.
  induction 1 as [|s s1 s2 o e sender fs m out Hr IH He]; intros I; [lia|].
  pose proof (IH I). pose proof (execute_brank_mono _ _ _ _ _ _ _ _ id (mreach_Inv _ _ Hr I) He). lia.
Qed.

(** A listing that has been sold is never sold again. *)
Theorem sold_once s o e a fs l_id b_id s1 out s2 o' e' a' fs' b_id' :
  Inv s -> execute o e a fs (BuyListing l_id b_id) s = Ok (s1, out) -> mreach s1 s2 ->
  is_ok (execute o' e' a' fs' (BuyListing l_id b_id') s2) = false.
Proof.
  intros I H1 Hr. pose proof (execute_pres _ _ _ _ _ _ _ _ I H1) as I1.
  destruct (buy_rank _ _ _ _ _ _ _ _ _ I H1) as [_ E1].
  pose proof (mreach_lrank _ _ l_id Hr I1) as Hm. pose proof (mreach_Inv _ _ Hr I1) as I2.
  destruct (execute o' e' a' fs' (BuyListing l_id b_id') s2) as [[s3 out3]|] eqn:E; [|reflexivity].
  destruct (buy_rank _ _ _ _ _ _ _ _ _ I2 E) as [E2 _]. lia.
Qed.

(** Goods that have left a listing — withdrawn by the buyer or taken back by the owner — cannot
    be claimed a second time, through either message. *)
Theorem listing_claimed_once s o e a fs m id s1 out s2 o' e' a' fs' m' :
  Inv s -> execute o e a fs m s = Ok (s1, out) -> exits_l_b m id = true -> mreach s1 s2 ->
  exits_l_b m' id = true ->
  is_ok (execute o' e' a' fs' m' s2) = false.
Proof.
  intros I H1 Hx Hr Hx'. pose proof (execute_pres _ _ _ _ _ _ _ _ I H1) as I1.
  destruct (exit_rank _ _ _ _ _ _ _ _ _ I H1 Hx) as [_ E1].
  pose proof (mreach_lrank _ _ id Hr I1) as Hm. pose proof (mreach_Inv _ _ Hr I1) as I2.
  destruct (execute o' e' a' fs' m' s2) as [[s3 out3]|] eqn:E; [|reflexivity].
  destruct (exit_rank _ _ _ _ _ _ _ _ _ I2 E Hx') as [E2 _]. lia.
Qed.

(** ... nor can a sold-and-claimed (or deleted) listing be bought. *)
Theorem exited_listing_not_sold s o e a fs m id s1 out s2 o' e' a' fs' b_id' :
  Inv s -> execute o e a fs m s = Ok (s1, out) -> exits_l_b m id = true -> mreach s1 s2 ->
  is_ok (execute o' e' a' fs' (BuyListing id b_id') s2) = false.
Proof.
  intros I H1 Hx Hr. pose proof (execute_pres _ _ _ _ _ _ _ _ I H1) as I1.
  destruct (exit_rank _ _ _ _ _ _ _ _ _ I H1 Hx) as [_ E1].
  pose proof (mreach_lrank _ _ id Hr I1) as Hm. pose proof (mreach_Inv _ _ Hr I1) as I2.
  destruct (execute o' e' a' fs' (BuyListing id b_id') s2) as [[s3 out3]|] eqn:E; [|reflexivity].
  destruct (buy_rank _ _ _ _ _ _ _ _ _ I2 E) as [E2 _]. lia.
Qed.

(** A bucket that has been withdrawn cannot be withdrawn again — in particular not from inside
    the delivery of its own payout. *)
Theorem bucket_claimed_once s o e a fs id s1 out s2 o' e' a' fs' :
  Inv s -> execute o e a fs (RemoveBucket id) s = Ok (s1, out) -> mreach s1 s2 ->
  is_ok (execute o' e' a' fs' (RemoveBucket id) s2) = false.
Proof.
  intros I H1 Hr. pose proof (execute_pres _ _ _ _ _ _ _ _ I H1) as I1.
  destruct (remove_brank _ _ _ _ _ _ _ _ I H1) as [_ E1].
  pose proof (mreach_brank _ _ id Hr I1) as Hm. pose proof (mreach_Inv _ _ Hr I1) as I2.
  destruct (execute o' e' a' fs' (RemoveBucket id) s2) as [[s3 out3]|] eqn:E; [|reflexivity].
  destruct (remove_brank _ _ _ _ _ _ _ _ I2 E) as [E2 _]. lia.
Qed.

(** A finalized listing is a binding offer under every call sequence: it stays in the store,
    field for field, until the moment it is bought or — by its owner, after it expired — deleted
    (rank 3 or 4); nothing else anybody does, in any order or nesting, alters it. *)
Theorem binding_offer s s' k l :
  Inv s -> mreach s s' -> find_key k (listings s) = Some l -> lstatus l = FinalizedReady ->
  find_key k (listings s') = Some l \/ (3 <= lrank s' (snd k))%nat.
Proof.
  intros I Hr Hf Hst. induction Hr as [|s s1 s2 o e sender fs m out Hr IH He]; [left; exact Hf|].
  pose proof (mreach_Inv _ _ Hr I) as I1.
  destruct (IH I Hf) as [Hf1 | Hrk].
  - destruct (finalized_frame _ _ _ _ _ _ _ _ _ _ I1 He Hf1 Hst) as [Hsame | [(bid & Hb & _) | (Hd & _ & _ & _)]].
    + left. exact Hsame.
    + right. subst m. destruct (buy_rank _ _ _ _ _ _ _ _ _ I1 He) as [_ E]. lia.
    + right. subst m. assert (Hx : exits_l_b (DeleteListing (snd k)) (snd k) = true) by (simpl; apply N.eqb_refl).
      destruct (exit_rank _ _ _ _ _ _ _ _ _ I1 He Hx) as [_ E]. lia.
  - right. pose proof (execute_rank_mono _ _ _ _ _ _ _ _ (snd k) I1 He). lia.
Qed.

(** ** Other people's calls (C04), under every interleaving

    [foreign a s s']: a sequence of successful calls none of which acts for account [a] — not
    sent by [a], and not a hook call naming [a] as the depositor.  Along any such sequence a
    bucket of [a] is untouched, and a listing of [a] is untouched until somebody buys it. *)
Inductive foreign (a : addr) : mstate -> mstate -> Prop :=
| fr_refl s : foreign a s s
| fr_step s s1 s2 o e sender fs m out :
    foreign a s s1 -> execute o e sender fs m s1 = Ok (s2, out) ->
    a <> actor_of sender m -> (is_hook m = false -> a <> sender) -> foreign a s s2.

Lemma foreign_mreach a s s' : foreign a s s' -> mreach s s'.
Proof. induction 1; [apply mr_refl | eapply mr_step; eassumption]. Qed.

Theorem others_cannot_touch_my_bucket a id b s s' :
  Inv s -> foreign a s s' -> find_key (a, id) (buckets s) = Some b -> find_key (a, id) (buckets s') = Some b.
Proof.
  intros I Hr Hf. induction Hr as [|s s1 s2 o e sender fs m out Hr IH He Ha Hs]; [exact Hf|].
  pose proof (mreach_Inv _ _ (foreign_mreach _ _ _ Hr) I) as I1.
  eapply bucket_frame; [exact I1 | exact He | apply IH; assumption | exact Ha | exact Hs].
Qed.

Theorem others_can_only_buy_my_listing a id l s s' :
  Inv s -> foreign a s s' -> find_key (a, id) (listings s) = Some l ->
  find_key (a, id) (listings s') = Some l \/ (3 <= lrank s' id)%nat.
Proof.
  intros I Hr Hf. induction Hr as [|s s1 s2 o e sender fs m out Hr IH He Ha Hs]; [left; exact Hf|].
  pose proof (mreach_Inv _ _ (foreign_mreach _ _ _ Hr) I) as I1.
  destruct (IH I Hf) as [Hf1 | Hrk].
  - destruct (listing_frame _ _ _ _ _ _ _ _ (a, id) l I1 He Hf1 Ha Hs) as [Hsame | (bid & Hb & _)].
    + left. exact Hsame.
    + right. subst m. simpl in He. destruct (buy_rank _ _ _ _ _ _ _ _ _ I1 He) as [_ E]. lia.
  - right. pose proof (execute_rank_mono _ _ _ _ _ _ _ _ id I1 He). lia.
Qed.

(** ** Ids (C09), under every interleaving: an id issued once is never issued again — whichever
    creation path, account or contract asks, in whatever order or nesting. *)
Lemma mreach_used s s' : mreach s s' -> incl (l_used s) (l_used s') /\ incl (b_used s) (b_used s').
Proof.
  induction 1 as [|s s1 s2 o e sender fs m out _ IH He]; [split; apply incl_refl|].
  destruct IH as [A B]. destruct (execute_used_mono _ _ _ _ _ _ _ _ He) as [C D].
  split; eapply incl_tran; eassumption.
Qed.

Theorem listing_id_issued_once s o e a fs m id s1 out s2 o' e' a' fs' m' :
  Inv s -> execute o e a fs m s = Ok (s1, out) -> creates_l_b m id = true -> mreach s1 s2 ->
  creates_l_b m' id = true -> execute o' e' a' fs' m' s2 = Err.
Proof.
  intros I H Hc Hr Hc'. pose proof (execute_pres _ _ _ _ _ _ _ _ I H) as I1.
  destruct (create_listing_fresh _ _ _ _ _ _ _ _ _ I H Hc) as (_ & _ & _ & Hu).
  apply used_listing_id_refused with (id := id); [eapply mreach_Inv; eassumption | | exact Hc'].
  apply (proj1 (mreach_used _ _ Hr)). exact Hu.
Qed.

Theorem bucket_id_issued_once s o e a fs m id s1 out s2 o' e' a' fs' m' :
  Inv s -> execute o e a fs m s = Ok (s1, out) -> creates_b_b m id = true -> mreach s1 s2 ->
  creates_b_b m' id = true -> execute o' e' a' fs' m' s2 = Err.
Proof.
  intros I H Hc Hr Hc'. pose proof (execute_pres _ _ _ _ _ _ _ _ I H) as I1.
  destruct (create_bucket_fresh _ _ _ _ _ _ _ _ _ I H Hc) as (_ & _ & _ & Hu).
  apply used_bucket_id_refused with (id := id); [eapply mreach_Inv; eassumption | | exact Hc'].
  apply (proj2 (mreach_used _ _ Hr)). exact Hu.
Qed.

(** ** The fee denomination (C13), under every interleaving: only the cycle message touches it. *)
Inductive mreach_but (P : exec_msg -> Prop) : mstate -> mstate -> Prop :=
| mb_refl s : mreach_but P s s
| mb_step s s1 s2 o e sender fs m out :
    mreach_but P s s1 -> execute o e sender fs m s1 = Ok (s2, out) -> ~ P m -> mreach_but P s s2.

Theorem fee_changes_only_by_cycle s s' :
  mreach_but (fun m => m = FeeCycle) s s' -> fee s' = fee s.
Proof.
  induction 1 as [|s s1 s2 o e sender fs m out _ IH He Hm]; [reflexivity|].
  rewrite (execute_fee_frame _ _ _ _ _ _ _ _ He Hm). exact IH.
Qed.
