(** * CallSeqHostile: what a set of hostile contracts can do to somebody else's bucket, under
    every interleaving of their calls (C18, known finding F1 bounded). *)
From FM Require Export Hostile CallSeq.

(** A sequence of successful calls all sent by contracts in [P], none of them the victim [a]
    (forged hook calls naming [a] as depositor are exactly what is allowed here). *)
Inductive hostile_seq (P : addr -> Prop) (a : addr) : mstate -> mstate -> Prop :=
| hs_refl s : hostile_seq P a s s
| hs_step s s1 s2 o e h fs m out :
    hostile_seq P a s s1 -> execute o e h fs m s1 = Ok (s2, out) -> P h -> h <> a -> hostile_seq P a s s2.

Lemma hostile_seq_mreach P a s s' : hostile_seq P a s s' -> mreach s s'.
Proof. induction 1; [apply mr_refl | eapply mr_step; eassumption]. Qed.

(** The victim's bucket is still there, same owner, same pending fee; its coins are untouched, so
    is every token that is not one of the attackers' own, every NFT it held is still in it, and
    whatever was added is an attacker's own "token". *)
Definition only_junk_added (P : addr -> Prop) (g g' : gbal) : Prop :=
  native g' = native g /\
  (forall t, ~ P t -> amount_of t (cw20 g') = amount_of t (cw20 g)) /\
  (forall n, In n (nfts g) -> In n (nfts g')) /\
  (forall n, In n (nfts g') -> In n (nfts g) \/ P (fst n)).

Lemma only_junk_refl P g : only_junk_added P g g.
Proof. unfold only_junk_added. splits; auto. Qed.

Lemma only_junk_trans P g1 g2 g3 : only_junk_added P g1 g2 -> only_junk_added P g2 g3 -> only_junk_added P g1 g3.
Proof.
  intros (A1 & A2 & A3 & A4) (B1 & B2 & B3 & B4). unfold only_junk_added. splits.
  - congruence.
  - intros t Ht. rewrite (B2 t Ht). apply A2, Ht.
  - intros n Hn. apply B3, A3, Hn.
  - intros n Hn. destruct (B4 n Hn) as [H | H]; [apply A4, H | right; exact H].
Qed.

Theorem hostile_contracts_only_add_junk P a id b s s' :
  Inv s -> hostile_seq P a s s' -> find_key (a, id) (buckets s) = Some b ->
  exists g, find_key (a, id) (buckets s') = Some (mkB (owner b) g (bfee b)) /\ only_junk_added P (funds b) g.
Proof.
  intros I Hr Hf. induction Hr as [|s s1 s2 o e h fs m out Hr IH He HP Hne].
  - exists (funds b). split; [destruct b; exact Hf | apply only_junk_refl].
  - pose proof (mreach_Inv _ _ (hostile_seq_mreach _ _ _ _ Hr) I) as I1.
    destruct (IH I Hf) as (g & Hf1 & J).
    assert (Hk : fst (a, id) <> h) by (simpl; congruence).
    destruct (outside_known_class_bucket _ _ _ _ _ _ _ _ (a, id) _ I1 He Hf1 Hk) as [Hsame | (_ & _ & _ & g' & Hf2 & Hg)].
    + exists g. split; [exact Hsame | exact J].
    + simpl in Hf2. exists g'. split; [exact Hf2|].
      eapply only_junk_trans; [exact J|]. simpl in Hg.
      destruct (grown_by_bounded _ _ _ Hg) as (G1 & G2 & G3 & G4). unfold only_junk_added. splits.
      * exact G1.
      * intros t Ht. apply G2. intros ->. apply Ht, HP.
      * exact G3.
      * intros n Hn. destruct (G4 n Hn) as [H | H]; [left; exact H | right; rewrite H; exact HP].
Qed.
