(** * CallSeqLedger: the conservation laws (C01, C10) along every sequence of marketplace calls.

    [mtrace] is [CallSeq.mreach] with bookkeeping: what the calls deposited, what their responses
    sent, what their purchases charged and what their responses sent to the community pool.  The
    contract-local laws of every single call add up along any sequence — any senders, any order,
    any nesting of re-entrant calls — so at every point

      obligations now + everything sent so far   = obligations at the start + everything deposited
      pending fees now + everything sent to the pool = pending at the start + everything charged.  *)
From FM Require Export PoolFees CallSeq.

Inductive mtrace (x : asset) (d : denom) : mstate -> mstate -> N -> N -> N -> N -> Prop :=
| mt_refl s : mtrace x d s s 0 0 0 0
| mt_step s s1 s2 o e sender fs m out dep_ sent_ chg psent :
    mtrace x d s s1 dep_ sent_ chg psent ->
    execute o e sender fs m s1 = Ok (s2, out) ->
    mtrace x d s s2 (dep_ + dep x sender fs m) (sent_ + sent x out)
           (chg + charged d m sender s1) (psent + pool_sent d out).

Lemma mtrace_mreach x d s s' a b c p : mtrace x d s s' a b c p -> mreach s s'.
Proof. induction 1; [apply mr_refl | eapply mr_step; eassumption]. Qed.

(** C01, contract-level, for every asset (a native denomination, a CW20 token, a single NFT). *)
Theorem conservation_under_every_interleaving x d s s' deposited sent_out chg psent :
  Inv s -> mtrace x d s s' deposited sent_out chg psent ->
  owed x s' + sent_out = owed x s + deposited.
Proof.
  intros I H. induction H as [|s s1 s2 o e sender fs m out dep_ sent_ chg psent Hr IH He]; [lia|].
  pose proof (mreach_Inv _ _ (mtrace_mreach _ _ _ _ _ _ _ _ Hr) I) as I1.
  pose proof (accounting x _ _ _ _ _ _ _ _ I1 He). specialize (IH I). lia.
Qed.

(** C10, contract-level: every fee charged is still pending in a record or has gone to the
    community pool in a message — exactly once. *)
Theorem fee_ledger_under_every_interleaving x d s s' deposited sent_out chg psent :
  Inv s -> mtrace x d s s' deposited sent_out chg psent ->
  pending d s' + psent = pending d s + chg.
Proof.
  intros I H. induction H as [|s s1 s2 o e sender fs m out dep_ sent_ chg psent Hr IH He]; [lia|].
  pose proof (mreach_Inv _ _ (mtrace_mreach _ _ _ _ _ _ _ _ Hr) I) as I1.
  pose proof (fee_conservation d _ _ _ _ _ _ _ _ I1 He). specialize (IH I). lia.
Qed.
