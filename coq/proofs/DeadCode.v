(** * DeadCode: the defensive guards of the handlers that no reachable state can trigger.

    [tools/coverage.py] lists the source lines of the contracts that the correspondence run never
    executes.  Apart from unused functions they are "redundant check" guards.  The model keeps
    every one of them (it follows the code); the lemmas below show, for every state satisfying
    [Inv] (hence every reachable one, [Reach.reach_Inv]), that each is implied by a guard that
    comes before it — which is why no input can make the implementation execute those lines, and
    why deleting one of them alone does not change behaviour (two of them together can:
    seeded change C18c). *)
From FM Require Export Invariant.

(** execute.rs:103,148,190,655 — "sender is bucket owner (redundant check)": the bucket was
    loaded under the key [(sender, id)]. *)
Lemma bucket_owner_guard_dead s a id b :
  Inv s -> find_key (a, id) (buckets s) = Some b -> (a =? owner b) = true.
Proof.
  intros I H. destruct (Inv_find_bucket s _ _ I H) as [W _].
  pose proof (wb_key _ _ W) as E. simpl in E. apply N.eqb_eq. assumption.
Qed.

(** execute.rs:363,418,486,542,605 — "sender is creator": the listing was loaded under the key
    [(sender, id)]. *)
Lemma listing_creator_guard_dead s a id l :
  Inv s -> find_key (a, id) (listings s) = Some l -> (a =? creator l) = true.
Proof.
  intros I H. destruct (Inv_find_listing s _ _ I H) as [W _].
  pose proof (wl_key _ _ W) as E. inversion E. apply N.eqb_eq. reflexivity.
Qed.

(** The three lifecycle fields say the same thing in every stored listing. *)
Lemma life_fin l : life_ok l -> is_some (fin l) = negb (status_eqb (lstatus l) BeingPrepared).
Proof.
  unfold life_ok. destruct (lstatus l); simpl.
  - intros (E & _). rewrite E. reflexivity.
  - intros (_ & _ & f & secs & E & _). rewrite E. reflexivity.
  - intros (_ & E & _). destruct (fin l); [reflexivity | congruence].
Qed.

Lemma life_claimant l : life_ok l -> is_some (claimant l) = status_eqb (lstatus l) Closed.
Proof.
  unfold life_ok. destruct (lstatus l); simpl.
  - intros (_ & _ & E & _). rewrite E. reflexivity.
  - intros (E & _). rewrite E. reflexivity.
  - intros (E & _). rewrite E. reflexivity.
Qed.

(** execute.rs:373,378,428,496,552,557 — "ensure being prepared" after the finalized-time check,
    "ensure no claimant" after the status check: for a listing found under the sender's key the
    whole of [editable] is the status test, and the finalized-time test adds nothing to it. *)
Lemma editable_is_status s a id l :
  Inv s -> find_key (a, id) (listings s) = Some l ->
  editable a l = status_eqb (lstatus l) BeingPrepared /\
  (editable a l && negb (is_some (fin l))) = status_eqb (lstatus l) BeingPrepared.
Proof.
  intros I H. pose proof (listing_creator_guard_dead s a id l I H) as Hc.
  destruct (Inv_find_listing s _ _ I H) as [W _]. pose proof (wl_life _ _ W) as L.
  unfold editable. rewrite Hc, (life_claimant l L), (life_fin l L).
  destruct (lstatus l); simpl; split; reflexivity.
Qed.

(** execute.rs:673 — "no existing claimant" after the status test of a purchase; execute.rs:838 —
    "status is Closed" after the claimant test of a withdrawal. *)
Lemma claimant_guard_dead s k l :
  Inv s -> In (k, l) (listings s) ->
  status_eqb (lstatus l) FinalizedReady = true -> is_some (claimant l) = false.
Proof.
  intros I Hin Hs. pose proof (wl_life _ _ (inv_l s I _ _ Hin)) as L.
  rewrite (life_claimant l L). destruct (lstatus l); simpl in *; congruence.
Qed.

Lemma closed_guard_dead s k l c :
  Inv s -> In (k, l) (listings s) -> claimant l = Some c -> status_eqb (lstatus l) Closed = true.
Proof.
  intros I Hin Hc. pose proof (wl_life _ _ (inv_l s I _ _ Hin)) as L.
  rewrite <- (life_claimant l L), Hc. reflexivity.
Qed.

(** execute.rs:231,298 — "id index (edge case)" after the used-id test of a listing creation;
    execute.rs:22,64 — the same for buckets: a stored id is a used id. *)
Lemma listing_index_guard_dead s id :
  Inv s -> memN id (l_used s) = false -> find_by_id id (listings s) = None.
Proof.
  intros I Hm. apply find_by_id_None. intros k v Hin E.
  apply memN_false in Hm. apply Hm. rewrite <- E. apply (inv_lused s I k v Hin).
Qed.

Lemma bucket_key_guard_dead s a id :
  Inv s -> memN id (b_used s) = false -> find_key (a, id) (buckets s) = None.
Proof.
  intros I Hm. destruct (find_key (a, id) (buckets s)) as [b|] eqn:E; [|reflexivity].
  exfalso. apply memN_false in Hm. apply Hm.
  destruct (Inv_find_bucket s _ _ I E) as [_ Hin]. apply (inv_bused s I _ _ Hin).
Qed.

(** execute.rs:720 — "No royalty registry": the item is filled by the instantiation reply. *)
Lemma registry_guard_dead s : Inv s -> is_some (registry_item s) = true.
Proof. intros I. pose proof (inv_reg s I). destruct (registry_item s); [reflexivity | congruence]. Qed.

(** state.rs:394,399,418,427 — the zero-amount and duplicate-denomination / duplicate-token
    branches of [check_valid] when it is called on a stored content after a top-up: an NFT
    top-up leaves the fungible parts of a well-formed content as they were, so only the asset
    count and the NFT-duplicate test can refuse. *)
Lemma pos_ok_forallb l : pos_ok l -> forallb (fun c : N * N => negb (snd c =? 0)) l = true.
Proof.
  unfold pos_ok. rewrite Forall_forall, forallb_forall. intros H x Hx.
  destruct (H x Hx) as [Hp _]. apply negb_true_iff, N.eqb_neq. lia.
Qed.

Lemma check_valid_after_nft_topup g n :
  wf_gbal g ->
  check_valid (add_nft g n) = (gsize (add_nft g n) <=? MAX_NUM_ASSETS) && nodupP (nfts g ++ [n]).
Proof.
  intros [W1 W2 W3 W4 W5 W6]. unfold check_valid, add_nft. cbn [native cw20 nfts].
  apply nodupN_NoDup in W4. apply nodupN_NoDup in W5.
  assert (Hs : (gsize (mkG (native g) (cw20 g) (nfts g ++ [n])) =? 0) = false).
  { apply N.eqb_neq. unfold gsize. cbn [native cw20 nfts]. rewrite app_length. simpl. lia. }
  match goal with
  | |- ?A && ?B && ?C && ?D && ?E && ?F && ?G = _ =>
      replace A with true by (symmetry; apply pos_ok_forallb; assumption);
      replace B with true by (symmetry; apply pos_ok_forallb; assumption);
      replace E with true by (symmetry; exact W4);
      replace F with true by (symmetry; exact W5)
  end.
  rewrite Hs. simpl. rewrite !andb_true_r. reflexivity.
Qed.
