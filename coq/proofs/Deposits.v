(** * Deposits: only deposit messages can take assets from their sender (C19). *)
From FM Require Export Auth.

Definition is_deposit_msg (m : exec_msg) : bool :=
  match m with CreateListing _ _ _ | AddToListing _ | CreateBucket _ | AddToBucket _ => true | _ => false end.

(** A message that is not a deposit is refused when coins are attached — the seven plain
    kinds by the dispatcher's guard, the two token-receive entry points by their own. *)
Theorem non_deposit_refuses_coins o e sender fs m s :
  is_deposit_msg m = false -> fs <> [] -> execute o e sender fs m s = Err.
Proof.
  intros Hd Hf. unfold execute. destruct (coins_in_range fs); [|reflexivity]. cbn [negb].
  destruct fs as [|c r]; [congruence|].
  destruct m; simpl in Hd; try discriminate; cbn [no_funds andb]; try rewrite !andb_false_r; try reflexivity.
  - destruct (amt <? U128); reflexivity.
Qed.

Theorem step_non_deposit_with_coins_refused w a fs m fail :
  is_deposit_msg m = false -> fs <> [] ->
  fst (step w (Exec a fs m fail)) = w /\ ok (snd (step w (Exec a fs m fail))) = false.
Proof.
  intros Hd Hf. assert (E : try_step w (Exec a fs m fail) = Err).
  { unfold try_step. destruct (pay_funds (bank w) a (self_addr w) fs) as [b|]; [|reflexivity]. cbn [bind].
    unfold run_market. rewrite non_deposit_refuses_coins by assumption. reflexivity. }
  unfold step. rewrite E. split; reflexivity.
Qed.

(** A non-deposit message never reduces any balance of any account but the marketplace's own
    — in particular not its sender's. *)
Theorem non_deposit_never_debits w sender fs m fail a :
  is_deposit_msg m = false -> a <> self_addr w -> nondecr w (fst (step w (Exec sender fs m fail))) a.
Proof.
  intros Hd Ha. destruct fs as [|c r].
  - apply exec_without_funds_nondecreasing, Ha.
  - destruct (step_non_deposit_with_coins_refused w sender (c :: r) m fail Hd) as [E _]; [discriminate|].
    rewrite E. apply nondecr_refl.
Qed.
