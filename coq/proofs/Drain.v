(** * Drain: nothing gets stuck — every record's exit is open to its entitled party, and after
    all parties exit the marketplace holds nothing (C07). *)
From FM Require Export Exact.

(** ** When does a response dispatch successfully? *)
Definition msg_honest (w : world) (m : out_msg) : Prop :=
  match m with
  | Cw20Transfer t _ _ => kind w t = KCw20
  | NftTransfer c _ _ => kind w c = KCw721
  | FundPool dp _ => dp = self_addr w
  | BankSend _ _ => True
  end.

Lemma bank_move_ok cs : forall b src dst,
  NoDup (map fst cs) -> (forall d x, In (d, x) cs -> x <= b src d) -> src <> dst ->
  exists b', bank_move b src dst cs = Ok b'.
Proof.
  induction cs as [|[d x] r IH]; intros b src dst Hnd Hcov Hne; [eexists; reflexivity|].
  inv Hnd. cbn [bank_move]. unfold bank_move1 at 1.
  assert (Hle : x <=? b src d = true) by (apply N.leb_le, Hcov; left; reflexivity). rewrite Hle. cbn [bind].
  apply IH; [assumption | | assumption].
  intros d' x' Hin. assert (Hd : d' <> d) by (intros ->; apply H1; apply in_map_iff; exists (d, x'); split; [reflexivity | exact Hin]).
  rewrite upd2_other by (right; exact Hd). rewrite upd2_other by (right; exact Hd). apply Hcov. right. exact Hin.
Qed.

Lemma amount_of_In_nodup d x (cs : list coin) : NoDup (map fst cs) -> In (d, x) cs -> amount_of d cs = x.
Proof.
  induction cs as [|[d' x'] r IH]; simpl; intros Hnd Hin; [tauto|]. inv Hnd. destruct Hin as [E | Hin].
  - inv E. rewrite N.eqb_refl. rewrite amount_of_notin by assumption. lia.
  - dN d' d.
    + subst. exfalso. apply H1. apply in_map_iff. exists (d, x). split; [reflexivity | exact Hin].
    + rewrite (IH H2 Hin). lia.
Qed.

Lemma dispatch1_ok w m :
  msg_payable m -> recipient_ok (self_addr w) m -> msg_honest w m -> pool_addr w <> self_addr w ->
  (forall x, honest_asset w x -> msg_val x m <= held w x) ->
  exists w', dispatch1 w m = Ok w'.
Proof.
  intros Hpay Hr Hh Hp Hcov. unfold dispatch1. destruct m as [to cs | t to a | c to k | dp [d a]]; simpl in *.
  - rewrite Hpay. unfold strict_coins in Hpay. apply andb_true_iff in Hpay. destruct Hpay as [_ Hnd]. apply nodupN_NoDup in Hnd.
    destruct (bank_move_ok cs (bank w) (self_addr w) to Hnd) as [b' Hb']; [|congruence|].
    + intros d x Hin. specialize (Hcov (ANative d) Logic.I). simpl in Hcov. rewrite (amount_of_In_nodup d x cs Hnd Hin) in Hcov. exact Hcov.
    + rewrite Hb'. eexists. reflexivity.
  - rewrite Hh. specialize (Hcov (ACw20 t) Hh). simpl in Hcov. rewrite N.eqb_refl in Hcov.
    unfold cw20_move. destruct Hpay as [H0 _].
    assert (E : negb (a =? 0) && (a <=? cw20bal w t (self_addr w)) = true).
    { apply andb_true_iff. split; [apply negb_true_iff, N.eqb_neq; lia | apply N.leb_le; exact Hcov]. }
    rewrite E. eexists. reflexivity.
  - rewrite Hh. specialize (Hcov (ANft c k) Hh). simpl in Hcov.
    assert (Ep : pair_eqb (c, k) (c, k) = true) by (apply pair_eqb_eq; reflexivity). rewrite Ep in Hcov.
    unfold nft_move. unfold owns in Hcov. destruct (nft_owner w c k) as [o|]; [|lia].
    destruct (o =? self_addr w); [|lia]. eexists. reflexivity.
  - subst dp. rewrite N.eqb_refl. destruct Hpay as [H0 _].
    assert (E : negb (a =? 0) = true) by (apply negb_true_iff, N.eqb_neq; lia). rewrite E. cbn [andb].
    specialize (Hcov (ANative d) Logic.I). simpl in Hcov. rewrite N.eqb_refl in Hcov.
    unfold bank_move1. assert (Hle : a <=? bank w (self_addr w) d = true) by (apply N.leb_le; lia). rewrite Hle.
    eexists. reflexivity.
Qed.

Lemma msg_honest_static w w' m : kind w' = kind w -> self_addr w' = self_addr w -> msg_honest w m -> msg_honest w' m.
Proof. intros Hk Hs H. destruct m; simpl in *; congruence. Qed.

Theorem dispatch_ok ms : forall w i,
  Forall msg_payable ms -> Forall (recipient_ok (self_addr w)) ms -> Forall (msg_honest w) ms ->
  pool_addr w <> self_addr w ->
  (forall x, honest_asset w x -> sent x ms <= held w x) ->
  exists w', dispatch w i None ms = Ok w'.
Proof.
  induction ms as [|m r IH]; intros w i Hpay Hr Hh Hp Hcov; [eexists; reflexivity|].
  inv Hpay. inv Hr. inv Hh. cbn [dispatch].
  destruct (dispatch1_ok w m H1 H3 H5 Hp) as [w1 Hw1].
  { intros x Hx. specialize (Hcov x Hx). unfold sent in Hcov. simpl in Hcov. lia. }
  rewrite Hw1. cbn [bind].
  pose proof (dispatch1_static _ _ _ Hw1) as (_ & _ & Hk & _ & _ & _ & _ & Hs & _ & Hpl).
  apply IH; try assumption.
  - rewrite Hs. exact H4.
  - rewrite Forall_forall in *. intros m0 Hm0. eapply msg_honest_static; [exact Hk | exact Hs | apply H6, Hm0].
  - congruence.
  - intros x Hx. assert (Hx0 : honest_asset w x) by (destruct x; simpl in *; congruence).
    pose proof (dispatch1_held _ _ _ x Hw1 H3 Hp Hx0) as E. specialize (Hcov x Hx0). unfold sent in *. simpl in Hcov. lia.
Qed.

(** ** Each exit is open *)
Definition tokens_honest (w : world) (g : gbal) : Prop :=
  Forall (fun c => kind w (fst c) = KCw20) (cw20 g) /\ Forall (fun n => kind w (fst n) = KCw721) (nfts g).

Lemma send_tokens_honest w to g : tokens_honest w g -> Forall (msg_honest w) (send_tokens_cosmos to g).
Proof.
  intros [Hc Hn]. unfold send_tokens_cosmos. apply Forall_app. split; [|apply Forall_app; split].
  - destruct (native g); repeat constructor.
  - rewrite Forall_forall in *. intros m Hm. apply in_map_iff in Hm. destruct Hm as (c & <- & Hin). simpl. apply Hc, Hin.
  - rewrite Forall_forall in *. intros m Hm. apply in_map_iff in Hm. destruct Hm as (c & <- & Hin). simpl. apply Hn, Hin.
Qed.

Lemma withdraw_msgs_honest w to g f : tokens_honest w g -> Forall (msg_honest w) (withdraw_msgs (self_addr w) to g f).
Proof.
  intros H. unfold withdraw_msgs. apply Forall_app. split; [apply send_tokens_honest, H|].
  destruct f; simpl; repeat constructor.
Qed.

Lemma ssum_ge {V} (f : V -> N) k v l : NoDup (map fst l) -> find_key k l = Some v -> f v <= ssum f l.
Proof. intros Hnd H. rewrite (ssum_remove f k v l Hnd H). lia. Qed.

Lemma exec_step_ok w sender m s' out :
  execute (oracle_of w) (env_of w) sender [] m (market w) = Ok (s', out) ->
  (exists w', dispatch (set_market w s') 0 None out = Ok w') ->
  ok (snd (step w (Exec sender [] m None))) = true /\ market (fst (step w (Exec sender [] m None))) = s'.
Proof.
  intros He [w' Hd]. unfold step, try_step. simpl. unfold run_market.
  assert (E : execute (oracle_of (set_bank w (bank w))) (env_of (set_bank w (bank w))) sender [] m (market (set_bank w (bank w))) = Ok (s', out)) by exact He.
  rewrite E. cbn [bind].
  assert (Ed : dispatch (set_market (set_bank w (bank w)) s') 0 None out = dispatch (set_market w s') 0 None out) by (destruct w; reflexivity).
  rewrite Ed, Hd. cbn [bind]. simpl. split; [reflexivity|].
  apply dispatch_static in Hd. destruct Hd as (Hm & _). exact Hm.
Qed.

(** Dispatching a payout of a stored record succeeds when holdings are backed and the record's
    tokens are honest. *)
Lemma payout_dispatch_ok w s' to g f :
  good w -> to <> self_addr w -> wf_gbal g -> fee_ok f -> tokens_honest w g ->
  (forall x, honest_asset w x -> amt x g + feeamt x f <= owed x (market w)) ->
  exists w', dispatch (set_market w s') 0 None (withdraw_msgs (self_addr w) to g f) = Ok w'.
Proof.
  intros [Iv Hc Hp Hself Hb] Hto Wg Wf Hh Hcov. apply dispatch_ok; simpl.
  - apply withdraw_msgs_payable; assumption.
  - unfold withdraw_msgs. apply Forall_app. split; [apply send_tokens_recipients, Hto | apply fee_msgs_recipients].
  - pose proof (withdraw_msgs_honest w to g f Hh) as H. rewrite Forall_forall in *. intros m Hm.
    specialize (H m Hm). destruct m; exact H.
  - exact Hp.
  - intros x Hx. rewrite sent_withdraw. assert (Hx' : honest_asset w x) by (destruct x; exact Hx).
    assert (E : held (set_market w s') x = held w x) by (destruct x; reflexivity). rewrite E, (Hb x Hx'). apply Hcov, Hx'.
Qed.

(** Stored ids are legal ids (hence fit the message's u64 field). *)
Definition ids_bounded (s : mstate) : Prop :=
  (forall k l, In (k, l) (listings s) -> lid l < MAX_SAFE_INT) /\
  (forall k b, In (k, b) (buckets s) -> snd k < MAX_SAFE_INT).

Lemma max_safe_u64 id : id < MAX_SAFE_INT -> id <? U64 = true.
Proof. intros H. apply N.ltb_lt. rewrite U64_val. unfold MAX_SAFE_INT in H. lia. Qed.

Lemma execute_ids_bounded o e sender fs m s s' out :
  Inv s -> ids_bounded s -> execute o e sender fs m s = Ok (s', out) -> ids_bounded s'.
Proof.
  intros I [B1 B2] H. split.
  - intros k' l' Hin. destruct (execute_lsource _ _ _ _ _ _ _ _ _ _ H Hin) as [(k & l & Hin0 & Hid & _) | (_ & _ & Hb)]; [|exact Hb].
    rewrite <- Hid. eapply B1, Hin0.
  - intros k' b' Hin. destruct (execute_bsource _ _ _ _ _ _ _ _ _ _ I H Hin) as [(k & b & Hin0 & Hid) | (_ & Hb)]; [|exact Hb].
    rewrite <- Hid. eapply B2, Hin0.
Qed.

Lemma step_ids_bounded w o : Inv (market w) -> ids_bounded (market w) -> ids_bounded (market (fst (step w o))).
Proof.
  intros I B. rewrite step_fst. destruct (try_step w o) as [[w' out]|] eqn:H; [|exact B].
  destruct (op_msg o) as [m|] eqn:Hm.
  - destruct (try_step_exec _ _ _ _ _ H Hm) as (w0 & _ & _ & _ & _ & _ & _ & _ & He). eapply execute_ids_bounded; eassumption.
  - apply try_step_nomsg in H; [|assumption]. rewrite H. exact B.
Qed.

Lemma run_ids_bounded ops : forall w, Inv (market w) -> ids_bounded (market w) -> ids_bounded (market (run w ops)).
Proof.
  unfold run. induction ops as [|o r IH]; simpl; intros w I B; [exact B|].
  apply IH; [apply step_Inv, I | apply step_ids_bounded; assumption].
Qed.

(** A bucket can be cashed out by its owner at once. *)
Theorem exit_bucket w a id b :
  good w -> ids_bounded (market w) -> find_key (a, id) (buckets (market w)) = Some b -> a <> self_addr w ->
  tokens_honest w (funds b) ->
  ok (snd (step w (Exec a [] (RemoveBucket id) None))) = true /\
  market (fst (step w (Exec a [] (RemoveBucket id) None))) = set_buckets (market w) (remove_key (a, id) (buckets (market w))).
Proof.
  intros G [_ B2] Hf Ha Hh. pose proof G as [Iv Hc Hp Hself Hb]. destruct (Inv_find_bucket _ _ _ Iv Hf) as [W Hin].
  pose proof (max_safe_u64 _ (B2 _ _ Hin)) as Hid. simpl in Hid.
  assert (Hown : owner b = a) by (rewrite <- (wb_key _ _ W); reflexivity).
  apply (exec_step_ok w a (RemoveBucket id) _ (withdraw_msgs (self_addr w) a (funds b) (bfee b))).
  - unfold execute. simpl. rewrite Hid. simpl. unfold execute_withdraw_bucket. rewrite Hf, Hown, N.eqb_refl. reflexivity.
  - apply payout_dispatch_ok; try assumption.
    + apply (wb_funds _ _ W).
    + apply (wb_fee _ _ W).
    + intros x Hx. unfold owed. pose proof (ssum_ge (bval x) _ _ _ (Inv_bkeys _ Iv) Hf) as E. unfold bval at 1 in E. lia.
Qed.

(** A listing that is still in preparation — or finalized and expired — can be cashed out by
    its creator. *)
Theorem exit_listing_delete w a id l :
  good w -> ids_bounded (market w) -> find_key (a, id) (listings (market w)) = Some l -> a <> self_addr w ->
  tokens_honest w (for_sale l) -> lstatus l <> Closed -> (forall x, exp l = Some x -> x <= wnow w) ->
  ok (snd (step w (Exec a [] (DeleteListing id) None))) = true /\
  market (fst (step w (Exec a [] (DeleteListing id) None))) = set_listings (market w) (remove_key (a, id) (listings (market w))).
Proof.
  intros G [B1 _] Hf Ha Hh Hst Hexp. pose proof G as [Iv Hc Hp Hself Hb]. destruct (Inv_find_listing _ _ _ Iv Hf) as [W Hin].
  pose proof (wl_key _ _ W) as K. pose proof (f_equal fst K) as K1. pose proof (f_equal snd K) as K2. simpl in K1, K2.
  pose proof (max_safe_u64 _ (B1 _ _ Hin)) as Hid. rewrite <- K2 in Hid.
  pose proof (wl_life _ _ W) as Life. unfold life_ok in Life.
  assert (Hcl : claimant l = None /\ lfee l = None) by (destruct (lstatus l); try tauto; congruence).
  destruct Hcl as [Hcl Hnofee].
  assert (E0 : send_tokens_cosmos a (for_sale l) = withdraw_msgs (self_addr w) a (for_sale l) None)
    by (unfold withdraw_msgs; simpl; rewrite app_nil_r; reflexivity).
  apply (exec_step_ok w a (DeleteListing id) _ (withdraw_msgs (self_addr w) a (for_sale l) None)).
  - unfold execute. simpl. rewrite Hid. simpl. unfold execute_delete_listing. rewrite Hf, <- K1, N.eqb_refl, Hcl. simpl.
    rewrite <- E0. destruct (exp l) as [x|] eqn:Ex; [|reflexivity].
    assert (E : wnow w <? x = false) by (apply N.ltb_ge, Hexp; reflexivity). unfold env_of. simpl. rewrite E. reflexivity.
  - apply payout_dispatch_ok; try assumption.
    + apply (wl_goods _ _ W).
    + apply fee_ok_None.
    + intros x Hx. unfold owed. pose proof (ssum_ge (lval x) _ _ _ (Inv_lkeys _ Iv) Hf) as E2. unfold lval at 1 in E2.
      assert (Z : feeamt x None = 0) by (destruct x; reflexivity). lia.
Qed.

(** A sold listing can be cashed out by its buyer at once. *)
Theorem exit_listing_withdraw w a id l :
  good w -> ids_bounded (market w) -> find_key (a, id) (listings (market w)) = Some l -> a <> self_addr w ->
  tokens_honest w (for_sale l) -> lstatus l = Closed ->
  ok (snd (step w (Exec a [] (WithdrawPurchased id) None))) = true /\
  market (fst (step w (Exec a [] (WithdrawPurchased id) None))) = set_listings (market w) (remove_key (a, id) (listings (market w))).
Proof.
  intros G [B1 _] Hf Ha Hh Hst. pose proof G as [Iv Hc Hp Hself Hb]. destruct (Inv_find_listing _ _ _ Iv Hf) as [W Hin].
  pose proof (wl_key _ _ W) as K. pose proof (f_equal fst K) as K1. pose proof (f_equal snd K) as K2. simpl in K1, K2.
  pose proof (max_safe_u64 _ (B1 _ _ Hin)) as Hid. rewrite <- K2 in Hid.
  pose proof (wl_life _ _ W) as Life. unfold life_ok in Life. rewrite Hst in Life. destruct Life as (Hcl & _).
  assert (Hfind : find_by_id id (listings (market w)) = Some ((a, id), l)).
  { apply In_find_by_id; [apply (inv_lids _ Iv) | exact Hin | congruence]. }
  apply (exec_step_ok w a (WithdrawPurchased id) _ (withdraw_msgs (self_addr w) a (for_sale l) (lfee l))).
  - unfold execute. simpl. rewrite Hid. simpl. unfold execute_withdraw_purchased. rewrite Hfind, Hcl, <- K1, N.eqb_refl, Hst. reflexivity.
  - apply payout_dispatch_ok; try assumption.
    + apply (wl_goods _ _ W).
    + apply (wl_fee _ _ W).
    + intros x Hx. unfold owed. pose proof (ssum_ge (lval x) _ _ _ (Inv_lkeys _ Iv) Hf) as E2. unfold lval at 1 in E2. lia.
Qed.

(** ** After all parties exit, the marketplace holds nothing *)
Definition entitled_ok (w : world) (a : addr) : Prop := a <> self_addr w /\ kind w a = KUser.

Definition records_ok (w : world) : Prop :=
  (forall k l, In (k, l) (listings (market w)) -> entitled_ok w (fst k) /\ tokens_honest w (for_sale l)) /\
  (forall k b, In (k, b) (buckets (market w)) -> entitled_ok w (fst k) /\ tokens_honest w (funds b)).

Definition all_due (w : world) : Prop :=
  forall k l x, In (k, l) (listings (market w)) -> exp l = Some x -> x <= wnow w.

Definition is_exit_op (o : op) : Prop :=
  match o with Exec _ [] m None => is_payout m = true | _ => False end.

Lemma step_exec_static w a fs m fail :
  let w' := fst (step w (Exec a fs m fail)) in
  kind w' = kind w /\ self_addr w' = self_addr w /\ pool_addr w' = pool_addr w /\ wnow w' = wnow w.
Proof.
  cbv zeta. rewrite step_fst. destruct (try_step w (Exec a fs m fail)) as [[w' out]|] eqn:H; [|tauto].
  destruct (try_step_static _ _ _ _ H) as (Hk & Hs & Hp). splits; try assumption.
  unfold try_step in H. step H. apply run_market_inv in H. destruct H as (s' & _ & Hd & _).
  apply dispatch_static in Hd. destruct Hd as (_ & _ & _ & _ & Hn & _). exact Hn.
Qed.

Lemma tokens_honest_static w w' g : kind w' = kind w -> tokens_honest w g -> tokens_honest w' g.
Proof. intros Hk [H1 H2]. unfold tokens_honest. rewrite Hk. tauto. Qed.

Lemma find_key_head {V} (k : key) (v : V) r : find_key k ((k, v) :: r) = Some v.
Proof. simpl. rewrite key_eqb_refl. reflexivity. Qed.

Lemma remove_key_head {V} (k : key) (v : V) r : NoDup (map fst ((k, v) :: r)) -> remove_key k ((k, v) :: r) = r.
Proof. intros H. inv H. simpl. rewrite key_eqb_refl. apply remove_key_notin. assumption. Qed.

Lemma drain_from n : forall w,
  good w -> ids_bounded (market w) -> records_ok w -> all_due w ->
  (length (listings (market w)) + length (buckets (market w)) = n)%nat ->
  exists ops, Forall is_exit_op ops /\ good (run w ops) /\
              listings (market (run w ops)) = [] /\ buckets (market (run w ops)) = [].
Proof.
  induction n as [|n IH]; intros w G B R D Hn.
  - exists []. simpl. split; [constructor|]. split; [exact G|].
    destruct (listings (market w)), (buckets (market w)); simpl in Hn; try lia. tauto.
  - pose proof G as [Iv Hc Hp Hself Hb]. destruct R as [R1 R2].
    destruct (listings (market w)) as [|[[a id] l] rest] eqn:El.
    + (* no listings left: exit the first bucket *)
      destruct (buckets (market w)) as [|[[a id] b] brest] eqn:Eb; [simpl in Hn; lia|].
      destruct (R2 (a, id) b (or_introl eq_refl)) as [[Ha Hka] Hh]. simpl in Ha, Hka.
      assert (Hf : find_key (a, id) (buckets (market w)) = Some b) by (rewrite Eb; apply find_key_head).
      destruct (exit_bucket w a id b G B Hf Ha Hh) as [Hok Hm].
      set (o := Exec a [] (RemoveBucket id) None) in *. set (w1 := fst (step w o)).
      destruct (step_exec_static w a [] (RemoveBucket id) None) as (Hk1 & Hs1 & Hp1 & Hn1). fold o in Hk1, Hs1, Hp1, Hn1. fold w1 in Hk1, Hs1, Hp1, Hn1.
      assert (Hbk : buckets (market w1) = brest).
      { unfold w1. rewrite Hm. simpl. rewrite Eb. apply remove_key_head. rewrite <- Eb. apply Inv_bkeys, Iv. }
      assert (Hls : listings (market w1) = []) by (unfold w1; rewrite Hm; simpl; exact El).
      assert (G1 : good w1) by (apply step_good; [exact G | simpl; tauto]).
      destruct (IH w1) as (ops & Hex & Gf & L0 & B0); try assumption.
      * apply step_ids_bounded; assumption.
      * split; [rewrite Hls; intros k l0 []|]. rewrite Hbk. intros k b0 Hin.
        destruct (R2 k b0 (or_intror Hin)) as [[E1 E2] E3]. unfold entitled_ok. rewrite Hs1, Hk1.
        split; [tauto | eapply tokens_honest_static; eassumption].
      * unfold all_due. rewrite Hls. intros k l0 x [].
      * rewrite Hls, Hbk. simpl in Hn. simpl. lia.
      * exists (o :: ops). split; [constructor; [reflexivity | exact Hex]|]. exact (conj Gf (conj L0 B0)).
    + (* exit the first listing: withdrawal if sold, deletion otherwise (everything is due) *)
      destruct (R1 (a, id) l (or_introl eq_refl)) as [[Ha Hka] Hh]. simpl in Ha, Hka.
      assert (Hf : find_key (a, id) (listings (market w)) = Some l) by (rewrite El; apply find_key_head).
      assert (Hexit : exists m, is_payout m = true /\
                ok (snd (step w (Exec a [] m None))) = true /\
                market (fst (step w (Exec a [] m None))) = set_listings (market w) (remove_key (a, id) (listings (market w)))).
      { destruct (lstatus l) eqn:Est.
        - exists (DeleteListing id). split; [reflexivity|]. apply (exit_listing_delete w a id l); try assumption; [congruence|].
          intros x Hx. eapply D; [rewrite El; left; reflexivity | exact Hx].
        - exists (DeleteListing id). split; [reflexivity|]. apply (exit_listing_delete w a id l); try assumption; [congruence|].
          intros x Hx. eapply D; [rewrite El; left; reflexivity | exact Hx].
        - exists (WithdrawPurchased id). split; [reflexivity|]. apply (exit_listing_withdraw w a id l); assumption. }
      destruct Hexit as (m & Hpm & Hok & Hm).
      set (o := Exec a [] m None) in *. set (w1 := fst (step w o)).
      destruct (step_exec_static w a [] m None) as (Hk1 & Hs1 & Hp1 & Hn1). fold o in Hk1, Hs1, Hp1, Hn1. fold w1 in Hk1, Hs1, Hp1, Hn1.
      assert (Hls : listings (market w1) = rest).
      { unfold w1. rewrite Hm. simpl. rewrite El. apply remove_key_head. rewrite <- El. apply Inv_lkeys, Iv. }
      assert (Hbk : buckets (market w1) = buckets (market w)) by (unfold w1; rewrite Hm; reflexivity).
      assert (G1 : good w1) by (apply step_good; [exact G | simpl; tauto]).
      destruct (IH w1) as (ops & Hex & Gf & L0 & B0); try assumption.
      * apply step_ids_bounded; assumption.
      * split.
        -- rewrite Hls. intros k l0 Hin. destruct (R1 k l0 (or_intror Hin)) as [[E1 E2] E3]. unfold entitled_ok. rewrite Hs1, Hk1.
           split; [tauto | eapply tokens_honest_static; eassumption].
        -- rewrite Hbk. intros k b0 Hin. destruct (R2 k b0 Hin) as [[E1 E2] E3]. unfold entitled_ok. rewrite Hs1, Hk1.
           split; [tauto | eapply tokens_honest_static; eassumption].
      * unfold all_due. rewrite Hls, Hn1. intros k l0 x Hin Hx. eapply D; [rewrite El; right; exact Hin | exact Hx].
      * rewrite Hls, Hbk. simpl in Hn. lia.
      * exists (o :: ops). split; [constructor; [exact Hpm | exact Hex]|]. exact (conj Gf (conj L0 B0)).
Qed.

Definition latest_exp (s : mstate) : N :=
  sumN (map (fun e => match exp (snd e) with Some x => x | None => 0 end) (listings s)).

Lemma latest_exp_ge s k l x : In (k, l) (listings s) -> exp l = Some x -> x <= latest_exp s.
Proof.
  unfold latest_exp. induction (listings s) as [|e r IH]; simpl; intros Hin Hx; [tauto|].
  destruct Hin as [-> | Hin]; [simpl; rewrite Hx; lia | specialize (IH Hin Hx); lia].
Qed.

(** From any good world whose records belong to user accounts and hold honest tokens: let
    time pass beyond every expiration, then every entitled party sends its one exit message —
    each succeeds, and afterwards no record remains and the marketplace holds nothing. *)
Theorem drain_empties w :
  good w -> ids_bounded (market w) -> records_ok w ->
  exists ops, Forall is_exit_op ops /\
    let w' := run w (Advance (latest_exp (market w)) 0 :: ops) in
    listings (market w') = [] /\ buckets (market w') = [] /\
    (forall x, honest_asset w' x -> held w' x = 0).
Proof.
  intros G B R. set (w0 := fst (step w (Advance (latest_exp (market w)) 0))).
  assert (E0 : w0 = set_clock w (wnow w + latest_exp (market w)) (height w + 0)) by reflexivity.
  assert (G0 : good w0) by (apply step_good; [exact G | exact Logic.I]).
  assert (Hm0 : market w0 = market w) by (rewrite E0; reflexivity).
  destruct (drain_from (length (listings (market w0)) + length (buckets (market w0))) w0 G0) as (ops & Hex & Gf & L0 & B0).
  - rewrite Hm0. exact B.
  - destruct R as [R1 R2]. rewrite E0. split; [intros k l Hin; apply (R1 k l Hin) | intros k b Hin; apply (R2 k b Hin)].
  - unfold all_due. rewrite Hm0. intros k l x Hin Hx. rewrite E0. simpl. pose proof (latest_exp_ge _ _ _ _ Hin Hx). lia.
  - reflexivity.
  - exists ops. split; [exact Hex|]. cbv zeta. change (run w (Advance (latest_exp (market w)) 0 :: ops)) with (run w0 ops).
    split; [exact L0|]. split; [exact B0|]. intros x Hx. rewrite (g_backed _ Gf x Hx). unfold owed. rewrite L0, B0. reflexivity.
Qed.
