(** * Exact: deposits and payouts move exactly the stated assets to the right party (C05). *)
From FM Require Export PoolFees.

(** ** What an account holds, and what a response credits it *)
Definition holds (w : world) (a : addr) (x : asset) : N :=
  match x with ANative d => bank w a d | ACw20 t => cw20bal w t a | ANft c k => owns w a c k end.

Definition rcpt (w : world) (m : out_msg) : addr :=
  match m with BankSend to _ | Cw20Transfer _ to _ | NftTransfer _ to _ => to | FundPool _ _ => pool_addr w end.

Definition credit1 (w : world) (x : asset) (a : addr) (m : out_msg) : N := if rcpt w m =? a then msg_val x m else 0.
Definition credit (w : world) (x : asset) (a : addr) (ms : list out_msg) : N := sumN (map (credit1 w x a) ms).

Lemma credit_app w x a m1 m2 : credit w x a (m1 ++ m2) = credit w x a m1 + credit w x a m2.
Proof. unfold credit. rewrite map_app, sumN_app. reflexivity. Qed.

Lemma owns'_self_other n a b c k : owns' n a c k = 1 -> a <> b -> owns' n b c k = 0.
Proof.
  unfold owns'. destruct (n c k) as [o|]; [|discriminate]. destruct (N.eqb_spec o a); [|discriminate]. subst.
  intros _ Hne. apply N.eqb_neq in Hne. rewrite Hne. reflexivity.
Qed.

Lemma dispatch1_credit w m w' a x :
  dispatch1 w m = Ok w' -> a <> self_addr w -> pool_addr w <> self_addr w -> honest_asset w x ->
  holds w' a x = holds w a x + credit1 w x a m.
Proof.
  unfold dispatch1, credit1. intros H Ha Hp Hx. destruct m as [to cs | t to amt0 | c to k | dp [d0 a0]]; simpl rcpt.
  - step H; [|discriminate]. step H. inv H. destruct x as [d | t | c k]; simpl; try (destruct (to =? a); lia).
    + destruct (N.eqb_spec to a) as [->|Hn].
      * apply (bank_move_dst _ _ _ _ _ d Hb). congruence.
      * rewrite (bank_move_third _ _ _ _ _ a d Hb) by congruence. lia.
    + unfold owns. simpl. destruct (to =? a); lia.
  - destruct (kind w t) eqn:Hk; try discriminate.
    + step H. inv H. destruct x as [d | t' | c k]; simpl; try (destruct (to =? a); lia).
      * destruct (N.eqb_spec t t') as [->|Hn].
        -- destruct (N.eqb_spec to a) as [->|Hn2].
           ++ apply (cw20_move_dst _ _ _ _ _ _ Hb). congruence.
           ++ rewrite (cw20_move_other _ _ _ _ _ _ t' a Hb) by (right; split; congruence). lia.
        -- rewrite (cw20_move_other _ _ _ _ _ _ t' a Hb) by (left; congruence). destruct (to =? a); lia.
      * unfold owns. simpl. destruct (to =? a); lia.
    + step H; [discriminate|]. inv H. destruct x as [d | t' | c k]; simpl; try (destruct (to =? a); lia).
      simpl in Hx. destruct (N.eqb_spec t t') as [->|Hn]; [congruence | destruct (to =? a); lia].
  - destruct (kind w c) eqn:Hk; try discriminate.
    + step H. inv H. destruct x as [d | t' | c' k']; simpl; try (destruct (to =? a); lia).
      destruct (nft_move_owns _ _ _ _ _ _ a c' k' Hb) as [O1 O2].
      unfold owns. simpl. fold (owns' x0 a c' k'). fold (owns' (nft_owner w) a c' k'). rewrite O2.
      unfold pair_eqb. cbn [fst snd]. rewrite (N.eqb_sym c c'), (N.eqb_sym k k').
      destruct ((c' =? c) && (k' =? k)) eqn:E; [|destruct (to =? a); lia].
      apply andb_true_iff in E. destruct E as [E1 E2]. apply N.eqb_eq in E1, E2. subst c' k'.
      rewrite (owns'_self_other _ _ a _ _ O1) by congruence. destruct (to =? a); lia.
    + step H; [discriminate|]. inv H. destruct x as [d | t' | c' k']; simpl; try (destruct (to =? a); lia).
      simpl in Hx. unfold pair_eqb. cbn [fst snd]. destruct (N.eqb_spec c c') as [->|Hn]; [congruence|]. simpl. destruct (to =? a); lia.
  - step H; [|discriminate]. step H. inv H. destruct x as [d | t | c k]; simpl; try (destruct (pool_addr w =? a); lia).
    + destruct (N.eqb_spec (pool_addr w) a) as [<-|Hn].
      * apply (bank_move1_dst _ _ _ (d0, a0) _ d Hb). congruence.
      * rewrite (bank_move1_third _ _ _ _ _ a d Hb) by congruence. lia.
    + unfold owns. simpl. destruct (pool_addr w =? a); lia.
Qed.

Lemma dispatch_credit ms : forall w i w' a x,
  dispatch w i None ms = Ok w' -> a <> self_addr w -> pool_addr w <> self_addr w -> honest_asset w x ->
  holds w' a x = holds w a x + credit w x a ms.
Proof.
  induction ms as [|m r IH]; intros w i w' a x H Ha Hp Hx.
  - simpl in H. inv H. unfold credit. simpl. lia.
  - cbn [dispatch] in H. step H.
    pose proof (dispatch1_static _ _ _ Hb) as (_ & _ & Hk & _ & _ & _ & _ & Hs & _ & Hpl).
    pose proof (dispatch1_credit _ _ _ a x Hb Ha Hp Hx) as E1.
    assert (Hx' : honest_asset x0 x) by (destruct x; simpl in *; congruence).
    rewrite <- Hs in Ha. rewrite <- Hs, <- Hpl in Hp.
    pose proof (IH _ _ _ a x H Ha Hp Hx') as E2.
    assert (Ec : credit x0 x a r = credit w x a r).
    { unfold credit. f_equal. apply map_ext. intros m0. unfold credit1, rcpt. rewrite Hpl. reflexivity. }
    unfold credit in *. simpl. lia.
Qed.

(** What a payout credits: the record's content to its owner, its fee to the pool, nothing
    to anybody else. *)
Lemma credit_send_tokens w x a to g : credit w x a (send_tokens_cosmos to g) = if to =? a then amt x g else 0.
Proof.
  destruct (to =? a) eqn:E.
  - rewrite <- (sent_send_tokens x to g). unfold credit, sent. f_equal. apply map_ext_in. intros m Hm.
    unfold credit1. assert (Hr : rcpt w m = to).
    { unfold send_tokens_cosmos in Hm. apply in_app_or in Hm. destruct Hm as [Hm | Hm]; [|apply in_app_or in Hm; destruct Hm as [Hm | Hm]].
      - destruct (native g); [destruct Hm|]. destruct Hm as [<- | []]. reflexivity.
      - apply in_map_iff in Hm. destruct Hm as (c & <- & _). reflexivity.
      - apply in_map_iff in Hm. destruct Hm as (c & <- & _). reflexivity. }
    rewrite Hr, E. reflexivity.
  - unfold credit. assert (Hz : forall m, In m (send_tokens_cosmos to g) -> credit1 w x a m = 0).
    { intros m Hm. unfold credit1. assert (Hr : rcpt w m = to).
      { unfold send_tokens_cosmos in Hm. apply in_app_or in Hm. destruct Hm as [Hm | Hm]; [|apply in_app_or in Hm; destruct Hm as [Hm | Hm]].
        - destruct (native g); [destruct Hm|]. destruct Hm as [<- | []]. reflexivity.
        - apply in_map_iff in Hm. destruct Hm as (c & <- & _). reflexivity.
        - apply in_map_iff in Hm. destruct Hm as (c & <- & _). reflexivity. }
      rewrite Hr, E. reflexivity. }
    induction (send_tokens_cosmos to g) as [|m r IH]; [reflexivity|]. simpl. rewrite Hz by (left; reflexivity).
    rewrite IH; [reflexivity|]. intros m0 Hm0. apply Hz. right. exact Hm0.
Qed.

Lemma credit_fee_msgs w x a me f : credit w x a (fee_msgs me f) = if pool_addr w =? a then feeamt x f else 0.
Proof.
  destruct f as [[d amt0]|]; unfold credit, credit1; simpl.
  - destruct (pool_addr w =? a); destruct x; simpl; lia.
  - destruct (pool_addr w =? a); destruct x; reflexivity.
Qed.

Lemma credit_withdraw w x a me to g f :
  credit w x a (withdraw_msgs me to g f) = (if to =? a then amt x g else 0) + (if pool_addr w =? a then feeamt x f else 0).
Proof. unfold withdraw_msgs. rewrite credit_app, credit_send_tokens, credit_fee_msgs. reflexivity. Qed.

(** ** Deposits *)
Definition deposit_target (sender : addr) (m : exec_msg) : option (bool * key) :=
  match m with
  | CreateListing id _ _ | AddToListing id => Some (true, (sender, id))
  | CreateBucket id | AddToBucket id => Some (false, (sender, id))
  | Receive sd _ (Some (CreateListingCw20 id _ _)) | Receive sd _ (Some (AddToListingCw20 id)) => Some (true, (sd, id))
  | Receive sd _ (Some (CreateBucketCw20 id)) | Receive sd _ (Some (AddToBucketCw20 id)) => Some (false, (sd, id))
  | ReceiveNft sd _ (Some (CreateListingCw721 id _ _)) | ReceiveNft sd _ (Some (AddToListingCw721 id)) => Some (true, (sd, id))
  | ReceiveNft sd _ (Some (CreateBucketCw721 id)) | ReceiveNft sd _ (Some (AddToBucketCw721 id)) => Some (false, (sd, id))
  | _ => None
  end.

Definition only_listing_changed (s s' : mstate) (K : key) : Prop :=
  (forall k, k <> K -> find_key k (listings s') = find_key k (listings s)) /\ buckets s' = buckets s.
Definition only_bucket_changed (s s' : mstate) (K : key) : Prop :=
  (forall k, k <> K -> find_key k (buckets s') = find_key k (buckets s)) /\ listings s' = listings s.

(** Every successful creation or top-up sends nothing, increases what is owed by exactly the
    deposit (per asset: attached coins, hook amount, hook NFT), and changes no record but the
    named one of the depositor. *)
Theorem deposit_exact o e sender fs m s s' out isl K :
  Inv s -> execute o e sender fs m s = Ok (s', out) -> deposit_target sender m = Some (isl, K) ->
  out = [] /\ (forall x, owed x s' = owed x s + dep x sender fs m) /\
  (if isl then only_listing_changed s s' K else only_bucket_changed s s' K).
Proof.
  intros I H Ht. pose proof (fun x => accounting x _ _ _ _ _ _ _ _ I H) as Hacc.
  assert (Hgoal : out = [] -> (if isl then only_listing_changed s s' K else only_bucket_changed s s' K) ->
            out = [] /\ (forall x, owed x s' = owed x s + dep x sender fs m) /\
            (if isl then only_listing_changed s s' K else only_bucket_changed s s' K)).
  { intros -> Hfr. split; [reflexivity|]. split; [|exact Hfr]. intros x. specialize (Hacc x). rewrite sent_nil in Hacc. lia. }
  clear Hacc. unfold execute in H. step H; [discriminate|]. clear Hc.
  assert (HcrL : forall user ok g id a w, create_listing_g user ok g id a w s = Ok (s', out) -> out = [] /\ only_listing_changed s s' (user, id)).
  { intros user ok g id a w Hh. apply create_listing_g_inv in Hh. destruct Hh as (va & _ & _ & _ & _ & _ & _ & _ & -> & ->).
    split; [reflexivity|]. split; [|reflexivity]. intros k Hk. sstate. apply find_key_put_other, Hk. }
  assert (HaddL : forall sd ok upd chk id, add_to_listing_g sd ok upd chk id s = Ok (s', out) -> out = [] /\ only_listing_changed s s' (sd, id)).
  { intros sd ok upd chk id Hh. apply add_to_listing_g_inv in Hh. destruct Hh as (l & g & _ & _ & _ & _ & _ & _ & -> & ->).
    split; [reflexivity|]. split; [|reflexivity]. intros k Hk. sstate. apply find_key_put_other, Hk. }
  assert (HcrB : forall c ok g id, create_bucket_g c ok g id s = Ok (s', out) -> out = [] /\ only_bucket_changed s s' (c, id)).
  { intros c ok g id Hh. apply create_bucket_g_inv in Hh. destruct Hh as (_ & _ & _ & _ & -> & ->).
    split; [reflexivity|]. split; [|reflexivity]. intros k Hk. sstate. apply find_key_put_other, Hk. }
  assert (HaddB : forall sd ok upd id, add_to_bucket_g sd ok upd id s = Ok (s', out) -> out = [] /\ only_bucket_changed s s' (sd, id)).
  { intros sd ok upd id Hh. apply add_to_bucket_g_inv in Hh. destruct Hh as (bk & g & _ & _ & _ & _ & _ & _ & -> & ->).
    split; [reflexivity|]. split; [|reflexivity]. intros k Hk. sstate. apply find_key_put_other, Hk. }
  destruct m; simpl in Ht; try discriminate.
  - step H; [|discriminate]. unfold execute_receive in H.
    step H; [discriminate|]. step H; [discriminate|]. destruct inner as [im|]; [|discriminate]. step H; [discriminate|].
    destruct im; inv Ht; [destruct (HcrL _ _ _ _ _ _ H) | destruct (HaddL _ _ _ _ _ H) | destruct (HcrB _ _ _ _ H) | destruct (HaddB _ _ _ _ H)]; apply Hgoal; assumption.
  - unfold execute_receive_nft in H.
    step H; [discriminate|]. step H; [discriminate|]. destruct inner as [im|]; [|discriminate]. step H; [discriminate|].
    destruct im; inv Ht; [destruct (HcrL _ _ _ _ _ _ H) | destruct (HaddL _ _ _ _ _ H) | destruct (HcrB _ _ _ _ H) | destruct (HaddB _ _ _ _ H)]; apply Hgoal; assumption.
  - inv Ht. step H; [|discriminate]. destruct (HcrL _ _ _ _ _ _ H). apply Hgoal; assumption.
  - inv Ht. step H; [|discriminate]. destruct (HaddL _ _ _ _ _ H). apply Hgoal; assumption.
  - inv Ht. step H; [|discriminate]. destruct (HcrB _ _ _ _ H). apply Hgoal; assumption.
  - inv Ht. step H; [|discriminate]. destruct (HaddB _ _ _ _ H). apply Hgoal; assumption.
Qed.

(** ** Payouts *)
Inductive payout_of (e : env) (sender : addr) (s s' : mstate) (out : list out_msg) : exec_msg -> gbal -> option coin -> Prop :=
| PO_bucket id b :
    find_key (sender, id) (buckets s) = Some b -> owner b = sender ->
    find_key (sender, id) (buckets s') = None -> only_bucket_changed s s' (sender, id) ->
    out = withdraw_msgs (self e) sender (funds b) (bfee b) ->
    payout_of e sender s s' out (RemoveBucket id) (funds b) (bfee b)
| PO_delete id l :
    find_key (sender, id) (listings s) = Some l -> creator l = sender -> lfee l = None ->
    find_key (sender, id) (listings s') = None -> only_listing_changed s s' (sender, id) ->
    out = withdraw_msgs (self e) sender (for_sale l) None ->
    payout_of e sender s s' out (DeleteListing id) (for_sale l) None
| PO_withdraw id l :
    find_key (sender, id) (listings s) = Some l -> claimant l = Some sender ->
    find_key (sender, id) (listings s') = None -> only_listing_changed s s' (sender, id) ->
    out = withdraw_msgs (self e) sender (for_sale l) (lfee l) ->
    payout_of e sender s s' out (WithdrawPurchased id) (for_sale l) (lfee l).

Definition is_payout (m : exec_msg) : bool :=
  match m with RemoveBucket _ | DeleteListing _ | WithdrawPurchased _ => true | _ => false end.

(** Every successful bucket removal, listing deletion or purchased-listing withdrawal removes
    the sender's record and nothing else, and emits exactly: its recorded assets to the sender,
    plus its recorded fee to the community pool (a deletion — a record that never traded —
    carries no fee). *)
Theorem payout_exact o e sender fs m s s' out :
  Inv s -> execute o e sender fs m s = Ok (s', out) -> is_payout m = true ->
  exists g f, payout_of e sender s s' out m g f.
Proof.
  intros I H Hp. unfold execute in H. step H; [discriminate|]. destruct m; try discriminate; (step H; [|discriminate]).
  - apply delete_listing_inv in H. destruct H as (l & Hf & Hcr & Hcl & _ & -> & ->).
    destruct (Inv_find_listing _ _ _ I Hf) as [W _].
    assert (Hnofee : lfee l = None).
    { pose proof (wl_life _ _ W) as Life. unfold life_ok in Life. destruct (lstatus l); try tauto. destruct Life as [E _]. congruence. }
    exists (for_sale l), None. eapply PO_delete; try eassumption; sstate.
    + congruence.
    + apply find_key_remove_same.
    + split; [|reflexivity]. intros k Hk. sstate. apply find_key_remove_other, Hk.
    + unfold withdraw_msgs. simpl. rewrite app_nil_r. congruence.
  - apply withdraw_bucket_inv in H. destruct H as (bk & Hf & Hown & -> & ->).
    exists (funds bk), (bfee bk). eapply PO_bucket; try eassumption; sstate.
    + apply find_key_remove_same.
    + split; [|reflexivity]. intros k Hk. sstate. apply find_key_remove_other, Hk.
    + congruence.
  - apply withdraw_purchased_inv in H. destruct H as (k & l & Hf & Hcl & Hst & -> & ->).
    destruct (Inv_find_by_id _ _ _ _ I Hf) as (W & Hin & Hid & Hk & Hfk).
    pose proof (wl_life _ _ W) as Life. unfold life_ok in Life. rewrite Hst in Life. destruct Life as (L1 & _).
    assert (Hcs : creator l = sender) by congruence. rewrite Hk, Hcs in Hfk.
    exists (for_sale l), (lfee l). eapply PO_withdraw; try eassumption; sstate.
    + apply find_key_remove_same.
    + split; [|reflexivity]. intros k0 Hk0. sstate. apply find_key_remove_other, Hk0.
    + reflexivity.
Qed.

(** ** World level: who gains what from a payout *)
Theorem payout_wallets w a m fail :
  good w -> a <> self_addr w -> is_payout m = true ->
  ok (snd (step w (Exec a [] m fail))) = true ->
  let w' := fst (step w (Exec a [] m fail)) in
  exists g f, payout_of (env_of w) a (market w) (market w') (msgs (snd (step w (Exec a [] m fail)))) m g f /\
    forall x b, honest_asset w x -> b <> self_addr w ->
      holds w' b x = holds w b x + (if a =? b then amt x g else 0) + (if pool_addr w =? b then feeamt x f else 0).
Proof.
  intros [Iv Hc Hp Hself Hb] Ha Hpay Hok. unfold step in *. destruct (try_step w (Exec a [] m fail)) as [[w' out]|] eqn:H; [|discriminate].
  simpl. unfold try_step in H. simpl in H. apply run_market_inv in H. destruct H as (s' & He & Hd & Hm). apply dispatch_fail_none in Hd.
  assert (He' : execute (oracle_of w) (env_of w) a [] m (market w) = Ok (s', out)) by exact He.
  destruct (payout_exact _ _ _ _ _ _ _ _ Iv He' Hpay) as (g & f & Hpo). rewrite Hm. exists g, f. split; [exact Hpo|].
  intros x b Hx Hbne.
  assert (Hx' : honest_asset (set_market (set_bank w (bank w)) s') x) by (destruct x; exact Hx).
  pose proof (dispatch_credit _ _ _ _ b x Hd Hbne Hp Hx') as E.
  assert (E0 : holds (set_market (set_bank w (bank w)) s') b x = holds w b x) by (destruct x; reflexivity).
  assert (Ec : credit (set_market (set_bank w (bank w)) s') x b out = credit w x b out) by reflexivity.
  rewrite E0, Ec in E. rewrite E.
  assert (Eout : out = withdraw_msgs (self_addr w) a g f) by (inversion Hpo; subst; first [reflexivity | assumption]).
  rewrite Eout, credit_withdraw. lia.
Qed.

(** ** World level: what a native deposit takes from its sender *)
Lemma bank_move1_src' b src dst c b' d : bank_move1 b src dst c = Ok b' -> src <> dst -> b' src d + fee_amt d (Some c) = b src d.
Proof. apply bank_move1_src. Qed.

Lemma pay_funds_src b src dst cs b' d : pay_funds b src dst cs = Ok b' -> src <> dst -> b' src d + amount_of d cs = b src d.
Proof.
  unfold pay_funds. intros H Hne. destruct cs as [|c r]; [inv H; simpl; lia|].
  remember (filter (fun c : denom * N => negb (snd c =? 0)) (c :: r)) as nz. destruct nz; [discriminate|].
  pose proof (bank_move_src _ _ _ _ _ d H Hne) as E. rewrite Heqnz, amount_of_nonzero in E. exact E.
Qed.

Theorem deposit_wallets w a fs m fail isl K :
  good w -> a <> self_addr w -> is_hook m = false -> deposit_target a m = Some (isl, K) ->
  ok (snd (step w (Exec a fs m fail))) = true ->
  let w' := fst (step w (Exec a fs m fail)) in
  fst K = a /\
  (forall d, bank w' a d + amount_of d fs = bank w a d) /\
  (forall d, bank w' (self_addr w) d = bank w (self_addr w) d + amount_of d fs) /\
  (forall b d, b <> a -> b <> self_addr w -> bank w' b d = bank w b d) /\
  cw20bal w' = cw20bal w /\ nft_owner w' = nft_owner w.
Proof.
  intros [Iv Hc Hp Hself Hb] Ha Hh Ht Hok. unfold step in *. destruct (try_step w (Exec a fs m fail)) as [[w' out]|] eqn:H; [|discriminate].
  simpl. unfold try_step in H. step H. rename x into b0. apply run_market_inv in H. destruct H as (s' & He & Hd & Hm).
  assert (He' : execute (oracle_of w) (env_of w) a fs m (market w) = Ok (s', out)) by exact He.
  destruct (deposit_exact _ _ _ _ _ _ _ _ _ _ Iv He' Ht) as (-> & _ & _). simpl in Hd. inv Hd. simpl.
  split; [destruct m; simpl in Ht, Hh; try discriminate; inv Ht; reflexivity|].
  split; [intros d; eapply pay_funds_src; eassumption|].
  split; [intros d; eapply pay_funds_dst; eassumption|].
  split; [intros b d H1 H2; eapply pay_funds_third; eassumption|]. split; reflexivity.
Qed.
