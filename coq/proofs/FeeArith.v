(** * FeeArith: the 0.5 % fee split is exact and total (C17, first half). *)
From FM Require Export ListFacts.

Definition amounts_ok (l : list (N * N)) : Prop := Forall (fun c => snd c < U128) l.
Definition wf_amounts (g : gbal) : Prop := amounts_ok (native g) /\ amounts_ok (cw20 g).

Lemma find_fee_some fv l k a :
  NoDup (map fst l) -> find (fun c => fst c =? fv) l = Some (k, a) ->
  k = fv /\ In (fv, a) l /\ amount_of fv l = a.
Proof.
  induction l as [|[k' a'] r IH]; simpl; intros Hnd Hf; [discriminate|]. inv Hnd.
  dN k' fv.
  - inv Hf. split; [reflexivity|]. split; [left; reflexivity|].
    rewrite amount_of_notin by assumption. lia.
  - destruct (IH H2 Hf) as (-> & Hin & Ham). split; [reflexivity|]. split; [right; assumption|]. lia.
Qed.

Lemma find_fee_none fv (l : list (N * N)) :
  find (fun c => fst c =? fv) l = None -> amount_of fv l = 0.
Proof.
  induction l as [|[k' a'] r IH]; simpl; intros Hf; [reflexivity|].
  dN k' fv; [discriminate | rewrite IH by assumption; lia].
Qed.

Lemma amounts_ok_In l k a : amounts_ok l -> In (k, a) l -> a < U128.
Proof. intros H Hin. unfold amounts_ok in H. rewrite Forall_forall in H. apply (H (k, a) Hin). Qed.

Lemma amounts_ok_filter f l : amounts_ok l -> amounts_ok (filter f l).
Proof.
  unfold amounts_ok. rewrite !Forall_forall. intros H x Hx. apply filter_In in Hx. apply H, Hx.
Qed.

(** Floor: [q = a * n / d] is the floor of the rational product. *)
Lemma floor_spec a n d : d <> 0 -> d * (a * n / d) <= a * n /\ a * n < d * (a * n / d + 1).
Proof. intros Hd. split; nia. Qed.

Lemma fee_le a : a * 5 / 1000 <= a.
Proof. lia. Qed.

Lemma fee_lt a : 0 < a -> a * 5 / 1000 < a.
Proof. lia. Qed.

Lemma mul_ratio_fee a : a < U128 -> mul_ratio a 5 1000 = Ok (a * 5 / 1000).
Proof.
  intros Ha. unfold mul_ratio. simpl (1000 =? 0).
  assert (H : a * 5 / 1000 <? U128 = true) by (apply N.ltb_lt; pose proof (fee_le a); lia).
  cbv zeta. rewrite H. reflexivity.
Qed.

Theorem calc_fee_total_exact fd g :
  wf_amounts g -> NoDup (map fst (native g)) ->
  let fv := fee_denom_value fd in
  exists fee g', calc_fee_coin fd g = Ok (fee, g') /\
    nfts g' = nfts g /\ cw20 g' = cw20 g /\
    (forall d, d <> fv -> amount_of d (native g') = amount_of d (native g)) /\
    amount_of fv (native g') + fee_amt fv fee = amount_of fv (native g) /\
    fee_amt fv fee = amount_of fv (native g) * 5 / 1000 /\
    (fee = None <-> amount_of fv (native g) * 5 / 1000 = 0) /\
    (forall d a, fee = Some (d, a) -> d = fv /\ 0 < a) /\
    wf_amounts g' /\ NoDup (map fst (native g')) /\
    length (native g') = length (native g).
Proof.
  intros [Hn Hc] Hnd fv. unfold calc_fee_coin. fold fv.
  destruct (find (fun c => fst c =? fv) (native g)) as [[k a]|] eqn:Hf.
  - destruct (find_fee_some _ _ _ _ Hnd Hf) as (-> & Hin & Ham).
    pose proof (amounts_ok_In _ _ _ Hn Hin) as Ha.
    rewrite (mul_ratio_fee a Ha). cbn [bind].
    dN (a * 5 / 1000) 0.
    + exists None, g. repeat split; try assumption; try reflexivity.
      * simpl. lia.
      * simpl. rewrite Ham. lia.
      * intros _. rewrite Ham. assumption.
      * discriminate.
      * discriminate.
    + unfold checked_sub. assert (Hle : a * 5 / 1000 <=? a = true) by (apply N.leb_le, fee_le).
      rewrite Hle. cbn [bind].
      eexists (Some (fv, a * 5 / 1000)), _. split; [reflexivity|]. cbn [nfts cw20 native].
      repeat split.
      * intros d Hd. rewrite amount_of_app, amount_of_filter_ne by assumption. simpl.
        dN fv d; [congruence | lia].
      * rewrite amount_of_app, amount_of_filter_eq. simpl. rewrite N.eqb_refl, Ham. pose proof (fee_le a). lia.
      * simpl. rewrite N.eqb_refl, Ham. reflexivity.
      * discriminate.
      * intros H. rewrite Ham in H. contradiction.
      * inv H. reflexivity.
      * inv H. lia.
      * unfold amounts_ok. apply Forall_app. split; [apply amounts_ok_filter, Hn|].
        constructor; [simpl; lia | constructor].
      * assumption.
      * rewrite map_app. simpl. apply NoDup_app_single.
        -- apply NoDup_map_filter, Hnd.
        -- intros Hin'. apply in_map_iff in Hin'. destruct Hin' as ([k' a'] & Hk & Hin').
           apply filter_In in Hin'. simpl in *. subst. destruct Hin' as [_ Hne].
           rewrite N.eqb_refl in Hne. discriminate.
      * rewrite app_length. pose proof (length_filter_remove1 fv a (native g) Hnd Hin) as Hl. simpl. rewrite Nat.add_1_r. exact Hl.
  - exists None, g. pose proof (find_fee_none _ _ Hf) as Hz. repeat split; try assumption; try reflexivity.
    + simpl. lia.
    + simpl. rewrite Hz. reflexivity.
    + intros _. rewrite Hz. reflexivity.
    + discriminate.
    + discriminate.
Qed.
