(** * FeeCycle: corollaries for C13 (alternation, spacing, charging denomination). *)
From FM Require Export Ids.

Lemma sat_add64_lt last t : t < U64 -> sat_add64 last WEEK_IN_SECS < t -> last + WEEK_IN_SECS < t.
Proof. unfold sat_add64. intros Ht H. lia. Qed.

(** A step that changes the fee item: it is the cycle message, more than a week of block time
    after the previous switch (or instantiation), the denomination flips, the switch time is
    recorded. *)
Theorem step_fee_spacing w o :
  seconds (wnow w) < U64 ->
  fee (market (fst (step w o))) <> fee (market w) ->
  (exists a fail, o = Exec a [] FeeCycle fail) /\
  fee_last (fee (market w)) + WEEK_IN_SECS < seconds (wnow w) /\
  fee_last (fee (market (fst (step w o)))) = seconds (wnow w) /\
  fee_denom_value (fee (market (fst (step w o)))) <> fee_denom_value (fee (market w)) /\
  (fee_denom_value (fee (market (fst (step w o)))) = D_JUNO \/ fee_denom_value (fee (market (fst (step w o)))) = D_USDC).
Proof.
  intros Ht Hne. destruct (step_fee_change w o Hne) as (Hop & Hlt & Hfl).
  split; [exact Hop|]. split; [apply sat_add64_lt; assumption|].
  rewrite Hfl. destruct (fee (market w)); simpl; splits; try reflexivity; try discriminate; tauto.
Qed.

(** The successful cycle changes the fee item and nothing else in the world. *)
Theorem cycle_effect w a fail :
  ok (snd (step w (Exec a [] FeeCycle fail))) = true ->
  fst (step w (Exec a [] FeeCycle fail)) =
  set_market w (set_fee (market w) (flip (fee (market w)) (seconds (wnow w)))).
Proof.
  unfold step, try_step. simpl. unfold run_market, execute. simpl.
  destruct (execute_cycle_fee (env_of (set_bank w (bank w))) (market w)) as [[s' out]|] eqn:E; simpl; [|discriminate].
  apply cycle_fee_effect in E. destruct E as [-> ->]. simpl. intros _.
  destruct w; reflexivity.
Qed.

(** The fee computed by [calc_fee_coin] is in the denomination in force. *)
Lemma calc_fee_coin_denom fd g c g' : calc_fee_coin fd g = Ok (Some c, g') -> fst c = fee_denom_value fd.
Proof.
  unfold calc_fee_coin. intros H.
  cbv zeta in H. step H; [|inv H]. destruct p as [d a]. step H. step H; [inv H|]. step H. inv H. reflexivity.
Qed.

Lemma execute_buy_inv o e sender fs l b s r :
  execute o e sender fs (BuyListing l b) s = Ok r -> execute_buy_listing o e sender l b s = Ok r /\ fs = [].
Proof.
  unfold execute. intros H. step H; [discriminate|]. step H; [|discriminate].
  apply andb_true_iff in Hc0. destruct Hc0 as [_ Hn]. destruct fs; [tauto | discriminate].
Qed.

(** Each purchase records its two fees in the denomination in force at that moment. *)
Theorem buy_fee_denom o e sender fs l_id b_id s s' out :
  execute o e sender fs (BuyListing l_id b_id) s = Ok (s', out) ->
  exists kl l l' b',
    find_by_id l_id (listings s) = Some (kl, l) /\
    find_key (sender, l_id) (listings s') = Some l' /\
    find_key (creator l, b_id) (buckets s') = Some b' /\
    (forall c, lfee l' = Some c -> fst c = fee_denom_value (fee s)) /\
    (forall c, bfee b' = Some c -> fst c = fee_denom_value (fee s)) /\
    fee s' = fee s.
Proof.
  intros H. apply execute_buy_inv in H. destruct H as [H _]. apply buy_inv in H.
  destruct H as (bk & kl & l & l_fee & l_bal & b_fee & b_bal & reg & m1 & final_b & m2 & final_l &
                 Hfb & Hfl & Hown & Hcmp & Hst & Hwl & Hcl & Hexp & Hlf & Hbf & Hreg & Hr1 & Hr2 & Hfresh & -> & _).
  eexists kl, l, _, _. split; [exact Hfl|]. sstate.
  split; [apply find_key_put_same|]. split; [apply find_key_put_same|]. simpl.
  splits; try reflexivity.
  - intros c Hc. subst l_fee. eapply calc_fee_coin_denom. exact Hlf.
  - intros c Hc. subst b_fee. eapply calc_fee_coin_denom. exact Hbf.
Qed.
