(** * Forward: a listing's status only moves forward, absence after presence is permanent
    (C08, C03, C09). *)
From FM Require Export Deposits.

(** Where the listings of the post-state come from: an entry with the same id in the
    pre-state, or a creation under an id that was never used. *)
Lemma In_put_source {V} (k k' : key) (v v' : V) l : In (k', v') (put k v l) -> (k', v') = (k, v) \/ In (k', v') l.
Proof. intros H. apply In_put in H. tauto. Qed.

Theorem execute_lsource o e sender fs m s s' out k' l' :
  execute o e sender fs m s = Ok (s', out) -> In (k', l') (listings s') ->
  (exists k l, In (k, l) (listings s) /\ lid l = lid l' /\
               (lstatus l' = lstatus l \/ (lstatus l = BeingPrepared /\ lstatus l' = FinalizedReady) \/
                (lstatus l = FinalizedReady /\ lstatus l' = Closed))) \/
  (~ In (lid l') (l_used s) /\ lstatus l' = BeingPrepared /\ lid l' < MAX_SAFE_INT).
Proof.
  intros H Hin. unfold execute in H. step H; [discriminate|]. clear Hc.
  assert (Hsame : listings s' = listings s ->
            exists k l, In (k, l) (listings s) /\ lid l = lid l' /\
               (lstatus l' = lstatus l \/ (lstatus l = BeingPrepared /\ lstatus l' = FinalizedReady) \/
                (lstatus l = FinalizedReady /\ lstatus l' = Closed))).
  { intros E. rewrite E in Hin. exists k', l'. tauto. }
  assert (Hcreate : forall user ok g id a w, create_listing_g user ok g id a w s = Ok (s', out) ->
            (exists k l, In (k, l) (listings s) /\ lid l = lid l' /\
               (lstatus l' = lstatus l \/ (lstatus l = BeingPrepared /\ lstatus l' = FinalizedReady) \/
                (lstatus l = FinalizedReady /\ lstatus l' = Closed))) \/
            (~ In (lid l') (l_used s) /\ lstatus l' = BeingPrepared /\ lid l' < MAX_SAFE_INT)).
  { intros user ok g id a w Hh. apply create_listing_g_inv in Hh.
    destruct Hh as (va & Hmax & _ & Hn & _ & _ & _ & _ & -> & _). revert Hin. sstate. intros Hin. apply max_ok_lt in Hmax.
    apply In_put_source in Hin. destruct Hin as [E | Hin]; [inv E; right; simpl; tauto | left; exists k', l'; tauto]. }
  assert (Hadd : forall sd ok upd chk id, add_to_listing_g sd ok upd chk id s = Ok (s', out) ->
            exists k l, In (k, l) (listings s) /\ lid l = lid l' /\
               (lstatus l' = lstatus l \/ (lstatus l = BeingPrepared /\ lstatus l' = FinalizedReady) \/
                (lstatus l = FinalizedReady /\ lstatus l' = Closed))).
  { intros sd ok upd chk id Hh. apply add_to_listing_g_inv in Hh.
    destruct Hh as (l & g & _ & Hf & _ & _ & _ & _ & -> & _). revert Hin. sstate. intros Hin.
    apply In_put_source in Hin. destruct Hin as [E | Hin]; [|exists k', l'; tauto].
    inv E. exists (sd, id), l. split; [apply find_key_In, Hf|]. simpl. tauto. }
  assert (Hbk : forall bs, s' = set_buckets s bs -> listings s' = listings s) by (intros bs ->; reflexivity).
  assert (Hbkm : forall bs id, s' = mark_b (set_buckets s bs) id -> listings s' = listings s) by (intros bs id ->; reflexivity).
  destruct m.
  - step H; [|discriminate]. apply cycle_fee_effect in H. destruct H as [-> _]. left. apply Hsame. reflexivity.
  - step H; [|discriminate]. unfold execute_receive in H.
    step H; [discriminate|]. step H; [discriminate|]. destruct inner as [im|]; [|discriminate].
    step H; [discriminate|]. destruct im.
    + eapply Hcreate, H.
    + left. eapply Hadd, H.
    + left. apply Hsame. apply create_bucket_g_inv in H. destruct H as (_ & _ & _ & _ & Hs & _). eapply Hbkm, Hs.
    + left. apply Hsame. apply add_to_bucket_g_inv in H. destruct H as (bk & g & _ & _ & _ & _ & _ & _ & Hs & _). eapply Hbk, Hs.
  - unfold execute_receive_nft in H.
    step H; [discriminate|]. step H; [discriminate|]. destruct inner as [im|]; [|discriminate].
    step H; [discriminate|]. destruct im.
    + eapply Hcreate, H.
    + left. eapply Hadd, H.
    + left. apply Hsame. apply create_bucket_g_inv in H. destruct H as (_ & _ & _ & _ & Hs & _). eapply Hbkm, Hs.
    + left. apply Hsame. apply add_to_bucket_g_inv in H. destruct H as (bk & g & _ & _ & _ & _ & _ & _ & Hs & _). eapply Hbk, Hs.
  - step H; [|discriminate]. eapply Hcreate, H.
  - step H; [|discriminate]. left. eapply Hadd, H.
  - step H; [|discriminate]. left. apply change_ask_inv in H. destruct H as (l & va & Hf & _ & _ & _ & -> & _).
    revert Hin. sstate. intros Hin. apply In_put_source in Hin. destruct Hin as [E | Hin]; [|exists k', l'; tauto].
    inv E. exists (sender, id), l. split; [apply find_key_In, Hf|]. simpl. tauto.
  - step H; [|discriminate]. left. apply finalize_inv in H. destruct H as (l & Hf & He & _ & _ & _ & -> & _).
    apply editable_inv in He. destruct He as (_ & Hst & _).
    revert Hin. sstate. intros Hin. apply In_put_source in Hin. destruct Hin as [E | Hin]; [|exists k', l'; tauto].
    inv E. exists (sender, id), l. split; [apply find_key_In, Hf|]. simpl. tauto.
  - step H; [|discriminate]. left. apply delete_listing_inv in H. destruct H as (l & _ & _ & _ & _ & -> & _).
    revert Hin. sstate. intros Hin. apply In_remove_key in Hin. exists k', l'. tauto.
  - step H; [|discriminate]. left. apply Hsame. apply create_bucket_g_inv in H. destruct H as (_ & _ & _ & _ & Hs & _). eapply Hbkm, Hs.
  - step H; [|discriminate]. left. apply Hsame. apply add_to_bucket_g_inv in H. destruct H as (bk & g & _ & _ & _ & _ & _ & _ & Hs & _). eapply Hbk, Hs.
  - step H; [|discriminate]. left. apply Hsame. apply withdraw_bucket_inv in H. destruct H as (bk & _ & _ & Hs & _). eapply Hbk, Hs.
  - step H; [|discriminate]. left. rename l into l_id. rename b into b_id. apply buy_inv in H.
    destruct H as (bk & kl & l0 & l_fee & l_bal & b_fee & b_bal & reg & m1 & final_b & m2 & final_l &
                   Hfb & Hfl & Hown & Hcmp & Hst & Hwl & Hcl & Hexp & Hlf & Hbf & Hreg & Hr1 & Hr2 & Hfresh & -> & _).
    revert Hin. sstate. intros Hin. apply In_put_source in Hin. destruct Hin as [E | Hin].
    + inv E. apply find_by_id_In in Hfl. destruct Hfl as [Hin0 _]. exists kl, l0. simpl. tauto.
    + apply In_remove_key in Hin. exists k', l'. tauto.
  - step H; [|discriminate]. left. apply withdraw_purchased_inv in H. destruct H as (k0 & l0 & _ & _ & _ & -> & _).
    revert Hin. sstate. intros Hin. apply In_remove_key in Hin. exists k', l'. tauto.
Qed.

(** The same for buckets: an entry with the same id before, or a creation under an unused id. *)
Theorem execute_bsource o e sender fs m s s' out k' b' :
  Inv s -> execute o e sender fs m s = Ok (s', out) -> In (k', b') (buckets s') ->
  (exists k b, In (k, b) (buckets s) /\ snd k = snd k') \/ (~ In (snd k') (b_used s) /\ snd k' < MAX_SAFE_INT).
Proof.
  intros I H Hin. unfold execute in H. step H; [discriminate|]. clear Hc.
  assert (Hsame : buckets s' = buckets s -> exists k b, In (k, b) (buckets s) /\ snd k = snd k').
  { intros E. rewrite E in Hin. exists k', b'. tauto. }
  assert (Hcreate : forall c ok g id, create_bucket_g c ok g id s = Ok (s', out) ->
            (exists k b, In (k, b) (buckets s) /\ snd k = snd k') \/ (~ In (snd k') (b_used s) /\ snd k' < MAX_SAFE_INT)).
  { intros c ok g id Hh. apply create_bucket_g_inv in Hh. destruct Hh as (Hmax & Hn & _ & _ & -> & _). apply max_ok_lt in Hmax.
    revert Hin. sstate. intros Hin. apply In_put_source in Hin.
    destruct Hin as [E | Hin]; [inv E; right; simpl; tauto | left; exists k', b'; tauto]. }
  assert (Hadd : forall sd ok upd id, add_to_bucket_g sd ok upd id s = Ok (s', out) ->
            exists k b, In (k, b) (buckets s) /\ snd k = snd k').
  { intros sd ok upd id Hh. apply add_to_bucket_g_inv in Hh.
    destruct Hh as (bk & g & _ & Hf & _ & _ & _ & _ & -> & _). revert Hin. sstate. intros Hin.
    apply In_put_source in Hin. destruct Hin as [E | Hin]; [|exists k', b'; tauto].
    inv E. exists (sd, id), bk. split; [apply find_key_In, Hf | reflexivity]. }
  assert (Hls : forall ls, s' = set_listings s ls -> buckets s' = buckets s) by (intros ls ->; reflexivity).
  assert (Hlsm : forall ls id, s' = mark_l (set_listings s ls) id -> buckets s' = buckets s) by (intros ls id ->; reflexivity).
  destruct m.
  - step H; [|discriminate]. apply cycle_fee_effect in H. destruct H as [-> _]. left. apply Hsame. reflexivity.
  - step H; [|discriminate]. unfold execute_receive in H.
    step H; [discriminate|]. step H; [discriminate|]. destruct inner as [im|]; [|discriminate].
    step H; [discriminate|]. destruct im.
    + left. apply Hsame. apply create_listing_g_inv in H. destruct H as (va & _ & _ & _ & _ & _ & _ & _ & Hs & _). eapply Hlsm, Hs.
    + left. apply Hsame. apply add_to_listing_g_inv in H. destruct H as (l0 & g & _ & _ & _ & _ & _ & _ & Hs & _). eapply Hls, Hs.
    + eapply Hcreate, H.
    + left. eapply Hadd, H.
  - unfold execute_receive_nft in H.
    step H; [discriminate|]. step H; [discriminate|]. destruct inner as [im|]; [|discriminate].
    step H; [discriminate|]. destruct im.
    + left. apply Hsame. apply create_listing_g_inv in H. destruct H as (va & _ & _ & _ & _ & _ & _ & _ & Hs & _). eapply Hlsm, Hs.
    + left. apply Hsame. apply add_to_listing_g_inv in H. destruct H as (l0 & g & _ & _ & _ & _ & _ & _ & Hs & _). eapply Hls, Hs.
    + eapply Hcreate, H.
    + left. eapply Hadd, H.
  - step H; [|discriminate]. left. apply Hsame. apply create_listing_g_inv in H. destruct H as (va & _ & _ & _ & _ & _ & _ & _ & Hs & _). eapply Hlsm, Hs.
  - step H; [|discriminate]. left. apply Hsame. apply add_to_listing_g_inv in H. destruct H as (l0 & g & _ & _ & _ & _ & _ & _ & Hs & _). eapply Hls, Hs.
  - step H; [|discriminate]. left. apply Hsame. apply change_ask_inv in H. destruct H as (l0 & va & _ & _ & _ & _ & Hs & _). eapply Hls, Hs.
  - step H; [|discriminate]. left. apply Hsame. apply finalize_inv in H. destruct H as (l0 & _ & _ & _ & _ & _ & Hs & _). eapply Hls, Hs.
  - step H; [|discriminate]. left. apply Hsame. apply delete_listing_inv in H. destruct H as (l0 & _ & _ & _ & _ & Hs & _). eapply Hls, Hs.
  - step H; [|discriminate]. eapply Hcreate, H.
  - step H; [|discriminate]. left. eapply Hadd, H.
  - step H; [|discriminate]. left. apply withdraw_bucket_inv in H. destruct H as (bk & _ & _ & -> & _).
    revert Hin. sstate. intros Hin. apply In_remove_key in Hin. exists k', b'. tauto.
  - step H; [|discriminate]. left. rename l into l_id. rename b into b_id. apply buy_inv in H.
    destruct H as (bk & kl & l0 & l_fee & l_bal & b_fee & b_bal & reg & m1 & final_b & m2 & final_l &
                   Hfb & Hfl & Hown & Hcmp & Hst & Hwl & Hcl & Hexp & Hlf & Hbf & Hreg & Hr1 & Hr2 & Hfresh & -> & _).
    revert Hin. sstate. intros Hin. apply In_put_source in Hin. destruct Hin as [E | Hin].
    + exists (sender, b_id), bk. split; [apply find_key_In, Hfb | inversion E; reflexivity].
    + apply In_remove_key in Hin. exists k', b'. tauto.
  - step H; [|discriminate]. left. apply Hsame. apply withdraw_purchased_inv in H. destruct H as (k0 & l0 & _ & _ & _ & Hs & _). eapply Hls, Hs.
Qed.

(** ** Rank of a listing id: never seen 0 < preparing 1 < finalized 2 < sold 3 < gone 4 *)
Definition srank (st : status) : nat :=
  match st with BeingPrepared => 1 | FinalizedReady => 2 | Closed => 3 end.

Definition lrank (s : mstate) (id : N) : nat :=
  match find_by_id id (listings s) with
  | Some (_, l) => srank (lstatus l)
  | None => if memN id (l_used s) then 4 else 0
  end.

Lemma lrank_present s id k l : Inv s -> In (k, l) (listings s) -> lid l = id -> lrank s id = srank (lstatus l).
Proof.
  intros I Hin Hid. unfold lrank.
  rewrite (In_find_by_id id (listings s) k l); [reflexivity | apply (inv_lids s I) | exact Hin | exact Hid].
Qed.

Lemma lrank_absent s id : find_by_id id (listings s) = None -> lrank s id = if memN id (l_used s) then 4%nat else 0%nat.
Proof. intros H. unfold lrank. rewrite H. reflexivity. Qed.

Theorem execute_rank_mono o e sender fs m s s' out id :
  Inv s -> execute o e sender fs m s = Ok (s', out) -> (lrank s id <= lrank s' id)%nat.
Proof.
  intros I H. pose proof (execute_pres _ _ _ _ _ _ _ _ I H) as I'.
  destruct (execute_used_mono _ _ _ _ _ _ _ _ H) as [Hu _].
  destruct (find_by_id id (listings s')) as [[k' l']|] eqn:E'.
  - (* present afterwards: its source has the same id and an earlier-or-equal status *)
    apply find_by_id_In in E'. destruct E' as [Hin' Hid'].
    rewrite (lrank_present s' id k' l' I' Hin' Hid').
    destruct (execute_lsource _ _ _ _ _ _ _ _ _ _ H Hin') as [(k & l & Hin & Hid & Hst) | [Hn [Hst _]]].
    + rewrite (lrank_present s id k l I Hin); [|congruence].
      destruct Hst as [-> | [[-> ->] | [-> ->]]]; simpl; lia.
    + rewrite lrank_absent.
      * apply memN_false in Hn. rewrite Hid' in Hn. rewrite Hn. lia.
      * apply find_by_id_None. intros k l Hin Hid. apply Hn. rewrite Hid'. rewrite <- Hid. apply (inv_lused s I _ _ Hin).
  - (* absent afterwards *)
    rewrite (lrank_absent s' id E').
    destruct (find_by_id id (listings s)) as [[k l]|] eqn:E.
    + apply find_by_id_In in E. destruct E as [Hin Hid]. rewrite (lrank_present s id k l I Hin Hid).
      assert (Hm : memN id (l_used s') = true).
      { apply memN_In, Hu. rewrite <- Hid. apply (inv_lused s I _ _ Hin). }
      rewrite Hm. destruct (lstatus l); simpl; lia.
    + rewrite (lrank_absent s id E). destruct (memN id (l_used s)) eqn:Em; [|lia].
      apply memN_In in Em. apply Hu in Em. apply memN_In in Em. rewrite Em. lia.
Qed.

Theorem step_rank_mono w o id : Inv (market w) -> (lrank (market w) id <= lrank (market (fst (step w o))) id)%nat.
Proof.
  intros I. rewrite step_fst. destruct (try_step w o) as [[w' out]|] eqn:H; [|lia].
  destruct (op_msg o) as [m|] eqn:Hm.
  - destruct (try_step_exec _ _ _ _ _ H Hm) as (w0 & _ & _ & _ & _ & _ & _ & _ & He).
    eapply execute_rank_mono; eassumption.
  - apply try_step_nomsg in H; [|assumption]. rewrite H. lia.
Qed.

Theorem run_rank_mono ops : forall w id, Inv (market w) -> (lrank (market w) id <= lrank (market (run w ops)) id)%nat.
Proof.
  unfold run. induction ops as [|o r IH]; simpl; intros w id I; [lia|].
  pose proof (step_rank_mono w o id I). pose proof (IH (fst (step w o)) id (step_Inv w o I)). lia.
Qed.
