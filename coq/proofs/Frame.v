(** * Frame: what a single successful message can do to an existing record — the case
    analysis behind C03, C04, C08 and C18. *)
From FM Require Export Reach.

(** The account in whose name a message acts on records: the transaction sender, or — for
    the receive hooks — the [sender] field the calling contract reports. *)
Definition actor_of (sender : addr) (m : exec_msg) : addr :=
  match m with Receive sd _ _ => sd | ReceiveNft sd _ _ => sd | _ => sender end.

Inductive lchange (e : env) (sender : addr) (m : exec_msg) (s' : mstate) (k : key) (l : listing) : Prop :=
| LC_same : find_key k (listings s') = Some l -> lchange e sender m s' k l
| LC_edit l' :
    fst k = actor_of sender m -> lstatus l = BeingPrepared ->
    find_key k (listings s') = Some l' -> lid l' = lid l -> creator l' = creator l ->
    claimant l' = None -> lfee l' = None -> wl l' = wl l ->
    lchange e sender m s' k l
| LC_delete :
    m = DeleteListing (snd k) -> sender = fst k -> claimant l = None ->
    (forall x, exp l = Some x -> x <= now e) -> find_key k (listings s') = None ->
    lchange e sender m s' k l
| LC_withdraw :
    m = WithdrawPurchased (snd k) -> sender = fst k -> lstatus l = Closed ->
    find_key k (listings s') = None -> lchange e sender m s' k l
| LC_buy bid l' :
    m = BuyListing (snd k) bid -> lstatus l = FinalizedReady -> claimant l = None ->
    (forall x, exp l = Some x -> now e <= x) ->
    find_key (sender, snd k) (listings s') = Some l' ->
    lstatus l' = Closed -> claimant l' = Some sender -> creator l' = sender ->
    ask l' = ask l -> wl l' = wl l -> fin l' = fin l -> exp l' = exp l -> lid l' = lid l ->
    (fst k <> sender -> find_key k (listings s') = None) ->
    lchange e sender m s' k l.

Inductive bchange (sender : addr) (m : exec_msg) (s s' : mstate) (k : key) (b : bucket) : Prop :=
| BC_same : find_key k (buckets s') = Some b -> bchange sender m s s' k b
| BC_topup b' :
    fst k = actor_of sender m -> find_key k (buckets s') = Some b' ->
    owner b' = owner b -> bfee b' = bfee b -> bchange sender m s s' k b
| BC_remove :
    m = RemoveBucket (snd k) -> sender = fst k -> find_key k (buckets s') = None ->
    bchange sender m s s' k b
| BC_spend l_id kl l b' :
    m = BuyListing l_id (snd k) -> sender = fst k ->
    find_by_id l_id (listings s) = Some (kl, l) ->
    find_key (creator l, snd k) (buckets s') = Some b' -> owner b' = creator l ->
    (creator l <> sender -> find_key k (buckets s') = None) ->
    bchange sender m s s' k b.

Ltac key_ne := let E := fresh in intros E; inv E; simpl in *; congruence.

(** Stores that are only touched at one key. *)
Lemma find_put_cases {V} (k0 k : key) (v0 : V) l :
  (k = k0 /\ find_key k (put k0 v0 l) = Some v0) \/ (k <> k0 /\ find_key k (put k0 v0 l) = find_key k l).
Proof.
  destruct (key_eqb k k0) eqn:E.
  - apply key_eqb_eq in E. subst. left. split; [reflexivity | apply find_key_put_same].
  - apply key_eqb_neq in E. right. split; [assumption | apply find_key_put_other, E].
Qed.

Lemma find_remove_cases {V} (k0 k : key) (l : list (key * V)) :
  (k = k0 /\ find_key k (remove_key k0 l) = None) \/ (k <> k0 /\ find_key k (remove_key k0 l) = find_key k l).
Proof.
  destruct (key_eqb k k0) eqn:E.
  - apply key_eqb_eq in E. subst. left. split; [reflexivity | apply find_key_remove_same].
  - apply key_eqb_neq in E. right. split; [assumption | apply find_key_remove_other, E].
Qed.

(** Creations never touch an existing key. *)
Lemma create_listing_g_frame user ok g id a w s s' out k l :
  Inv s -> create_listing_g user ok g id a w s = Ok (s', out) ->
  find_key k (listings s) = Some l -> find_key k (listings s') = Some l /\ buckets s' = buckets s.
Proof.
  intros I H Hf. apply create_listing_g_inv in H.
  destruct H as (va & H1 & H2 & H3 & H4 & H5 & H6 & H7 & -> & _). sstate. split; [|reflexivity].
  match goal with |- context [put ?k0 ?v _] => destruct (find_put_cases k0 k v (listings s)) as [[-> _] | [_ ->]]; [|assumption] end.
  exfalso. destruct (Inv_find_listing _ _ _ I Hf) as [W Hin].
  pose proof (wl_key _ _ W) as Hk. inv Hk. apply H3. apply (inv_lused s I _ _ Hin).
Qed.

Lemma create_bucket_g_frame c ok g id s s' out k b :
  Inv s -> create_bucket_g c ok g id s = Ok (s', out) ->
  find_key k (buckets s) = Some b -> find_key k (buckets s') = Some b /\ listings s' = listings s.
Proof.
  intros I H Hf. apply create_bucket_g_inv in H. destruct H as (H1 & H2 & H3 & H4 & -> & _). sstate.
  split; [|reflexivity].
  match goal with |- context [put ?k0 ?v _] => destruct (find_put_cases k0 k v (buckets s)) as [[-> _] | [_ ->]]; [|assumption] end.
  congruence.
Qed.

Theorem execute_lchange o e sender fs m s s' out k l :
  Inv s -> execute o e sender fs m s = Ok (s', out) -> find_key k (listings s) = Some l ->
  lchange e sender m s' k l.
Proof.
  intros I H Hf. unfold execute in H. step H; [discriminate|]. clear Hc.
  destruct (Inv_find_listing _ _ _ I Hf) as [W Hin]. pose proof (wl_key _ _ W) as Hkey.
  assert (Hsame_b : forall bs, find_key k (listings (set_buckets s bs)) = Some l) by (intros; exact Hf).
  destruct m.
  - (* FeeCycle *) step H; [|discriminate]. unfold execute_cycle_fee in H.
    apply LC_same. destruct (fee s); step H; try discriminate; inv H; exact Hf.
  - (* Receive *)
    step H; [|discriminate]. unfold execute_receive in H.
    step H; [discriminate|]. step H; [discriminate|]. destruct inner as [im|]; [|discriminate].
    step H; [discriminate|]. destruct im.
    + apply LC_same. eapply create_listing_g_frame; eassumption.
    + apply add_to_listing_g_inv in H. destruct H as (l0 & g & _ & Hf0 & He & _ & _ & _ & -> & _).
      apply editable_inv in He. destruct He as (E1 & E2 & E3). sstate.
      match goal with |- context [put ?k0 ?v _] => destruct (find_put_cases k0 k v (listings s)) as [[-> Hp] | [_ Hp]] end.
      * rewrite Hf in Hf0. inv Hf0. eapply LC_edit; sstate; try exact Hp; try exact E2; try exact E3; try reflexivity; simpl.
        pose proof (wl_life _ _ W) as L. unfold life_ok in L. rewrite E2 in L. tauto.
      * apply LC_same. sstate. rewrite Hp. exact Hf.
    + apply LC_same. apply create_bucket_g_inv in H. destruct H as (_ & _ & _ & _ & -> & _). exact Hf.
    + apply LC_same. apply add_to_bucket_g_inv in H. destruct H as (bk & g & _ & _ & _ & _ & _ & _ & -> & _). exact Hf.
  - (* ReceiveNft *)
    unfold execute_receive_nft in H.
    step H; [discriminate|]. step H; [discriminate|]. destruct inner as [im|]; [|discriminate].
    step H; [discriminate|]. destruct im.
    + apply LC_same. eapply create_listing_g_frame; eassumption.
    + apply add_to_listing_g_inv in H. destruct H as (l0 & g & _ & Hf0 & He & _ & _ & _ & -> & _).
      apply editable_inv in He. destruct He as (E1 & E2 & E3). sstate.
      match goal with |- context [put ?k0 ?v _] => destruct (find_put_cases k0 k v (listings s)) as [[-> Hp] | [_ Hp]] end.
      * rewrite Hf in Hf0. inv Hf0. eapply LC_edit; sstate; try exact Hp; try exact E2; try exact E3; try reflexivity; simpl.
        pose proof (wl_life _ _ W) as L. unfold life_ok in L. rewrite E2 in L. tauto.
      * apply LC_same. sstate. rewrite Hp. exact Hf.
    + apply LC_same. apply create_bucket_g_inv in H. destruct H as (_ & _ & _ & _ & -> & _). exact Hf.
    + apply LC_same. apply add_to_bucket_g_inv in H. destruct H as (bk & g & _ & _ & _ & _ & _ & _ & -> & _). exact Hf.
  - (* CreateListing *) step H; [|discriminate]. apply LC_same. eapply create_listing_g_frame; eassumption.
  - (* AddToListing *)
    step H; [|discriminate]. apply add_to_listing_g_inv in H.
    destruct H as (l0 & g & _ & Hf0 & He & _ & _ & _ & -> & _).
    apply editable_inv in He. destruct He as (E1 & E2 & E3). sstate.
    match goal with |- context [put ?k0 ?v _] => destruct (find_put_cases k0 k v (listings s)) as [[-> Hp] | [_ Hp]] end.
    + rewrite Hf in Hf0. inv Hf0. eapply LC_edit; sstate; try exact Hp; try exact E2; try exact E3; try reflexivity; simpl.
      pose proof (wl_life _ _ W) as L. unfold life_ok in L. rewrite E2 in L. tauto.
    + apply LC_same. sstate. rewrite Hp. exact Hf.
  - (* ChangeAsk *)
    step H; [|discriminate]. apply change_ask_inv in H.
    destruct H as (l0 & va & Hf0 & He & _ & _ & -> & _).
    apply editable_inv in He. destruct He as (E1 & E2 & E3). sstate.
    match goal with |- context [put ?k0 ?v _] => destruct (find_put_cases k0 k v (listings s)) as [[-> Hp] | [_ Hp]] end.
    + rewrite Hf in Hf0. inv Hf0. eapply LC_edit; sstate; try exact Hp; try exact E2; try exact E3; try reflexivity; simpl.
      pose proof (wl_life _ _ W) as L. unfold life_ok in L. rewrite E2 in L. tauto.
    + apply LC_same. sstate. rewrite Hp. exact Hf.
  - (* Finalize *)
    step H; [|discriminate]. apply finalize_inv in H.
    destruct H as (l0 & Hf0 & He & _ & _ & _ & -> & _).
    apply editable_inv in He. destruct He as (E1 & E2 & E3). sstate.
    match goal with |- context [put (sender, id) ?v _] =>
      destruct (find_put_cases (sender, id) k v (listings s)) as [[-> Hp] | [_ Hp]] end.
    + rewrite Hf in Hf0. inv Hf0. eapply LC_edit; sstate; try exact Hp; try exact E2; try exact E3; try reflexivity; simpl.
      pose proof (wl_life _ _ W) as L. unfold life_ok in L. rewrite E2 in L. tauto.
    + apply LC_same. sstate. rewrite Hp. exact Hf.
  - (* DeleteListing *)
    step H; [|discriminate]. apply delete_listing_inv in H.
    destruct H as (l0 & Hf0 & E1 & E2 & E3 & -> & _). sstate.
    destruct (find_remove_cases (sender, id) k (listings s)) as [[-> Hp] | [_ Hp]].
    + rewrite Hf in Hf0. inv Hf0. apply LC_delete; simpl; try assumption; reflexivity.
    + apply LC_same. sstate. rewrite Hp. exact Hf.
  - (* CreateBucket *) step H; [|discriminate]. apply LC_same.
    apply create_bucket_g_inv in H. destruct H as (_ & _ & _ & _ & -> & _). exact Hf.
  - (* AddToBucket *) step H; [|discriminate]. apply LC_same.
    apply add_to_bucket_g_inv in H. destruct H as (bk & g & _ & _ & _ & _ & _ & _ & -> & _). exact Hf.
  - (* RemoveBucket *) step H; [|discriminate]. apply LC_same.
    apply withdraw_bucket_inv in H. destruct H as (bk & _ & _ & -> & _). exact Hf.
  - (* BuyListing *)
    step H; [|discriminate]. rename l0 into l_id. apply buy_inv in H.
    destruct H as (bk & kl & l0 & l_fee & l_bal & b_fee & b_bal & reg & m1 & final_b & m2 & final_l &
                   Hfb & Hfl & Hown & Hcmp & Hst & Hwl & Hcl & Hexp & Hlf & Hbf & Hreg & Hr1 & Hr2 & Hfresh & -> & _).
    destruct (Inv_find_by_id _ _ _ _ I Hfl) as (W0 & Hin0 & Hid0 & Hk0 & Hfk0). sstate.
    match goal with |- context [put (sender, l_id) ?v _] => set (l' := v) end.
    destruct (key_eqb k (creator l0, l_id)) eqn:E.
    + (* the purchased listing itself *)
      apply key_eqb_eq in E.
      assert (Hsnd : snd k = l_id) by (rewrite E; reflexivity).
      assert (Hfst : fst k = creator l0) by (rewrite E; reflexivity).
      assert (El : l0 = l).
      { rewrite <- Hk0 in E. rewrite <- E in Hfk0. rewrite Hf in Hfk0. inv Hfk0. reflexivity. }
      subst l0. clear Hfk0.
      eapply (LC_buy _ _ _ _ _ _ b l'); try rewrite Hsnd; try assumption; try reflexivity.
      * sstate. apply find_key_put_same.
      * intros Hne. sstate. rewrite E. rewrite find_key_put_other by (rewrite Hfst in Hne; key_ne).
        apply find_key_remove_same.
    + apply key_eqb_neq in E.
      destruct (find_put_cases (sender, l_id) k l' (remove_key (creator l0, l_id) (listings s))) as [[Ek Hp] | [_ Hp]].
      * (* another listing already filed under (buyer, id): impossible, ids are unique *)
        exfalso.
        assert (Hl : lid l = l_id) by (rewrite Hkey in Ek; inversion Ek; reflexivity).
        assert (Hll : lid l = lid l0) by congruence.
        destruct (lids_unique s _ _ _ _ I Hin0 Hin Hll) as [E1 _]. apply E. rewrite E1, Hk0. reflexivity.
      * apply LC_same. sstate. rewrite Hp. rewrite find_key_remove_other by assumption. exact Hf.
  - (* WithdrawPurchased *)
    step H; [|discriminate]. apply withdraw_purchased_inv in H.
    destruct H as (k0 & l0 & Hfl & Hcl & Hst & -> & _). sstate.
    destruct (Inv_find_by_id _ _ _ _ I Hfl) as (W0 & Hin0 & Hid0 & Hk0 & Hfk0).
    destruct (find_remove_cases (sender, id) k (listings s)) as [[-> Hp] | [_ Hp]].
    + assert (l0 = l).
      { pose proof (wl_key _ _ W) as Hk. inv Hk. destruct (lids_unique s _ _ _ _ I Hin Hin0); congruence. }
      subst l0. apply LC_withdraw; simpl; try assumption; reflexivity.
    + apply LC_same. sstate. rewrite Hp. exact Hf.
Qed.

Theorem execute_bchange o e sender fs m s s' out k b :
  Inv s -> execute o e sender fs m s = Ok (s', out) -> find_key k (buckets s) = Some b ->
  bchange sender m s s' k b.
Proof.
  intros I H Hf. unfold execute in H. step H; [discriminate|]. clear Hc.
  destruct (Inv_find_bucket _ _ _ I Hf) as [W Hin].
  (* the three shapes that recur *)
  assert (Hcreate : forall c ok g id, create_bucket_g c ok g id s = Ok (s', out) -> bchange sender m s s' k b).
  { intros c ok g id Hh. apply BC_same. eapply create_bucket_g_frame; eassumption. }
  assert (Hlist : forall ls, s' = set_listings s ls -> bchange sender m s s' k b).
  { intros ls ->. apply BC_same. exact Hf. }
  assert (Hlistm : forall ls id, s' = mark_l (set_listings s ls) id -> bchange sender m s s' k b).
  { intros ls id ->. apply BC_same. exact Hf. }
  assert (Hadd : forall sd ok upd id, fst (sd, id) = actor_of sender m ->
             add_to_bucket_g sd ok upd id s = Ok (s', out) -> bchange sender m s s' k b).
  { intros sd ok upd id Hact Hh. apply add_to_bucket_g_inv in Hh.
    destruct Hh as (bk & g & _ & Hf0 & _ & _ & _ & _ & -> & _).
    match goal with |- context [put ?k0 ?v _] => destruct (find_put_cases k0 k v (buckets s)) as [[Ek Hp] | [_ Hp]] end.
    - assert (Hbk : bk = b) by (rewrite Ek in Hf; rewrite Hf in Hf0; inversion Hf0; reflexivity).
      rewrite Hbk in *. eapply BC_topup; sstate; [rewrite Ek; exact Hact | exact Hp | reflexivity | reflexivity].
    - apply BC_same. sstate. rewrite Hp. exact Hf. }
  destruct m.
  - step H; [|discriminate]. unfold execute_cycle_fee in H.
    apply BC_same. destruct (fee s); step H; try discriminate; inv H; exact Hf.
  - step H; [|discriminate]. unfold execute_receive in H.
    step H; [discriminate|]. step H; [discriminate|]. destruct inner as [im|]; [|discriminate].
    step H; [discriminate|]. destruct im.
    + apply create_listing_g_inv in H. destruct H as (va & _ & _ & _ & _ & _ & _ & _ & Hs & _). eapply Hlistm, Hs.
    + apply add_to_listing_g_inv in H. destruct H as (l0 & g & _ & _ & _ & _ & _ & _ & Hs & _). eapply Hlist, Hs.
    + eapply Hcreate, H.
    + eapply Hadd; [|exact H]. reflexivity.
  - unfold execute_receive_nft in H.
    step H; [discriminate|]. step H; [discriminate|]. destruct inner as [im|]; [|discriminate].
    step H; [discriminate|]. destruct im.
    + apply create_listing_g_inv in H. destruct H as (va & _ & _ & _ & _ & _ & _ & _ & Hs & _). eapply Hlistm, Hs.
    + apply add_to_listing_g_inv in H. destruct H as (l0 & g & _ & _ & _ & _ & _ & _ & Hs & _). eapply Hlist, Hs.
    + eapply Hcreate, H.
    + eapply Hadd; [|exact H]. reflexivity.
  - step H; [|discriminate]. apply create_listing_g_inv in H. destruct H as (va & _ & _ & _ & _ & _ & _ & _ & Hs & _). eapply Hlistm, Hs.
  - step H; [|discriminate]. apply add_to_listing_g_inv in H. destruct H as (l0 & g & _ & _ & _ & _ & _ & _ & Hs & _). eapply Hlist, Hs.
  - step H; [|discriminate]. apply change_ask_inv in H. destruct H as (l0 & va & _ & _ & _ & _ & Hs & _). eapply Hlist, Hs.
  - step H; [|discriminate]. apply finalize_inv in H. destruct H as (l0 & _ & _ & _ & _ & _ & Hs & _). eapply Hlist, Hs.
  - step H; [|discriminate]. apply delete_listing_inv in H. destruct H as (l0 & _ & _ & _ & _ & Hs & _). eapply Hlist, Hs.
  - step H; [|discriminate]. eapply Hcreate, H.
  - step H; [|discriminate]. eapply Hadd; [|exact H]. reflexivity.
  - (* RemoveBucket *)
    step H; [|discriminate]. apply withdraw_bucket_inv in H. destruct H as (bk & Hf0 & _ & -> & _).
    destruct (find_remove_cases (sender, id) k (buckets s)) as [[Ek Hp] | [_ Hp]].
    + apply BC_remove; sstate; [rewrite Ek; reflexivity | rewrite Ek; reflexivity | exact Hp].
    + apply BC_same. sstate. rewrite Hp. exact Hf.
  - (* BuyListing *)
    step H; [|discriminate]. rename l into l_id. rename b0 into b_id. apply buy_inv in H.
    destruct H as (bk & kl & l0 & l_fee & l_bal & b_fee & b_bal & reg & m1 & final_b & m2 & final_l &
                   Hfb & Hfl & Hown & Hcmp & Hst & Hwl & Hcl & Hexp & Hlf & Hbf & Hreg & Hr1 & Hr2 & Hfresh & -> & _).
    destruct (Inv_find_bucket _ _ _ I Hfb) as [Wb Hinb].
    match goal with |- context [put (creator l0, b_id) ?v _] => set (b' := v) end.
    destruct (key_eqb k (sender, b_id)) eqn:E.
    + apply key_eqb_eq in E.
      eapply (BC_spend _ _ _ _ _ _ l_id kl l0 b'); try (rewrite E; reflexivity); try exact Hfl; sstate.
      * rewrite E. simpl. apply find_key_put_same.
      * reflexivity.
      * intros Hne. rewrite E. rewrite find_key_put_other by key_ne. apply find_key_remove_same.
    + apply key_eqb_neq in E.
      destruct (find_put_cases (creator l0, b_id) k b' (remove_key (sender, b_id) (buckets s))) as [[Ek Hp] | [_ Hp]].
      * (* the seller already holding a bucket with that id: impossible *)
        exfalso. assert (Hs : snd k = snd (sender, b_id)) by (rewrite Ek; reflexivity).
        destruct (bids_unique s _ _ _ _ I Hinb Hin Hs) as [E1 _]. apply E. exact E1.
      * apply BC_same. sstate. rewrite Hp. rewrite find_key_remove_other by assumption. exact Hf.
  - step H; [|discriminate]. apply withdraw_purchased_inv in H. destruct H as (k0 & l0 & _ & _ & _ & Hs & _). eapply Hlist, Hs.
Qed.
