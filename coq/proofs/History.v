(** * History: history-level corollaries (C13 spacing over whole histories). *)
From FM Require Export HookDeposits.

(** The times (seconds of block time) at which the fee denomination switched along a history. *)
Fixpoint switch_times (w : world) (ops : list op) : list N :=
  match ops with
  | [] => []
  | o :: r =>
      let w' := fst (step w o) in
      (if match fee (market w), fee (market w') with
          | JUNO a, JUNO b | USDC a, USDC b => a =? b
          | _, _ => false
          end then [] else [seconds (wnow w)]) ++ switch_times w' r
  end.

(** Every time in [l] exceeds its predecessor (starting from [t0]) by more than a week. *)
Fixpoint spaced (t0 : N) (l : list N) : Prop :=
  match l with [] => True | t :: r => t0 + WEEK_IN_SECS < t /\ spaced t r end.

Definition times_fit (w : world) (ops : list op) : Prop :=
  forall n, seconds (wnow (run w (firstn n ops))) < U64.

Lemma fee_same_dec (f g : feedenom) :
  (match f, g with JUNO a, JUNO b | USDC a, USDC b => a =? b | _, _ => false end) = true <-> f = g.
Proof.
  destruct f, g; split; intros H; try discriminate; try (apply N.eqb_eq in H; congruence); try (inv H; apply N.eqb_refl).
Qed.

(** Over any history: successive switches — and the first one after instantiation — are more
    than 604800 s of block time apart. *)
Theorem switches_spaced ops : forall w,
  times_fit w ops -> spaced (fee_last (fee (market w))) (switch_times w ops).
Proof.
  induction ops as [|o r IH]; intros w Hfit; [exact Logic.I|].
  cbn [switch_times]. cbv zeta.
  assert (Hfit' : times_fit (fst (step w o)) r).
  { intros n. specialize (Hfit (S n)). simpl in Hfit. exact Hfit. }
  destruct (match fee (market w), fee (market (fst (step w o))) with
            | JUNO a, JUNO b | USDC a, USDC b => a =? b | _, _ => false end) eqn:E.
  - apply fee_same_dec in E. simpl. rewrite E. apply IH, Hfit'.
  - assert (Hne : fee (market (fst (step w o))) <> fee (market w)).
    { intros Heq. assert (T : (match fee (market w), fee (market (fst (step w o))) with
            | JUNO a, JUNO b | USDC a, USDC b => a =? b | _, _ => false end) = true) by (apply fee_same_dec; congruence). congruence. }
    pose proof (Hfit 0%nat) as H0. simpl in H0.
    destruct (step_fee_spacing w o H0 Hne) as (_ & Hlt & Hlast & _).
    simpl. split; [exact Hlt|]. rewrite <- Hlast. apply IH, Hfit'.
Qed.

(** ** To the nanosecond.

    The origin of the cooldown is stored in whole seconds (rounded down).  Measured on the exact
    block times, successive switches — and the first one after an instantiation at [t0], whose
    second is the stored origin — are still more than a week apart: rounding the origin down
    can only lengthen the wait. *)
Fixpoint switch_times_ns (w : world) (ops : list op) : list N :=
  match ops with
  | [] => []
  | o :: r =>
      let w' := fst (step w o) in
      (if match fee (market w), fee (market w') with
          | JUNO a, JUNO b | USDC a, USDC b => a =? b
          | _, _ => false
          end then [] else [wnow w]) ++ switch_times_ns w' r
  end.

Fixpoint spaced_ns (t0 : N) (l : list N) : Prop :=
  match l with [] => True | t :: r => t0 + WEEK_IN_SECS * NANOS < t /\ spaced_ns t r end.

Lemma seconds_floor t : seconds t * NANOS <= t /\ t < (seconds t + 1) * NANOS.
Proof.
  unfold seconds. assert (Hn : NANOS <> 0) by (unfold NANOS; lia).
  pose proof (N.div_mod t NANOS Hn) as Hd. pose proof (N.mod_lt t NANOS Hn) as Hm. lia.
Qed.

Theorem switches_spaced_ns ops : forall w t0,
  times_fit w ops -> seconds t0 = fee_last (fee (market w)) ->
  spaced_ns t0 (switch_times_ns w ops).
Proof.
  induction ops as [|o r IH]; intros w t0 Hfit Ht0; [exact Logic.I|].
  cbn [switch_times_ns]. cbv zeta.
  assert (Hfit' : times_fit (fst (step w o)) r).
  { intros n. specialize (Hfit (S n)). simpl in Hfit. exact Hfit. }
  destruct (match fee (market w), fee (market (fst (step w o))) with
            | JUNO a, JUNO b | USDC a, USDC b => a =? b | _, _ => false end) eqn:E.
  - apply fee_same_dec in E. simpl. apply IH; [exact Hfit' | rewrite <- E; exact Ht0].
  - assert (Hne : fee (market (fst (step w o))) <> fee (market w)).
    { intros Heq. assert (T : (match fee (market w), fee (market (fst (step w o))) with
            | JUNO a, JUNO b | USDC a, USDC b => a =? b | _, _ => false end) = true) by (apply fee_same_dec; congruence). congruence. }
    pose proof (Hfit 0%nat) as H0. simpl in H0.
    destruct (step_fee_spacing w o H0 Hne) as (_ & Hlt & Hlast & _).
    simpl. split.
    + destruct (seconds_floor t0) as [_ A]. destruct (seconds_floor (wnow w)) as [B _].
      rewrite Ht0 in A. nia.
    + apply IH; [exact Hfit' | symmetry; exact Hlast].
Qed.
