(** * HookDeposits: what a deposit through an honest token contract's Send moves (C05). *)
From FM Require Export BuyChain.

Lemma hook_deposit_target sd a0 inner sender : exists t, deposit_target sender (Receive sd a0 (Some inner)) = Some t.
Proof. destruct inner; simpl; eexists; reflexivity. Qed.

Lemma hook_nft_deposit_target sd k inner sender : exists t, deposit_target sender (ReceiveNft sd k (Some inner)) = Some t.
Proof. destruct inner; simpl; eexists; reflexivity. Qed.

Lemma receive_needs_inner o e sender fs sd a0 s r : execute o e sender fs (Receive sd a0 None) s = Ok r -> False.
Proof. unfold execute. intros H. step H; [discriminate|]. step H; [|discriminate]. unfold execute_receive in H. steps H. Qed.

Lemma receive_nft_needs_inner o e sender fs sd k s r : execute o e sender fs (ReceiveNft sd k None) s = Ok r -> False.
Proof. unfold execute. intros H. step H; [discriminate|]. unfold execute_receive_nft in H. steps H. Qed.

(** A successful CW20 deposit: exactly [amt] of token [t] moves from the user to the
    marketplace; no other balance of any token, no coin and no NFT moves. *)
Theorem cw20_deposit_wallets w u t amt0 inner fail :
  Inv (market w) -> u <> self_addr w ->
  ok (snd (step w (Cw20Send u t amt0 inner fail))) = true ->
  let w' := fst (step w (Cw20Send u t amt0 inner fail)) in
  bank w' = bank w /\ nft_owner w' = nft_owner w /\
  cw20bal w' t u + amt0 = cw20bal w t u /\ cw20bal w' t (self_addr w) = cw20bal w t (self_addr w) + amt0 /\
  (forall t' x, t' <> t \/ (x <> u /\ x <> self_addr w) -> cw20bal w' t' x = cw20bal w t' x).
Proof.
  intros Iv Hu Hok. unfold step in *. destruct (try_step w (Cw20Send u t amt0 inner fail)) as [[w' out]|] eqn:H; [|discriminate].
  simpl. unfold try_step in H. destruct (kind w t); try discriminate. step H. rename x into c.
  apply run_market_inv in H. destruct H as (s' & He & Hd & Hm).
  assert (He' : execute (oracle_of w) (env_of w) t [] (Receive u amt0 inner) (market w) = Ok (s', out)) by exact He.
  destruct inner as [im|]; [|exfalso; eapply receive_needs_inner; exact He'].
  destruct (hook_deposit_target u amt0 im t) as [[isl K] Ht].
  destruct (deposit_exact _ _ _ _ _ _ _ _ _ _ Iv He' Ht) as (-> & _ & _). simpl in Hd. inv Hd. simpl.
  split; [reflexivity|]. split; [reflexivity|].
  split; [eapply cw20_move_src; eassumption|]. split; [eapply cw20_move_dst; eassumption|].
  intros t' x Hx. eapply cw20_move_other; eassumption.
Qed.

(** A successful NFT deposit: exactly that NFT moves from the user to the marketplace. *)
Theorem nft_deposit_wallets w u c k inner fail :
  Inv (market w) ->
  ok (snd (step w (NftSend u c k inner fail))) = true ->
  let w' := fst (step w (NftSend u c k inner fail)) in
  bank w' = bank w /\ cw20bal w' = cw20bal w /\
  nft_owner w c k = Some u /\ nft_owner w' c k = Some (self_addr w) /\
  (forall c' k', (c', k') <> (c, k) -> nft_owner w' c' k' = nft_owner w c' k').
Proof.
  intros Iv Hok. unfold step in *. destruct (try_step w (NftSend u c k inner fail)) as [[w' out]|] eqn:H; [|discriminate].
  simpl. unfold try_step in H. destruct (kind w c); try discriminate. step H. rename x into n.
  apply run_market_inv in H. destruct H as (s' & He & Hd & Hm).
  assert (He' : execute (oracle_of w) (env_of w) c [] (ReceiveNft u k inner) (market w) = Ok (s', out)) by exact He.
  destruct inner as [im|]; [|exfalso; eapply receive_nft_needs_inner; exact He'].
  destruct (hook_nft_deposit_target u k im c) as [[isl K] Ht].
  destruct (deposit_exact _ _ _ _ _ _ _ _ _ _ Iv He' Ht) as (-> & _ & _). simpl in Hd. inv Hd. simpl.
  split; [reflexivity|]. split; [reflexivity|].
  unfold nft_move in Hb. destruct (nft_owner w c k) as [o|] eqn:Eo; [|discriminate]. step Hb; [|discriminate]. inv Hb.
  apply N.eqb_eq in Hc. subst o. split; [reflexivity|]. split.
  - unfold upd2o. rewrite !N.eqb_refl. reflexivity.
  - intros c' k' Hne. unfold upd2o. destruct (N.eqb_spec c' c), (N.eqb_spec k' k); simpl; try reflexivity. subst. congruence.
Qed.
