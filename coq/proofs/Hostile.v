(** * Hostile: what a third-party contract can and cannot do to somebody else's escrow by
    calling the token-receive entry points with a forged sender (C18). *)
From FM Require Export Atomic.

(** The only way a hook call grows a record: one asset whose token contract is the caller. *)
Definition grown_by (caller : addr) (g g' : gbal) : Prop :=
  (exists amt, add_tokens g (BCw20 caller amt) = Ok g') \/ (exists tok, g' = add_nft g (caller, tok)).

Theorem hook_listing_change o e sender fs m s s' out k l :
  Inv s -> execute o e sender fs m s = Ok (s', out) -> is_hook m = true ->
  find_key k (listings s) = Some l ->
  find_key k (listings s') = Some l \/
  (topup_l_b m (snd k) = true /\ actor_of sender m = fst k /\ lstatus l = BeingPrepared /\
   exists g, find_key k (listings s') = Some (with_for_sale l g) /\ grown_by sender (for_sale l) g).
Proof.
  intros I H Hh Hf. unfold execute in H. step H; [discriminate|]. clear Hc.
  assert (Hadd : forall sd ok upd chk id,
            (forall g g', upd g = Ok g' -> grown_by sender g g') -> actor_of sender m = sd -> topup_l_b m id = true ->
            add_to_listing_g sd ok upd chk id s = Ok (s', out) ->
            find_key k (listings s') = Some l \/
            (topup_l_b m (snd k) = true /\ actor_of sender m = fst k /\ lstatus l = BeingPrepared /\
             exists g, find_key k (listings s') = Some (with_for_sale l g) /\ grown_by sender (for_sale l) g)).
  { intros sd ok upd chk id Hupd Hact Htop Hh2. apply add_to_listing_g_inv in Hh2.
    destruct Hh2 as (l0 & g & _ & Hf0 & He & Hu & _ & _ & -> & _). apply editable_inv in He. destruct He as (_ & Hst & _).
    sstate. destruct (find_put_cases (sd, id) k (with_for_sale l0 g) (listings s)) as [[-> Hp] | [_ Hp]].
    - rewrite Hf in Hf0. inv Hf0. right. cbn [fst snd]. splits; try assumption; try reflexivity. exists g. split; [exact Hp | apply Hupd, Hu].
    - left. rewrite Hp. exact Hf. }
  destruct m; try discriminate.
  - step H; [|discriminate]. unfold execute_receive in H.
    step H; [discriminate|]. step H; [discriminate|]. destruct inner as [im|]; [|discriminate].
    step H; [discriminate|]. destruct im.
    + left. eapply create_listing_g_frame; eassumption.
    + eapply Hadd; [| reflexivity | simpl; apply N.eqb_refl | exact H].
      intros g g' Hu. left. exists amt. exact Hu.
    + left. apply create_bucket_g_inv in H. destruct H as (_ & _ & _ & _ & -> & _). exact Hf.
    + left. apply add_to_bucket_g_inv in H. destruct H as (bk & g & _ & _ & _ & _ & _ & _ & -> & _). exact Hf.
  - unfold execute_receive_nft in H.
    step H; [discriminate|]. step H; [discriminate|]. destruct inner as [im|]; [|discriminate].
    step H; [discriminate|]. destruct im.
    + left. eapply create_listing_g_frame; eassumption.
    + eapply Hadd; [| reflexivity | simpl; apply N.eqb_refl | exact H].
      intros g g' Hu. right. exists tok. inv Hu. reflexivity.
    + left. apply create_bucket_g_inv in H. destruct H as (_ & _ & _ & _ & -> & _). exact Hf.
    + left. apply add_to_bucket_g_inv in H. destruct H as (bk & g & _ & _ & _ & _ & _ & _ & -> & _). exact Hf.
Qed.

Theorem hook_bucket_change o e sender fs m s s' out k b :
  Inv s -> execute o e sender fs m s = Ok (s', out) -> is_hook m = true ->
  find_key k (buckets s) = Some b ->
  find_key k (buckets s') = Some b \/
  (topup_b_b m (snd k) = true /\ actor_of sender m = fst k /\
   exists g, find_key k (buckets s') = Some (mkB (owner b) g (bfee b)) /\ grown_by sender (funds b) g).
Proof.
  intros I H Hh Hf. unfold execute in H. step H; [discriminate|]. clear Hc.
  assert (Hadd : forall sd ok upd id,
            (forall g g', upd g = Ok g' -> grown_by sender g g') -> actor_of sender m = sd -> topup_b_b m id = true ->
            add_to_bucket_g sd ok upd id s = Ok (s', out) ->
            find_key k (buckets s') = Some b \/
            (topup_b_b m (snd k) = true /\ actor_of sender m = fst k /\
             exists g, find_key k (buckets s') = Some (mkB (owner b) g (bfee b)) /\ grown_by sender (funds b) g)).
  { intros sd ok upd id Hupd Hact Htop Hh2. apply add_to_bucket_g_inv in Hh2.
    destruct Hh2 as (bk & g & _ & Hf0 & _ & Hu & _ & _ & -> & _).
    sstate. destruct (find_put_cases (sd, id) k (mkB (owner bk) g (bfee bk)) (buckets s)) as [[-> Hp] | [_ Hp]].
    - rewrite Hf in Hf0. inv Hf0. right. cbn [fst snd]. splits; try assumption; try reflexivity. exists g. split; [exact Hp | apply Hupd, Hu].
    - left. rewrite Hp. exact Hf. }
  destruct m; try discriminate.
  - step H; [|discriminate]. unfold execute_receive in H.
    step H; [discriminate|]. step H; [discriminate|]. destruct inner as [im|]; [|discriminate].
    step H; [discriminate|]. destruct im.
    + left. apply create_listing_g_inv in H. destruct H as (va & _ & _ & _ & _ & _ & _ & _ & -> & _). exact Hf.
    + left. apply add_to_listing_g_inv in H. destruct H as (l0 & g & _ & _ & _ & _ & _ & _ & -> & _). exact Hf.
    + left. eapply create_bucket_g_frame; eassumption.
    + eapply Hadd; [| reflexivity | simpl; apply N.eqb_refl | exact H].
      intros g g' Hu. left. exists amt. exact Hu.
  - unfold execute_receive_nft in H.
    step H; [discriminate|]. step H; [discriminate|]. destruct inner as [im|]; [|discriminate].
    step H; [discriminate|]. destruct im.
    + left. apply create_listing_g_inv in H. destruct H as (va & _ & _ & _ & _ & _ & _ & _ & -> & _). exact Hf.
    + left. apply add_to_listing_g_inv in H. destruct H as (l0 & g & _ & _ & _ & _ & _ & _ & -> & _). exact Hf.
    + left. eapply create_bucket_g_frame; eassumption.
    + eapply Hadd; [| reflexivity | simpl; apply N.eqb_refl | exact H].
      intros g g' Hu. right. exists tok. inv Hu. reflexivity.
Qed.

(** ** Everything outside the known class *)

(** Whatever message a contract [h] sends — any kind, any payload, any claimed sender — a
    listing of another account is unchanged, or validly purchased by [h] with its own bucket,
    or (known class F1) it is still in preparation and [h] forged a top-up that appends one
    asset issued by [h] itself.  Finalized and sold listings are out of reach. *)
Theorem outside_known_class_listing o e h fs m s s' out k l :
  Inv s -> execute o e h fs m s = Ok (s', out) -> find_key k (listings s) = Some l -> fst k <> h ->
  find_key k (listings s') = Some l \/
  (exists bid, m = BuyListing (snd k) bid /\ bought e h s' k l) \/
  (is_hook m = true /\ topup_l_b m (snd k) = true /\ actor_of h m = fst k /\ lstatus l = BeingPrepared /\
   exists g, find_key k (listings s') = Some (with_for_sale l g) /\ grown_by h (for_sale l) g).
Proof.
  intros I H Hf Hne. destruct (is_hook m) eqn:Hh.
  - destruct (hook_listing_change _ _ _ _ _ _ _ _ _ _ I H Hh Hf) as [Hs | Hk]; [left; exact Hs | right; right; tauto].
  - destruct (listing_frame _ _ _ _ _ _ _ _ _ _ I H Hf) as [Hs | Hb].
    + destruct m; simpl; try assumption; discriminate.
    + intros _. exact Hne.
    + left. exact Hs.
    + right. left. exact Hb.
Qed.

(** A bucket of another account is unchanged, or (known class F1) [h] forged a top-up that
    appends one asset issued by [h] itself; owner and pending fee are untouched, nothing is
    removed. *)
Theorem outside_known_class_bucket o e h fs m s s' out k b :
  Inv s -> execute o e h fs m s = Ok (s', out) -> find_key k (buckets s) = Some b -> fst k <> h ->
  find_key k (buckets s') = Some b \/
  (is_hook m = true /\ topup_b_b m (snd k) = true /\ actor_of h m = fst k /\
   exists g, find_key k (buckets s') = Some (mkB (owner b) g (bfee b)) /\ grown_by h (funds b) g).
Proof.
  intros I H Hf Hne. destruct (is_hook m) eqn:Hh.
  - destruct (hook_bucket_change _ _ _ _ _ _ _ _ _ _ I H Hh Hf) as [Hs | Hk]; [left; exact Hs | right; tauto].
  - left. eapply bucket_frame; try eassumption.
    + destruct m; simpl; try assumption; discriminate.
    + intros _. exact Hne.
Qed.

(** The forged asset is keyed by the caller's own address: amounts of every other token and
    every NFT of every other collection are exactly as before. *)
Lemma add_coin_amount_other l k a l' d : add_coin l k a = Ok l' -> d <> k -> amount_of d l' = amount_of d l.
Proof.
  revert l'. induction l as [|[k' a'] r IH]; simpl; intros l' H Hd.
  - inv H. simpl. dN k d; [congruence | lia].
  - dN k' k.
    + step H. inv H. simpl. dN k d; [congruence | reflexivity].
    + step H. inv H. simpl. rewrite (IH _ Hb Hd). reflexivity.
Qed.

Theorem grown_by_bounded h g g' :
  grown_by h g g' ->
  native g' = native g /\
  (forall t, t <> h -> amount_of t (cw20 g') = amount_of t (cw20 g)) /\
  (forall n, In n (nfts g) -> In n (nfts g')) /\
  (forall n, In n (nfts g') -> In n (nfts g) \/ fst n = h).
Proof.
  intros [[amt H] | [tok ->]].
  - simpl in H. step H. inv H. simpl. splits; try tauto.
    intros t Ht. eapply add_coin_amount_other; eassumption.
  - simpl. splits; try tauto.
    + intros n Hn. apply in_or_app. tauto.
    + intros n Hn. apply in_app_or in Hn. destruct Hn as [Hn | [<- | []]]; [tauto | right; reflexivity].
Qed.
