(** * Ids: corollaries about listing / bucket ids over whole histories (C09). *)
From FM Require Export Lifecycle.

(** A used id refuses every creation path. *)
Theorem used_listing_id_refused o e sender fs m s id :
  Inv s -> In id (l_used s) -> creates_l_b m id = true -> execute o e sender fs m s = Err.
Proof.
  intros I Hu Hc. destruct (execute o e sender fs m s) as [[s' out]|] eqn:H; [|reflexivity].
  exfalso. destruct (create_listing_fresh _ _ _ _ _ _ _ _ _ I H Hc) as (_ & _ & Hn & _). tauto.
Qed.

Theorem used_bucket_id_refused o e sender fs m s id :
  Inv s -> In id (b_used s) -> creates_b_b m id = true -> execute o e sender fs m s = Err.
Proof.
  intros I Hu Hc. destruct (execute o e sender fs m s) as [[s' out]|] eqn:H; [|reflexivity].
  exfalso. destruct (create_bucket_fresh _ _ _ _ _ _ _ _ _ I H Hc) as (_ & _ & Hn & _). tauto.
Qed.

(** Ids 0 and >= MAX_SAFE_INT are refused by every creation path in every state satisfying
    the invariant. *)
Theorem illegal_listing_id_refused o e sender fs m s id :
  Inv s -> (id = 0 \/ MAX_SAFE_INT <= id) -> creates_l_b m id = true -> execute o e sender fs m s = Err.
Proof.
  intros I Hi Hc. destruct (execute o e sender fs m s) as [[s' out]|] eqn:H; [|reflexivity].
  exfalso. destruct (create_listing_fresh _ _ _ _ _ _ _ _ _ I H Hc) as (H0 & H1 & _). lia.
Qed.

Theorem illegal_bucket_id_refused o e sender fs m s id :
  Inv s -> (id = 0 \/ MAX_SAFE_INT <= id) -> creates_b_b m id = true -> execute o e sender fs m s = Err.
Proof.
  intros I Hi Hc. destruct (execute o e sender fs m s) as [[s' out]|] eqn:H; [|reflexivity].
  exfalso. destruct (create_bucket_fresh _ _ _ _ _ _ _ _ _ I H Hc) as (H0 & H1 & _). lia.
Qed.

(** Used ids survive whole histories. *)
Theorem run_used_mono ops : forall w,
  incl (l_used (market w)) (l_used (market (run w ops))) /\
  incl (b_used (market w)) (b_used (market (run w ops))).
Proof.
  unfold run. induction ops as [|o r IH]; simpl; intros w; [split; apply incl_refl|].
  destruct (step_used_mono w o) as [H1 H2]. destruct (IH (fst (step w o))) as [H3 H4].
  split; eapply incl_tran; eassumption.
Qed.

(** World level: a step that creates listing [id] needs it unused, legal, and marks it. *)
Theorem step_creates_listing w o m id :
  Inv (market w) -> ok (snd (step w o)) = true -> op_msg o = Some m -> creates_l_b m id = true ->
  id <> 0 /\ id < MAX_SAFE_INT /\ ~ In id (l_used (market w)) /\ In id (l_used (market (fst (step w o)))).
Proof.
  intros I Hok Hm Hc. apply step_ok_try in Hok. destruct Hok as [out H].
  destruct (try_step_exec _ _ _ _ _ H Hm) as (w0 & _ & _ & _ & _ & _ & _ & _ & He).
  exact (create_listing_fresh _ _ _ _ _ _ _ _ _ I He Hc).
Qed.

Theorem step_creates_bucket w o m id :
  Inv (market w) -> ok (snd (step w o)) = true -> op_msg o = Some m -> creates_b_b m id = true ->
  id <> 0 /\ id < MAX_SAFE_INT /\ ~ In id (b_used (market w)) /\ In id (b_used (market (fst (step w o)))).
Proof.
  intros I Hok Hm Hc. apply step_ok_try in Hok. destruct Hok as [out H].
  destruct (try_step_exec _ _ _ _ _ H Hm) as (w0 & _ & _ & _ & _ & _ & _ & _ & He).
  exact (create_bucket_fresh _ _ _ _ _ _ _ _ _ I He Hc).
Qed.

(** Over a whole history from an initial world each id is accepted at most once per kind. *)
Theorem reach_l_creations_once w ops id : initial w -> (l_creations id w ops <= 1)%nat.
Proof. intros [t Ht]. apply l_creations_once. eapply Inv_init. exact Ht. Qed.

Theorem reach_b_creations_once w ops id : initial w -> (b_creations id w ops <= 1)%nat.
Proof. intros [t Ht]. apply b_creations_once. eapply Inv_init. exact Ht. Qed.

(** At most one live record per id, and every live id is marked used. *)
Theorem reach_unique_live w ops : initial w ->
  let s := market (run w ops) in
  NoDup (map lid_of (listings s)) /\ NoDup (map bid_of (buckets s)) /\
  NoDup (map fst (listings s)) /\ NoDup (map fst (buckets s)) /\
  (forall k l, In (k, l) (listings s) -> In (lid l) (l_used s) /\ snd k = lid l) /\
  (forall k b, In (k, b) (buckets s) -> In (snd k) (b_used s)).
Proof.
  intros Hi s. pose proof (reach_Inv w ops Hi) as I. fold s in I. splits.
  - apply (inv_lids s I).
  - apply (inv_bids s I).
  - apply Inv_lkeys, I.
  - apply Inv_bkeys, I.
  - intros k l Hin. split; [apply (inv_lused s I _ _ Hin)|].
    rewrite (wl_key _ _ (inv_l s I _ _ Hin)). reflexivity.
  - intros k b Hin. apply (inv_bused s I _ _ Hin).
Qed.
