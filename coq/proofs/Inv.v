(** * Inv: inversion of the handlers, and the frame lemmas that hold for every message. *)
From FM Require Export Store.

(** Decompose a hypothesis [handler ... = Ok r] one construct at a time. *)
Ltac step H :=
  match type of H with
  | Err = Ok _ => discriminate H
  | Ok _ = Ok _ => inversion H; subst; clear H
  | bind ?r _ = Ok _ =>
      let a := fresh "x" in let H1 := fresh "Hb" in
      apply bind_ok in H; destruct H as (a & H1 & H)
  | (if ?b then _ else _) = Ok _ => let E := fresh "Hc" in destruct b eqn:E
  | (match ?x with _ => _ end) = Ok _ => let E := fresh "Hm" in destruct x eqn:E
  end.

Ltac steps H := repeat (step H).

(** Project the fields of an explicitly given state without unfolding the store primitives. *)
Ltac sstate := cbn [listings buckets l_used b_used fee registry_item set_listings set_buckets mark_l mark_b set_fee].

Ltac unfold_handlers H :=
  unfold execute, execute_receive, execute_receive_nft,
    execute_create_listing, execute_create_listing_cw721, execute_create_bucket, execute_create_bucket_cw721,
    execute_add_to_listing, execute_add_to_listing_cw721, execute_add_to_bucket, execute_add_to_bucket_cw721,
    create_listing_g, create_bucket_g, add_to_listing_g, add_to_bucket_g,
    execute_change_ask, execute_finalize, execute_delete_listing, execute_withdraw_bucket,
    execute_buy_listing, execute_withdraw_purchased, execute_cycle_fee, save_listing in H.

(** Nothing but the cycle message touches the fee item. *)
Lemma execute_fee_frame o e sender fs m s s' out :
  execute o e sender fs m s = Ok (s', out) -> m <> FeeCycle -> fee s' = fee s.
Proof.
  intros H Hm. destruct m; try congruence; unfold_handlers H; steps H; reflexivity.
Qed.

Lemma execute_regitem_frame o e sender fs m s s' out :
  execute o e sender fs m s = Ok (s', out) -> registry_item s' = registry_item s.
Proof.
  intros H. destruct m; unfold_handlers H; steps H; try reflexivity; simpl; congruence.
Qed.

(** Used ids are never forgotten. *)
Lemma execute_used_mono o e sender fs m s s' out :
  execute o e sender fs m s = Ok (s', out) ->
  incl (l_used s) (l_used s') /\ incl (b_used s) (b_used s').
Proof.
  intros H. destruct m; unfold_handlers H; steps H; simpl;
    split; try apply incl_refl; apply incl_tl, incl_refl.
Qed.
