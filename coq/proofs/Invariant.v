(** * Invariant: the contract-local invariant [Inv] (well-formed records filed under owner
    and id, unique ids, live ids marked used) and its preservation by every message. *)
From FM Require Export WF.

Definition life_ok (l : listing) : Prop :=
  match lstatus l with
  | BeingPrepared => fin l = None /\ exp l = None /\ claimant l = None /\ lfee l = None
  | FinalizedReady =>
      claimant l = None /\ lfee l = None /\
      exists f secs, fin l = Some f /\ exp l = Some (f + secs * NANOS) /\ MIN_LIFE <= secs /\ secs <= MAX_LIFE
  | Closed => claimant l = Some (creator l) /\ fin l <> None /\ exp l <> None
  end.

Definition fee_ok (f : option coin) : Prop := forall d a, f = Some (d, a) -> 0 < a /\ a < U128.

Record wf_listing (k : key) (l : listing) : Prop := mkWfL {
  wl_key : k = (creator l, lid l);
  wl_goods : wf_gbal (for_sale l);
  wl_ask : wf_gbal (ask l);
  wl_ask_size : gsize (ask l) <= MAX_NUM_ASSETS;
  wl_life : life_ok l;
  wl_fee : fee_ok (lfee l)
}.

Record wf_bucket (k : key) (b : bucket) : Prop := mkWfB {
  wb_key : fst k = owner b;
  wb_funds : wf_gbal (funds b);
  wb_fee : fee_ok (bfee b)
}.

Definition lid_of (e : key * listing) : N := lid (snd e).
Definition bid_of (e : key * bucket) : N := snd (fst e).

Record Inv (s : mstate) : Prop := mkInv {
  inv_l : forall k l, In (k, l) (listings s) -> wf_listing k l;
  inv_lids : NoDup (map lid_of (listings s));
  inv_lused : forall k l, In (k, l) (listings s) -> In (lid l) (l_used s);
  inv_b : forall k b, In (k, b) (buckets s) -> wf_bucket k b;
  inv_bids : NoDup (map bid_of (buckets s));
  inv_bused : forall k b, In (k, b) (buckets s) -> In (snd k) (b_used s);
  inv_zero : In 0 (l_used s) /\ In 0 (b_used s);
  inv_reg : registry_item s <> None
}.

(** Keys are unique as a consequence of unique ids. *)
Lemma NoDup_map_inj {A B C} (f : A -> B) (g : A -> C) (h : B -> C) l :
  (forall x, g x = h (f x)) -> NoDup (map g l) -> NoDup (map f l).
Proof.
  intros Hgh. induction l as [|x r IH]; simpl; intros H; [constructor|]. inv H.
  constructor; [|apply IH, H3]. intros Hin. apply H2. apply in_map_iff in Hin.
  destruct Hin as (y & Hy & Hin). apply in_map_iff. exists y. split; [|assumption].
  rewrite !Hgh. congruence.
Qed.

Lemma Inv_bkeys s : Inv s -> NoDup (map fst (buckets s)).
Proof.
  intros I. apply (NoDup_map_inj fst bid_of snd); [reflexivity | apply (inv_bids s I)].
Qed.

Lemma Inv_lkeys s : Inv s -> NoDup (map fst (listings s)).
Proof.
  intros I. pose proof (inv_lids s I) as Hnd. pose proof (inv_l s I) as Hwf.
  induction (listings s) as [|[k l] r IH]; simpl in *; [constructor|]. inv Hnd.
  constructor.
  - intros Hin. apply H1. apply in_map_iff in Hin. destruct Hin as ([k' l'] & Hk & Hin). simpl in Hk. subst k'.
    apply in_map_iff. exists (k, l'). split; [|assumption]. unfold lid_of. simpl.
    pose proof (wl_key _ _ (Hwf k l (or_introl eq_refl))) as E1.
    pose proof (wl_key _ _ (Hwf k l' (or_intror Hin))) as E2. rewrite E1 in E2. inv E2. congruence.
  - apply IH; [assumption|]. intros k' l' Hin. apply Hwf. right. assumption.
Qed.

Lemma Inv_find_listing s k l : Inv s -> find_key k (listings s) = Some l -> wf_listing k l /\ In (k, l) (listings s).
Proof. intros I H. apply find_key_In in H. split; [apply (inv_l s I), H | assumption]. Qed.

Lemma Inv_find_bucket s k b : Inv s -> find_key k (buckets s) = Some b -> wf_bucket k b /\ In (k, b) (buckets s).
Proof. intros I H. apply find_key_In in H. split; [apply (inv_b s I), H | assumption]. Qed.

Lemma Inv_find_by_id s id k l :
  Inv s -> find_by_id id (listings s) = Some (k, l) ->
  wf_listing k l /\ In (k, l) (listings s) /\ lid l = id /\ k = (creator l, id) /\ find_key k (listings s) = Some l.
Proof.
  intros I H. apply find_by_id_In in H. destruct H as [Hin Hid].
  pose proof (inv_l s I _ _ Hin) as W. splits; try assumption.
  - rewrite (wl_key _ _ W). congruence.
  - apply In_find_key; [apply Inv_lkeys, I | assumption].
Qed.

(** ** Store updates preserve the invariant *)
Lemma save_listing_ok k v l ls :
  save_listing k v l = Ok ls ->
  ls = put k v l /\ (forall k' v', In (k', v') l -> k' <> k -> lid v' <> lid v).
Proof.
  unfold save_listing. intros H. step H; [discriminate|]. inv H. split; [reflexivity|].
  intros k' v' Hin Hne Heq.
  assert (Hex : existsb (fun e : key * listing => negb (key_eqb (fst e) k) && (lid (snd e) =? lid v)) l = true).
  { apply existsb_exists. exists (k', v'). split; [assumption|]. simpl.
    apply key_eqb_neq in Hne. rewrite Hne. simpl. apply N.eqb_eq. assumption. }
  congruence.
Qed.

Lemma save_listing_complete k v l :
  (forall k' v', In (k', v') l -> k' <> k -> lid v' <> lid v) -> save_listing k v l = Ok (put k v l).
Proof.
  intros H. unfold save_listing.
  destruct (existsb _ l) eqn:E; [|reflexivity].
  apply existsb_exists in E. destruct E as ([k' v'] & Hin & Hc). simpl in Hc.
  apply andb_true_iff in Hc as [Hc1 Hc2]. apply negb_true_iff, key_eqb_neq in Hc1. apply N.eqb_eq in Hc2.
  exfalso. apply (H k' v' Hin Hc1 Hc2).
Qed.

Lemma Inv_put_listing s k l :
  Inv s -> wf_listing k l -> In (lid l) (l_used s) ->
  (forall k' l', In (k', l') (listings s) -> k' <> k -> lid l' <> lid l) ->
  Inv (set_listings s (put k l (listings s))).
Proof.
  intros I W Hu Hfresh. destruct I as [I1 I2 I3 I4 I5 I6 I7 I8].
  constructor; simpl; try assumption.
  - intros k' l' Hin. apply In_put in Hin. destruct Hin as [Heq | [Hin _]]; [inv Heq; assumption | apply I1, Hin].
  - apply NoDup_map_put; [assumption|]. intros k' v' Hin Hne. unfold lid_of. simpl. apply (Hfresh k' v' Hin Hne).
  - intros k' l' Hin. apply In_put in Hin. destruct Hin as [Heq | [Hin _]]; [inv Heq; assumption | apply (I3 _ _ Hin)].
Qed.

Lemma Inv_remove_listing s k : Inv s -> Inv (set_listings s (remove_key k (listings s))).
Proof.
  intros [I1 I2 I3 I4 I5 I6 I7 I8]. constructor; simpl; try assumption.
  - intros k' l' Hin. apply In_remove_key in Hin. apply I1, Hin.
  - apply NoDup_map_remove_key, I2.
  - intros k' l' Hin. apply In_remove_key in Hin. apply (I3 k' l'), Hin.
Qed.

Lemma Inv_put_bucket s k b :
  Inv s -> wf_bucket k b -> In (snd k) (b_used s) ->
  (forall k' b', In (k', b') (buckets s) -> k' <> k -> snd k' <> snd k) ->
  Inv (set_buckets s (put k b (buckets s))).
Proof.
  intros I W Hu Hfresh. destruct I as [I1 I2 I3 I4 I5 I6 I7 I8].
  constructor; simpl; try assumption.
  - intros k' b' Hin. apply In_put in Hin. destruct Hin as [Heq | [Hin _]]; [inv Heq; assumption | apply I4, Hin].
  - apply NoDup_map_put; [assumption|]. intros k' v' Hin Hne. unfold bid_of. simpl. apply (Hfresh k' v' Hin Hne).
  - intros k' b' Hin. apply In_put in Hin. destruct Hin as [Heq | [Hin _]]; [inv Heq; assumption | apply (I6 _ _ Hin)].
Qed.

Lemma Inv_remove_bucket s k : Inv s -> Inv (set_buckets s (remove_key k (buckets s))).
Proof.
  intros [I1 I2 I3 I4 I5 I6 I7 I8]. constructor; simpl; try assumption.
  - intros k' b' Hin. apply In_remove_key in Hin. apply I4, Hin.
  - apply NoDup_map_remove_key, I5.
  - intros k' b' Hin. apply In_remove_key in Hin. apply (I6 k' b'), Hin.
Qed.

Lemma Inv_mark_l s id : Inv s -> Inv (mark_l s id).
Proof.
  intros [I1 I2 I3 I4 I5 I6 [I7 I7'] I8]. constructor; simpl; try assumption.
  - intros k l Hin. right. apply (I3 k l Hin).
  - split; [right|]; assumption.
Qed.

Lemma Inv_mark_b s id : Inv s -> Inv (mark_b s id).
Proof.
  intros [I1 I2 I3 I4 I5 I6 [I7 I7'] I8]. constructor; simpl; try assumption.
  - intros k b Hin. right. apply (I6 k b Hin).
  - split; [|right]; assumption.
Qed.

(** Marking first and storing afterwards commute with what the handlers do. *)
Lemma mark_l_set_listings s ls id : mark_l (set_listings s ls) id = set_listings (mark_l s id) ls.
Proof. reflexivity. Qed.
Lemma mark_b_set_buckets s bs id : mark_b (set_buckets s bs) id = set_buckets (mark_b s id) bs.
Proof. reflexivity. Qed.

(** Unique bucket ids: another entry with the same id as a stored one does not exist. *)
Lemma bids_unique s k b k' b' :
  Inv s -> In (k, b) (buckets s) -> In (k', b') (buckets s) -> snd k' = snd k -> k' = k /\ b' = b.
Proof.
  intros I. pose proof (inv_bids s I) as Hnd. revert Hnd.
  induction (buckets s) as [|[k2 b2] r IH]; simpl; intros Hnd H1 H2 Heq; [tauto|]. inv Hnd.
  assert (Hnot : forall kk bb, In (kk, bb) r -> snd kk <> snd k2).
  { intros kk bb Hin E. apply H3. apply in_map_iff. exists (kk, bb). split; [exact E | assumption]. }
  destruct H1 as [E1 | H1], H2 as [E2 | H2].
  - inv E1. inv E2. tauto.
  - inv E1. exfalso. apply (Hnot _ _ H2). assumption.
  - inv E2. exfalso. apply (Hnot _ _ H1). congruence.
  - apply IH; assumption.
Qed.

Lemma lids_unique s k l k' l' :
  Inv s -> In (k, l) (listings s) -> In (k', l') (listings s) -> lid l' = lid l -> k' = k /\ l' = l.
Proof.
  intros I. pose proof (inv_lids s I) as Hnd. revert Hnd.
  induction (listings s) as [|[k2 l2] r IH]; simpl; intros Hnd H1 H2 Heq; [tauto|]. inv Hnd.
  assert (Hnot : forall kk ll, In (kk, ll) r -> lid ll <> lid l2).
  { intros kk ll Hin E. apply H3. apply in_map_iff. exists (kk, ll). split; [exact E | assumption]. }
  destruct H1 as [E1 | H1], H2 as [E2 | H2].
  - inv E1. inv E2. tauto.
  - inv E1. exfalso. apply (Hnot _ _ H2). assumption.
  - inv E2. exfalso. apply (Hnot _ _ H1). congruence.
  - apply IH; assumption.
Qed.
