(** * Ledger: how the chain slice moves assets — only the paying account is ever debited
    (C04, C19), and dispatch debits only the marketplace itself. *)
From FM Require Export Payable.

Definition nondecr (w w' : world) (a : addr) : Prop :=
  (forall d, bank w a d <= bank w' a d) /\
  (forall t, cw20bal w t a <= cw20bal w' t a) /\
  (forall c k, nft_owner w c k = Some a -> nft_owner w' c k = Some a).

Lemma nondecr_refl w a : nondecr w w a.
Proof. unfold nondecr. splits; intros; try lia; assumption. Qed.

Lemma nondecr_trans w1 w2 w3 a : nondecr w1 w2 a -> nondecr w2 w3 a -> nondecr w1 w3 a.
Proof.
  intros (A1 & A2 & A3) (B1 & B2 & B3). unfold nondecr. splits.
  - intros d. specialize (A1 d). specialize (B1 d). lia.
  - intros t. specialize (A2 t). specialize (B2 t). lia.
  - intros c k H. apply B3, A3, H.
Qed.

Lemma upd2_same f a b v : upd2 f a b v a b = v.
Proof. unfold upd2. rewrite !N.eqb_refl. reflexivity. Qed.

Lemma upd2_other f a b v x y : (x <> a \/ y <> b) -> upd2 f a b v x y = f x y.
Proof.
  unfold upd2. intros H. destruct (N.eqb_spec x a), (N.eqb_spec y b); simpl; try reflexivity. subst. tauto.
Qed.

Lemma bank_move1_others b src dst c b' x d :
  bank_move1 b src dst c = Ok b' -> x <> src -> b x d <= b' x d.
Proof.
  unfold bank_move1. destruct c as [d0 a]. intros H Hx. step H; [|discriminate]. inv H.
  destruct (N.eq_dec x dst) as [->|Hd], (N.eq_dec d d0) as [->|Hdd].
  - rewrite upd2_same. rewrite upd2_other by tauto. lia.
  - rewrite !upd2_other by tauto. lia.
  - rewrite !upd2_other by tauto. lia.
  - rewrite !upd2_other by tauto. lia.
Qed.

Lemma bank_move_others cs : forall b src dst b' x d,
  bank_move b src dst cs = Ok b' -> x <> src -> b x d <= b' x d.
Proof.
  induction cs as [|c r IH]; simpl; intros b src dst b' x d H Hx; [inv H; lia|].
  step H. pose proof (bank_move1_others _ _ _ _ _ x d Hb Hx). pose proof (IH _ _ _ _ x d H Hx). lia.
Qed.

Lemma cw20_move_others c t src dst a c' x t' :
  cw20_move c t src dst a = Ok c' -> x <> src -> c t' x <= c' t' x.
Proof.
  unfold cw20_move. intros H Hx. step H; [|discriminate]. inv H.
  destruct (N.eq_dec t' t) as [->|Ht], (N.eq_dec x dst) as [->|Hd].
  - rewrite upd2_same. rewrite upd2_other by tauto. lia.
  - rewrite !upd2_other by tauto. lia.
  - rewrite !upd2_other by tauto. lia.
  - rewrite !upd2_other by tauto. lia.
Qed.

Lemma nft_move_others n c k src dst n' x c' k' :
  nft_move n c k src dst = Ok n' -> x <> src -> n c' k' = Some x -> n' c' k' = Some x.
Proof.
  unfold nft_move. intros H Hx Ho. destruct (n c k) as [o|] eqn:E; [|discriminate].
  step H; [|discriminate]. inv H. apply N.eqb_eq in Hc. subst o.
  unfold upd2o. destruct (N.eqb_spec c' c), (N.eqb_spec k' k); simpl; try assumption.
  subst. rewrite E in Ho. inv Ho. congruence.
Qed.

(** One dispatched message debits nobody but the marketplace. *)
Lemma dispatch1_others w m w' a : dispatch1 w m = Ok w' -> a <> self_addr w -> nondecr w w' a.
Proof.
  unfold dispatch1. intros H Ha. destruct m as [to cs | t to x | c to k | dep [d x]].
  - step H; [|discriminate]. step H. inv H. unfold nondecr. simpl. splits; try (intros; lia); try tauto.
    intros d. eapply bank_move_others; eassumption.
  - destruct (kind w t); try discriminate.
    + step H. inv H. unfold nondecr. simpl. splits; try (intros; lia); try tauto.
      intros t'. eapply cw20_move_others; eassumption.
    + step H; [discriminate|]. inv H. apply nondecr_refl.
  - destruct (kind w c); try discriminate.
    + step H. inv H. unfold nondecr. simpl. splits; try (intros; lia).
      intros c' k' Ho. eapply nft_move_others; eassumption.
    + step H; [discriminate|]. inv H. apply nondecr_refl.
  - step H; [|discriminate]. step H. inv H. unfold nondecr. simpl. splits; try (intros; lia); try tauto.
    intros d'. eapply bank_move1_others; eassumption.
Qed.

Lemma dispatch_others ms : forall w i fail w' a,
  dispatch w i fail ms = Ok w' -> a <> self_addr w -> nondecr w w' a.
Proof.
  induction ms as [|m r IH]; simpl; intros w i fail w' a H Ha; [inv H; apply nondecr_refl|].
  step H; [discriminate|]. step H.
  pose proof (dispatch1_static _ _ _ Hb) as St. destruct St as (_ & _ & _ & _ & _ & _ & _ & Hs & _).
  eapply nondecr_trans; [eapply dispatch1_others; eassumption|].
  eapply IH; [exact H | congruence].
Qed.

Lemma run_market_others w sender fs m fail w' out a :
  run_market w sender fs m fail = Ok (w', out) -> a <> self_addr w -> nondecr w w' a.
Proof.
  unfold run_market. intros H Ha. step H. destruct x as [s' o']. step H. inv H.
  assert (E : nondecr w (set_market w s') a) by (unfold nondecr; simpl; splits; intros; try lia; assumption).
  eapply nondecr_trans; [exact E|]. eapply dispatch_others; [exact Hb0 | exact Ha].
Qed.

(** The account that initiates an operation (the only one it may debit). *)
Definition op_initiator (o : op) : option addr :=
  match o with
  | Exec sd _ _ _ => Some sd
  | Cw20Send u _ _ _ _ | NftSend u _ _ _ _ | Cw20Xfer u _ _ _ | NftXfer u _ _ _ | BankXfer u _ _ => Some u
  | RegExec sd _ => Some sd
  | _ => None
  end.

Lemma pay_funds_others b src dst cs b' x d : pay_funds b src dst cs = Ok b' -> x <> src -> b x d <= b' x d.
Proof.
  unfold pay_funds. intros H Hx. destruct cs as [|c r]; [inv H; lia|].
  remember (filter (fun c : denom * N => negb (snd c =? 0)) (c :: r)) as nz. destruct nz; [discriminate|].
  eapply bank_move_others; eassumption.
Qed.

(** No operation of any kind decreases the wallet of an account other than its initiator
    (and the marketplace's own account). *)
Theorem step_others_nondecreasing w o a :
  op_initiator o <> Some a -> a <> self_addr w -> nondecr w (fst (step w o)) a.
Proof.
  intros Hi Ha. rewrite step_fst. destruct (try_step w o) as [[w' out]|] eqn:H; [|apply nondecr_refl].
  unfold try_step in H. destruct o; simpl in Hi.
  - step H. eapply nondecr_trans; [|eapply run_market_others; [exact H | exact Ha]].
    unfold nondecr. simpl. splits; try (intros; lia); try tauto.
    intros d. eapply pay_funds_others; [exact Hb | congruence].
  - destruct (kind w token); try discriminate. step H.
    eapply nondecr_trans; [|eapply run_market_others; [exact H | exact Ha]].
    unfold nondecr. simpl. splits; try (intros; lia); try tauto.
    intros t. eapply cw20_move_others; [exact Hb | congruence].
  - destruct (kind w coll); try discriminate. step H.
    eapply nondecr_trans; [|eapply run_market_others; [exact H | exact Ha]].
    unfold nondecr. simpl. splits; try (intros; lia).
    intros c k Ho. eapply nft_move_others; [exact Hb | congruence | exact Ho].
  - destruct (kind w token); try discriminate. step H. inv H.
    unfold nondecr. simpl. splits; try (intros; lia); try tauto.
    intros t. eapply cw20_move_others; [exact Hb | congruence].
  - destruct (kind w coll); try discriminate. step H. inv H.
    unfold nondecr. simpl. splits; try (intros; lia).
    intros c k Ho. eapply nft_move_others; [exact Hb | congruence | exact Ho].
  - remember (filter (fun c : denom * N => negb (snd c =? 0)) cs) as nz. destruct nz; [discriminate|]. step H. inv H.
    unfold nondecr. simpl. splits; try (intros; lia); try tauto.
    intros d. eapply bank_move_others; [exact Hb | congruence].
  - step H. inv H. unfold nondecr. simpl. splits; intros; try lia; assumption.
  - step H; [|discriminate]. inv H. unfold nondecr. simpl. splits; intros; try lia; assumption.
  - inv H. unfold nondecr. simpl. splits; intros; try lia; assumption.
  - inv H. unfold nondecr. simpl. splits; intros; try lia; assumption.
Qed.

(** A message that carries no coins and is not routed through a token contract does not debit
    its own sender either: nothing but deposits ever takes assets from the sender (C19). *)
Theorem exec_without_funds_nondecreasing w sender m fail a :
  a <> self_addr w -> nondecr w (fst (step w (Exec sender [] m fail))) a.
Proof.
  intros Ha. rewrite step_fst. destruct (try_step w _) as [[w' out]|] eqn:H; [|apply nondecr_refl].
  unfold try_step in H. simpl in H. eapply nondecr_trans; [|eapply run_market_others; [exact H | exact Ha]].
  unfold nondecr. simpl. splits; intros; try lia; assumption.
Qed.
