(** * Lifecycle: fee cycle (C13), ids (C09), finalisation and immutability (C08), swap (C03),
    ownership frame (C04). *)
From FM Require Export RegWorld.

(** ** Messages carried by operations *)
Definition op_msg (o : op) : option exec_msg :=
  match o with
  | Exec _ _ m _ => Some m
  | Cw20Send u _ a i _ => Some (Receive u a i)
  | NftSend u _ k i _ => Some (ReceiveNft u k i)
  | _ => None
  end.

Definition op_sender (o : op) : addr :=
  match o with
  | Exec sd _ _ _ => sd
  | Cw20Send _ t _ _ _ => t
  | NftSend _ c _ _ _ => c
  | _ => 0
  end.

Definition op_funds (o : op) : list coin :=
  match o with Exec _ f _ _ => f | _ => [] end.

(** A successful marketplace operation is one successful [execute] from a world that differs
    from [w] only in ledgers. *)
Lemma try_step_exec w o w' out m :
  try_step w o = Ok (w', out) -> op_msg o = Some m ->
  exists w0, market w0 = market w /\ wnow w0 = wnow w /\ self_addr w0 = self_addr w /\
    registry w0 = registry w /\ reg_addr w0 = reg_addr w /\ kind w0 = kind w /\ admin w0 = admin w /\
    execute (oracle_of w0) (env_of w0) (op_sender o) (op_funds o) m (market w) = Ok (market w', out).
Proof.
  unfold try_step. intros H Hm. destruct o; simpl in Hm; inv Hm; simpl.
  - step H. apply run_market_inv in H. destruct H as (s' & He & _ & Hmk).
    exists (set_bank w x). simpl in *. subst s'. splits; try reflexivity; assumption.
  - destruct (kind w token) eqn:Hk; try discriminate. step H.
    apply run_market_inv in H. destruct H as (s' & He & _ & Hmk).
    exists (set_cw20 w x). simpl in *. subst s'. splits; try reflexivity; assumption.
  - destruct (kind w coll) eqn:Hk; try discriminate. step H.
    apply run_market_inv in H. destruct H as (s' & He & _ & Hmk).
    exists (set_nft w x). simpl in *. subst s'. splits; try reflexivity; assumption.
Qed.

Lemma try_step_nomsg w o w' out : try_step w o = Ok (w', out) -> op_msg o = None -> market w' = market w.
Proof.
  unfold try_step. intros H Hm. destruct o; simpl in Hm; try discriminate; steps H; reflexivity.
Qed.

Lemma step_ok_try w o : ok (snd (step w o)) = true -> exists out, try_step w o = Ok (fst (step w o), out).
Proof. unfold step. destruct (try_step w o) as [[w' out]|]; simpl; [eauto | discriminate]. Qed.

(** ** C13: the fee cycle *)
Definition flip (fd : feedenom) (t : N) : feedenom :=
  match fd with JUNO _ => USDC t | USDC _ => JUNO t end.

Lemma cycle_fee_iff e s :
  is_ok (execute_cycle_fee e s) = true <-> sat_add64 (fee_last (fee s)) WEEK_IN_SECS < seconds (now e).
Proof.
  unfold execute_cycle_fee. destruct (fee s); simpl;
    destruct (seconds (now e) <=? sat_add64 last WEEK_IN_SECS) eqn:E; simpl;
    (split; [intros H; try discriminate; apply N.leb_gt in E; exact E | intros H; try reflexivity; apply N.leb_le in E; lia]).
Qed.

Lemma cycle_fee_effect e s s' out :
  execute_cycle_fee e s = Ok (s', out) -> s' = set_fee s (flip (fee s) (seconds (now e))) /\ out = [].
Proof.
  unfold execute_cycle_fee. intros H. destruct (fee s); step H; try discriminate; inv H; split; reflexivity.
Qed.

Lemma sat_week last : last + WEEK_IN_SECS < U64 -> sat_add64 last WEEK_IN_SECS = last + WEEK_IN_SECS.
Proof. intros H. unfold sat_add64. apply N.min_l. lia. Qed.

(** Whatever operation changes the fee item is the public cycle message, without coins, more
    than a week after the previous switch; the denomination flips and records the time. *)
Theorem step_fee_change w o :
  fee (market (fst (step w o))) <> fee (market w) ->
  (exists a fail, o = Exec a [] FeeCycle fail) /\
  sat_add64 (fee_last (fee (market w))) WEEK_IN_SECS < seconds (wnow w) /\
  fee (market (fst (step w o))) = flip (fee (market w)) (seconds (wnow w)).
Proof.
  rewrite step_fst. destruct (try_step w o) as [[w' out]|] eqn:H; [|congruence]. intros Hne.
  destruct (op_msg o) as [m|] eqn:Hm; [|apply try_step_nomsg in H; [congruence | assumption]].
  destruct (try_step_exec _ _ _ _ _ H Hm) as (w0 & E1 & E2 & E3 & _ & _ & _ & _ & He).
  assert (m = FeeCycle).
  { destruct m; try reflexivity; exfalso; apply Hne; eapply execute_fee_frame; try eassumption; discriminate. }
  subst m. destruct o; simpl in Hm; try discriminate; inv Hm. simpl in He.
  unfold execute in He. step He; [discriminate|]. step He; [|discriminate].
  destruct funds_; [|discriminate].
  split; [eauto|]. pose proof (cycle_fee_effect _ _ _ _ He) as [Hs _].
  assert (Hok : is_ok (execute_cycle_fee (env_of w0) (market w)) = true) by (rewrite He; reflexivity).
  apply cycle_fee_iff in Hok. unfold env_of in *. simpl in *. rewrite E2 in *.
  split; [exact Hok|]. rewrite Hs. reflexivity.
Qed.

(** Any account may cycle once the week has passed (no coins attached). *)
Theorem cycle_accepted w a :
  sat_add64 (fee_last (fee (market w))) WEEK_IN_SECS < seconds (wnow w) ->
  ok (snd (step w (Exec a [] FeeCycle None))) = true.
Proof.
  intros H. unfold step, try_step. simpl. unfold run_market, execute. simpl.
  match goal with |- context [execute_cycle_fee ?e ?s] =>
    destruct (execute_cycle_fee e s) as [[s' out]|] eqn:E;
    [ apply cycle_fee_effect in E; destruct E as [-> ->]; reflexivity
    | exfalso; assert (Hok : is_ok (execute_cycle_fee e s) = true) by (apply cycle_fee_iff; exact H);
      rewrite E in Hok; discriminate ]
  end.
Qed.

(** ... and nobody can before. *)
Theorem cycle_refused w a fs fail :
  seconds (wnow w) <= sat_add64 (fee_last (fee (market w))) WEEK_IN_SECS ->
  fst (step w (Exec a fs FeeCycle fail)) = w.
Proof.
  intros Hle. apply step_refused_no_effect.
  destruct (ok (snd (step w (Exec a fs FeeCycle fail)))) eqn:Hok; [|reflexivity]. exfalso.
  apply step_ok_try in Hok. destruct Hok as [out H].
  destruct (try_step_exec _ _ _ _ FeeCycle H eq_refl) as (w0 & E1 & E2 & _ & _ & _ & _ & _ & He).
  unfold execute in He. step He; [discriminate|]. step He; [|discriminate].
  assert (Hok : is_ok (execute_cycle_fee (env_of w0) (market w)) = true) by (rewrite He; reflexivity).
  apply cycle_fee_iff in Hok. unfold env_of in Hok. simpl in Hok. rewrite E2 in Hok. lia.
Qed.

(** ** C09: ids *)
Definition creates_l_b (m : exec_msg) (id : N) : bool :=
  match m with
  | CreateListing i _ _ => i =? id
  | Receive _ _ (Some (CreateListingCw20 i _ _)) => i =? id
  | ReceiveNft _ _ (Some (CreateListingCw721 i _ _)) => i =? id
  | _ => false
  end.

Definition creates_b_b (m : exec_msg) (id : N) : bool :=
  match m with
  | CreateBucket i => i =? id
  | Receive _ _ (Some (CreateBucketCw20 i)) => i =? id
  | ReceiveNft _ _ (Some (CreateBucketCw721 i)) => i =? id
  | _ => false
  end.

Lemma max_ok_lt id : max_ok id = true -> id < MAX_SAFE_INT.
Proof. unfold max_ok. apply N.ltb_lt. Qed.

Theorem create_listing_fresh o e sender fs m s s' out id :
  Inv s -> execute o e sender fs m s = Ok (s', out) -> creates_l_b m id = true ->
  id <> 0 /\ id < MAX_SAFE_INT /\ ~ In id (l_used s) /\ In id (l_used s').
Proof.
  intros I H Hc. unfold execute in H. step H; [discriminate|]. clear Hc0.
  assert (Hgen : forall user ok g a w, create_listing_g user ok g id a w s = Ok (s', out) ->
                 id <> 0 /\ id < MAX_SAFE_INT /\ ~ In id (l_used s) /\ In id (l_used s')).
  { intros user ok g a w Hh. apply create_listing_g_inv in Hh.
    destruct Hh as (va & H1 & _ & H3 & _ & _ & _ & _ & -> & _). splits.
    - intros ->. apply H3. apply (inv_zero s I).
    - apply max_ok_lt, H1.
    - exact H3.
    - simpl. left. reflexivity. }
  destruct m; simpl in Hc; try discriminate.
  - destruct inner as [[i a w | | |]|]; try discriminate. apply N.eqb_eq in Hc. subst i.
    step H; [|discriminate]. unfold execute_receive in H. steps H. eapply Hgen. exact H.
  - destruct inner as [[i a w | | |]|]; try discriminate. apply N.eqb_eq in Hc. subst i.
    unfold execute_receive_nft in H. steps H. eapply Hgen. exact H.
  - apply N.eqb_eq in Hc. subst id0. step H; [|discriminate]. eapply Hgen. exact H.
Qed.

Theorem create_bucket_fresh o e sender fs m s s' out id :
  Inv s -> execute o e sender fs m s = Ok (s', out) -> creates_b_b m id = true ->
  id <> 0 /\ id < MAX_SAFE_INT /\ ~ In id (b_used s) /\ In id (b_used s').
Proof.
  intros I H Hc. unfold execute in H. step H; [discriminate|]. clear Hc0.
  assert (Hgen : forall user ok g, create_bucket_g user ok g id s = Ok (s', out) ->
                 id <> 0 /\ id < MAX_SAFE_INT /\ ~ In id (b_used s) /\ In id (b_used s')).
  { intros user ok g Hh. apply create_bucket_g_inv in Hh.
    destruct Hh as (H1 & H2 & _ & _ & -> & _). splits.
    - intros ->. apply H2. apply (inv_zero s I).
    - apply max_ok_lt, H1.
    - exact H2.
    - simpl. left. reflexivity. }
  destruct m; simpl in Hc; try discriminate.
  - destruct inner as [[| | i |]|]; try discriminate. apply N.eqb_eq in Hc. subst i.
    step H; [|discriminate]. unfold execute_receive in H. steps H. eapply Hgen. exact H.
  - destruct inner as [[| | i |]|]; try discriminate. apply N.eqb_eq in Hc. subst i.
    unfold execute_receive_nft in H. steps H. eapply Hgen. exact H.
  - apply N.eqb_eq in Hc. subst id0. step H; [|discriminate]. eapply Hgen. exact H.
Qed.

Theorem step_used_mono w o :
  incl (l_used (market w)) (l_used (market (fst (step w o)))) /\
  incl (b_used (market w)) (b_used (market (fst (step w o)))).
Proof.
  rewrite step_fst. destruct (try_step w o) as [[w' out]|] eqn:H; [|split; apply incl_refl].
  destruct (op_msg o) as [m|] eqn:Hm.
  - destruct (try_step_exec _ _ _ _ _ H Hm) as (w0 & _ & _ & _ & _ & _ & _ & _ & He).
    eapply execute_used_mono. exact He.
  - apply try_step_nomsg in H; [|assumption]. rewrite H. split; apply incl_refl.
Qed.

(** Successful creations of one id along a history. *)
Fixpoint l_creations (id : N) (w : world) (ops : list op) : nat :=
  match ops with
  | [] => 0
  | o :: r =>
      (if ok (snd (step w o)) && match op_msg o with Some m => creates_l_b m id | None => false end
       then 1 else 0) + l_creations id (fst (step w o)) r
  end.

Fixpoint b_creations (id : N) (w : world) (ops : list op) : nat :=
  match ops with
  | [] => 0
  | o :: r =>
      (if ok (snd (step w o)) && match op_msg o with Some m => creates_b_b m id | None => false end
       then 1 else 0) + b_creations id (fst (step w o)) r
  end.

Lemma step_creates_l w o m id :
  Inv (market w) -> ok (snd (step w o)) = true -> op_msg o = Some m -> creates_l_b m id = true ->
  ~ In id (l_used (market w)) /\ In id (l_used (market (fst (step w o)))).
Proof.
  intros I Hok Hm Hc. apply step_ok_try in Hok. destruct Hok as [out H].
  destruct (try_step_exec _ _ _ _ _ H Hm) as (w0 & _ & _ & _ & _ & _ & _ & _ & He).
  destruct (create_listing_fresh _ _ _ _ _ _ _ _ _ I He Hc) as (_ & _ & H3 & H4). tauto.
Qed.

Lemma step_creates_b w o m id :
  Inv (market w) -> ok (snd (step w o)) = true -> op_msg o = Some m -> creates_b_b m id = true ->
  ~ In id (b_used (market w)) /\ In id (b_used (market (fst (step w o)))).
Proof.
  intros I Hok Hm Hc. apply step_ok_try in Hok. destruct Hok as [out H].
  destruct (try_step_exec _ _ _ _ _ H Hm) as (w0 & _ & _ & _ & _ & _ & _ & _ & He).
  destruct (create_bucket_fresh _ _ _ _ _ _ _ _ _ I He Hc) as (_ & _ & H3 & H4). tauto.
Qed.

Lemma l_creations_used id ops : forall w,
  Inv (market w) -> In id (l_used (market w)) -> l_creations id w ops = 0%nat.
Proof.
  induction ops as [|o r IH]; simpl; intros w I Hu; [reflexivity|].
  rewrite IH; [|apply step_Inv, I | apply (proj1 (step_used_mono w o)), Hu].
  destruct (ok (snd (step w o))) eqn:Hok; simpl; [|reflexivity].
  destruct (op_msg o) as [m|] eqn:Hm; [|reflexivity].
  destruct (creates_l_b m id) eqn:Hc; [|reflexivity].
  exfalso. apply (proj1 (step_creates_l _ _ _ _ I Hok Hm Hc)), Hu.
Qed.

Theorem l_creations_once id ops : forall w, Inv (market w) -> (l_creations id w ops <= 1)%nat.
Proof.
  induction ops as [|o r IH]; simpl; intros w I; [lia|].
  destruct (ok (snd (step w o))) eqn:Hok; simpl; [|apply IH, step_Inv, I].
  destruct (op_msg o) as [m|] eqn:Hm; [|apply IH, step_Inv, I].
  destruct (creates_l_b m id) eqn:Hc; [|apply IH, step_Inv, I].
  rewrite l_creations_used; [lia | apply step_Inv, I | apply (proj2 (step_creates_l _ _ _ _ I Hok Hm Hc))].
Qed.

Lemma b_creations_used id ops : forall w,
  Inv (market w) -> In id (b_used (market w)) -> b_creations id w ops = 0%nat.
Proof.
  induction ops as [|o r IH]; simpl; intros w I Hu; [reflexivity|].
  rewrite IH; [|apply step_Inv, I | apply (proj2 (step_used_mono w o)), Hu].
  destruct (ok (snd (step w o))) eqn:Hok; simpl; [|reflexivity].
  destruct (op_msg o) as [m|] eqn:Hm; [|reflexivity].
  destruct (creates_b_b m id) eqn:Hc; [|reflexivity].
  exfalso. apply (proj1 (step_creates_b _ _ _ _ I Hok Hm Hc)), Hu.
Qed.

Theorem b_creations_once id ops : forall w, Inv (market w) -> (b_creations id w ops <= 1)%nat.
Proof.
  induction ops as [|o r IH]; simpl; intros w I; [lia|].
  destruct (ok (snd (step w o))) eqn:Hok; simpl; [|apply IH, step_Inv, I].
  destruct (op_msg o) as [m|] eqn:Hm; [|apply IH, step_Inv, I].
  destruct (creates_b_b m id) eqn:Hc; [|apply IH, step_Inv, I].
  rewrite b_creations_used; [lia | apply step_Inv, I | apply (proj2 (step_creates_b _ _ _ _ I Hok Hm Hc))].
Qed.
