(** Facts about the list utilities of model/Base.v and model/Balance.v. *)
From FM Require Export Tac.

Lemma memN_In x l : memN x l = true <-> In x l.
Proof.
  induction l as [|y r IH]; simpl; [split; [discriminate | tauto]|].
  rewrite orb_true_iff, IH, N.eqb_eq. tauto.
Qed.

Lemma memN_false x l : memN x l = false <-> ~ In x l.
Proof. rewrite <- memN_In. destruct (memN x l); split; congruence. Qed.

Lemma nodupN_NoDup l : nodupN l = true <-> NoDup l.
Proof.
  induction l as [|x r IH]; simpl; [split; [constructor | reflexivity]|].
  rewrite andb_true_iff, negb_true_iff, memN_false, IH.
  split; [intros [H1 H2]; constructor; assumption | intros H; inv H; tauto].
Qed.

Lemma pair_eqb_eq a b : pair_eqb a b = true <-> a = b.
Proof.
  unfold pair_eqb. destruct a, b; simpl. rewrite andb_true_iff, !N.eqb_eq.
  split; [intros [-> ->]; reflexivity | intros H; inv H; tauto].
Qed.

Lemma memP_In x l : memP x l = true <-> In x l.
Proof.
  induction l as [|y r IH]; simpl; [split; [discriminate | tauto]|].
  rewrite orb_true_iff, IH, pair_eqb_eq. tauto.
Qed.

Lemma memP_false x l : memP x l = false <-> ~ In x l.
Proof. rewrite <- memP_In. destruct (memP x l); split; congruence. Qed.

Lemma nodupP_NoDup l : nodupP l = true <-> NoDup l.
Proof.
  induction l as [|x r IH]; simpl; [split; [constructor | reflexivity]|].
  rewrite andb_true_iff, negb_true_iff, memP_false, IH.
  split; [intros [H1 H2]; constructor; assumption | intros H; inv H; tauto].
Qed.

(** [amount_of] *)
Lemma amount_of_app k l1 l2 : amount_of k (l1 ++ l2) = amount_of k l1 + amount_of k l2.
Proof. induction l1 as [|[k' a] r IH]; simpl; [lia | rewrite IH; lia]. Qed.

Lemma amount_of_notin k l : ~ In k (map fst l) -> amount_of k l = 0.
Proof.
  induction l as [|[k' a] r IH]; simpl; intros H; [reflexivity|].
  dN k' k; [tauto | rewrite IH; [lia | tauto]].
Qed.

Lemma amount_of_filter_ne k d l :
  d <> k -> amount_of d (filter (fun c => negb (fst c =? k)) l) = amount_of d l.
Proof.
  intros Hd. induction l as [|[k' a] r IH]; simpl; [reflexivity|].
  dN k' k; simpl.
  - subst. dN k d; [congruence | lia].
  - rewrite IH. reflexivity.
Qed.

Lemma amount_of_filter_eq k l : amount_of k (filter (fun c => negb (fst c =? k)) l) = 0.
Proof.
  induction l as [|[k' a] r IH]; simpl; [reflexivity|].
  dN k' k; simpl; [assumption | dN k' k; [congruence | lia]].
Qed.

Lemma map_fst_filter_incl (f : N * N -> bool) l : incl (map fst (filter f l)) (map fst l).
Proof.
  induction l as [|x r IH]; simpl; [apply incl_refl|].
  destruct (f x); simpl; [apply incl_cons; [left; reflexivity | apply incl_tl, IH] | apply incl_tl, IH].
Qed.

Lemma NoDup_map_filter (f : N * N -> bool) l : NoDup (map fst l) -> NoDup (map fst (filter f l)).
Proof.
  induction l as [|x r IH]; simpl; intros H; [constructor|]. inv H.
  destruct (f x); simpl; [constructor; [intros Hin; apply H2, (map_fst_filter_incl f r), Hin | apply IH, H3] | apply IH, H3].
Qed.

Lemma sumN_app a b : sumN (a ++ b) = sumN a + sumN b.
Proof. induction a as [|x r IH]; simpl; [lia | rewrite IH; lia]. Qed.

Lemma NoDup_app_single {A} (l : list A) x : NoDup l -> ~ In x l -> NoDup (l ++ [x]).
Proof.
  induction l as [|y r IH]; simpl; intros Hnd Hx; [constructor; [tauto | constructor]|].
  inv Hnd. constructor.
  - rewrite in_app_iff. simpl. intros [H | [H | []]]; [tauto | subst; tauto].
  - apply IH; tauto.
Qed.

(** Removing the unique entry with key [k] from a duplicate-free vector shortens it by one. *)
Lemma length_filter_remove1 (k a : N) (l : list (N * N)) :
  NoDup (map fst l) -> In (k, a) l ->
  S (length (filter (fun c : N * N => negb (fst c =? k)) l)) = length l.
Proof.
  induction l as [|[k' a'] r IH]; simpl; intros Hnd Hin; [tauto|]. inv Hnd.
  destruct Hin as [Heq | Hin].
  - inv Heq. rewrite N.eqb_refl. simpl.
    assert (Hall : filter (fun c => negb (fst c =? k)) r = r).
    { clear IH H2. induction r as [|[k2 a2] r IH]; simpl; [reflexivity|].
      simpl in H1. dN k2 k; [tauto|]. simpl. f_equal. apply IH. tauto. }
    rewrite Hall. reflexivity.
  - dN k' k.
    + subst. exfalso. apply H1. apply in_map_iff. exists (k, a). split; [reflexivity | assumption].
    + simpl. rewrite <- (IH H2 Hin). reflexivity.
Qed.
