(** * Listed: what the market and whitelist queries list is purchasable at that very instant
    (C16's "a listed item is never already unpurchasable", tied to C02's acceptance rule). *)
From FM Require Export QueryFacts.

(** A listing returned by the market query (any page) at the world's block time meets the
    listing-side terms of a purchase — finalized, unsold, not expired — so a buyer allowed by the
    reservation who holds a bucket with exactly the asked assets, royalties within the cap, meets
    all terms ... *)
Theorem listed_meets_terms w p ls l a b_id b :
  Inv (market w) ->
  get_listings_for_market (market w) (wnow w) p = Ok ls -> In l ls ->
  find_key (a, b_id) (buckets (market w)) = Some b ->
  (wl l = None \/ wl l = Some a) -> same_assets (funds b) (ask l) ->
  due w (colls_of (for_sale l)) <= 5000 -> due w (colls_of (funds b)) <= 5000 ->
  terms_met w a (lid l) b_id.
Proof.
  intros I E Hin Hb Hwl Hsame Hd1 Hd2.
  unfold get_listings_for_market in E. step E; [|discriminate]. inv E.
  apply filter_In in Hin. destruct Hin as [Hin Ho]. apply in_map_iff in Hin. destruct Hin as ([k l'] & <- & Hin). simpl in *.
  unfold page_of in Hin. apply In_firstn, In_skipn in Hin. unfold market_window in Hin.
  apply (Permutation_in _ (isort_perm _ _)) in Hin. apply filter_In in Hin. destruct Hin as [Hin _].
  apply (open_offer_b_iff _ _ _ _ I Hin) in Ho. destruct Ho as (Hs & _ & x & Hx & Hle).
  exists k, l', b. splits; try assumption.
  - apply In_find_by_id; [apply (inv_lids _ I) | exact Hin | reflexivity].
  - intros y Hy. rewrite Hx in Hy. inv Hy. exact Hle.
Qed.

(** ... and the marketplace accepts the purchase in that same state. *)
Theorem listed_is_accepted w p ls l a b_id b :
  Inv (market w) -> reg_link w ->
  get_listings_for_market (market w) (wnow w) p = Ok ls -> In l ls ->
  find_key (a, b_id) (buckets (market w)) = Some b -> lid l < U64 -> b_id < U64 ->
  (wl l = None \/ wl l = Some a) -> same_assets (funds b) (ask l) ->
  due w (colls_of (for_sale l)) <= 5000 -> due w (colls_of (funds b)) <= 5000 ->
  is_ok (execute (oracle_of w) (env_of w) a [] (BuyListing (lid l) b_id) (market w)) = true.
Proof.
  intros I L E Hin Hb Hl Hbid Hwl Hsame Hd1 Hd2.
  apply (buy_accepted_iff w a [] (lid l) b_id I L). splits; try assumption; try reflexivity.
  eapply listed_meets_terms; eassumption.
Qed.

(** The same for the whitelist query: what it lists for buyer [a] is reserved for [a] and open. *)
Theorem whitelisted_is_accepted w ls l a b_id b :
  Inv (market w) -> reg_link w -> valid_addr a = true ->
  get_whitelisted (market w) (wnow w) a = Ok ls -> In l ls ->
  find_key (a, b_id) (buckets (market w)) = Some b -> lid l < U64 -> b_id < U64 ->
  same_assets (funds b) (ask l) ->
  due w (colls_of (for_sale l)) <= 5000 -> due w (colls_of (funds b)) <= 5000 ->
  is_ok (execute (oracle_of w) (env_of w) a [] (BuyListing (lid l) b_id) (market w)) = true.
Proof.
  intros I L Hv E Hin Hb Hl Hbid Hsame Hd1 Hd2.
  destruct (proj1 (whitelisted_precise (market w) (wnow w) a l I Hv)) as ((k & Hk) & Hw & (Hs & _ & x & Hx & Hle)).
  { exists ls. split; assumption. }
  apply (buy_accepted_iff w a [] (lid l) b_id I L). splits; try assumption; try reflexivity.
  exists k, l, b. splits; try assumption.
  - apply In_find_by_id; [apply (inv_lids _ I) | exact Hk | reflexivity].
  - right. exact Hw.
  - intros y Hy. rewrite Hx in Hy. inv Hy. exact Hle.
Qed.
