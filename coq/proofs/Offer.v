(** * Offer: finalisation, immutability of a finalized offer (C08); atomic swap, at most one
    sale, at most one claim (C03). *)
From FM Require Export Forward.

(** ** Finalize *)
Lemma listing_editable s k l :
  Inv s -> find_key k (listings s) = Some l -> lstatus l = BeingPrepared ->
  editable (fst k) l = true /\ fin l = None.
Proof.
  intros I Hf Hst. destruct (Inv_find_listing _ _ _ I Hf) as [W _].
  pose proof (wl_life _ _ W) as L. unfold life_ok in L. rewrite Hst in L. destruct L as (L1 & L2 & L3 & L4).
  pose proof (wl_key _ _ W) as K. subst k. simpl. unfold editable. rewrite N.eqb_refl, Hst, L3. split; [reflexivity | exact L1].
Qed.

Lemma save_same_key_ok s k l l' :
  Inv s -> find_key k (listings s) = Some l -> lid l' = lid l -> save_listing k l' (listings s) = Ok (put k l' (listings s)).
Proof.
  intros I Hf Hid. destruct (Inv_find_listing _ _ _ I Hf) as [W Hin].
  apply save_listing_complete. intros k' v' Hin' Hne Heq. rewrite Hid in Heq.
  destruct (lids_unique s _ _ _ _ I Hin Hin' Heq). congruence.
Qed.

(** The owner of a listing in preparation can finalize it for exactly the lifetimes 600 ..
    1209600 seconds. *)
Theorem finalize_iff e a id secs s l :
  Inv s -> find_key (a, id) (listings s) = Some l ->
  (is_ok (execute_finalize e a id secs s) = true <->
   lstatus l = BeingPrepared /\ MIN_LIFE <= secs /\ secs <= MAX_LIFE).
Proof.
  intros I Hf. split.
  - intros H. destruct (execute_finalize e a id secs s) as [[s' out]|] eqn:E; [|discriminate].
    apply finalize_inv in E. destruct E as (l0 & Hf0 & He & _ & H1 & H2 & _). rewrite Hf in Hf0. inv Hf0.
    apply editable_inv in He. tauto.
  - intros (Hst & H1 & H2). destruct (listing_editable _ _ _ I Hf Hst) as [He Hfin]. simpl in He.
    unfold execute_finalize. rewrite Hf, He, Hfin. cbn [is_some negb andb].
    apply N.leb_le in H1, H2. rewrite H1, H2. cbn [negb andb].
    rewrite (save_same_key_ok s (a, id) l) by (try assumption; reflexivity). reflexivity.
Qed.

Theorem finalize_effect e a id secs s s' out :
  execute_finalize e a id secs s = Ok (s', out) ->
  exists l, find_key (a, id) (listings s) = Some l /\ lstatus l = BeingPrepared /\
    find_key (a, id) (listings s') =
      Some (mkL (creator l) (lid l) (Some (now e)) (Some (now e + secs * NANOS)) FinalizedReady
                (claimant l) (wl l) (for_sale l) (ask l) (lfee l)) /\
    (forall k, k <> (a, id) -> find_key k (listings s') = find_key k (listings s)) /\
    buckets s' = buckets s /\ out = [].
Proof.
  intros H. apply finalize_inv in H. destruct H as (l & Hf & He & _ & _ & _ & -> & ->).
  apply editable_inv in He. exists l. sstate. splits; try tauto.
  - apply find_key_put_same.
  - intros k Hk. apply find_key_put_other, Hk.
Qed.

(** ** A finalized listing is immutable until bought or, once expired, deleted by its seller *)
Theorem finalized_frame o e sender fs m s s' out k l :
  Inv s -> execute o e sender fs m s = Ok (s', out) -> find_key k (listings s) = Some l ->
  lstatus l = FinalizedReady ->
  find_key k (listings s') = Some l \/
  (exists bid, m = BuyListing (snd k) bid /\ bought e sender s' k l) \/
  (m = DeleteListing (snd k) /\ sender = fst k /\ (forall x, exp l = Some x -> x <= now e) /\
   find_key k (listings s') = None).
Proof.
  intros I H Hf Hst. destruct (execute_lchange _ _ _ _ _ _ _ _ _ _ I H Hf)
    as [Hsame | l' _ Hbp _ _ _ _ _ _ | Hm Hsd _ Hexp Hnone | Hm Hsd Hcl _ | bid l' Hm Hst' Hcl Hexp Hf' Hst2 Hcl' Hcr' Hask Hwl Hfin Hexp' Hlid Hgone].
  - left. exact Hsame.
  - congruence.
  - right. right. tauto.
  - congruence.
  - right. left. exists bid. split; [exact Hm|]. unfold bought. splits; try assumption.
    exists l'. splits; assumption.
Qed.

(** A sold listing can only be withdrawn by its claimant. *)
Theorem closed_frame o e sender fs m s s' out k l :
  Inv s -> execute o e sender fs m s = Ok (s', out) -> find_key k (listings s) = Some l ->
  lstatus l = Closed ->
  find_key k (listings s') = Some l \/
  (m = WithdrawPurchased (snd k) /\ sender = fst k /\ find_key k (listings s') = None).
Proof.
  intros I H Hf Hst. destruct (Inv_find_listing _ _ _ I Hf) as [W _].
  pose proof (wl_life _ _ W) as L. unfold life_ok in L. rewrite Hst in L. destruct L as (L1 & _).
  destruct (execute_lchange _ _ _ _ _ _ _ _ _ _ I H Hf)
    as [Hsame | l' _ Hbp _ _ _ _ _ _ | Hm Hsd Hcl Hexp Hnone | Hm Hsd Hcl Hnone | bid l' Hm Hst' _ _ _ _ _ _ _ _ _ _ _ _].
  - left. exact Hsame.
  - congruence.
  - congruence.
  - right. tauto.
  - congruence.
Qed.

(** World-level wrapper: any operation whatsoever (forged hook calls included). *)
Theorem step_finalized_frame w o k l :
  Inv (market w) -> find_key k (listings (market w)) = Some l -> lstatus l = FinalizedReady ->
  let s' := market (fst (step w o)) in
  find_key k (listings s') = Some l \/
  (exists buyer bid fail, o = Exec buyer [] (BuyListing (snd k) bid) fail /\ bought (env_of w) buyer s' k l) \/
  (exists fail, o = Exec (fst k) [] (DeleteListing (snd k)) fail /\
     (forall x, exp l = Some x -> x <= wnow w) /\ find_key k (listings s') = None).
Proof.
  intros I Hf Hst s'. unfold s'. rewrite step_fst.
  destruct (try_step w o) as [[w' out]|] eqn:H; [|left; exact Hf].
  destruct (op_msg o) as [m|] eqn:Hm; [|left; apply try_step_nomsg in H; [rewrite H; exact Hf | exact Hm]].
  destruct (try_step_exec _ _ _ _ _ H Hm) as (w0 & E1 & E2 & E3 & _ & _ & _ & _ & He).
  destruct (finalized_frame _ _ _ _ _ _ _ _ _ _ I He Hf Hst) as [Hsame | [(bid & Hb & Hbt) | (Hd & Hsd & Hexp & Hnone)]].
  - left. exact Hsame.
  - right. left. subst m. destruct o; simpl in Hm; try discriminate. inv Hm. simpl in *.
    apply execute_buy_inv in He. destruct He as [_ ->]. exists sender, bid, fail. split; [reflexivity|].
    unfold bought in *. unfold env_of in *. simpl in *. rewrite E2 in Hbt. exact Hbt.
  - right. right. subst m. destruct o; simpl in Hm; try discriminate. inv Hm. simpl in *.
    assert (funds_ = []).
    { unfold execute in He. step He; [discriminate|]. step He; [|discriminate].
      apply andb_true_iff in Hc0. destruct Hc0 as [_ Hn]. destruct funds_; [reflexivity | discriminate]. }
    subst funds_. exists fail. split; [rewrite Hsd; reflexivity|]. split; [|exact Hnone].
    unfold env_of in Hexp. simpl in Hexp. rewrite E2 in Hexp. exact Hexp.
Qed.

(** ** C03: the swap *)
Theorem buy_swaps o e sender fs l_id b_id s s' out :
  Inv s -> execute o e sender fs (BuyListing l_id b_id) s = Ok (s', out) ->
  exists kl l b l' b',
    find_by_id l_id (listings s) = Some (kl, l) /\ kl = (creator l, l_id) /\
    find_key (sender, b_id) (buckets s) = Some b /\
    (* the buyer is now the only claimant of the listing's goods ... *)
    find_key (sender, l_id) (listings s') = Some l' /\
    creator l' = sender /\ claimant l' = Some sender /\ lstatus l' = Closed /\ lid l' = l_id /\
    (creator l <> sender -> find_key kl (listings s') = None) /\
    (* ... and the seller the owner of the bucket, in the same transition *)
    find_key (creator l, b_id) (buckets s') = Some b' /\ owner b' = creator l /\
    (creator l <> sender -> find_key (sender, b_id) (buckets s') = None) /\
    (* nothing else moves *)
    (forall k, k <> kl -> k <> (sender, l_id) -> find_key k (listings s') = find_key k (listings s)) /\
    (forall k, k <> (sender, b_id) -> k <> (creator l, b_id) -> find_key k (buckets s') = find_key k (buckets s)).
Proof.
  intros I H. apply execute_buy_inv in H. destruct H as [H _]. apply buy_inv in H.
  destruct H as (bk & kl & l & l_fee & l_bal & b_fee & b_bal & reg & m1 & final_b & m2 & final_l &
                 Hfb & Hfl & Hown & Hcmp & Hst & Hwl & Hcl & Hexp & Hlf & Hbf & Hreg & Hr1 & Hr2 & Hfresh & -> & _).
  destruct (Inv_find_by_id _ _ _ _ I Hfl) as (W & Hin & Hid & Hk & Hfk).
  exists kl, l, bk, (mkL sender (lid l) (fin l) (exp l) Closed (Some sender) (wl l) final_l (ask l) l_fee),
         (mkB (creator l) final_b b_fee). sstate. splits; try assumption; try reflexivity.
  - apply find_key_put_same.
  - intros Hne. rewrite find_key_put_other by (rewrite Hk; intros E; inv E; congruence).
    rewrite Hk. apply find_key_remove_same.
  - apply find_key_put_same.
  - intros Hne. rewrite find_key_put_other by (intros E; inv E; congruence). apply find_key_remove_same.
  - intros k Hk1 Hk2. rewrite find_key_put_other by assumption. apply find_key_remove_other. rewrite <- Hk. assumption.
  - intros k Hk1 Hk2. rewrite find_key_put_other by assumption. apply find_key_remove_other. assumption.
Qed.

(** ** Counting successful purchases / claims of one id over a history *)
Definition buys_b (m : exec_msg) (id : N) : bool := match m with BuyListing l _ => l =? id | _ => false end.
Definition exits_l_b (m : exec_msg) (id : N) : bool :=
  match m with WithdrawPurchased l | DeleteListing l => l =? id | _ => false end.
Definition removes_b_b (m : exec_msg) (id : N) : bool := match m with RemoveBucket b => b =? id | _ => false end.

Fixpoint count_ok (p : exec_msg -> bool) (w : world) (ops : list op) : nat :=
  match ops with
  | [] => 0
  | o :: r =>
      (if ok (snd (step w o)) && match op_msg o with Some m => p m | None => false end then 1 else 0)
      + count_ok p (fst (step w o)) r
  end.

(** A successful purchase takes the listing from rank 2 to rank 3; a successful withdrawal or
    deletion takes it to rank 4. *)
Lemma buy_rank o e sender fs l_id b_id s s' out :
  Inv s -> execute o e sender fs (BuyListing l_id b_id) s = Ok (s', out) ->
  lrank s l_id = 2%nat /\ lrank s' l_id = 3%nat.
Proof.
  intros I H. pose proof (execute_pres _ _ _ _ _ _ _ _ I H) as I'.
  destruct (buy_swaps _ _ _ _ _ _ _ _ _ I H) as (kl & l & b & l' & b' & Hfl & _ & _ & Hf' & _ & _ & Hst' & Hid' & _).
  pose proof H as H2. apply execute_buy_inv in H2. destruct H2 as [H2 _]. apply buy_inv in H2.
  destruct H2 as (bk & kl2 & l2 & _ & _ & _ & _ & _ & _ & _ & _ & _ & _ & Hfl2 & _ & _ & Hst & _).
  assert (E : (kl2, l2) = (kl, l)) by congruence. inversion E. subst kl2 l2. clear E Hfl2.
  apply find_by_id_In in Hfl. destruct Hfl as [Hin Hid].
  split.
  - rewrite (lrank_present s _ _ _ I Hin Hid). rewrite Hst. reflexivity.
  - rewrite (lrank_present s' _ _ l' I' (find_key_In _ _ _ Hf') Hid'). rewrite Hst'. reflexivity.
Qed.

Lemma exit_rank o e sender fs m s s' out id :
  Inv s -> execute o e sender fs m s = Ok (s', out) -> exits_l_b m id = true ->
  (1 <= lrank s id <= 3)%nat /\ lrank s' id = 4%nat.
Proof.
  intros I H Hx. pose proof (execute_pres _ _ _ _ _ _ _ _ I H) as I'.
  destruct (execute_used_mono _ _ _ _ _ _ _ _ H) as [Hu _].
  assert (Hgen : forall k l, In (k, l) (listings s) -> lid l = id -> listings s' = remove_key k (listings s) ->
                 (1 <= lrank s id <= 3)%nat /\ lrank s' id = 4%nat).
  { intros k l Hin Hid Hs. split.
    - rewrite (lrank_present s _ _ _ I Hin Hid). destruct (lstatus l); simpl; lia.
    - rewrite lrank_absent.
      + assert (Hm : memN id (l_used s') = true) by (apply memN_In, Hu; rewrite <- Hid; apply (inv_lused s I _ _ Hin)).
        rewrite Hm. reflexivity.
      + apply find_by_id_None. intros k2 l2 Hin2 Hid2. rewrite Hs in Hin2. apply In_remove_key in Hin2.
        destruct Hin2 as [Hin2 Hne]. destruct (lids_unique s _ _ _ _ I Hin Hin2); congruence. }
  unfold execute in H. step H; [discriminate|].
  destruct m; simpl in Hx; try discriminate; apply N.eqb_eq in Hx; subst id0; (step H; [|discriminate]).
  - apply delete_listing_inv in H. destruct H as (l & Hf & _ & _ & _ & -> & _).
    destruct (Inv_find_listing _ _ _ I Hf) as [W Hin]. pose proof (wl_key _ _ W) as K. inv K.
    eapply Hgen; [exact Hin | reflexivity | reflexivity].
  - apply withdraw_purchased_inv in H. destruct H as (k & l & Hf & Hcl & Hst & -> & _).
    destruct (Inv_find_by_id _ _ _ _ I Hf) as (W & Hin & Hid & Hk & _).
    pose proof (wl_life _ _ W) as L. unfold life_ok in L. rewrite Hst in L. destruct L as (L1 & _).
    assert (Hcs : creator l = sender) by congruence. rewrite Hk, Hcs in Hin.
    eapply Hgen; [exact Hin | exact Hid | reflexivity].
Qed.

Lemma count_zero_above p n id ops : forall w,
  Inv (market w) ->
  (forall o e sender fs m s s' out, Inv s -> execute o e sender fs m s = Ok (s', out) -> p m = true -> (lrank s id < n)%nat) ->
  (n <= lrank (market w) id)%nat -> count_ok p w ops = 0%nat.
Proof.
  induction ops as [|o r IH]; simpl; intros w I Hp Hr; [reflexivity|].
  rewrite IH; [|apply step_Inv, I | exact Hp | pose proof (step_rank_mono w o id I); lia].
  destruct (ok (snd (step w o))) eqn:Hok; simpl; [|reflexivity].
  destruct (op_msg o) as [m|] eqn:Hm; [|reflexivity]. destruct (p m) eqn:Hpm; [|reflexivity]. exfalso.
  apply step_ok_try in Hok. destruct Hok as [out H].
  destruct (try_step_exec _ _ _ _ _ H Hm) as (w0 & _ & _ & _ & _ & _ & _ & _ & He).
  pose proof (Hp _ _ _ _ _ _ _ _ I He Hpm). lia.
Qed.

(** A listing is sold at most once, whatever the order of competing purchases, deletions and
    withdrawals. *)
Theorem sold_at_most_once id ops : forall w, Inv (market w) -> (count_ok (fun m => buys_b m id) w ops <= 1)%nat.
Proof.
  assert (Hp : forall o e sender fs m s s' out, Inv s -> execute o e sender fs m s = Ok (s', out) ->
                 buys_b m id = true -> (lrank s id < 3)%nat).
  { intros o e sender fs m s s' out I H Hb. destruct m; simpl in Hb; try discriminate. apply N.eqb_eq in Hb. subst l.
    destruct (buy_rank _ _ _ _ _ _ _ _ _ I H). lia. }
  induction ops as [|o r IH]; simpl; intros w I; [lia|].
  destruct (ok (snd (step w o))) eqn:Hok; simpl; [|apply IH, step_Inv, I].
  destruct (op_msg o) as [m|] eqn:Hm; [|apply IH, step_Inv, I].
  destruct (buys_b m id) eqn:Hb; [|apply IH, step_Inv, I].
  rewrite (count_zero_above _ 3 id r); [lia | apply step_Inv, I | exact Hp |].
  apply step_ok_try in Hok. destruct Hok as [out H].
  destruct (try_step_exec _ _ _ _ _ H Hm) as (w0 & _ & _ & _ & _ & _ & _ & _ & He).
  destruct m; simpl in Hb; try discriminate. apply N.eqb_eq in Hb. subst l.
  destruct (buy_rank _ _ _ _ _ _ _ _ _ I He) as [_ E]. rewrite E. lia.
Qed.

(** A listing's goods are paid out at most once: by a deletion (never sold) or by the buyer's
    withdrawal, never both, never twice. *)
Theorem listing_claimed_at_most_once id ops : forall w, Inv (market w) -> (count_ok (fun m => exits_l_b m id) w ops <= 1)%nat.
Proof.
  assert (Hp : forall o e sender fs m s s' out, Inv s -> execute o e sender fs m s = Ok (s', out) ->
                 exits_l_b m id = true -> (lrank s id < 4)%nat).
  { intros o e sender fs m s s' out I H Hb. destruct (exit_rank _ _ _ _ _ _ _ _ _ I H Hb). lia. }
  induction ops as [|o r IH]; simpl; intros w I; [lia|].
  destruct (ok (snd (step w o))) eqn:Hok; simpl; [|apply IH, step_Inv, I].
  destruct (op_msg o) as [m|] eqn:Hm; [|apply IH, step_Inv, I].
  destruct (exits_l_b m id) eqn:Hb; [|apply IH, step_Inv, I].
  rewrite (count_zero_above _ 4 id r); [lia | apply step_Inv, I | exact Hp |].
  apply step_ok_try in Hok. destruct Hok as [out H].
  destruct (try_step_exec _ _ _ _ _ H Hm) as (w0 & _ & _ & _ & _ & _ & _ & _ & He).
  destruct (exit_rank _ _ _ _ _ _ _ _ _ I He Hb) as [_ E]. rewrite E. lia.
Qed.

(** ** Buckets: present 1, gone 2 — a removed bucket never comes back *)
Definition find_bucket_id (id : N) (l : list (key * bucket)) : option (key * bucket) :=
  find (fun e => snd (fst e) =? id) l.

Definition brank (s : mstate) (id : N) : nat :=
  match find_bucket_id id (buckets s) with
  | Some _ => 1
  | None => if memN id (b_used s) then 2 else 0
  end.

Lemma find_bucket_id_some id l : (exists k b, In (k, b) l /\ snd k = id) -> find_bucket_id id l <> None.
Proof.
  intros (k & b & Hin & Hid) E. unfold find_bucket_id in E.
  apply (find_none _ _ E) in Hin. simpl in Hin. apply N.eqb_neq in Hin. congruence.
Qed.

Lemma find_bucket_id_none id l : (forall k b, In (k, b) l -> snd k <> id) -> find_bucket_id id l = None.
Proof.
  intros H. unfold find_bucket_id. destruct (find _ l) as [[k b]|] eqn:E; [|reflexivity].
  apply find_some in E. destruct E as [Hin Hid]. simpl in Hid. apply N.eqb_eq in Hid. exfalso. eapply H; eassumption.
Qed.

Theorem execute_brank_mono o e sender fs m s s' out id :
  Inv s -> execute o e sender fs m s = Ok (s', out) -> (brank s id <= brank s' id)%nat.
Proof.
  intros I H. pose proof (execute_pres _ _ _ _ _ _ _ _ I H) as I'.
  destruct (execute_used_mono _ _ _ _ _ _ _ _ H) as [_ Hu]. unfold brank.
  destruct (find_bucket_id id (buckets s')) as [[k' b']|] eqn:E'.
  - apply find_some in E'. destruct E' as [Hin' Hid']. simpl in Hid'. apply N.eqb_eq in Hid'.
    destruct (execute_bsource _ _ _ _ _ _ _ _ _ _ I H Hin') as [(k & b & Hin & Hid) | [Hn _]].
    + destruct (find_bucket_id id (buckets s)) eqn:E; [lia|]. exfalso.
      eapply find_bucket_id_some; [|exact E]. exists k, b. split; [exact Hin | congruence].
    + rewrite Hid' in Hn. rewrite find_bucket_id_none.
      * apply memN_false in Hn. rewrite Hn. lia.
      * intros k b Hin Hid. apply Hn. rewrite <- Hid. apply (inv_bused s I _ _ Hin).
  - destruct (find_bucket_id id (buckets s)) as [[k b]|] eqn:E.
    + apply find_some in E. destruct E as [Hin Hid]. simpl in Hid. apply N.eqb_eq in Hid.
      assert (Hm : memN id (b_used s') = true) by (apply memN_In, Hu; rewrite <- Hid; apply (inv_bused s I _ _ Hin)).
      rewrite Hm. lia.
    + destruct (memN id (b_used s)) eqn:Em; [|lia]. apply memN_In in Em. apply Hu in Em. apply memN_In in Em. rewrite Em. lia.
Qed.

Lemma remove_brank o e sender fs s s' out id :
  Inv s -> execute o e sender fs (RemoveBucket id) s = Ok (s', out) -> brank s id = 1%nat /\ brank s' id = 2%nat.
Proof.
  intros I H. destruct (execute_used_mono _ _ _ _ _ _ _ _ H) as [_ Hu].
  unfold execute in H. step H; [discriminate|]. step H; [|discriminate].
  apply withdraw_bucket_inv in H. destruct H as (bk & Hf & _ & -> & _).
  destruct (Inv_find_bucket _ _ _ I Hf) as [W Hin]. unfold brank. split.
  - destruct (find_bucket_id id (buckets s)) eqn:E; [reflexivity|]. exfalso.
    eapply find_bucket_id_some; [|exact E]. exists (sender, id), bk. split; [exact Hin | reflexivity].
  - sstate. rewrite find_bucket_id_none.
    + assert (Hm : memN id (b_used s) = true) by (apply memN_In; apply (inv_bused s I _ _ Hin)). simpl in Hu. rewrite Hm. reflexivity.
    + intros k b Hin2 Hid. apply In_remove_key in Hin2. destruct Hin2 as [Hin2 Hne].
      destruct (bids_unique s _ _ _ _ I Hin Hin2); [simpl; congruence|]. congruence.
Qed.

Theorem bucket_removed_at_most_once id ops : forall w, Inv (market w) -> (count_ok (fun m => removes_b_b m id) w ops <= 1)%nat.
Proof.
  assert (Hmono : forall w o, Inv (market w) -> (brank (market w) id <= brank (market (fst (step w o))) id)%nat).
  { intros w o I. rewrite step_fst. destruct (try_step w o) as [[w' out]|] eqn:H; [|lia].
    destruct (op_msg o) as [m|] eqn:Hm.
    - destruct (try_step_exec _ _ _ _ _ H Hm) as (w0 & _ & _ & _ & _ & _ & _ & _ & He). eapply execute_brank_mono; eassumption.
    - apply try_step_nomsg in H; [|assumption]. rewrite H. lia. }
  assert (Hzero : forall ops w, Inv (market w) -> (2 <= brank (market w) id)%nat -> count_ok (fun m => removes_b_b m id) w ops = 0%nat).
  { induction ops0 as [|o r IH]; simpl; intros w I Hr; [reflexivity|].
    rewrite IH; [|apply step_Inv, I | pose proof (Hmono w o I); lia].
    destruct (ok (snd (step w o))) eqn:Hok; simpl; [|reflexivity].
    destruct (op_msg o) as [m|] eqn:Hm; [|reflexivity]. destruct (removes_b_b m id) eqn:Hb; [|reflexivity]. exfalso.
    apply step_ok_try in Hok. destruct Hok as [out H].
    destruct (try_step_exec _ _ _ _ _ H Hm) as (w0 & _ & _ & _ & _ & _ & _ & _ & He).
    destruct m; simpl in Hb; try discriminate. apply N.eqb_eq in Hb. subst id0.
    destruct (remove_brank _ _ _ _ _ _ _ _ I He). lia. }
  induction ops as [|o r IH]; simpl; intros w I; [lia|].
  destruct (ok (snd (step w o))) eqn:Hok; simpl; [|apply IH, step_Inv, I].
  destruct (op_msg o) as [m|] eqn:Hm; [|apply IH, step_Inv, I].
  destruct (removes_b_b m id) eqn:Hb; [|apply IH, step_Inv, I].
  rewrite Hzero; [lia | apply step_Inv, I |].
  apply step_ok_try in Hok. destruct Hok as [out H].
  destruct (try_step_exec _ _ _ _ _ H Hm) as (w0 & _ & _ & _ & _ & _ & _ & _ & He).
  destruct m; simpl in Hb; try discriminate. apply N.eqb_eq in Hb. subst id0.
  destruct (remove_brank _ _ _ _ _ _ _ _ I He) as [_ E]. rewrite E. lia.
Qed.
