(** * Payable: well-formed records are payable; top-up cap; acceptance of asks (C12). *)
From FM Require Export FeeCycle.

(** What the bank, a CW20 contract or the distribution module demand of a message. *)
Definition msg_payable (m : out_msg) : Prop :=
  match m with
  | BankSend _ cs => strict_coins cs = true
  | Cw20Transfer _ _ a => 0 < a /\ a < U128
  | NftTransfer _ _ _ => True
  | FundPool _ c => 0 < snd c /\ snd c < U128
  end.

Lemma pos_ok_forallb l : pos_ok l -> forallb (fun c : N * N => negb (snd c =? 0)) l = true.
Proof.
  unfold pos_ok. rewrite Forall_forall, forallb_forall. intros H x Hx. destruct (H x Hx).
  apply negb_true_iff, N.eqb_neq. lia.
Qed.

Lemma sent_nfts_app a b : sent_nfts (a ++ b) = sent_nfts a ++ sent_nfts b.
Proof. unfold sent_nfts. apply flat_map_app. Qed.

Lemma sent_nfts_send_tokens to g : sent_nfts (send_tokens_cosmos to g) = nfts g.
Proof.
  unfold send_tokens_cosmos. rewrite !sent_nfts_app.
  assert (E2 : forall l : list (N * N), sent_nfts (map (fun c => Cw20Transfer (fst c) to (snd c)) l) = [])
    by (induction l; simpl; auto).
  assert (E3 : forall l : list (N * N), sent_nfts (map (fun n => NftTransfer (fst n) to (snd n)) l) = l)
    by (induction l as [|[c k] r IH]; simpl; [reflexivity | f_equal; exact IH]).
  rewrite E2, E3. destruct (native g); reflexivity.
Qed.

Lemma send_tokens_payable to g :
  wf_gbal g -> Forall msg_payable (send_tokens_cosmos to g) /\ NoDup (sent_nfts (send_tokens_cosmos to g)).
Proof.
  intros [W1 W2 W3 W4 W5 W6]. split.
  - unfold send_tokens_cosmos. apply Forall_app. split; [|apply Forall_app; split].
    + pose proof (pos_ok_forallb _ W2) as F1. pose proof (proj2 (nodupN_NoDup _) W4) as F2.
      destruct (native g) as [|c r] eqn:E; [constructor|]. constructor; [|constructor]. cbn [msg_payable].
      unfold strict_coins. apply andb_true_iff. split; [apply andb_true_iff; split; [reflexivity | exact F1] | exact F2].
    + rewrite Forall_forall. intros m Hm. apply in_map_iff in Hm. destruct Hm as ([t a] & <- & Hin). simpl.
      unfold pos_ok in W3. rewrite Forall_forall in W3. apply (W3 _ Hin).
    + rewrite Forall_forall. intros m Hm. apply in_map_iff in Hm. destruct Hm as ([c k] & <- & Hin). exact I.
  - rewrite sent_nfts_send_tokens. exact W6.
Qed.

Lemma withdraw_msgs_payable me to g f :
  wf_gbal g -> fee_ok f -> Forall msg_payable (withdraw_msgs me to g f).
Proof.
  intros W F. unfold withdraw_msgs. apply Forall_app. split; [apply send_tokens_payable, W|].
  destruct f as [[d a]|]; simpl; [|constructor]. constructor; [|constructor]. simpl. apply (F d a eq_refl).
Qed.

(** Every message of a payout (bucket removal, listing deletion, purchased-listing
    withdrawal) is acceptable to its recipient module: the bank send is non-empty, zero-free
    and duplicate-free, every CW20 amount and the pool deposit are positive, no NFT is sent
    twice. *)
Definition is_payout_msg (m : exec_msg) : bool :=
  match m with RemoveBucket _ | DeleteListing _ | WithdrawPurchased _ => true | _ => false end.

Theorem payout_messages_payable o e sender fs m s s' out :
  Inv s -> execute o e sender fs m s = Ok (s', out) -> is_payout_msg m = true ->
  Forall msg_payable out /\ NoDup (sent_nfts out).
Proof.
  intros I H Hp. unfold execute in H. step H; [discriminate|]. destruct m; try discriminate; clear Hp.
  - step H; [|discriminate]. apply delete_listing_inv in H.
    destruct H as (l & Hf & _ & _ & _ & _ & ->). destruct (Inv_find_listing _ _ _ I Hf) as [W _].
    apply send_tokens_payable, (wl_goods _ _ W).
  - step H; [|discriminate]. apply withdraw_bucket_inv in H.
    destruct H as (bk & Hf & _ & _ & ->). destruct (Inv_find_bucket _ _ _ I Hf) as [W _].
    split; [apply withdraw_msgs_payable; [apply (wb_funds _ _ W) | apply (wb_fee _ _ W)]|].
    unfold withdraw_msgs. rewrite sent_nfts_app, sent_nfts_send_tokens.
    replace (sent_nfts (fee_msgs (self e) (bfee bk))) with (@nil (addr * tokid)) by (destruct (bfee bk); reflexivity).
    rewrite app_nil_r. apply (wg_nd_nfts _ (wb_funds _ _ W)).
  - step H; [|discriminate]. apply withdraw_purchased_inv in H.
    destruct H as (k & l & Hf & _ & _ & _ & ->). destruct (Inv_find_by_id _ _ _ _ I Hf) as (W & _).
    split; [apply withdraw_msgs_payable; [apply (wl_goods _ _ W) | apply (wl_fee _ _ W)]|].
    unfold withdraw_msgs. rewrite sent_nfts_app, sent_nfts_send_tokens.
    replace (sent_nfts (fee_msgs (self e) (lfee l))) with (@nil (addr * tokid)) by (destruct (lfee l); reflexivity).
    rewrite app_nil_r. apply (wg_nd_nfts _ (wl_goods _ _ W)).
Qed.

(** ** Top-ups never exceed 25 assets *)
Definition topup_l_b (m : exec_msg) (id : N) : bool :=
  match m with
  | AddToListing i => i =? id
  | Receive _ _ (Some (AddToListingCw20 i)) => i =? id
  | ReceiveNft _ _ (Some (AddToListingCw721 i)) => i =? id
  | _ => false
  end.

Definition topup_b_b (m : exec_msg) (id : N) : bool :=
  match m with
  | AddToBucket i => i =? id
  | Receive _ _ (Some (AddToBucketCw20 i)) => i =? id
  | ReceiveNft _ _ (Some (AddToBucketCw721 i)) => i =? id
  | _ => false
  end.

Lemma check_valid_size g : check_valid g = true -> gsize g <= MAX_NUM_ASSETS.
Proof.
  unfold check_valid. intros H.
  apply andb_true_iff in H as [H _]. apply andb_true_iff in H as [H _]. apply andb_true_iff in H as [H _].
  apply andb_true_iff in H as [_ H]. apply N.leb_le. exact H.
Qed.

Theorem topup_bucket_cap o e sender fs m s s' out id :
  execute o e sender fs m s = Ok (s', out) -> topup_b_b m id = true ->
  exists b b', find_key (actor_of sender m, id) (buckets s) = Some b /\
               find_key (actor_of sender m, id) (buckets s') = Some b' /\
               gsize (funds b') <= MAX_NUM_ASSETS /\ owner b' = owner b /\ bfee b' = bfee b.
Proof.
  intros H Hc. unfold execute in H. step H; [discriminate|]. clear Hc0.
  assert (Hgen : forall sd ok upd, add_to_bucket_g sd ok upd id s = Ok (s', out) ->
            exists b b', find_key (sd, id) (buckets s) = Some b /\ find_key (sd, id) (buckets s') = Some b' /\
                         gsize (funds b') <= MAX_NUM_ASSETS /\ owner b' = owner b /\ bfee b' = bfee b).
  { intros sd ok upd Hh. apply add_to_bucket_g_inv in Hh.
    destruct Hh as (bk & g & _ & Hf & _ & _ & _ & Hv & -> & _).
    eexists bk, _. split; [exact Hf|]. sstate. split; [apply find_key_put_same|]. simpl.
    split; [apply check_valid_size, Hv | split; reflexivity]. }
  destruct m; simpl in Hc; try discriminate.
  - destruct inner as [[| | | i]|]; try discriminate. apply N.eqb_eq in Hc. subst i.
    step H; [|discriminate]. unfold execute_receive in H. steps H. simpl. eapply Hgen. exact H.
  - destruct inner as [[| | | i]|]; try discriminate. apply N.eqb_eq in Hc. subst i.
    unfold execute_receive_nft in H. steps H. simpl. eapply Hgen. exact H.
  - apply N.eqb_eq in Hc. subst id0. step H; [|discriminate]. simpl. eapply Hgen. exact H.
Qed.

Theorem topup_listing_cap o e sender fs m s s' out id :
  execute o e sender fs m s = Ok (s', out) -> topup_l_b m id = true ->
  exists l l', find_key (actor_of sender m, id) (listings s) = Some l /\
               find_key (actor_of sender m, id) (listings s') = Some l' /\
               gsize (for_sale l') <= MAX_NUM_ASSETS /\ lstatus l = BeingPrepared /\
               l' = with_for_sale l (for_sale l').
Proof.
  intros H Hc. unfold execute in H. step H; [discriminate|]. clear Hc0.
  assert (Hgen : forall sd ok upd chk, (forall g, chk g = true -> gsize g <= MAX_NUM_ASSETS) ->
            add_to_listing_g sd ok upd chk id s = Ok (s', out) ->
            exists l l', find_key (sd, id) (listings s) = Some l /\ find_key (sd, id) (listings s') = Some l' /\
                         gsize (for_sale l') <= MAX_NUM_ASSETS /\ lstatus l = BeingPrepared /\
                         l' = with_for_sale l (for_sale l')).
  { intros sd ok upd chk Hchk Hh. apply add_to_listing_g_inv in Hh.
    destruct Hh as (l & g & _ & Hf & He & _ & _ & Hv & -> & _).
    apply editable_inv in He. destruct He as (_ & Hst & _).
    eexists l, _. split; [exact Hf|]. sstate. split; [apply find_key_put_same|]. simpl.
    split; [apply Hchk, Hv | split; [exact Hst | reflexivity]]. }
  destruct m; simpl in Hc; try discriminate.
  - destruct inner as [[| i | |]|]; try discriminate. apply N.eqb_eq in Hc. subst i.
    step H; [|discriminate]. unfold execute_receive in H. steps H. simpl.
    eapply Hgen; [|exact H]. intros g Hg. apply N.leb_le, Hg.
  - destruct inner as [[| i | |]|]; try discriminate. apply N.eqb_eq in Hc. subst i.
    unfold execute_receive_nft in H. steps H. simpl.
    eapply Hgen; [|exact H]. apply check_valid_size.
  - apply N.eqb_eq in Hc. subst id0. step H; [|discriminate]. simpl.
    eapply Hgen; [|exact H]. intros g Hg. apply N.leb_le, Hg.
Qed.

(** ** Asks: accepted exactly when well-formed *)
Definition ask_ok (a : gbal) : Prop :=
  wf_gbal a /\ gsize a <= MAX_NUM_ASSETS /\
  Forall (fun c => valid_addr (fst c) = true) (cw20 a) /\ Forall (fun c => valid_addr (fst c) = true) (nfts a).

Lemma forallb_true_iff {A} (f : A -> bool) l : forallb f l = true <-> Forall (fun x => f x = true) l.
Proof. rewrite forallb_forall, Forall_forall. tauto. Qed.

Theorem validate_ask_iff a : (exists va, validate_ask a = Ok va) <-> ask_ok a.
Proof.
  split.
  - intros [va H]. apply validate_ask_ok in H. unfold ask_ok. tauto.
  - intros ([W1 W2 W3 W4 W5 W6] & Hs & Hc & Hn). exists a. unfold validate_ask.
    assert (E1 : forallb (fun c : N * N => negb (snd c =? 0) && (snd c <? U128)) (native a) = true).
    { apply forallb_forall. intros x Hx. unfold pos_ok in W2. rewrite Forall_forall in W2. destruct (W2 x Hx).
      apply andb_true_iff. split; [apply negb_true_iff, N.eqb_neq; lia | apply N.ltb_lt; assumption]. }
    assert (E2 : forallb (fun c : N * N => valid_addr (fst c) && negb (snd c =? 0) && (snd c <? U128)) (cw20 a) = true).
    { apply forallb_forall. intros x Hx. unfold pos_ok in W3. rewrite Forall_forall in W3, Hc. destruct (W3 x Hx).
      apply andb_true_iff. split; [apply andb_true_iff; split; [exact (Hc x Hx) | apply negb_true_iff, N.eqb_neq; lia] | apply N.ltb_lt; assumption]. }
    assert (E3 : forallb (fun n : N * N => valid_addr (fst n)) (nfts a) = true).
    { apply forallb_forall. rewrite Forall_forall in Hn. exact Hn. }
    match goal with |- (if ?c then _ else _) = _ => assert (Hc' : c = true) end.
    { repeat (apply andb_true_iff; split); try assumption.
      - apply negb_true_iff, N.eqb_neq. exact W1.
      - apply N.leb_le. exact Hs.
      - apply nodupN_NoDup. exact W4.
      - apply nodupN_NoDup. exact W5.
      - apply nodupP_NoDup. exact W6. }
    rewrite Hc'. reflexivity.
Qed.

(** ** Every stored record is well-formed, in every reachable world *)
Theorem reach_wf w ops : initial w ->
  let s := market (run w ops) in
  (forall k l, In (k, l) (listings s) -> wf_listing k l) /\
  (forall k b, In (k, b) (buckets s) -> wf_bucket k b).
Proof. intros Hi s. pose proof (reach_Inv w ops Hi) as I. split; [apply (inv_l _ I) | apply (inv_b _ I)]. Qed.
