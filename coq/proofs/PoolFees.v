(** * PoolFees: every fee charged reaches the community pool exactly once (C10). *)
From FM Require Export QueryFacts.

Definition lpend (d : denom) (l : listing) : N := fee_amt d (lfee l).
Definition bpend (d : denom) (b : bucket) : N := fee_amt d (bfee b).
Definition pending (d : denom) (s : mstate) : N := ssum (lpend d) (listings s) + ssum (bpend d) (buckets s).

Lemma pending_eq s d : pending d s = pending_fees s d.
Proof. reflexivity. Qed.

Definition pool_val (d : denom) (m : out_msg) : N := match m with FundPool _ c => fee_amt d (Some c) | _ => 0 end.
Definition pool_sent (d : denom) (ms : list out_msg) : N := sumN (map (pool_val d) ms).

Lemma pool_sent_app d a b : pool_sent d (a ++ b) = pool_sent d a + pool_sent d b.
Proof. unfold pool_sent. rewrite map_app, sumN_app. reflexivity. Qed.

Lemma pool_sent_zero d ms : Forall (fun m => pool_val d m = 0) ms -> pool_sent d ms = 0.
Proof. unfold pool_sent. induction 1 as [|m r Hm Hr IH]; simpl; [reflexivity | rewrite Hm, IH; reflexivity]. Qed.

Lemma pool_sent_send_tokens d to g : pool_sent d (send_tokens_cosmos to g) = 0.
Proof.
  apply pool_sent_zero. unfold send_tokens_cosmos. apply Forall_app. split; [|apply Forall_app; split].
  - destruct (native g); repeat constructor.
  - rewrite Forall_forall. intros m Hm. apply in_map_iff in Hm. destruct Hm as (c & <- & _). reflexivity.
  - rewrite Forall_forall. intros m Hm. apply in_map_iff in Hm. destruct Hm as (c & <- & _). reflexivity.
Qed.

Lemma pool_sent_fee_msgs d me f : pool_sent d (fee_msgs me f) = fee_amt d f.
Proof. destruct f as [[d' a]|]; unfold pool_sent; simpl; lia. Qed.

Lemma pool_sent_withdraw d me to g f : pool_sent d (withdraw_msgs me to g f) = fee_amt d f.
Proof. unfold withdraw_msgs. rewrite pool_sent_app, pool_sent_send_tokens, pool_sent_fee_msgs. reflexivity. Qed.

Lemma side_royalties_no_pool d o reg colls g ms g' : side_royalties o reg colls g = Ok (ms, g') -> pool_sent d ms = 0.
Proof.
  unfold side_royalties. intros H. destruct colls; [inv H; reflexivity|].
  step H. step H. destruct x0 as [[ms' t] g2]. inv H. unfold royalties in Hb0.
  step Hb0. step Hb0; [discriminate|]. step Hb0. destruct x1 as [m1 n']. step Hb0. destruct x1 as [m2 c']. inv Hb0.
  rewrite pool_sent_app.
  rewrite (pool_sent_zero d m1) by (eapply royalties_vec_forall; [|exact Hb2]; intros; reflexivity).
  rewrite (pool_sent_zero d m2) by (eapply royalties_vec_forall; [|exact Hb3]; intros; reflexivity). reflexivity.
Qed.

Lemma calc_fee_feeamt fd g fee g1 d :
  wf_gbal g -> calc_fee_coin fd g = Ok (fee, g1) -> fee_amt d fee = fee_part fd d (amount_of d (native g)).
Proof.
  intros W H. destruct (side_amounts fd g fee g1 [] W H) as (_ & _ & _ & Hamt & _ & Hsome); [simpl; lia|].
  unfold fee_part. dN d (fee_denom_value fd).
  - subst d. exact Hamt.
  - destruct fee as [[d' a]|]; simpl; [|reflexivity]. destruct (Hsome d' a eq_refl) as [-> _].
    dN (fee_denom_value fd) d; [congruence | reflexivity].
Qed.

(** What a message charges: only a purchase charges, floor(0.5 %) of each side's amount in the
    fee denomination. *)
Definition charged (d : denom) (m : exec_msg) (sender : addr) (s : mstate) : N :=
  match m with
  | BuyListing l_id b_id =>
      match find_by_id l_id (listings s), find_key (sender, b_id) (buckets s) with
      | Some (_, l), Some b =>
          fee_part (fee s) d (amount_of d (native (for_sale l))) + fee_part (fee s) d (amount_of d (native (funds b)))
      | _, _ => 0
      end
  | _ => 0
  end.

(** The contract-local fee ledger: pending fees afterwards plus pool deposits issued equal
    pending fees before plus what this message charged. *)
Theorem fee_conservation d o e sender fs m s s' out :
  Inv s -> execute o e sender fs m s = Ok (s', out) ->
  pending d s' + pool_sent d out = pending d s + charged d m sender s.
Proof.
  intros I H. unfold execute in H. step H; [discriminate|]. clear Hc.
  assert (Hnil : pool_sent d [] = 0) by reflexivity.
  assert (HaddB : forall sd ok upd id, add_to_bucket_g sd ok upd id s = Ok (s', out) -> pending d s' + pool_sent d out = pending d s + 0).
  { intros sd ok upd id Hh. apply add_to_bucket_g_inv in Hh. destruct Hh as (bk & g & _ & Hf & _ & _ & _ & _ & -> & ->).
    unfold pending. sstate. pose proof (ssum_replace (bpend d) _ bk (mkB (owner bk) g (bfee bk)) _ (Inv_bkeys _ I) Hf) as E.
    unfold bpend at 2 3 in E. simpl in E. rewrite Hnil. lia. }
  assert (HaddL : forall sd ok upd chk id, add_to_listing_g sd ok upd chk id s = Ok (s', out) -> pending d s' + pool_sent d out = pending d s + 0).
  { intros sd ok upd chk id Hh. apply add_to_listing_g_inv in Hh. destruct Hh as (l & g & _ & Hf & _ & _ & _ & _ & -> & ->).
    unfold pending. sstate. pose proof (ssum_replace (lpend d) _ l (with_for_sale l g) _ (Inv_lkeys _ I) Hf) as E.
    unfold lpend at 2 3 in E. simpl in E. rewrite Hnil. lia. }
  assert (HcrB : forall c ok g id, create_bucket_g c ok g id s = Ok (s', out) -> pending d s' + pool_sent d out = pending d s + 0).
  { intros c ok g id Hh. apply create_bucket_g_inv in Hh. destruct Hh as (_ & _ & Hn & _ & -> & ->).
    unfold pending. sstate. rewrite (ssum_put_fresh _ _ _ _ Hn), Hnil. unfold bpend at 1. simpl. lia. }
  assert (HcrL : forall user ok g id a w, create_listing_g user ok g id a w s = Ok (s', out) -> pending d s' + pool_sent d out = pending d s + 0).
  { intros user ok g id a w Hh. apply create_listing_g_inv in Hh. destruct Hh as (va & _ & _ & Hn & _ & _ & _ & _ & -> & ->).
    assert (Hnone : find_key (user, id) (listings s) = None).
    { destruct (find_key (user, id) (listings s)) as [l|] eqn:E; [|reflexivity]. exfalso.
      destruct (Inv_find_listing _ _ _ I E) as [W Hin]. pose proof (wl_key _ _ W) as K. inv K. apply Hn. apply (inv_lused s I _ _ Hin). }
    unfold pending. sstate. rewrite (ssum_put_fresh _ _ _ _ Hnone), Hnil. unfold lpend at 1. simpl. lia. }
  destruct m; unfold charged.
  - step H; [|discriminate]. apply cycle_fee_effect in H. destruct H as [-> ->]. unfold pending. simpl. rewrite Hnil. lia.
  - step H; [|discriminate]. unfold execute_receive in H.
    step H; [discriminate|]. step H; [discriminate|]. destruct inner as [im|]; [|discriminate]. step H; [discriminate|].
    destruct im; [eapply HcrL, H | eapply HaddL, H | eapply HcrB, H | eapply HaddB, H].
  - unfold execute_receive_nft in H.
    step H; [discriminate|]. step H; [discriminate|]. destruct inner as [im|]; [|discriminate]. step H; [discriminate|].
    destruct im; [eapply HcrL, H | eapply HaddL, H | eapply HcrB, H | eapply HaddB, H].
  - step H; [|discriminate]. eapply HcrL, H.
  - step H; [|discriminate]. eapply HaddL, H.
  - step H; [|discriminate]. apply change_ask_inv in H. destruct H as (l & va & Hf & _ & _ & _ & -> & ->).
    unfold pending. sstate. pose proof (ssum_replace (lpend d) _ l (with_ask l va) _ (Inv_lkeys _ I) Hf) as E.
    unfold lpend at 2 3 in E. simpl in E. rewrite Hnil. lia.
  - step H; [|discriminate]. apply finalize_inv in H. destruct H as (l & Hf & _ & _ & _ & _ & -> & ->).
    unfold pending. sstate.
    match goal with |- context [put _ ?v _] => pose proof (ssum_replace (lpend d) _ l v _ (Inv_lkeys _ I) Hf) as E end.
    unfold lpend at 2 3 in E. simpl in E. rewrite Hnil. lia.
  - step H; [|discriminate]. apply delete_listing_inv in H. destruct H as (l & Hf & _ & Hcl & _ & -> & ->).
    destruct (Inv_find_listing _ _ _ I Hf) as [W _].
    assert (Hnofee : lfee l = None).
    { pose proof (wl_life _ _ W) as Life. unfold life_ok in Life. destruct (lstatus l); try tauto. destruct Life as [E _]. congruence. }
    assert (E : lpend d l = 0) by (unfold lpend; rewrite Hnofee; reflexivity).
    unfold pending. sstate. rewrite (ssum_remove (lpend d) _ l _ (Inv_lkeys _ I) Hf), pool_sent_send_tokens, E. lia.
  - step H; [|discriminate]. eapply HcrB, H.
  - step H; [|discriminate]. eapply HaddB, H.
  - step H; [|discriminate]. apply withdraw_bucket_inv in H. destruct H as (bk & Hf & _ & -> & ->).
    assert (E : bpend d bk = fee_amt d (bfee bk)) by reflexivity.
    unfold pending. sstate. rewrite (ssum_remove (bpend d) _ bk _ (Inv_bkeys _ I) Hf), pool_sent_withdraw, E. lia.
  - step H; [|discriminate]. rename l into l_id. rename b into b_id. apply buy_inv in H.
    destruct H as (bk & kl & l & l_fee & l_bal & b_fee & b_bal & reg & m1 & final_b & m2 & final_l &
                   Hfb & Hfl & Hown & Hcmp & Hst & Hwl & Hcl & Hexp & Hlf & Hbf & Hreg & Hr1 & Hr2 & Hfresh & -> & ->).
    rewrite Hfl, Hfb.
    destruct (Inv_find_bucket _ _ _ I Hfb) as [Wb Hinb].
    destruct (Inv_find_by_id _ _ _ _ I Hfl) as (Wl & Hinl & Hid & Hk & Hfk).
    pose proof (wl_life _ _ Wl) as Life. unfold life_ok in Life. rewrite Hst in Life. destruct Life as (_ & Hnofee & _).
    rewrite <- (calc_fee_feeamt _ _ _ _ d (wl_goods _ _ Wl) Hlf), <- (calc_fee_feeamt _ _ _ _ d (wb_funds _ _ Wb) Hbf).
    assert (HnoneL : find_key (sender, l_id) (remove_key (creator l, l_id) (listings s)) = None).
    { destruct (find_key (sender, l_id) (remove_key (creator l, l_id) (listings s))) as [v|] eqn:E; [|reflexivity]. exfalso.
      apply find_key_In in E. apply In_remove_key in E. destruct E as [Hin' Hne'].
      pose proof (wl_key _ _ (inv_l s I _ _ Hin')) as K. inversion K as [[K1 K2]].
      destruct (lids_unique s _ _ _ _ I Hinl Hin') as [E1 _]; [congruence|]. apply Hne'. rewrite E1, Hk. reflexivity. }
    assert (HnoneB : find_key (creator l, b_id) (remove_key (sender, b_id) (buckets s)) = None).
    { destruct (find_key (creator l, b_id) (remove_key (sender, b_id) (buckets s))) as [v|] eqn:E; [|reflexivity]. exfalso.
      apply find_key_In in E. apply In_remove_key in E. destruct E as [Hin' Hne'].
      destruct (bids_unique s _ _ _ _ I Hinb Hin') as [E1 _]; [reflexivity|]. congruence. }
    unfold pending. sstate.
    rewrite (ssum_put_fresh _ _ _ _ HnoneL), (ssum_put_fresh _ _ _ _ HnoneB).
    rewrite Hk in Hfk. rewrite (ssum_remove (lpend d) _ l _ (Inv_lkeys _ I) Hfk).
    rewrite (ssum_remove (bpend d) _ bk _ (Inv_bkeys _ I) Hfb).
    rewrite !pool_sent_app, pool_sent_fee_msgs.
    rewrite (side_royalties_no_pool d _ _ _ _ _ _ Hr1), (side_royalties_no_pool d _ _ _ _ _ _ Hr2).
    assert (E1 : lpend d l = 0) by (unfold lpend; rewrite Hnofee; reflexivity).
    assert (E2 : bpend d bk = fee_amt d (bfee bk)) by reflexivity.
    rewrite E1, E2. unfold lpend, bpend. simpl. lia.
  - step H; [|discriminate]. apply withdraw_purchased_inv in H. destruct H as (k & l & Hf & Hcl & Hst & -> & ->).
    destruct (Inv_find_by_id _ _ _ _ I Hf) as (W & Hin & Hid & Hk & Hfk).
    pose proof (wl_life _ _ W) as Life. unfold life_ok in Life. rewrite Hst in Life. destruct Life as (L1 & _).
    assert (Hcs : creator l = sender) by congruence. rewrite Hk, Hcs in Hfk.
    assert (E : lpend d l = fee_amt d (lfee l)) by reflexivity.
    unfold pending. sstate. rewrite (ssum_remove (lpend d) _ l _ (Inv_lkeys _ I) Hfk), pool_sent_withdraw, E. lia.
Qed.

(** ** World level: the community-pool ledger *)
Lemma dispatch1_pool w m w' d :
  dispatch1 w m = Ok w' -> recipient_ok (pool_addr w) m -> pool_addr w <> self_addr w ->
  bank w' (pool_addr w) d = bank w (pool_addr w) d + pool_val d m.
Proof.
  unfold dispatch1. intros H Hr Hp. destruct m as [to cs | t to a | c to k | dp [d0 a]]; simpl in Hr.
  - step H; [|discriminate]. step H. inv H. simpl. rewrite (bank_move_third _ _ _ _ _ (pool_addr w) d Hb) by congruence. lia.
  - destruct (kind w t); try discriminate; steps H; simpl; lia.
  - destruct (kind w c); try discriminate; steps H; simpl; lia.
  - step H; [|discriminate]. step H. inv H. simpl.
    rewrite (bank_move1_dst _ _ _ _ _ d Hb) by congruence. reflexivity.
Qed.

Lemma dispatch_pool ms : forall w i w' d,
  dispatch w i None ms = Ok w' -> Forall (recipient_ok (pool_addr w)) ms -> pool_addr w <> self_addr w ->
  bank w' (pool_addr w) d = bank w (pool_addr w) d + pool_sent d ms.
Proof.
  induction ms as [|m r IH]; intros w i w' d H Hr Hp.
  - simpl in H. inv H. unfold pool_sent. simpl. lia.
  - cbn [dispatch] in H. step H. inv Hr.
    pose proof (dispatch1_static _ _ _ Hb) as (_ & _ & _ & _ & _ & _ & _ & Hs & _ & Hpl).
    pose proof (dispatch1_pool _ _ _ d Hb H2 Hp) as E1.
    rewrite <- Hpl in H3. rewrite <- Hs, <- Hpl in Hp.
    pose proof (IH _ _ _ d H H3 Hp) as E2. rewrite Hpl in E2. unfold pool_sent in *. simpl. lia.
Qed.

Definition reg_clean_pool (w : world) : Prop :=
  forall c e, reg_lookup c (registry w) = Some e -> payout e <> pool_addr w.

(** The community-pool account is a module account: it sends nothing, nobody claims to act for
    it, and (for this ledger) nobody else funds it or names it as royalty payout address. *)
Definition pool_quiet (w : world) (o : op) : Prop :=
  let p := pool_addr w in
  match o with
  | Exec sd _ _ _ => sd <> p
  | Cw20Send u _ _ _ _ | NftSend u _ _ _ _ => u <> p
  | BankXfer u to _ => u <> p /\ to <> p
  | RegExec _ (Register _ py _) => py <> p
  | RegExec _ (Update _ (Some py) _) => py <> p
  | _ => True
  end.

Definition charged_op (d : denom) (w : world) (o : op) : N :=
  match o with Exec a _ m _ => charged d m a (market w) | _ => 0 end.

Lemma oracle_of_clean_pool w : reg_clean_pool w -> oracle_clean (oracle_of w) (pool_addr w).
Proof.
  intros Hc reg cs resp r H Hin. unfold oracle_of in H. simpl in H.
  destruct (reg =? reg_addr w); [|discriminate]. unfold get_multi in H.
  assert (E : resp = map (fun c => reg_lookup c (registry w)) cs) by (destruct cs; [discriminate | inversion H; reflexivity]).
  subst resp. apply registered_In in Hin. apply in_map_iff in Hin. destruct Hin as (c & Hc' & _). eapply Hc. exact Hc'.
Qed.

Lemma run_market_pool w1 sender fs m fail w' out d :
  Inv (market w1) -> reg_clean_pool w1 -> pool_addr w1 <> self_addr w1 -> sender <> pool_addr w1 ->
  run_market w1 sender fs m fail = Ok (w', out) ->
  bank w' (pool_addr w1) d + pending d (market w') = bank w1 (pool_addr w1) d + pending d (market w1) + charged d m sender (market w1).
Proof.
  intros I Hc Hp Hs H. apply run_market_inv in H. destruct H as (s' & He & Hd & Hm). apply dispatch_fail_none in Hd.
  pose proof (execute_recipients (pool_addr w1) _ _ _ _ _ _ _ _ He Hs (oracle_of_clean_pool _ Hc)) as Hr.
  pose proof (fee_conservation d _ _ _ _ _ _ _ _ I He) as Hf.
  pose proof (dispatch_pool _ _ _ _ d Hd Hr Hp) as Hq. simpl in Hq. rewrite Hm. lia.
Qed.

Theorem step_pool_ledger w o d :
  good w -> reg_clean_pool w -> kind w (pool_addr w) = KUser -> outside_ok w o -> pool_quiet w o ->
  let w' := fst (step w o) in
  bank w' (pool_addr w) d + pending d (market w') =
  bank w (pool_addr w) d + pending d (market w) + (if ok (snd (step w o)) then charged_op d w o else 0).
Proof.
  intros [Iv Hc Hp Hself Hb] Hcp Hkp Ho Hq. unfold step. destruct (try_step w o) as [[w' out]|] eqn:H; simpl; [|lia].
  unfold try_step in H. destruct o; simpl in Hq, Ho; simpl charged_op.
  - step H. rename x into b.
    pose proof (run_market_pool (set_bank w b) sender funds_ m fail w' out d Iv Hcp Hp Hq H) as E. simpl in E.
    destruct Ho as [Hne _]. rewrite (pay_funds_third _ _ _ _ _ (pool_addr w) d Hb0) in E by congruence. exact E.
  - destruct (kind w token) eqn:Hkt; try discriminate. step H.
    assert (Htok : token <> pool_addr w) by (eapply kind_ne; try eassumption; discriminate).
    pose proof (run_market_pool (set_cw20 w x) token [] (Receive user amt inner) fail w' out d Iv Hcp Hp Htok H) as E. simpl in E. lia.
  - destruct (kind w coll) eqn:Hkc; try discriminate. step H.
    assert (Hcol : coll <> pool_addr w) by (eapply kind_ne; try eassumption; discriminate).
    pose proof (run_market_pool (set_nft w x) coll [] (ReceiveNft user tok inner) fail w' out d Iv Hcp Hp Hcol H) as E. simpl in E. lia.
  - destruct (kind w token); try discriminate. step H. inv H. simpl. lia.
  - destruct (kind w coll); try discriminate. step H. inv H. simpl. lia.
  - destruct Hq as [Hu Ht]. remember (filter (fun c : denom * N => negb (snd c =? 0)) cs) as nz. destruct nz; [discriminate|]. step H. inv H.
    simpl. rewrite (bank_move_third _ _ _ _ _ (pool_addr w) d Hb0) by congruence. lia.
  - step H. inv H. simpl. lia.
  - step H; [|discriminate]. inv H. simpl. lia.
  - inv H. simpl. lia.
  - inv H. simpl. lia.
Qed.

Lemma step_reg_clean_pool w o : reg_clean_pool w -> pool_quiet w o -> reg_clean_pool (fst (step w o)).
Proof.
  intros Hc Ho. rewrite step_fst. destruct (try_step w o) as [[w' out]|] eqn:H; [|exact Hc].
  destruct (try_step_static _ _ _ _ H) as (_ & _ & Hpl). unfold reg_clean_pool. rewrite Hpl.
  destruct (try_step_registry _ _ _ _ H) as [E | (a & m & -> & Hr)]; [rewrite E; exact Hc|].
  simpl in Ho. intros c e Hl. destruct m as [c0 p b | c0 p b | c0].
  - destruct (register_effect _ _ _ _ _ _ _ _ Hr) as [E1 E2]. destruct (N.eq_dec c c0) as [->|Hn].
    + rewrite E1 in Hl. inv Hl. exact Ho.
    + rewrite (E2 c Hn) in Hl. eapply Hc, Hl.
  - destruct (update_effect _ _ _ _ _ _ _ _ Hr) as (e0 & L0 & E1 & E2). destruct (N.eq_dec c c0) as [->|Hn].
    + rewrite E1 in Hl. inv Hl. simpl. destruct p as [p|]; [exact Ho | eapply Hc, L0].
    + rewrite (E2 c Hn) in Hl. eapply Hc, Hl.
  - destruct (remove_effect _ _ _ _ _ _ Hr) as [E1 E2]. destruct (N.eq_dec c c0) as [->|Hn].
    + rewrite E1 in Hl. discriminate.
    + rewrite (E2 c Hn) in Hl. eapply Hc, Hl.
Qed.

Fixpoint total_charged (d : denom) (w : world) (ops : list op) : N :=
  match ops with
  | [] => 0
  | o :: r => (if ok (snd (step w o)) then charged_op d w o else 0) + total_charged d (fst (step w o)) r
  end.

Fixpoint all_quiet (w : world) (ops : list op) : Prop :=
  match ops with [] => True | o :: r => outside_ok w o /\ pool_quiet w o /\ all_quiet (fst (step w o)) r end.

(** Over any history: what the community pool holds plus what is still pending equals what it
    held at the start plus every fee charged by a successful purchase — nothing dropped, nothing
    duplicated, nothing paid elsewhere. *)
Theorem run_pool_ledger d ops : forall w,
  good w -> reg_clean_pool w -> kind w (pool_addr w) = KUser -> all_quiet w ops ->
  bank (run w ops) (pool_addr w) d + pending d (market (run w ops)) =
  bank w (pool_addr w) d + pending d (market w) + total_charged d w ops.
Proof.
  unfold run. induction ops as [|o r IH]; simpl; intros w G Hcp Hkp Hq; [lia|].
  destruct Hq as (Ho & Hpq & Hr).
  pose proof (step_pool_ledger w o d G Hcp Hkp Ho Hpq) as E. cbv zeta in E.
  assert (Hst : kind (fst (step w o)) = kind w /\ pool_addr (fst (step w o)) = pool_addr w).
  { rewrite step_fst. destruct (try_step w o) as [[w' out]|] eqn:H; [|tauto].
    destruct (try_step_static _ _ _ _ H) as (Hk & _ & Hpl). tauto. }
  destruct Hst as [Hk Hpl].
  specialize (IH (fst (step w o)) (step_good _ _ G Ho) (step_reg_clean_pool _ _ Hcp Hpq)).
  rewrite Hk, Hpl in IH. specialize (IH Hkp Hr). lia.
Qed.

(** From a fresh marketplace nothing is pending at the start. *)
Theorem fresh_pool_ledger d w ops :
  fresh w -> kind w (pool_addr w) = KUser -> all_quiet w ops ->
  bank (run w ops) (pool_addr w) d + pending_fees (market (run w ops)) d = bank w (pool_addr w) d + total_charged d w ops.
Proof.
  intros F Hk Hq. pose proof F as (Hi & Hr & _). rewrite <- pending_eq.
  assert (Z : pending d (market w) = 0).
  { destruct Hi as [t Ht]. unfold reply_instantiate, instantiate in Ht. step Ht; [|discriminate]. inversion Ht as [E]. reflexivity. }
  rewrite (run_pool_ledger d ops w (fresh_good _ F)); try assumption.
  - rewrite Z. lia.
  - unfold reg_clean_pool. rewrite Hr. simpl. discriminate.
Qed.

(** Paid no later than the proceeds: the payout of a record carries exactly its recorded fee as
    one fund-community-pool message with the marketplace as depositor. *)
Theorem payout_carries_fee o e sender fs m s s' out :
  execute o e sender fs m s = Ok (s', out) ->
  match m with
  | RemoveBucket id => exists b, find_key (sender, id) (buckets s) = Some b /\
                                  out = send_tokens_cosmos (owner b) (funds b) ++ fee_msgs (self e) (bfee b)
  | WithdrawPurchased id => exists k l, find_by_id id (listings s) = Some (k, l) /\
                                  out = send_tokens_cosmos sender (for_sale l) ++ fee_msgs (self e) (lfee l)
  | BuyListing l_id b_id => exists b ms, find_key (sender, b_id) (buckets s) = Some b /\
                                  out = ms ++ fee_msgs (self e) (bfee b) /\ forall d, pool_sent d ms = 0
  | _ => True
  end.
Proof.
  intros H. unfold execute in H. step H; [discriminate|]. destruct m; try exact Logic.I; (step H; [|discriminate]).
  - apply withdraw_bucket_inv in H. destruct H as (bk & Hf & _ & _ & ->). exists bk. split; [exact Hf | reflexivity].
  - apply buy_inv in H.
    destruct H as (bk & kl & l0 & l_fee & l_bal & b_fee & b_bal & reg & m1 & final_b & m2 & final_l &
                   Hfb & _ & _ & _ & _ & _ & _ & _ & _ & _ & _ & Hr1 & Hr2 & _ & _ & ->).
    exists bk, (m1 ++ m2). split; [exact Hfb|]. split; [rewrite app_assoc; reflexivity|].
    intros d. rewrite pool_sent_app, (side_royalties_no_pool d _ _ _ _ _ _ Hr1), (side_royalties_no_pool d _ _ _ _ _ _ Hr2). reflexivity.
  - apply withdraw_purchased_inv in H. destruct H as (k & l & Hf & _ & _ & _ & ->). exists k, l. split; [exact Hf | reflexivity].
Qed.
