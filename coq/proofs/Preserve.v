(** * Preserve: every successful message preserves [Inv] (C12_wf_always, and the basis of most
    other property theorems). *)
From FM Require Export Invariant.

Lemma Inv_set_fee s f : Inv s -> Inv (set_fee s f).
Proof. intros [I1 I2 I3 I4 I5 I6 I7 I8]. constructor; simpl; assumption. Qed.

Lemma fee_ok_None : fee_ok None.
Proof. intros d a H. discriminate. Qed.

(** ** Buckets *)
Lemma create_bucket_g_inv c ok g id s s' out :
  create_bucket_g c ok g id s = Ok (s', out) ->
  max_ok id = true /\ ~ In id (b_used s) /\ find_key (c, id) (buckets s) = None /\ ok = true /\
  s' = mark_b (set_buckets s (put (c, id) (mkB c g None) (buckets s))) id /\ out = [].
Proof.
  unfold create_bucket_g. intros H. step H; [|discriminate]. inv H.
  apply andb_true_iff in Hc as [Hc H4]. apply andb_true_iff in Hc as [Hc H3]. apply andb_true_iff in Hc as [H1 H2].
  apply negb_true_iff in H2, H3. apply memN_false in H2.
  destruct (find_key (c, id) (buckets s)); [discriminate|]. tauto.
Qed.

Lemma create_bucket_g_pres c ok g id s s' out :
  Inv s -> (ok = true -> wf_gbal g) -> create_bucket_g c ok g id s = Ok (s', out) -> Inv s'.
Proof.
  intros I Hg H. apply create_bucket_g_inv in H. destruct H as (H1 & H2 & H3 & H4 & -> & _).
  rewrite mark_b_set_buckets. apply (Inv_put_bucket (mark_b s id)).
  - apply Inv_mark_b, I.
  - constructor; simpl; [reflexivity | apply Hg, H4 | apply fee_ok_None].
  - simpl. left. reflexivity.
  - simpl. intros k' b' Hin _ Heq. apply H2. rewrite <- Heq. apply (inv_bused s I k' b' Hin).
Qed.

Lemma add_to_bucket_g_inv sender ok upd id s s' out :
  add_to_bucket_g sender ok upd id s = Ok (s', out) ->
  exists bk g, ok = true /\ find_key (sender, id) (buckets s) = Some bk /\ sender = owner bk /\
    upd (funds bk) = Ok g /\ genbal_cmp (funds bk) g = false /\ check_valid g = true /\
    s' = set_buckets s (put (sender, id) (mkB (owner bk) g (bfee bk)) (buckets s)) /\ out = [].
Proof.
  unfold add_to_bucket_g. intros H. steps H.
  apply negb_false_iff in Hc, Hc0, Hc2. apply N.eqb_eq in Hc0.
  exists b, x. tauto.
Qed.

Lemma add_to_bucket_g_pres sender ok upd id s s' out :
  Inv s -> (forall g g', ok = true -> wf_gbal g -> upd g = Ok g' -> wf_amounts g') ->
  add_to_bucket_g sender ok upd id s = Ok (s', out) -> Inv s'.
Proof.
  intros I Hupd H. apply add_to_bucket_g_inv in H.
  destruct H as (bk & g & H1 & H2 & H3 & H4 & H5 & H6 & -> & _).
  destruct (Inv_find_bucket _ _ _ I H2) as [W Hin].
  apply Inv_put_bucket; try assumption.
  - constructor; simpl.
    + apply (wb_key _ _ W).
    + apply check_valid_wf; [assumption|]. apply (Hupd (funds bk)); try assumption. apply (wb_funds _ _ W).
    + apply (wb_fee _ _ W).
  - apply (inv_bused s I _ _ Hin).
  - intros k' b' Hin' Hne Heq. destruct (bids_unique s _ _ _ _ I Hin Hin' Heq). congruence.
Qed.

Lemma withdraw_bucket_inv e user id s s' out :
  execute_withdraw_bucket e user id s = Ok (s', out) ->
  exists bk, find_key (user, id) (buckets s) = Some bk /\ owner bk = user /\
    s' = set_buckets s (remove_key (user, id) (buckets s)) /\
    out = withdraw_msgs (self e) (owner bk) (funds bk) (bfee bk).
Proof.
  unfold execute_withdraw_bucket. intros H. steps H. apply negb_false_iff, N.eqb_eq in Hc.
  exists b. tauto.
Qed.

(** ** Listings *)
Lemma create_listing_g_inv user ok g id a w s s' out :
  create_listing_g user ok g id a w s = Ok (s', out) ->
  exists va, max_ok id = true /\ ok = true /\ ~ In id (l_used s) /\ find_by_id id (listings s) = None /\
    wl_ok user w = true /\ validate_ask a = Ok va /\
    (forall k' v', In (k', v') (listings s) -> k' <> (user, id) -> lid v' <> id) /\
    s' = mark_l (set_listings s (put (user, id) (new_listing user id w g va) (listings s))) id /\ out = [].
Proof.
  unfold create_listing_g. intros H. step H; [|discriminate]. step H. step H. inv H.
  apply andb_true_iff in Hc as [Hc H5]. apply andb_true_iff in Hc as [Hc H4].
  apply andb_true_iff in Hc as [Hc H3]. apply andb_true_iff in Hc as [H1 H2].
  apply negb_true_iff in H3, H4. apply memN_false in H3.
  apply save_listing_ok in Hb0. destruct Hb0 as [-> Hf].
  exists x. destruct (find_by_id id (listings s)); [discriminate|]. splits; try tauto; try exact Hf.
Qed.

Lemma create_listing_g_pres user ok g id a w s s' out :
  Inv s -> (ok = true -> wf_gbal g) -> create_listing_g user ok g id a w s = Ok (s', out) -> Inv s'.
Proof.
  intros I Hg H. apply create_listing_g_inv in H.
  destruct H as (va & H1 & H2 & H3 & H4 & H5 & H6 & H7 & -> & _).
  apply validate_ask_ok in H6. destruct H6 as (-> & Wa & Hsz & _).
  rewrite mark_l_set_listings. apply (Inv_put_listing (mark_l s id)).
  - apply Inv_mark_l, I.
  - constructor; simpl; try assumption; try reflexivity.
    + apply Hg, H2.
    + unfold life_ok. simpl. tauto.
    + apply fee_ok_None.
  - simpl. left. reflexivity.
  - simpl. exact H7.
Qed.

(** A listing that the sender may still edit. *)
Lemma editable_inv sender l :
  editable sender l = true -> sender = creator l /\ lstatus l = BeingPrepared /\ claimant l = None.
Proof.
  unfold editable. intros H. apply andb_true_iff in H as [H H3]. apply andb_true_iff in H as [H1 H2].
  apply N.eqb_eq in H1. apply negb_true_iff in H3.
  destruct (lstatus l); try discriminate. destruct (claimant l); try discriminate. tauto.
Qed.

(** Replacing an owned listing by one with the same id. *)
Lemma Inv_replace_listing s k l l' :
  Inv s -> find_key k (listings s) = Some l -> wf_listing k l' -> lid l' = lid l ->
  Inv (set_listings s (put k l' (listings s))).
Proof.
  intros I Hf W Hid. destruct (Inv_find_listing _ _ _ I Hf) as [Wl Hin].
  apply Inv_put_listing; try assumption.
  - rewrite Hid. apply (inv_lused s I _ _ Hin).
  - intros k' v' Hin' Hne Heq. rewrite Hid in Heq. destruct (lids_unique s _ _ _ _ I Hin Hin' Heq). congruence.
Qed.

Lemma change_ask_inv sender id a s s' out :
  execute_change_ask sender id a s = Ok (s', out) ->
  exists l va, find_key (sender, id) (listings s) = Some l /\ editable sender l = true /\ fin l = None /\
    validate_ask a = Ok va /\ s' = set_listings s (put (sender, id) (with_ask l va) (listings s)) /\ out = [].
Proof.
  unfold execute_change_ask. intros H. steps H. apply negb_false_iff in Hc.
  apply andb_true_iff in Hc as [H1 H2]. apply negb_true_iff in H2.
  apply save_listing_ok in Hb0. destruct Hb0 as [-> _].
  exists l, x. destruct (fin l); [discriminate|]. tauto.
Qed.

Lemma add_to_listing_g_inv sender ok upd chk id s s' out :
  add_to_listing_g sender ok upd chk id s = Ok (s', out) ->
  exists l g, ok = true /\ find_key (sender, id) (listings s) = Some l /\ editable sender l = true /\
    upd (for_sale l) = Ok g /\ genbal_cmp (for_sale l) g = false /\ chk g = true /\
    s' = set_listings s (put (sender, id) (with_for_sale l g) (listings s)) /\ out = [].
Proof.
  unfold add_to_listing_g. intros H. steps H.
  apply negb_false_iff in Hc, Hc0, Hc2.
  apply save_listing_ok in Hb0. destruct Hb0 as [-> _].
  exists l, x. tauto.
Qed.

Lemma finalize_inv e sender id secs s s' out :
  execute_finalize e sender id secs s = Ok (s', out) ->
  exists l, find_key (sender, id) (listings s) = Some l /\ editable sender l = true /\ fin l = None /\
    MIN_LIFE <= secs /\ secs <= MAX_LIFE /\
    s' = set_listings s (put (sender, id)
           (mkL (creator l) (lid l) (Some (now e)) (Some (now e + secs * NANOS)) FinalizedReady
                (claimant l) (wl l) (for_sale l) (ask l) (lfee l)) (listings s)) /\ out = [].
Proof.
  unfold execute_finalize. intros H. steps H. apply negb_false_iff in Hc, Hc0.
  apply andb_true_iff in Hc as [H1 H2]. apply negb_true_iff in H2.
  apply andb_true_iff in Hc0 as [H3 H4]. apply N.leb_le in H3, H4.
  apply save_listing_ok in Hb. destruct Hb as [-> _].
  exists l. destruct (fin l); [discriminate|]. tauto.
Qed.

Lemma delete_listing_inv e sender id s s' out :
  execute_delete_listing e sender id s = Ok (s', out) ->
  exists l, find_key (sender, id) (listings s) = Some l /\ sender = creator l /\ claimant l = None /\
    (forall x, exp l = Some x -> x <= now e) /\
    s' = set_listings s (remove_key (sender, id) (listings s)) /\
    out = send_tokens_cosmos (creator l) (for_sale l).
Proof.
  unfold execute_delete_listing. intros H.
  destruct (find_key (sender, id) (listings s)) as [l|] eqn:Hf; [|discriminate].
  step H; [discriminate|]. step H; [discriminate|]. step H; [discriminate|]. inv H.
  apply negb_false_iff, N.eqb_eq in Hc. exists l. destruct (claimant l); [discriminate|].
  splits; try tauto.
  intros x Hx. rewrite Hx in Hc1. apply N.ltb_ge in Hc1. assumption.
Qed.

Lemma withdraw_purchased_inv e who id s s' out :
  execute_withdraw_purchased e who id s = Ok (s', out) ->
  exists k l, find_by_id id (listings s) = Some (k, l) /\ claimant l = Some who /\ lstatus l = Closed /\
    s' = set_listings s (remove_key (who, id) (listings s)) /\
    out = withdraw_msgs (self e) who (for_sale l) (lfee l).
Proof.
  unfold execute_withdraw_purchased. intros H. steps H.
  apply negb_false_iff in Hc, Hc0. apply N.eqb_eq in Hc. subst.
  destruct (lstatus l) eqn:E; try discriminate. exists k, l. tauto.
Qed.

(** ** Purchase *)
Lemma side_royalties_wf o reg colls g ms g' :
  side_royalties o reg colls g = Ok (ms, g') -> wf_gbal g ->
  wf_gbal g' /\ nfts g' = nfts g /\ gsize g' = gsize g.
Proof.
  unfold side_royalties. intros H W. destruct colls; [inv H; tauto|].
  step H. step H. destruct x0 as [[ms' t] g2]. inv H.
  destruct (royalties_wf _ _ _ _ _ Hb0 W) as (R1 & R2 & R3 & _). tauto.
Qed.

Lemma buy_inv o e buyer l_id b_id s s' out :
  execute_buy_listing o e buyer l_id b_id s = Ok (s', out) ->
  exists bk kl l l_fee l_bal b_fee b_bal reg m1 final_b m2 final_l,
    find_key (buyer, b_id) (buckets s) = Some bk /\
    find_by_id l_id (listings s) = Some (kl, l) /\
    buyer = owner bk /\ genbal_cmp (funds bk) (ask l) = true /\ lstatus l = FinalizedReady /\
    (wl l = None \/ wl l = Some buyer) /\ claimant l = None /\ (forall x, exp l = Some x -> now e <= x) /\
    calc_fee_coin (fee s) (for_sale l) = Ok (l_fee, l_bal) /\
    calc_fee_coin (fee s) (funds bk) = Ok (b_fee, b_bal) /\
    registry_item s = Some reg /\
    side_royalties o reg (dedupN (map fst (nfts (for_sale l)))) b_bal = Ok (m1, final_b) /\
    side_royalties o reg (dedupN (map fst (nfts (funds bk)))) l_bal = Ok (m2, final_l) /\
    (forall k' v', In (k', v') (remove_key (creator l, l_id) (listings s)) -> k' <> (buyer, l_id) -> lid v' <> lid l) /\
    s' = set_buckets
           (set_listings s (put (buyer, l_id)
              (mkL buyer (lid l) (fin l) (exp l) Closed (Some buyer) (wl l) final_l (ask l) l_fee)
              (remove_key (creator l, l_id) (listings s))))
           (put (creator l, b_id) (mkB (creator l) final_b b_fee) (remove_key (buyer, b_id) (buckets s))) /\
    out = m1 ++ m2 ++ fee_msgs (self e) (bfee bk).
Proof.
  unfold execute_buy_listing. intros H.
  destruct (find_key (buyer, b_id) (buckets s)) as [bk|] eqn:Hfb; [|discriminate].
  destruct (find_by_id l_id (listings s)) as [[kl l]|] eqn:Hfl; [|discriminate].
  step H; [discriminate|]. step H; [discriminate|]. step H; [discriminate|].
  step H; [discriminate|]. step H; [discriminate|]. step H; [discriminate|].
  step H. destruct x as [l_fee l_bal]. step H. destruct x as [b_fee b_bal].
  destruct (registry_item s) as [reg|] eqn:Hreg; [|discriminate].
  step H. destruct x as [m1 final_b]. step H. destruct x as [m2 final_l]. step H. inv H.
  apply negb_false_iff in Hc, Hc0, Hc1, Hc2. apply N.eqb_eq in Hc.
  destruct (lstatus l) eqn:Est; try discriminate.
  destruct (claimant l) eqn:Ecl; try discriminate.
  apply save_listing_ok in Hb3. destruct Hb3 as [-> Hfresh].
  exists bk, kl, l, l_fee, l_bal, b_fee, b_bal, reg, m1, final_b, m2, final_l.
  splits; try tauto; try reflexivity.
  - destruct (wl l) as [w|]; [right; f_equal; apply N.eqb_eq; assumption | left; reflexivity].
  - intros y Hy. rewrite Hy in Hc4. apply N.ltb_ge in Hc4. assumption.
Qed.

(** ** Preservation, handler by handler *)
Lemma withdraw_bucket_pres e user id s s' out :
  Inv s -> execute_withdraw_bucket e user id s = Ok (s', out) -> Inv s'.
Proof.
  intros I H. apply withdraw_bucket_inv in H. destruct H as (bk & _ & _ & -> & _).
  apply Inv_remove_bucket, I.
Qed.

Lemma change_ask_pres sender id a s s' out :
  Inv s -> execute_change_ask sender id a s = Ok (s', out) -> Inv s'.
Proof.
  intros I H. apply change_ask_inv in H. destruct H as (l & va & Hf & He & Hfin & Hv & -> & _).
  apply validate_ask_ok in Hv. destruct Hv as (-> & Wa & Hsz & _).
  destruct (Inv_find_listing _ _ _ I Hf) as [[W1 W2 W3 W4 W5 W6] Hin].
  apply (Inv_replace_listing s _ l); try assumption; [|reflexivity].
  constructor; simpl; assumption.
Qed.

Lemma add_to_listing_g_pres sender ok upd chk id s s' out :
  Inv s -> (forall g g', ok = true -> wf_gbal g -> upd g = Ok g' -> chk g' = true -> wf_gbal g') ->
  add_to_listing_g sender ok upd chk id s = Ok (s', out) -> Inv s'.
Proof.
  intros I Hupd H. apply add_to_listing_g_inv in H.
  destruct H as (l & g & H1 & Hf & He & Hu & _ & Hchk & -> & _).
  destruct (Inv_find_listing _ _ _ I Hf) as [[W1 W2 W3 W4 W5 W6] Hin].
  apply (Inv_replace_listing s _ l); try assumption; [|reflexivity].
  constructor; simpl; try assumption. apply (Hupd (for_sale l) g); assumption.
Qed.

Lemma finalize_pres e sender id secs s s' out :
  Inv s -> execute_finalize e sender id secs s = Ok (s', out) -> Inv s'.
Proof.
  intros I H. apply finalize_inv in H. destruct H as (l & Hf & He & Hfin & Hlo & Hhi & -> & _).
  destruct (Inv_find_listing _ _ _ I Hf) as [[W1 W2 W3 W4 W5 W6] Hin].
  apply editable_inv in He. destruct He as (E1 & E2 & E3).
  apply (Inv_replace_listing s _ l); try assumption; [|reflexivity].
  unfold life_ok in W5. rewrite E2 in W5. destruct W5 as (_ & _ & _ & Hfee).
  constructor; simpl; try assumption.
  unfold life_ok. simpl. splits; try assumption. exists (now e), secs. tauto.
Qed.

Lemma delete_listing_pres e sender id s s' out :
  Inv s -> execute_delete_listing e sender id s = Ok (s', out) -> Inv s'.
Proof.
  intros I H. apply delete_listing_inv in H. destruct H as (l & _ & _ & _ & _ & -> & _).
  apply Inv_remove_listing, I.
Qed.

Lemma withdraw_purchased_pres e who id s s' out :
  Inv s -> execute_withdraw_purchased e who id s = Ok (s', out) -> Inv s'.
Proof.
  intros I H. apply withdraw_purchased_inv in H. destruct H as (k & l & _ & _ & _ & -> & _).
  apply Inv_remove_listing, I.
Qed.

Lemma cycle_fee_pres e s s' out : Inv s -> execute_cycle_fee e s = Ok (s', out) -> Inv s'.
Proof.
  unfold execute_cycle_fee. intros I H. destruct (fee s); step H; try discriminate; inv H; apply Inv_set_fee, I.
Qed.

Lemma buy_pres o e buyer l_id b_id s s' out :
  Inv s -> execute_buy_listing o e buyer l_id b_id s = Ok (s', out) -> Inv s'.
Proof.
  intros I H. apply buy_inv in H.
  destruct H as (bk & kl & l & l_fee & l_bal & b_fee & b_bal & reg & m1 & final_b & m2 & final_l &
                 Hfb & Hfl & Hown & Hcmp & Hst & Hwl & Hcl & Hexp & Hlf & Hbf & Hreg & Hr1 & Hr2 & Hfresh & -> & _).
  destruct (Inv_find_bucket _ _ _ I Hfb) as [[B1 B2 B3] Hinb].
  destruct (Inv_find_by_id _ _ _ _ I Hfl) as ([W1 W2 W3 W4 W5 W6] & Hinl & Hid & Hk & Hfk).
  destruct (calc_fee_wf _ _ _ _ Hlf W2) as (Lw & _ & _ & _ & Lfee).
  destruct (calc_fee_wf _ _ _ _ Hbf B2) as (Bw & _ & _ & _ & Bfee).
  destruct (side_royalties_wf _ _ _ _ _ _ Hr1 Bw) as (FBw & _ & _).
  destruct (side_royalties_wf _ _ _ _ _ _ Hr2 Lw) as (FLw & _ & _).
  (* listings: remove the seller's entry, then file the closed listing under the buyer *)
  pose (s1 := set_listings s (remove_key (creator l, l_id) (listings s))).
  assert (I1 : Inv s1) by (apply Inv_remove_listing, I).
  assert (I2 : Inv (set_listings s1 (put (buyer, l_id)
            (mkL buyer (lid l) (fin l) (exp l) Closed (Some buyer) (wl l) final_l (ask l) l_fee) (listings s1)))).
  { apply Inv_put_listing; try assumption.
    - constructor; simpl; try assumption.
      + rewrite Hid. reflexivity.
      + unfold life_ok in *. simpl. rewrite Hst in W5. destruct W5 as (_ & _ & f & secs & Hf1 & Hf2 & _).
        splits; [reflexivity | congruence | congruence].
      + intros d a Hs. destruct (Lfee d a Hs). tauto.
    - simpl. apply (inv_lused s I _ _ Hinl). }
  (* buckets: remove the buyer's entry, then file the proceeds under the seller *)
  pose (s2 := set_listings s1 (put (buyer, l_id)
            (mkL buyer (lid l) (fin l) (exp l) Closed (Some buyer) (wl l) final_l (ask l) l_fee) (listings s1))).
  pose (s3 := set_buckets s2 (remove_key (buyer, b_id) (buckets s2))).
  assert (I3 : Inv s3) by (apply Inv_remove_bucket, I2).
  apply (Inv_put_bucket s3); try assumption.
  - constructor; simpl; try assumption; [reflexivity|]. intros d a Hs. destruct (Bfee d a Hs). tauto.
  - simpl. apply (inv_bused s I _ _ Hinb).
  - simpl. intros k' b' Hin' Hne Heq. apply In_remove_key in Hin'. destruct Hin' as [Hin' Hne'].
    destruct (bids_unique s _ _ _ _ I Hinb Hin' Heq). congruence.
Qed.

(** The Uint128 range of attached coins and hook amounts. *)
Lemma coins_in_range_ok cs : coins_in_range cs = true -> amounts_ok cs.
Proof.
  unfold coins_in_range, amounts_ok. rewrite forallb_forall, Forall_forall. intros H x Hx. apply N.ltb_lt, H, Hx.
Qed.

Lemma add_nft_amounts g n : wf_gbal g -> wf_amounts (add_nft g n).
Proof. intros W. apply wf_gbal_amounts in W. exact W. Qed.

Lemma add_tokens_amounts g b g' :
  normalized_check b = true -> balance_in_range b -> wf_gbal g -> add_tokens g b = Ok g' -> wf_amounts g'.
Proof. intros Hn Hr W H. apply wf_gbal_amounts. eapply add_tokens_wf; eassumption. Qed.

Theorem execute_pres o e sender fs m s s' out :
  Inv s -> execute o e sender fs m s = Ok (s', out) -> Inv s'.
Proof.
  intros I H. unfold execute in H. step H; [discriminate|]. apply negb_false_iff in Hc.
  apply coins_in_range_ok in Hc.
  assert (Hnat : balance_in_range (BNative fs)) by exact Hc.
  destruct m.
  - step H; [|discriminate]. eapply cycle_fee_pres; eassumption.
  - (* Receive *)
    step H; [|discriminate]. apply N.ltb_lt in Hc0. unfold execute_receive in H.
    step H; [discriminate|]. step H; [discriminate|]. destruct inner as [im|]; [|discriminate].
    step H; [discriminate|].
    assert (Hr : balance_in_range (BCw20 sender amt)) by exact Hc0.
    destruct im.
    + eapply create_listing_g_pres; [exact I | | exact H]. intros Hn. apply wf_from_balance; assumption.
    + eapply add_to_listing_g_pres; [exact I | | exact H]. intros g g' Hn W Hu _. cbv beta in Hu. exact (add_tokens_wf _ _ _ Hu W Hn ltac:(assumption)).
    + eapply create_bucket_g_pres; [exact I | | exact H]. intros Hn. apply wf_from_balance; assumption.
    + eapply add_to_bucket_g_pres; [exact I | | exact H]. intros g g' Hn W Hu. cbv beta in Hu. exact (add_tokens_amounts _ _ _ Hn ltac:(assumption) W Hu).
  - (* ReceiveNft *)
    unfold execute_receive_nft in H.
    step H; [discriminate|]. step H; [discriminate|]. destruct inner as [im|]; [|discriminate].
    step H; [discriminate|].
    destruct im.
    + eapply create_listing_g_pres; [exact I | | exact H]. intros _. apply wf_from_nft.
    + eapply add_to_listing_g_pres; [exact I | | exact H]. intros g g' _ W Hu Hchk. inv Hu. apply add_nft_wf; assumption.
    + eapply create_bucket_g_pres; [exact I | | exact H]. intros _. apply wf_from_nft.
    + eapply add_to_bucket_g_pres; [exact I | | exact H]. intros g g' _ W Hu. inv Hu. apply add_nft_amounts, W.
  - step H; [|discriminate]. eapply create_listing_g_pres; [exact I | | exact H]. intros Hn. apply wf_from_balance; assumption.
  - step H; [|discriminate]. eapply add_to_listing_g_pres; [exact I | | exact H]. intros g g' Hn W Hu _. cbv beta in Hu. exact (add_tokens_wf _ _ _ Hu W Hn ltac:(assumption)).
  - step H; [|discriminate]. eapply change_ask_pres; eassumption.
  - step H; [|discriminate]. eapply finalize_pres; eassumption.
  - step H; [|discriminate]. eapply delete_listing_pres; eassumption.
  - step H; [|discriminate]. eapply create_bucket_g_pres; [exact I | | exact H]. intros Hn. apply wf_from_balance; assumption.
  - step H; [|discriminate]. eapply add_to_bucket_g_pres; [exact I | | exact H]. intros g g' Hn W Hu. cbv beta in Hu. exact (add_tokens_amounts _ _ _ Hn ltac:(assumption) W Hu).
  - step H; [|discriminate]. eapply withdraw_bucket_pres; eassumption.
  - step H; [|discriminate]. eapply buy_pres; eassumption.
  - step H; [|discriminate]. eapply withdraw_purchased_pres; eassumption.
Qed.

(** The initial state. *)
Lemma Inv_init now_ns reg s :
  reply_instantiate reg (instantiate now_ns) = Ok s -> Inv s.
Proof.
  unfold reply_instantiate, instantiate. intros H. step H; [|discriminate]. inv H.
  constructor; simpl; try tauto; try constructor; discriminate.
Qed.
