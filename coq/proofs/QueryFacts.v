(** * QueryFacts: the queries report exactly what is stored and what is purchasable (C16). *)
From FM Require Export Backed.

(** ** Sorting is a permutation *)
Section SortPerm.
  Context {A : Type} (leb : A -> A -> bool).
  Lemma insert_sorted_perm x l : Permutation (insert_sorted leb x l) (x :: l).
  Proof.
    induction l as [|y r IH]; simpl; [reflexivity|]. destruct (leb x y); [reflexivity|].
    rewrite IH. apply perm_swap.
  Qed.
  Lemma isort_perm l : Permutation (isort leb l) l.
  Proof. induction l as [|x r IH]; simpl; [reflexivity|]. rewrite insert_sorted_perm. constructor. exact IH. Qed.
End SortPerm.

Lemma In_firstn {A} (x : A) n l : In x (firstn n l) -> In x l.
Proof. intros H. rewrite <- (firstn_skipn n l). apply in_or_app. left. exact H. Qed.
Lemma In_skipn {A} (x : A) n l : In x (skipn n l) -> In x l.
Proof. intros H. rewrite <- (firstn_skipn n l). apply in_or_app. right. exact H. Qed.

(** ** Paging: pages 1 .. n laid end to end are the first 20 n entries *)
Lemma firstn_add {A} a b (l : list A) : firstn (a + b) l = firstn a l ++ firstn b (skipn a l).
Proof.
  revert l. induction a as [|a IH]; intros l; simpl; [reflexivity|]. destruct l as [|x r]; simpl.
  - rewrite firstn_nil. reflexivity.
  - rewrite IH. reflexivity.
Qed.

Definition pages_upto {A} (n : nat) (l : list A) : list A :=
  concat (map (fun p => page_of (N.of_nat p) l) (seq 1 n)).

Lemma to_skip_of_nat p : (1 <= p)%nat -> to_skip (N.of_nat p) = (20 * (p - 1))%nat.
Proof. intros H. unfold to_skip. lia. Qed.

Lemma pages_upto_firstn {A} n (l : list A) : pages_upto n l = firstn (20 * n) l.
Proof.
  unfold pages_upto. induction n as [|n IH]; [reflexivity|].
  rewrite seq_S, map_app, concat_app, IH. cbn [map concat]. rewrite app_nil_r.
  unfold page_of, PAGE. rewrite to_skip_of_nat by lia.
  replace (20 * (1 + n - 1))%nat with (20 * n)%nat by lia.
  replace (20 * S n)%nat with (20 * n + 20)%nat by lia. rewrite firstn_add. reflexivity.
Qed.

(** Pages 1 .. 255 together hold every entry exactly once (up to the reach of an 8-bit page
    number, 5100 entries). *)
Theorem pages_complete {A} (l : list A) : (length l <= 20 * 255)%nat -> pages_upto 255 l = l.
Proof. intros H. rewrite pages_upto_firstn. apply firstn_all2. exact H. Qed.

(** ** Owner queries *)
Theorem owner_listings_pages s o :
  valid_addr o = true -> (length (owned o (listings s)) <= 20 * 255)%nat ->
  (forall p, (1 <= p <= 255)%nat ->
     get_listings_by_owner s o (N.of_nat p) = Ok (map snd (page_of (N.of_nat p) (owned o (listings s))))) /\
  pages_upto 255 (owned o (listings s)) = owned o (listings s) /\
  Permutation (owned o (listings s)) (filter (fun e => fst (fst e) =? o) (listings s)).
Proof.
  intros Hv Hl. splits.
  - intros p Hp. unfold get_listings_by_owner. rewrite Hv. unfold page_ok.
    assert (E : N.of_nat p <? 256 = true) by (apply N.ltb_lt; lia). rewrite E. reflexivity.
  - apply pages_complete, Hl.
  - unfold owned. apply isort_perm.
Qed.

Theorem owner_buckets_pages s o :
  valid_addr o = true -> (length (owned o (buckets s)) <= 20 * 255)%nat ->
  (forall p, (1 <= p <= 255)%nat ->
     get_buckets s o (N.of_nat p) = Ok (map (fun e => (snd (fst e), snd e)) (page_of (N.of_nat p) (owned o (buckets s))))) /\
  pages_upto 255 (owned o (buckets s)) = owned o (buckets s) /\
  Permutation (owned o (buckets s)) (filter (fun e => fst (fst e) =? o) (buckets s)).
Proof.
  intros Hv Hl. splits.
  - intros p Hp. unfold get_buckets. rewrite Hv. unfold page_ok.
    assert (E : N.of_nat p <? 256 = true) by (apply N.ltb_lt; lia). rewrite E. reflexivity.
  - apply pages_complete, Hl.
  - unfold owned. apply isort_perm.
Qed.

(** ** What is listed is what can be bought *)
Definition open_offer (now_ns : N) (l : listing) : Prop :=
  lstatus l = FinalizedReady /\ claimant l = None /\ exists x, exp l = Some x /\ now_ns <= x.

Lemma open_offer_b_iff s k l now_ns :
  Inv s -> In (k, l) (listings s) -> (open_offer_b now_ns l = true <-> open_offer now_ns l).
Proof.
  intros I Hin. pose proof (wl_life _ _ (inv_l s I _ _ Hin)) as L. unfold life_ok in L.
  unfold open_offer_b, open_offer. split.
  - intros H. apply andb_true_iff in H. destruct H as [H1 H2]. destruct (exp l) as [x|] eqn:Ex; [|discriminate].
    apply N.leb_le in H1. destruct (lstatus l); simpl in H2; try discriminate.
    + destruct L as (_ & L2 & _). discriminate.
    + destruct L as (L1 & _). splits; try tauto. exists x. tauto.
  - intros (Hst & Hcl & x & Hx & Hle). rewrite Hx, Hst. apply N.leb_le in Hle. rewrite Hle. reflexivity.
Qed.

(** The whitelist query returns precisely the open offers reserved for that buyer. *)
Theorem whitelisted_precise s now_ns b l :
  Inv s -> valid_addr b = true ->
  ((exists ls, get_whitelisted s now_ns b = Ok ls /\ In l ls) <->
   (exists k, In (k, l) (listings s)) /\ wl l = Some b /\ open_offer now_ns l).
Proof.
  intros I Hv. unfold get_whitelisted. rewrite Hv. split.
  - intros (ls & E & Hin). inv E. apply filter_In in Hin. destruct Hin as [Hin Ho].
    apply in_map_iff in Hin. destruct Hin as ([k l'] & <- & Hin). simpl in *.
    apply (Permutation_in _ (isort_perm _ _)) in Hin. apply filter_In in Hin. destruct Hin as [Hin Hw]. simpl in Hw.
    split; [exists k; exact Hin|]. split.
    + destruct (wl l') as [w0|]; [|discriminate]. apply N.eqb_eq in Hw. congruence.
    + eapply open_offer_b_iff; eassumption.
  - intros ((k & Hin) & Hw & Ho). eexists. split; [reflexivity|]. apply filter_In. split.
    + apply in_map_iff. exists (k, l). split; [reflexivity|].
      apply (Permutation_in _ (Permutation_sym (isort_perm _ _))). apply filter_In. split; [exact Hin|]. simpl.
      rewrite Hw. apply N.eqb_refl.
    + eapply open_offer_b_iff; eassumption.
Qed.

(** An open offer lies inside the two-week window of the finalisation index. *)
Lemma open_offer_in_window s k l now_ns :
  Inv s -> In (k, l) (listings s) -> open_offer now_ns l -> seconds now_ns - MAX_LIFE <= fin_secs l.
Proof.
  intros I Hin (Hst & _ & x & Hx & Hle). pose proof (wl_life _ _ (inv_l s I _ _ Hin)) as L. unfold life_ok in L.
  rewrite Hst in L. destruct L as (_ & _ & f & secs & Hf & He & H1 & H2). rewrite Hx in He. inv He.
  unfold fin_secs, seconds. rewrite Hf. unfold MAX_LIFE, NANOS in *.
  assert (Hd : now_ns / 1000000000 <= (f + secs * 1000000000) / 1000000000) by (apply N.div_le_mono; lia).
  rewrite N.div_add in Hd by lia. lia.
Qed.

(** The market query (all pages together) returns precisely the open offers. *)
Theorem market_precise s now_ns l :
  Inv s -> (length (market_window s now_ns) <= 20 * 255)%nat ->
  ((exists p ls, (1 <= p <= 255)%nat /\ get_listings_for_market s now_ns (N.of_nat p) = Ok ls /\ In l ls) <->
   (exists k, In (k, l) (listings s)) /\ open_offer now_ns l).
Proof.
  intros I Hl. split.
  - intros (p & ls & Hp & E & Hin). unfold get_listings_for_market in E. step E; [|discriminate]. inv E.
    apply filter_In in Hin. destruct Hin as [Hin Ho]. apply in_map_iff in Hin. destruct Hin as ([k l'] & <- & Hin). simpl in *.
    unfold page_of in Hin. apply In_firstn, In_skipn in Hin. unfold market_window in Hin.
    apply (Permutation_in _ (isort_perm _ _)) in Hin. apply filter_In in Hin. destruct Hin as [Hin _].
    split; [exists k; exact Hin | eapply open_offer_b_iff; eassumption].
  - intros ((k & Hin) & Ho).
    assert (Hw : In (k, l) (market_window s now_ns)).
    { unfold market_window. apply (Permutation_in _ (Permutation_sym (isort_perm _ _))). apply filter_In. split; [exact Hin|].
      simpl. apply N.leb_le. eapply open_offer_in_window; eassumption. }
    rewrite <- (pages_complete _ Hl) in Hw. unfold pages_upto in Hw. apply in_concat in Hw.
    destruct Hw as (pg & Hpg & Hin'). apply in_map_iff in Hpg. destruct Hpg as (p & <- & Hp). apply in_seq in Hp.
    exists p. eexists. split; [lia|]. split.
    + unfold get_listings_for_market, page_ok. assert (E : N.of_nat p <? 256 = true) by (apply N.ltb_lt; lia). rewrite E. reflexivity.
    + apply filter_In. split; [apply in_map_iff; exists (k, l); split; [reflexivity | exact Hin']|].
      eapply open_offer_b_iff; eassumption.
Qed.

(** A listed item is purchasable as far as the listing itself goes: the status, claimant and
    expiry conjuncts of C02's terms hold at that block time. *)
Theorem listed_is_purchasable s k l now_ns :
  Inv s -> In (k, l) (listings s) -> open_offer_b now_ns l = true ->
  lstatus l = FinalizedReady /\ claimant l = None /\ (forall x, exp l = Some x -> now_ns <= x).
Proof.
  intros I Hin Ho. apply (open_offer_b_iff s k l now_ns I Hin) in Ho. destruct Ho as (H1 & H2 & x & Hx & Hle).
  splits; try assumption. intros y Hy. congruence.
Qed.

(** ** The fee query *)
Theorem fee_query_truthful w :
  let '(_, denom, nc) := get_fee_denom (market w) in
  denom = fee_denom_value (fee (market w)) /\
  (forall a fs fail, seconds (wnow w) <= nc -> fst (step w (Exec a fs FeeCycle fail)) = w) /\
  (forall a, nc < seconds (wnow w) -> ok (snd (step w (Exec a [] FeeCycle None))) = true).
Proof.
  unfold get_fee_denom. destruct (fee (market w)) as [last | last] eqn:E; (split; [reflexivity|]); split.
  - intros a fs fail H. apply cycle_refused. rewrite E. exact H.
  - intros a H. apply cycle_accepted. rewrite E. exact H.
  - intros a fs fail H. apply cycle_refused. rewrite E. exact H.
  - intros a H. apply cycle_accepted. rewrite E. exact H.
Qed.
