(** * Reach: from handler-level facts to every reachable world. *)
From FM Require Export Preserve.

(** Dispatch only moves ledgers. *)
Definition same_static (w w' : world) : Prop :=
  market w' = market w /\ registry w' = registry w /\ kind w' = kind w /\ admin w' = admin w /\
  wnow w' = wnow w /\ height w' = height w /\ hostile_fail w' = hostile_fail w /\
  self_addr w' = self_addr w /\ reg_addr w' = reg_addr w /\ pool_addr w' = pool_addr w.

Lemma same_static_refl w : same_static w w.
Proof. unfold same_static. tauto. Qed.

Lemma same_static_trans a b c : same_static a b -> same_static b c -> same_static a c.
Proof. unfold same_static. intuition congruence. Qed.

Lemma dispatch1_static w m w' : dispatch1 w m = Ok w' -> same_static w w'.
Proof.
  unfold dispatch1. intros H. destruct m as [to cs | t to a | c to k | dep [d a]].
  - steps H. unfold same_static. simpl. tauto.
  - destruct (kind w t); try discriminate; steps H; try apply same_static_refl; unfold same_static; simpl; tauto.
  - destruct (kind w c); try discriminate; steps H; try apply same_static_refl; unfold same_static; simpl; tauto.
  - steps H. unfold same_static. simpl. tauto.
Qed.

Lemma dispatch_static ms : forall w i fail w', dispatch w i fail ms = Ok w' -> same_static w w'.
Proof.
  induction ms as [|m r IH]; simpl; intros w i fail w' H; [inv H; apply same_static_refl|].
  step H; [discriminate|]. step H.
  eapply same_static_trans; [eapply dispatch1_static; eassumption | eapply IH; eassumption].
Qed.

Lemma run_market_inv w sender fs m fail w' out :
  run_market w sender fs m fail = Ok (w', out) ->
  exists s', execute (oracle_of w) (env_of w) sender fs m (market w) = Ok (s', out) /\
             dispatch (set_market w s') 0 fail out = Ok w' /\ market w' = s'.
Proof.
  unfold run_market. intros H. step H. destruct x as [s' o']. step H. inv H.
  exists s'. splits; try assumption. apply dispatch_static in Hb0. destruct Hb0 as [Hm _]. exact Hm.
Qed.

(** What a step can do to the marketplace state: nothing, or one successful [execute]. *)
Lemma try_step_market w o w' out :
  try_step w o = Ok (w', out) ->
  market w' = market w \/
  exists w0 sender fs m, market w0 = market w /\ wnow w0 = wnow w /\ self_addr w0 = self_addr w /\
    registry w0 = registry w /\ reg_addr w0 = reg_addr w /\ kind w0 = kind w /\ admin w0 = admin w /\
    execute (oracle_of w0) (env_of w0) sender fs m (market w) = Ok (market w', out) /\
    match o with
    | Exec sd f mm _ => sender = sd /\ fs = f /\ m = mm
    | Cw20Send user t amt inner _ => sender = t /\ fs = [] /\ m = Receive user amt inner /\ kind w t = KCw20
    | NftSend user c k inner _ => sender = c /\ fs = [] /\ m = ReceiveNft user k inner /\ kind w c = KCw721
    | _ => False
    end.
Proof.
  unfold try_step. intros H. destruct o.
  - step H. apply run_market_inv in H. destruct H as (s' & He & _ & Hm). right.
    exists (set_bank w x), sender, funds_, m. simpl in *. subst s'. splits; try reflexivity; try assumption.
  - destruct (kind w token) eqn:Hk; try discriminate. step H.
    apply run_market_inv in H. destruct H as (s' & He & _ & Hm). right.
    exists (set_cw20 w x), token, [], (Receive user amt inner). simpl in *. subst s'. splits; try reflexivity; try assumption.
  - destruct (kind w coll) eqn:Hk; try discriminate. step H.
    apply run_market_inv in H. destruct H as (s' & He & _ & Hm). right.
    exists (set_nft w x), coll, [], (ReceiveNft user tok inner). simpl in *. subst s'. splits; try reflexivity; try assumption.
  - left. steps H; reflexivity.
  - left. steps H; reflexivity.
  - left. steps H; reflexivity.
  - left. steps H; reflexivity.
  - left. steps H; reflexivity.
  - left. steps H; reflexivity.
  - left. steps H; reflexivity.
Qed.

Lemma step_fst w o : fst (step w o) = match try_step w o with Ok (w', _) => w' | Err => w end.
Proof. unfold step. destruct (try_step w o) as [[w' out]|]; reflexivity. Qed.

Theorem step_Inv w o : Inv (market w) -> Inv (market (fst (step w o))).
Proof.
  intros I. rewrite step_fst. destruct (try_step w o) as [[w' out]|] eqn:H; [|exact I].
  apply try_step_market in H. destruct H as [-> | (w0 & sender & fs & m & _ & _ & _ & _ & _ & _ & _ & He & _)]; [exact I|].
  eapply execute_pres; eassumption.
Qed.

Theorem run_Inv ops : forall w, Inv (market w) -> Inv (market (run w ops)).
Proof.
  unfold run. induction ops as [|o r IH]; simpl; intros w I; [exact I|]. apply IH, step_Inv, I.
Qed.

(** A refused step has no effect at all. *)
Theorem step_refused_no_effect w o : ok (snd (step w o)) = false -> fst (step w o) = w.
Proof. unfold step. destruct (try_step w o) as [[w' out]|]; simpl; [discriminate | reflexivity]. Qed.

(** Worlds whose marketplace was set up by instantiate + reply. *)
Definition initial (w : world) : Prop :=
  exists t, reply_instantiate (reg_addr w) (instantiate t) = Ok (market w).

Theorem reach_Inv w ops : initial w -> Inv (market (run w ops)).
Proof. intros [t Ht]. apply run_Inv. eapply Inv_init. exact Ht. Qed.

(** The registry changes only through registry messages. *)
Lemma try_step_registry w o w' out :
  try_step w o = Ok (w', out) ->
  registry w' = registry w \/
  exists a m, o = RegExec a m /\ reg_execute (contract_info_of w) (height w) a m (registry w) = Ok (registry w').
Proof.
  unfold try_step. intros H. destruct o.
  - left. step H. apply run_market_inv in H. destruct H as (s' & _ & Hd & _).
    apply dispatch_static in Hd. destruct Hd as (_ & Hr & _). exact Hr.
  - left. destruct (kind w token); try discriminate. step H. apply run_market_inv in H. destruct H as (s' & _ & Hd & _).
    apply dispatch_static in Hd. destruct Hd as (_ & Hr & _). exact Hr.
  - left. destruct (kind w coll); try discriminate. step H. apply run_market_inv in H. destruct H as (s' & _ & Hd & _).
    apply dispatch_static in Hd. destruct Hd as (_ & Hr & _). exact Hr.
  - left. steps H; reflexivity.
  - left. steps H; reflexivity.
  - left. steps H; reflexivity.
  - right. step H. inv H. exists sender, m. split; [reflexivity | exact Hb].
  - left. steps H; reflexivity.
  - left. steps H; reflexivity.
  - left. steps H; reflexivity.
Qed.
