(** * Reentrant: the backing of the escrow survives a hostile token that re-enters the marketplace
    during dispatch (model/Reentry.v).

    Between two transactions the marketplace holds exactly what its records owe ([Backed.backed]).
    Inside a transaction that equation is false: the state has been committed and part of the
    messages are still in flight.  What holds at every intermediate point, and is preserved by any
    operation an outsider performs there, is

        holdings = obligations + what is still in flight                       ([surplus])

    so a re-entrant call finds the marketplace over-collateralised by exactly the undelivered
    messages, cannot touch that surplus (each of its own operations conserves [holdings -
    obligations]), and the equation without surplus is restored when the last message is delivered. *)
From FM Require Export Backed Reentry.

(** ** Conservative extension *)
Lemma rdispatch_nil ms : forall w i fail, rdispatch w i fail [] ms = dispatch w i fail ms.
Proof.
  induction ms as [|m r IH]; intros w i fail; [reflexivity|]. cbn [rdispatch dispatch].
  destruct (match fail with Some j => Nat.eqb i j | None => false end); [reflexivity|].
  destruct (dispatch1 w m) as [w1|]; [|reflexivity]. cbn [bind].
  destruct (to_hostile w m); unfold run; cbn [fold_left]; apply IH.
Qed.

Theorem rstep_no_program w o : rstep w o [] = step w o.
Proof.
  unfold rstep, step. assert (E : rtry_step w o [] = try_step w o); [|rewrite E; reflexivity].
  assert (Hr : forall w1 sender fs m fail, rrun_market w1 sender fs m fail [] = run_market w1 sender fs m fail).
  { intros. unfold rrun_market, run_market. destruct (execute _ _ _ _ _ _) as [[s' out]|]; [|reflexivity].
    cbn [bind]. rewrite rdispatch_nil. reflexivity. }
  destruct o; try reflexivity; unfold rtry_step, try_step.
  - destruct (pay_funds _ _ _ _); [|reflexivity]. cbn [bind]. apply Hr.
  - destruct (kind w token); try reflexivity. destruct (cw20_move _ _ _ _ _); [|reflexivity]. cbn [bind]. apply Hr.
  - destruct (kind w coll); try reflexivity. destruct (nft_move _ _ _ _ _); [|reflexivity]. cbn [bind]. apply Hr.
Qed.

(** All-or-nothing is built into the rule: a transaction that fails anywhere — in the handler, in
    a message before or after the re-entrant calls — leaves the world as it was, the effects of
    the re-entrant calls included. *)
Theorem rstep_refused_no_effect w o prog : ok (snd (rstep w o prog)) = false -> fst (rstep w o prog) = w.
Proof. unfold rstep. destruct (rtry_step w o prog) as [[w' out]|]; simpl; [discriminate | reflexivity]. Qed.

(** ** The parts of [good] that do not speak about holdings *)
Record sound (w : world) : Prop := mkSound {
  s_inv : Inv (market w);
  s_clean : reg_clean w;
  s_pool : pool_addr w <> self_addr w;
  s_self : kind w (self_addr w) = KMarket
}.

Lemma good_sound w : good w -> sound w.
Proof. intros [A B C D _]. constructor; assumption. Qed.

Lemma outside_ok_static w w' o :
  kind w' = kind w -> self_addr w' = self_addr w -> outside_ok w o -> outside_ok w' o.
Proof. intros Hk Hs. unfold outside_ok. rewrite Hk, Hs. tauto. Qed.

Lemma step_static w o :
  kind (fst (step w o)) = kind w /\ self_addr (fst (step w o)) = self_addr w /\ pool_addr (fst (step w o)) = pool_addr w.
Proof.
  rewrite step_fst. destruct (try_step w o) as [[w' out]|] eqn:H; [|tauto]. eapply try_step_static, H.
Qed.

Lemma step_sound w o : sound w -> outside_ok w o -> sound (fst (step w o)).
Proof.
  intros [A B C D] Ho. destruct (step_static w o) as (Hk & Hs & Hp). constructor.
  - apply step_Inv, A.
  - apply step_reg_clean; assumption.
  - congruence.
  - congruence.
Qed.

(** ** Surplus *)
Definition surplus (e : asset -> N) (w : world) : Prop :=
  forall x, honest_asset w x -> held w x = owed x (market w) + e x.

Lemma backed_surplus w : backed w <-> surplus (fun _ => 0) w.
Proof. unfold backed, surplus. split; intros H x Hx; rewrite (H x Hx); lia. Qed.

Lemma run_market_surplus e w1 sender fs m fail w' out :
  Inv (market w1) -> reg_clean w1 -> pool_addr w1 <> self_addr w1 -> sender <> self_addr w1 ->
  (forall x, honest_asset w1 x -> held w1 x = owed x (market w1) + dep x sender fs m + e x) ->
  run_market w1 sender fs m fail = Ok (w', out) ->
  forall x, honest_asset w1 x -> held w' x = owed x (market w') + e x.
Proof.
  intros I Hc Hp Hs Hheld H x Hx. apply run_market_inv in H. destruct H as (s' & He & Hd & Hm).
  apply dispatch_fail_none in Hd.
  pose proof (execute_recipients (self_addr w1) _ _ _ _ _ _ _ _ He Hs (oracle_of_clean _ Hc)) as Hr.
  pose proof (accounting x _ _ _ _ _ _ _ _ I He) as Ha.
  pose proof (dispatch_held _ _ _ _ x Hd Hr Hp) as Hh. simpl in Hh.
  assert (Hx' : honest_asset (set_market w1 s') x) by (destruct x; exact Hx).
  specialize (Hh Hx'). assert (E : held (set_market w1 s') x = held w1 x) by (destruct x; reflexivity).
  rewrite E, (Hheld x Hx) in Hh. rewrite Hm. lia.
Qed.

(** How an operation enters the marketplace: the world after the deposit has been credited, and
    the call the marketplace sees. *)
Definition enter (w : world) (o : op) : option (result (world * addr * list coin * exec_msg * option nat)) :=
  match o with
  | Exec sender fs m fail =>
      Some (b <- pay_funds (bank w) sender (self_addr w) fs ;; Ok (set_bank w b, sender, fs, m, fail))
  | Cw20Send user t amt inner fail =>
      Some (match kind w t with
            | KCw20 => c <- cw20_move (cw20bal w) t user (self_addr w) amt ;; Ok (set_cw20 w c, t, [], Receive user amt inner, fail)
            | _ => Err
            end)
  | NftSend user c k inner fail =>
      Some (match kind w c with
            | KCw721 => n <- nft_move (nft_owner w) c k user (self_addr w) ;; Ok (set_nft w n, c, [], ReceiveNft user k inner, fail)
            | _ => Err
            end)
  | _ => None
  end.

Lemma try_step_enter w o r :
  enter w o = Some r ->
  try_step w o = match r with Ok (w1, sender, fs, m, fail) => run_market w1 sender fs m fail | Err => Err end.
Proof.
  destruct o; simpl; intros E; inv E; unfold try_step.
  - destruct (pay_funds _ _ _ _); reflexivity.
  - destruct (kind w token); try reflexivity. destruct (cw20_move _ _ _ _ _); reflexivity.
  - destruct (kind w coll); try reflexivity. destruct (nft_move _ _ _ _ _); reflexivity.
Qed.

Lemma rtry_step_enter w o prog r :
  enter w o = Some r ->
  rtry_step w o prog = match r with Ok (w1, sender, fs, m, fail) => rrun_market w1 sender fs m fail prog | Err => Err end.
Proof.
  destruct o; simpl; intros E; inv E; unfold rtry_step.
  - destruct (pay_funds _ _ _ _); reflexivity.
  - destruct (kind w token); try reflexivity. destruct (cw20_move _ _ _ _ _); reflexivity.
  - destruct (kind w coll); try reflexivity. destruct (nft_move _ _ _ _ _); reflexivity.
Qed.

Lemma rtry_step_other w o prog : enter w o = None -> rtry_step w o prog = try_step w o.
Proof. destruct o; simpl; intros E; try discriminate; reflexivity. Qed.

(** The deposit is credited to the marketplace, and nothing else about it changes. *)
Lemma enter_held w o w1 sender fs m fail :
  enter w o = Some (Ok (w1, sender, fs, m, fail)) -> kind w (self_addr w) = KMarket -> outside_ok w o ->
  market w1 = market w /\ registry w1 = registry w /\ kind w1 = kind w /\ self_addr w1 = self_addr w /\
  pool_addr w1 = pool_addr w /\ reg_addr w1 = reg_addr w /\ sender <> self_addr w /\
  forall x, honest_asset w x -> held w1 x = held w x + dep x sender fs m.
Proof.
  intros E Hself Ho. destruct o; simpl in E; try discriminate; simpl in Ho.
  - (* Exec *) destruct Ho as [Hne Hkind]. inversion E as [E']. clear E. step E'. inv E'. rename x into b.
    splits; try reflexivity; try assumption.
    intros y Hy. destruct y as [d | t | c k]; simpl.
    + apply (pay_funds_dst _ _ _ _ _ d Hb Hne).
    + assert (sender <> t) by (destruct Hkind as [E | E]; eapply kind_ne; try eassumption; discriminate).
      destruct m; try lia. apply N.eqb_neq in H. rewrite H. lia.
    + assert (sender <> c) by (destruct Hkind as [E | E]; eapply kind_ne; try eassumption; discriminate).
      unfold owns. simpl. destruct m; try lia. unfold pair_eqb. cbn [fst snd]. apply N.eqb_neq in H. rewrite H. simpl. lia.
  - (* Cw20Send *) inversion E as [E']. clear E. destruct (kind w token) eqn:Hkt; try discriminate. step E'. inv E'. rename x into c.
    assert (Htok : sender <> self_addr w) by (eapply kind_ne; try eassumption; discriminate).
    splits; try reflexivity; try assumption.
    intros y Hy. destruct y as [d | t | c' k]; simpl.
    + lia.
    + destruct (N.eqb_spec sender t) as [->|Hn].
      * eapply cw20_move_dst; [exact Hb | exact Ho].
      * rewrite (cw20_move_other _ _ _ _ _ _ t (self_addr w) Hb) by (left; congruence). lia.
    + unfold owns. simpl. lia.
  - (* NftSend *) inversion E as [E']. clear E. destruct (kind w coll) eqn:Hkc; try discriminate. step E'. inv E'. rename x into n.
    assert (Hcol : sender <> self_addr w) by (eapply kind_ne; try eassumption; discriminate).
    splits; try reflexivity; try assumption.
    intros y Hy. destruct y as [d | t | c' k]; simpl.
    + lia.
    + lia.
    + destruct (nft_move_owns _ _ _ _ _ _ (self_addr w) c' k Hb) as [O1 O2].
      unfold owns. simpl. fold (owns' n (self_addr w) c' k). fold (owns' (nft_owner w) (self_addr w) c' k).
      rewrite O2. unfold pair_eqb. cbn [fst snd]. rewrite (N.eqb_sym c' sender), (N.eqb_sym k tok).
      destruct ((sender =? c') && (tok =? k)) eqn:E; [|lia].
      apply andb_true_iff in E. destruct E as [E1 E2]. apply N.eqb_eq in E1, E2. subst c' k.
      rewrite N.eqb_refl.
      assert (Z : owns' (nft_owner w) (self_addr w) sender tok = 0).
      { unfold owns' in *. destruct (nft_owner w sender tok) as [o|]; [|reflexivity].
        destruct (N.eqb_spec o user); [|discriminate]. subst o. apply N.eqb_neq in Ho. rewrite Ho. reflexivity. }
      rewrite Z. reflexivity.
Qed.

(** Operations that do not enter the marketplace leave its holdings and its state alone. *)
Lemma other_held w o w' out :
  enter w o = None -> try_step w o = Ok (w', out) -> outside_ok w o ->
  market w' = market w /\ forall x, held w' x = held w x.
Proof.
  intros E H Ho. unfold try_step in H. destruct o; simpl in E; try discriminate; simpl in Ho.
  - (* Cw20Xfer *) destruct Ho as [Hu Ht]. destruct (kind w token) eqn:Hkt; try discriminate. step H. inv H.
    split; [reflexivity|]. intros [d | t | c' k]; simpl; try reflexivity.
    apply (cw20_move_other _ _ _ _ _ _ t (self_addr w) Hb). right. split; congruence.
  - (* NftXfer *) destruct Ho as [Hu Ht]. destruct (kind w coll) eqn:Hkc; try discriminate. step H. inv H.
    split; [reflexivity|]. intros [d | t | c' k]; simpl; try reflexivity.
    destruct (nft_move_owns _ _ _ _ _ _ (self_addr w) c' k Hb) as [O1 O2].
    unfold owns. simpl. fold (owns' x (self_addr w) c' k). fold (owns' (nft_owner w) (self_addr w) c' k).
    rewrite O2. unfold pair_eqb. cbn [fst snd]. destruct ((c' =? coll) && (k =? tok)) eqn:E'; [|reflexivity].
    apply andb_true_iff in E'. destruct E' as [E1 E2]. apply N.eqb_eq in E1, E2. subst c' k. apply N.eqb_neq in Ht. rewrite Ht.
    unfold owns' in *. destruct (nft_owner w coll tok) as [o|]; [|reflexivity].
    destruct (N.eqb_spec o user); [|discriminate]. subst o. apply N.eqb_neq in Hu. rewrite Hu. reflexivity.
  - (* BankXfer *) destruct Ho as [Hu Ht].
    remember (filter (fun c : denom * N => negb (snd c =? 0)) cs) as nz. destruct nz; [discriminate|]. step H. inv H.
    split; [reflexivity|]. intros [d | t | c' k]; simpl; try reflexivity.
    eapply bank_move_third; [exact Hb | congruence | congruence].
  - step H. inv H. split; [reflexivity|]. intros [d | t | c' k]; reflexivity.
  - step H; [|discriminate]. inv H. split; [reflexivity|]. intros [d | t | c' k]; reflexivity.
  - inv H. split; [reflexivity|]. intros [d | t | c' k]; reflexivity.
  - inv H. split; [reflexivity|]. intros [d | t | c' k]; reflexivity.
Qed.

Lemma honest_static w w' x : kind w' = kind w -> (honest_asset w' x <-> honest_asset w x).
Proof. intros Hk. destruct x; simpl; rewrite ?Hk; tauto. Qed.

(** Every operation of an outsider conserves the surplus. *)
Theorem step_surplus e w o : sound w -> surplus e w -> outside_ok w o -> surplus e (fst (step w o)).
Proof.
  intros [Iv Hc Hp Hself] Hb Ho. rewrite step_fst. destruct (try_step w o) as [[w' out]|] eqn:H; [|exact Hb].
  destruct (try_step_static _ _ _ _ H) as (Hk & Hs & Hpl).
  intros x Hx. apply (honest_static w w' x Hk) in Hx.
  destruct (enter w o) as [r|] eqn:En.
  - rewrite (try_step_enter _ _ _ En) in H. destruct r as [[[[[w1 sender] fs] m] fail]|]; [|discriminate].
    destruct (enter_held _ _ _ _ _ _ _ En Hself Ho) as (Em & Er & Ek & Es & Epl & Erg & Hne & Hh).
    assert (Hc1 : reg_clean w1) by (unfold reg_clean; rewrite Er, Es; exact Hc).
    eapply (run_market_surplus e w1); try eassumption.
    + rewrite Em. exact Iv.
    + congruence.
    + congruence.
    + intros y Hy. apply (honest_static w w1 y Ek) in Hy. rewrite (Hh y Hy), (Hb y Hy), Em. lia.
    + apply (honest_static w w1 x Ek). exact Hx.
  - destruct (other_held _ _ _ _ En H Ho) as [Em Hh]. rewrite Hh, Em. apply Hb, Hx.
Qed.

Theorem run_surplus e ops : forall w,
  sound w -> surplus e w -> Forall (outside_ok w) ops ->
  sound (run w ops) /\ surplus e (run w ops) /\
  kind (run w ops) = kind w /\ self_addr (run w ops) = self_addr w /\ pool_addr (run w ops) = pool_addr w.
Proof.
  unfold run. induction ops as [|o r IH]; cbn [fold_left]; intros w S Hb Ho; [tauto|].
  inversion Ho as [|? ? Ho1 Ho2]; subst.
  destruct (step_static w o) as (Hk & Hs & Hp).
  destruct (IH (fst (step w o))) as (A & B & C & D & F).
  - apply step_sound; assumption.
  - apply step_surplus; assumption.
  - eapply Forall_impl; [|exact Ho2]. intros a Ha. eapply outside_ok_static; eassumption.
  - splits; try assumption; congruence.
Qed.

(** ** Dispatch with re-entry: the surplus is what is still in flight *)
Lemma sent_cons x m r : sent x (m :: r) = msg_val x m + sent x r.
Proof. reflexivity. Qed.

Lemma rdispatch_backed ms : forall w i fail prog w',
  rdispatch w i fail prog ms = Ok w' ->
  sound w -> Forall (recipient_ok (self_addr w)) ms -> Forall (outside_ok w) prog ->
  surplus (fun x => sent x ms) w ->
  sound w' /\ backed w' /\ kind w' = kind w /\ self_addr w' = self_addr w /\ pool_addr w' = pool_addr w.
Proof.
  induction ms as [|m r IH]; intros w i fail prog w' H S Hr Hprog Hb.
  - simpl in H. inv H. splits; try assumption; try reflexivity.
    apply backed_surplus. intros x Hx. rewrite (Hb x Hx). unfold sent. simpl. reflexivity.
  - cbn [rdispatch] in H. step H; [discriminate|]. step H. rename x into w1. inversion Hr as [|? ? Hr1 Hr2]; subst.
    pose proof (dispatch1_static _ _ _ Hb0) as (Em & Er & Ek & _ & _ & _ & _ & Es & Erg & Epl).
    pose proof S as [Iv Hcl Hp Hself].
    assert (S1 : sound w1).
    { constructor; [rewrite Em; exact Iv | unfold reg_clean; rewrite Er, Es; exact Hcl | congruence | congruence]. }
    assert (B1 : surplus (fun x => sent x r) w1).
    { intros x Hx. apply (honest_static w w1 x Ek) in Hx.
      pose proof (dispatch1_held _ _ _ x Hb0 Hr1 Hp Hx) as E1. rewrite Em. rewrite (Hb x Hx), sent_cons in E1. lia. }
    assert (Hr2' : Forall (recipient_ok (self_addr w1)) r) by (rewrite Es; exact Hr2).
    destruct (to_hostile w m).
    + assert (Hprog1 : Forall (outside_ok w1) prog).
      { eapply Forall_impl; [|exact Hprog]. intros a Ha. eapply outside_ok_static; eassumption. }
      destruct (run_surplus _ prog w1 S1 B1 Hprog1) as (S2 & B2 & Ek2 & Es2 & Ep2).
      destruct (IH _ _ _ _ _ H S2) as (A & B & C & D & F); try assumption.
      * rewrite Es2. exact Hr2'.
      * constructor.
      * splits; try assumption; congruence.
    + destruct (IH _ _ _ _ _ H S1) as (A & B & C & D & F); try assumption.
      * eapply Forall_impl; [|exact Hprog]. intros a Ha. eapply outside_ok_static; eassumption.
      * splits; try assumption; congruence.
Qed.

(** ** A transaction with re-entry preserves [good] *)
Theorem rstep_good w o prog :
  good w -> outside_ok w o -> Forall (outside_ok w) prog -> good (fst (rstep w o prog)).
Proof.
  intros G Ho Hprog. pose proof G as [Iv Hc Hp Hself Hb]. unfold rstep.
  destruct (rtry_step w o prog) as [[w' out]|] eqn:H; [|exact G]. cbn [fst].
  destruct (enter w o) as [r|] eqn:En.
  - rewrite (rtry_step_enter _ _ _ _ En) in H. destruct r as [[[[[w1 sender] fs] m] fail]|]; [|discriminate].
    destruct (enter_held _ _ _ _ _ _ _ En Hself Ho) as (Em & Er & Ek & Es & Epl & Erg & Hne & Hh).
    unfold rrun_market in H. step H. destruct x as [s' out']. step H. inv H.
    assert (Hc1 : reg_clean w1) by (unfold reg_clean; rewrite Er, Es; exact Hc).
    assert (Iv1 : Inv (market w1)) by (rewrite Em; exact Iv).
    assert (Hne1 : sender <> self_addr w1) by congruence.
    pose proof (execute_recipients (self_addr w1) _ _ _ _ _ _ _ _ Hb0 Hne1 (oracle_of_clean _ Hc1)) as Hr.
    assert (S1 : sound (set_market w1 s')).
    { constructor; simpl.
      - eapply execute_pres; eassumption.
      - exact Hc1.
      - congruence.
      - congruence. }
    destruct (rdispatch_backed _ _ _ _ _ _ Hb1 S1) as (A & B & C & D & F).
    + exact Hr.
    + eapply Forall_impl; [|exact Hprog]. intros a Ha. eapply (outside_ok_static w); simpl; assumption.
    + intros x Hx. assert (Hx1 : honest_asset w x) by (destruct x; simpl in *; congruence).
      pose proof (accounting x _ _ _ _ _ _ _ _ Iv1 Hb0) as Ha.
      assert (E : held (set_market w1 s') x = held w1 x) by (destruct x; reflexivity).
      rewrite E, (Hh x Hx1), (Hb x Hx1). simpl. rewrite Em in Ha. lia.
    + destruct A as [A1 A2 A3 A4]. constructor; assumption.
  - rewrite (rtry_step_other _ _ _ En) in H.
    pose proof (step_good w o G Ho) as G'. rewrite step_fst, H in G'. exact G'.
Qed.

(** Histories in which any transaction may carry a re-entry program. *)
Definition rrun (w : world) (tx : list (op * list op)) : world :=
  fold_left (fun w t => fst (rstep w (fst t) (snd t))) tx w.

Lemma rstep_static w o prog :
  good w -> outside_ok w o -> Forall (outside_ok w) prog ->
  kind (fst (rstep w o prog)) = kind w /\ self_addr (fst (rstep w o prog)) = self_addr w.
Proof.
  intros G Ho Hprog. pose proof G as [Iv Hc Hp Hself Hb]. unfold rstep.
  destruct (rtry_step w o prog) as [[w' out]|] eqn:H; [|tauto]. cbn [fst].
  destruct (enter w o) as [r|] eqn:En.
  - rewrite (rtry_step_enter _ _ _ _ En) in H. destruct r as [[[[[w1 sender] fs] m] fail]|]; [|discriminate].
    destruct (enter_held _ _ _ _ _ _ _ En Hself Ho) as (Em & Er & Ek & Es & Epl & Erg & Hne & Hh).
    unfold rrun_market in H. step H. destruct x as [s' out']. step H. inv H.
    assert (Hc1 : reg_clean w1) by (unfold reg_clean; rewrite Er, Es; exact Hc).
    assert (Iv1 : Inv (market w1)) by (rewrite Em; exact Iv).
    assert (Hne1 : sender <> self_addr w1) by congruence.
    pose proof (execute_recipients (self_addr w1) _ _ _ _ _ _ _ _ Hb0 Hne1 (oracle_of_clean _ Hc1)) as Hr.
    assert (S1 : sound (set_market w1 s')).
    { constructor; simpl; [eapply execute_pres; eassumption | exact Hc1 | congruence | congruence]. }
    destruct (rdispatch_backed _ _ _ _ _ _ Hb1 S1) as (A & B & C & D & F).
    + exact Hr.
    + eapply Forall_impl; [|exact Hprog]. intros a Ha. eapply (outside_ok_static w); simpl; assumption.
    + intros x Hx. assert (Hx1 : honest_asset w x) by (destruct x; simpl in *; congruence).
      pose proof (accounting x _ _ _ _ _ _ _ _ Iv1 Hb0) as Ha.
      assert (E : held (set_market w1 s') x = held w1 x) by (destruct x; reflexivity).
      rewrite E, (Hh x Hx1), (Hb x Hx1). simpl. rewrite Em in Ha. lia.
    + simpl in C, D. split; congruence.
  - rewrite (rtry_step_other _ _ _ En) in H. destruct (try_step_static _ _ _ _ H) as (Hk & Hs & _). tauto.
Qed.

Fixpoint all_routside_ok (w : world) (tx : list (op * list op)) : Prop :=
  match tx with
  | [] => True
  | t :: r => outside_ok w (fst t) /\ Forall (outside_ok w) (snd t) /\ all_routside_ok w r
  end.

Lemma all_routside_static w w' tx :
  kind w' = kind w -> self_addr w' = self_addr w -> all_routside_ok w tx -> all_routside_ok w' tx.
Proof.
  intros Hk Hs. induction tx as [|t r IH]; simpl; [tauto|]. intros (A & B & C). splits.
  - eapply outside_ok_static; eassumption.
  - eapply Forall_impl; [|exact B]. intros a Ha. eapply outside_ok_static; eassumption.
  - apply IH, C.
Qed.

Theorem rrun_good tx : forall w, good w -> all_routside_ok w tx -> good (rrun w tx).
Proof.
  unfold rrun. induction tx as [|t r IH]; cbn [fold_left]; intros w G Ho; [exact G|].
  destruct Ho as (A & B & C). destruct (rstep_static w (fst t) (snd t) G A B) as [Hk Hs].
  apply IH; [apply rstep_good; assumption | eapply all_routside_static; eassumption].
Qed.

(** The escrow is exactly backed after every history of transactions, re-entrant ones included. *)
Theorem escrow_backed_with_reentry w tx : fresh w -> all_routside_ok w tx -> backed (rrun w tx).
Proof. intros F Ho. apply g_backed. apply rrun_good; [apply fresh_good, F | exact Ho]. Qed.

(** ** Nobody but the initiators is debited, re-entrant calls included (C04, C19) *)
Lemma run_others ops : forall w a,
  Forall (fun n => op_initiator n <> Some a) ops -> a <> self_addr w ->
  nondecr w (run w ops) a /\ self_addr (run w ops) = self_addr w.
Proof.
  unfold run. induction ops as [|o r IH]; cbn [fold_left]; intros w a Hi Ha; [split; [apply nondecr_refl | reflexivity]|].
  inversion Hi as [|? ? Hi1 Hi2]; subst. destruct (step_static w o) as (_ & Hs & _).
  destruct (IH (fst (step w o)) a Hi2) as [A B]; [congruence|]. split; [|congruence].
  eapply nondecr_trans; [apply step_others_nondecreasing; [exact Hi1 | exact Ha] | exact A].
Qed.

Lemma rdispatch_others ms : forall w i fail prog w' a,
  rdispatch w i fail prog ms = Ok w' -> Forall (fun n => op_initiator n <> Some a) prog -> a <> self_addr w ->
  nondecr w w' a.
Proof.
  induction ms as [|m r IH]; intros w i fail prog w' a H Hi Ha; [simpl in H; inv H; apply nondecr_refl|].
  cbn [rdispatch] in H. step H; [discriminate|]. step H. rename x into w1.
  pose proof (dispatch1_static _ _ _ Hb) as (_ & _ & _ & _ & _ & _ & _ & Hs & _).
  eapply nondecr_trans; [eapply dispatch1_others; eassumption|].
  destruct (to_hostile w m).
  - destruct (run_others prog w1 a Hi) as [A B]; [congruence|].
    eapply nondecr_trans; [exact A|]. eapply IH; [exact H | constructor | congruence].
  - eapply IH; [exact H | exact Hi | congruence].
Qed.

Lemma enter_others w o w1 sender fs m fail a :
  enter w o = Some (Ok (w1, sender, fs, m, fail)) -> op_initiator o <> Some a ->
  nondecr w w1 a /\ self_addr w1 = self_addr w.
Proof.
  intros E Hi. destruct o; simpl in E; try discriminate; simpl in Hi; inversion E as [E']; clear E.
  - step E'. inv E'. split; [|reflexivity]. unfold nondecr. simpl. splits; try (intros; lia); try tauto.
    intros d. eapply pay_funds_others; [exact Hb | congruence].
  - destruct (kind w token); try discriminate. step E'. inv E'. split; [|reflexivity].
    unfold nondecr. simpl. splits; try (intros; lia); try tauto.
    intros t. eapply cw20_move_others; [exact Hb | congruence].
  - destruct (kind w coll); try discriminate. step E'. inv E'. split; [|reflexivity].
    unfold nondecr. simpl. splits; try (intros; lia).
    intros c k Ho. eapply nft_move_others; [exact Hb | congruence | exact Ho].
Qed.

Theorem rstep_others_nondecreasing w o prog a :
  op_initiator o <> Some a -> Forall (fun n => op_initiator n <> Some a) prog -> a <> self_addr w ->
  nondecr w (fst (rstep w o prog)) a.
Proof.
  intros Hi Hp Ha. unfold rstep. destruct (rtry_step w o prog) as [[w' out]|] eqn:H; [|apply nondecr_refl]. cbn [fst].
  destruct (enter w o) as [r|] eqn:En.
  - rewrite (rtry_step_enter _ _ _ _ En) in H. destruct r as [[[[[w1 sender] fs] m] fail]|]; [|discriminate].
    destruct (enter_others _ _ _ _ _ _ _ _ En Hi) as [A Es].
    unfold rrun_market in H. step H. destruct x as [s' out']. step H. inv H.
    eapply nondecr_trans; [exact A|].
    assert (E : nondecr w1 (set_market w1 s') a) by (unfold nondecr; simpl; splits; intros; try lia; assumption).
    eapply nondecr_trans; [exact E|]. eapply rdispatch_others; [exact Hb0 | exact Hp | simpl; congruence].
  - rewrite (rtry_step_other _ _ _ En) in H.
    pose proof (step_others_nondecreasing w o a Hi Ha) as G. rewrite step_fst, H in G. exact G.
Qed.

(** ** The contract-local invariant over histories with re-entry (C12, C09, C03 rest on it) *)
Lemma rdispatch_Inv ms : forall w i fail prog w',
  rdispatch w i fail prog ms = Ok w' -> Inv (market w) -> Inv (market w').
Proof.
  induction ms as [|m r IH]; intros w i fail prog w' H I; [simpl in H; inv H; exact I|].
  cbn [rdispatch] in H. step H; [discriminate|]. step H. rename x into w1.
  pose proof (dispatch1_static _ _ _ Hb) as (Em & _).
  assert (I1 : Inv (market w1)) by (rewrite Em; exact I).
  destruct (to_hostile w m); eapply IH; try exact H; [apply run_Inv, I1 | exact I1].
Qed.

Theorem rstep_Inv w o prog : Inv (market w) -> Inv (market (fst (rstep w o prog))).
Proof.
  intros I. unfold rstep. destruct (rtry_step w o prog) as [[w' out]|] eqn:H; [|exact I]. cbn [fst].
  destruct (enter w o) as [r|] eqn:En.
  - rewrite (rtry_step_enter _ _ _ _ En) in H. destruct r as [[[[[w1 sender] fs] m] fail]|]; [|discriminate].
    assert (Em : market w1 = market w).
    { destruct o; simpl in En; try discriminate; inversion En as [E']; clear En.
      - step E'. inv E'. reflexivity.
      - destruct (kind w token); try discriminate. step E'. inv E'. reflexivity.
      - destruct (kind w coll); try discriminate. step E'. inv E'. reflexivity. }
    unfold rrun_market in H. step H. destruct x as [s' out']. step H. inv H.
    eapply rdispatch_Inv; [exact Hb0|]. simpl. eapply execute_pres; [|exact Hb]. rewrite Em. exact I.
  - rewrite (rtry_step_other _ _ _ En) in H. pose proof (step_Inv w o I) as G. rewrite step_fst, H in G. exact G.
Qed.

Theorem rrun_Inv tx : forall w, Inv (market w) -> Inv (market (rrun w tx)).
Proof.
  unfold rrun. induction tx as [|t r IH]; cbn [fold_left]; intros w I; [exact I|]. apply IH, rstep_Inv, I.
Qed.

Theorem reach_wf_with_reentry w tx : initial w ->
  let s := market (rrun w tx) in
  (forall k l, In (k, l) (listings s) -> wf_listing k l) /\
  (forall k b, In (k, b) (buckets s) -> wf_bucket k b).
Proof.
  intros [t Ht] s. assert (I : Inv s) by (apply rrun_Inv; eapply Inv_init; exact Ht).
  split; [apply (inv_l _ I) | apply (inv_b _ I)].
Qed.

(** ** Whatever every marketplace call preserves, every re-entrant transaction preserves

    The marketplace state after a transaction with re-entry is reached from the state before it
    by successful [execute] calls only (the transaction's own and the nested ones).  So any
    reflexive, transitive relation that every successful call establishes between its pre- and
    post-state — from a state satisfying [Inv] — holds across the whole transaction and across
    every history of such transactions. *)
Section Trace.
  Variable R : mstate -> mstate -> Prop.
  Hypothesis R_refl : forall s, R s s.
  Hypothesis R_trans : forall a b c, R a b -> R b c -> R a c.
  Hypothesis R_exec : forall o e sender fs m s s' out,
    Inv s -> execute o e sender fs m s = Ok (s', out) -> R s s'.

  Lemma step_R w o : Inv (market w) -> R (market w) (market (fst (step w o))).
  Proof.
    intros I. rewrite step_fst. destruct (try_step w o) as [[w' out]|] eqn:H; [|apply R_refl].
    apply try_step_market in H. destruct H as [-> | (w0 & sender & fs & m & _ & _ & _ & _ & _ & _ & _ & He & _)]; [apply R_refl|].
    eapply R_exec; eassumption.
  Qed.

  Lemma run_R ops : forall w, Inv (market w) -> R (market w) (market (run w ops)).
  Proof.
    unfold run. induction ops as [|o r IH]; cbn [fold_left]; intros w I; [apply R_refl|].
    eapply R_trans; [apply step_R, I | apply IH, step_Inv, I].
  Qed.

  Lemma rdispatch_R ms : forall w i fail prog w',
    rdispatch w i fail prog ms = Ok w' -> Inv (market w) -> R (market w) (market w').
  Proof.
    induction ms as [|m r IH]; intros w i fail prog w' H I; [simpl in H; inv H; apply R_refl|].
    cbn [rdispatch] in H. step H; [discriminate|]. step H. rename x into w1.
    pose proof (dispatch1_static _ _ _ Hb) as (Em & _).
    assert (I1 : Inv (market w1)) by (rewrite Em; exact I). rewrite <- Em.
    destruct (to_hostile w m).
    - eapply R_trans; [apply run_R, I1|]. eapply IH; [exact H | apply run_Inv, I1].
    - eapply IH; [exact H | exact I1].
  Qed.

  Theorem rstep_R w o prog : Inv (market w) -> R (market w) (market (fst (rstep w o prog))).
  Proof.
    intros I. unfold rstep. destruct (rtry_step w o prog) as [[w' out]|] eqn:H; [|apply R_refl]. cbn [fst].
    destruct (enter w o) as [r|] eqn:En.
    - rewrite (rtry_step_enter _ _ _ _ En) in H. destruct r as [[[[[w1 sender] fs] m] fail]|]; [|discriminate].
      assert (Em : market w1 = market w).
      { destruct o; simpl in En; try discriminate; inversion En as [E']; clear En.
        - step E'. inv E'. reflexivity.
        - destruct (kind w token); try discriminate. step E'. inv E'. reflexivity.
        - destruct (kind w coll); try discriminate. step E'. inv E'. reflexivity. }
      unfold rrun_market in H. step H. destruct x as [s' out']. step H. inv H.
      assert (I1 : Inv (market w1)) by (rewrite Em; exact I).
      rewrite <- Em. eapply R_trans; [eapply R_exec; [exact I1 | exact Hb]|].
      apply (rdispatch_R _ _ _ _ _ _ Hb0). simpl. eapply execute_pres; [exact I1 | exact Hb].
    - rewrite (rtry_step_other _ _ _ En) in H. pose proof (step_R w o I) as G. rewrite step_fst, H in G. exact G.
  Qed.

  Theorem rrun_R tx : forall w, Inv (market w) -> R (market w) (market (rrun w tx)).
  Proof.
    unfold rrun. induction tx as [|t r IH]; cbn [fold_left]; intros w I; [apply R_refl|].
    eapply R_trans; [apply rstep_R, I | apply IH, rstep_Inv, I].
  Qed.
End Trace.

(** Instances.  The lifecycle rank of a listing id (unused < preparing < finalized < sold < gone)
    never decreases (C08, C03), and used ids are never forgotten (C09), across histories with
    re-entry. *)
Theorem rrun_rank_mono tx w id :
  Inv (market w) -> (lrank (market w) id <= lrank (market (rrun w tx)) id)%nat.
Proof.
  intros I. apply (rrun_R (fun s s' => (lrank s id <= lrank s' id)%nat)); try assumption.
  - intros s. lia.
  - intros a b c H1 H2. lia.
  - intros o e sender fs m s s' out Is H. eapply execute_rank_mono; eassumption.
Qed.

Theorem rrun_used_mono tx w :
  Inv (market w) ->
  incl (l_used (market w)) (l_used (market (rrun w tx))) /\ incl (b_used (market w)) (b_used (market (rrun w tx))).
Proof.
  intros I.
  apply (rrun_R (fun s s' => incl (l_used s) (l_used s') /\ incl (b_used s) (b_used s'))); try assumption.
  - intros s. split; apply incl_refl.
  - intros a b c [A1 A2] [B1 B2]. split; eapply incl_tran; eassumption.
  - intros o e sender fs m s s' out _ H. eapply execute_used_mono, H.
Qed.

(** ** Claimed once, for good — also across transactions with re-entry (C03)

    A withdrawn bucket id has rank 2 and ranks never decrease along any history of re-entrant
    transactions, while a withdrawal needs rank 1: no later state accepts a second withdrawal
    of it, whatever happened in between and whoever asks. *)
Theorem rrun_brank_mono tx w id :
  Inv (market w) -> (brank (market w) id <= brank (market (rrun w tx)) id)%nat.
Proof.
  intros I. apply (rrun_R (fun s s' => (brank s id <= brank s' id)%nat)); try assumption.
  - intros s. lia.
  - intros a b c H1 H2. lia.
  - intros o e sender fs m s s' out Is H. eapply execute_brank_mono; eassumption.
Qed.

Theorem withdrawn_bucket_stays_withdrawn tx w id o e sender fs :
  Inv (market w) -> (2 <= brank (market w) id)%nat ->
  is_ok (execute o e sender fs (RemoveBucket id) (market (rrun w tx))) = false.
Proof.
  intros I H2. pose proof (rrun_brank_mono tx w id I) as Hm. pose proof (rrun_Inv tx w I) as I'.
  destruct (execute o e sender fs (RemoveBucket id) (market (rrun w tx))) as [[s' out]|] eqn:E; [|reflexivity].
  destruct (remove_brank _ _ _ _ _ _ _ _ I' E) as [E1 _]. lia.
Qed.

(** The same for listings: a listing id that left the store — withdrawn by its buyer or deleted by
    its owner — has rank 4, an exit needs rank 1..3: no later state accepts another exit of it. *)
Theorem exited_listing_stays_exited tx w id o e sender fs m :
  Inv (market w) -> (4 <= lrank (market w) id)%nat -> exits_l_b m id = true ->
  is_ok (execute o e sender fs m (market (rrun w tx))) = false.
Proof.
  intros I H4 Hx. pose proof (rrun_rank_mono tx w id I) as Hm. pose proof (rrun_Inv tx w I) as I'.
  destruct (execute o e sender fs m (market (rrun w tx))) as [[s' out]|] eqn:E; [|reflexivity].
  destruct (exit_rank _ _ _ _ _ _ _ _ _ I' E Hx) as [E1 _]. lia.
Qed.
