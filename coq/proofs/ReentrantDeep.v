(** * ReentrantDeep: the backing of the escrow under re-entrancy nested to any depth
    (model/ReentryDeep.v).

    [Reentrant.v] proves that holdings = obligations + what is in flight ([surplus]) is conserved
    by every operation of an outsider, and concludes for a flat re-entry program.  The same
    argument is an induction over [behaviour]: whatever conserves every surplus may be plugged in
    as the hostile contract's reaction inside a marketplace call, and the resulting transaction
    again conserves every surplus — hence may itself be plugged in. *)
From FM Require Export Reentrant ReentryDeep.

(** What a hostile contract can do when it is handed a transfer, in a universe whose contract
    kinds are [K] and whose marketplace is [self]: nothing, one thing after another, or a call of
    the marketplace (as itself, or forging a hook call — [outside_ok]) inside which it may again
    be handed a transfer and behave likewise. *)
Definition outside_ok_at (K : addr -> akind) (self : addr) (o : op) : Prop :=
  forall w, kind w = K -> self_addr w = self -> outside_ok w o.

Inductive behaviour (K : addr -> akind) (self : addr) : (world -> world) -> Prop :=
| b_id : behaviour K self (fun w => w)
| b_seq k1 k2 : behaviour K self k1 -> behaviour K self k2 -> behaviour K self (fun w => k2 (k1 w))
| b_call o k : outside_ok_at K self o -> behaviour K self k -> behaviour K self (fun w => fst (gstep k w o)).


(** ** [rstep] is the instance with a flat program *)
Lemma gdispatch_disarmed k ms : forall w i fail, gdispatch k w i fail false ms = dispatch w i fail ms.
Proof.
  induction ms as [|m r IH]; intros w i fail; [reflexivity|]. cbn [gdispatch dispatch].
  destruct (match fail with Some j => Nat.eqb i j | None => false end); [reflexivity|].
  destruct (dispatch1 w m) as [w1|]; [|reflexivity]. cbn [bind andb]. apply IH.
Qed.

Lemma gdispatch_run prog ms : forall w i fail,
  gdispatch (fun w1 => run w1 prog) w i fail true ms = rdispatch w i fail prog ms.
Proof.
  induction ms as [|m r IH]; intros w i fail; [reflexivity|]. cbn [gdispatch rdispatch].
  destruct (match fail with Some j => Nat.eqb i j | None => false end); [reflexivity|].
  destruct (dispatch1 w m) as [w1|]; [|reflexivity]. cbn [bind andb].
  destruct (to_hostile w m).
  - rewrite gdispatch_disarmed, rdispatch_nil. reflexivity.
  - apply IH.
Qed.

Theorem gstep_run_is_rstep w o prog : gstep (fun w1 => run w1 prog) w o = rstep w o prog.
Proof.
  unfold gstep, rstep. assert (E : gtry_step (fun w1 => run w1 prog) w o = rtry_step w o prog); [|rewrite E; reflexivity].
  assert (Hr : forall w1 sender fs m fail,
             grun_market (fun w1 => run w1 prog) w1 sender fs m fail = rrun_market w1 sender fs m fail prog).
  { intros. unfold grun_market, rrun_market. destruct (execute _ _ _ _ _ _) as [[s' out]|]; [|reflexivity].
    cbn [bind]. rewrite gdispatch_run. reflexivity. }
  destruct o; try reflexivity; unfold gtry_step, rtry_step.
  - destruct (pay_funds _ _ _ _); [|reflexivity]. cbn [bind]. apply Hr.
  - destruct (kind w token); try reflexivity. destruct (cw20_move _ _ _ _ _); [|reflexivity]. cbn [bind]. apply Hr.
  - destruct (kind w coll); try reflexivity. destruct (nft_move _ _ _ _ _); [|reflexivity]. cbn [bind]. apply Hr.
Qed.

Theorem gstep_id_is_step w o : gstep (fun w1 => w1) w o = step w o.
Proof. rewrite <- rstep_no_program, <- gstep_run_is_rstep. reflexivity. Qed.

(** All-or-nothing, at any depth: a refused transaction leaves the world as it was, whatever the
    hostile contract did inside it. *)
Theorem gstep_refused_no_effect k w o : ok (snd (gstep k w o)) = false -> fst (gstep k w o) = w.
Proof. unfold gstep. destruct (gtry_step k w o) as [[w' out]|]; simpl; [discriminate | reflexivity]. Qed.

Lemma gtry_step_enter k w o r :
  enter w o = Some r ->
  gtry_step k w o = match r with Ok (w1, sender, fs, m, fail) => grun_market k w1 sender fs m fail | Err => Err end.
Proof.
  destruct o; simpl; intros E; inv E; unfold gtry_step.
  - destruct (pay_funds _ _ _ _); reflexivity.
  - destruct (kind w token); try reflexivity. destruct (cw20_move _ _ _ _ _); reflexivity.
  - destruct (kind w coll); try reflexivity. destruct (nft_move _ _ _ _ _); reflexivity.
Qed.

Lemma gtry_step_other k w o : enter w o = None -> gtry_step k w o = try_step w o.
Proof. destruct o; simpl; intros E; try discriminate; reflexivity. Qed.

(** ** Conservative reactions *)
(** [k] conserves every surplus, soundness and the static part of the world, in the universe [K], [self]. *)
Definition conservative (K : addr -> akind) (self : addr) (k : world -> world) : Prop :=
  forall e w, kind w = K -> self_addr w = self -> sound w -> surplus e w ->
    sound (k w) /\ surplus e (k w) /\ kind (k w) = K /\ self_addr (k w) = self /\ pool_addr (k w) = pool_addr w.

Lemma gdispatch_surplus K self k (Hk : conservative K self k) e ms : forall w i fail armed w',
  gdispatch k w i fail armed ms = Ok w' ->
  kind w = K -> self_addr w = self ->
  sound w -> Forall (recipient_ok (self_addr w)) ms ->
  surplus (fun x => sent x ms + e x) w ->
  sound w' /\ surplus e w' /\ kind w' = K /\ self_addr w' = self /\ pool_addr w' = pool_addr w.
Proof.
  induction ms as [|m r IH]; intros w i fail armed w' H HK Hself0 S Hr Hb.
  - simpl in H. inv H. splits; try assumption; try reflexivity.
  - cbn [gdispatch] in H. step H; [discriminate|]. step H. rename x into w1. inversion Hr as [|? ? Hr1 Hr2]; subst.
    pose proof (dispatch1_static _ _ _ Hb0) as (Em & Er & Ek & _ & _ & _ & _ & Es & Erg & Epl).
    pose proof S as [Iv Hcl Hp Hself].
    assert (S1 : sound w1).
    { constructor; [rewrite Em; exact Iv | unfold reg_clean; rewrite Er, Es; exact Hcl | congruence | congruence]. }
    assert (B1 : surplus (fun x => sent x r + e x) w1).
    { intros x Hx. apply (honest_static w w1 x Ek) in Hx.
      pose proof (dispatch1_held _ _ _ x Hb0 Hr1 Hp Hx) as E1. rewrite Em. rewrite (Hb x Hx), sent_cons in E1. lia. }
    assert (Hr2' : Forall (recipient_ok (self_addr w1)) r) by (rewrite Es; exact Hr2).
    destruct (armed && to_hostile w m).
    + destruct (Hk _ w1 Ek Es S1 B1) as (S2 & B2 & Ek2 & Es2 & Ep2).
      destruct (IH _ _ _ _ _ H Ek2 Es2 S2) as (A & B & C & D & F); try assumption.
      * rewrite Es2, <- Es. exact Hr2'.
      * splits; try assumption; congruence.
    + destruct (IH _ _ _ _ _ H Ek Es S1) as (A & B & C & D & F); try assumption.
      splits; try assumption; congruence.
Qed.

(** A marketplace call by an outsider, re-entered by a conservative reaction, is conservative. *)
Theorem gstep_conservative K self k o :
  conservative K self k -> outside_ok_at K self o -> conservative K self (fun w => fst (gstep k w o)).
Proof.
  intros Hk Hoa e w HK Hself0 S Hb. pose proof (Hoa w HK Hself0) as Ho. pose proof S as [Iv Hc Hp Hself].
  unfold gstep. destruct (gtry_step k w o) as [[w' out]|] eqn:H; cbn [fst]; [|splits; try assumption; reflexivity].
  destruct (enter w o) as [r|] eqn:En.
  - rewrite (gtry_step_enter _ _ _ _ En) in H. destruct r as [[[[[w1 sender] fs] m] fail]|]; [|discriminate].
    destruct (enter_held _ _ _ _ _ _ _ En Hself Ho) as (Em & Er & Ek & Es & Epl & Erg & Hne & Hh).
    unfold grun_market in H. step H. destruct x as [s' out']. step H. inv H.
    assert (Hc1 : reg_clean w1) by (unfold reg_clean; rewrite Er, Es; exact Hc).
    assert (Iv1 : Inv (market w1)) by (rewrite Em; exact Iv).
    assert (Hne1 : sender <> self_addr w1) by congruence.
    pose proof (execute_recipients (self_addr w1) _ _ _ _ _ _ _ _ Hb0 Hne1 (oracle_of_clean _ Hc1)) as Hr.
    assert (S1 : sound (set_market w1 s')).
    { constructor; simpl; [eapply execute_pres; eassumption | exact Hc1 | congruence | congruence]. }
    destruct (gdispatch_surplus _ _ k Hk e _ _ _ _ _ _ Hb1) as (A & B & C & D & F); try assumption.
    + intros x Hx. assert (Hx1 : honest_asset w x) by (destruct x; simpl in *; congruence).
      pose proof (accounting x _ _ _ _ _ _ _ _ Iv1 Hb0) as Ha.
      assert (E : held (set_market w1 s') x = held w1 x) by (destruct x; reflexivity).
      rewrite E, (Hh x Hx1), (Hb x Hx1). simpl. rewrite Em in Ha. lia.
    + simpl in F. splits; try assumption. congruence.
  - rewrite (gtry_step_other _ _ _ En) in H.
    pose proof (step_surplus e w o S Hb Ho) as B. pose proof (step_sound w o S Ho) as S'.
    destruct (step_static w o) as (Hk' & Hs' & Hp'). rewrite step_fst, H in *. cbn [fst] in *.
    splits; try assumption; congruence.
Qed.

(** ** Every behaviour is conservative *)
Theorem behaviour_conservative K self k : behaviour K self k -> conservative K self k.
Proof.
  induction 1 as [| k1 k2 _ IH1 _ IH2 | o k Ho _ IH].
  - intros e w HK Hs S B. splits; try assumption; reflexivity.
  - intros e w HK Hs S B. destruct (IH1 e w HK Hs S B) as (S1 & B1 & K1 & Hs1 & P1).
    destruct (IH2 e (k1 w) K1 Hs1 S1 B1) as (S2 & B2 & K2 & Hs2 & P2). splits; try assumption; congruence.
  - apply gstep_conservative; assumption.
Qed.

(** A transaction during which the hostile contract reacts with any behaviour — nested calls that
    are themselves re-entered, to any depth — preserves [good]: holdings equal obligations. *)
Theorem gstep_good w o k :
  good w -> outside_ok w o -> behaviour (kind w) (self_addr w) k -> good (fst (gstep k w o)).
Proof.
  intros G Ho Hb. pose proof G as [Iv Hc Hp Hself Hbk].
  assert (Hoa : outside_ok_at (kind w) (self_addr w) o).
  { intros w2 E1 E2. eapply outside_ok_static; eassumption. }
  pose proof (gstep_conservative _ _ k o (behaviour_conservative _ _ _ Hb) Hoa) as C.
  destruct (C (fun _ => 0) w eq_refl eq_refl (good_sound w G)) as (S' & B' & K' & Hs' & P').
  - apply backed_surplus. exact Hbk.
  - destruct S' as [A1 A2 A3 A4]. constructor; try assumption. apply backed_surplus. exact B'.
Qed.

Lemma gstep_static w o k :
  good w -> outside_ok w o -> behaviour (kind w) (self_addr w) k ->
  kind (fst (gstep k w o)) = kind w /\ self_addr (fst (gstep k w o)) = self_addr w.
Proof.
  intros G Ho Hb. pose proof G as [Iv Hc Hp Hself Hbk].
  assert (Hoa : outside_ok_at (kind w) (self_addr w) o).
  { intros w2 E1 E2. eapply outside_ok_static; eassumption. }
  pose proof (gstep_conservative _ _ k o (behaviour_conservative _ _ _ Hb) Hoa) as C.
  destruct (C (fun _ => 0) w eq_refl eq_refl (good_sound w G)) as (S' & B' & K' & Hs' & P').
  - apply backed_surplus. exact Hbk.
  - tauto.
Qed.

(** Histories of transactions, each with its own behaviour of the hostile contract. *)
Definition grun (w : world) (tx : list (op * (world -> world))) : world :=
  fold_left (fun w t => fst (gstep (snd t) w (fst t))) tx w.

Theorem grun_good tx : forall w,
  good w ->
  Forall (fun t => outside_ok w (fst t) /\ behaviour (kind w) (self_addr w) (snd t)) tx ->
  good (grun w tx).
Proof.
  unfold grun. induction tx as [|[o k] r IH]; cbn [fold_left fst snd]; intros w G Hall; [exact G|].
  inversion Hall as [|? ? [Ho Hb] Hr]; subst. cbn [fst snd] in *.
  destruct (gstep_static w o k G Ho Hb) as (Ek & Es).
  apply IH.
  - apply gstep_good; assumption.
  - eapply Forall_impl; [|exact Hr]. intros [o2 k2] [A B]. cbn [fst snd] in *. rewrite Ek, Es. split; [|exact B].
    eapply outside_ok_static; [| |exact A]; congruence.
Qed.

Theorem escrow_backed_with_deep_reentry w tx :
  fresh w ->
  Forall (fun t => outside_ok w (fst t) /\ behaviour (kind w) (self_addr w) (snd t)) tx ->
  backed (grun w tx).
Proof. intros F H. apply g_backed. apply grun_good; [apply fresh_good; exact F | exact H]. Qed.

(** ** Tree programs are behaviours *)
Fixpoint tree_ok (K : addr -> akind) (self : addr) (t : rop) : Prop :=
  match t with
  | RNode o prog => outside_ok_at K self o /\ (fix all (l : list rop) : Prop := match l with [] => True | t' :: r => tree_ok K self t' /\ all r end) prog
  end.

Fixpoint tstep_behaviour K self (t : rop) {struct t} :
  tree_ok K self t -> behaviour K self (fun w => fst (tstep w t)).
Proof.
  destruct t as [o prog]. cbn [tree_ok tstep]. intros [Ho Hall].
  apply b_call; [exact Ho|].
  induction prog as [|t' r IHr]; cbn [fold_left].
  - apply b_id.
  - destruct Hall as [Ht Hr].
    apply (b_seq K self (fun w => fst (tstep w t')) (fun w => fold_left (fun w2 t'' => fst (tstep w2 t'')) r w)).
    + apply tstep_behaviour. exact Ht.
    + apply IHr. exact Hr.
Qed.

Fixpoint trees_ok (K : addr -> akind) (self : addr) (l : list rop) : Prop :=
  match l with [] => True | t :: r => tree_ok K self t /\ trees_ok K self r end.

Lemma trun_behaviour K self prog : trees_ok K self prog -> behaviour K self (fun w => trun w prog).
Proof.
  unfold trun. induction prog as [|t r IH]; cbn [fold_left trees_ok]; intros H.
  - apply b_id.
  - destruct H as [Ht Hr].
    apply (b_seq K self (fun w => fst (tstep w t)) (fun w => fold_left (fun w2 t'' => fst (tstep w2 t'')) r w)).
    + apply tstep_behaviour. exact Ht.
    + apply IH. exact Hr.
Qed.

Lemma outside_ok_at_of w o : outside_ok w o -> outside_ok_at (kind w) (self_addr w) o.
Proof. intros H w2 E1 E2. eapply outside_ok_static; eassumption. Qed.

Lemma conservative_good K self k w :
  conservative K self k -> kind w = K -> self_addr w = self -> good w -> good (k w).
Proof.
  intros C E1 E2 G. pose proof G as [Iv Hc Hp Hself Hbk].
  destruct (C (fun _ => 0) w E1 E2 (good_sound w G)) as (S' & B' & _).
  - apply backed_surplus. exact Hbk.
  - destruct S' as [A1 A2 A3 A4]. constructor; try assumption. apply backed_surplus. exact B'.
Qed.

(** Every history of transactions given as trees — each call carrying the program that runs if it
    is re-entered, each call of that program carrying its own, and so on — leaves the escrow backed. *)
Theorem escrow_backed_with_tree_programs w txs :
  fresh w -> trees_ok (kind w) (self_addr w) txs -> backed (trun w txs).
Proof.
  intros F H. apply g_backed.
  apply (conservative_good (kind w) (self_addr w) (fun w1 => trun w1 txs)); try reflexivity.
  - apply behaviour_conservative, trun_behaviour, H.
  - apply fresh_good, F.
Qed.

(** ** What every marketplace call preserves, every reaction preserves — at any depth

    For the facts below nothing needs to be assumed about who calls ([outside_ok] plays no part):
    [reaction] is [behaviour] without that side condition. *)
Inductive reaction : (world -> world) -> Prop :=
| r_id : reaction (fun w => w)
| r_seq k1 k2 : reaction k1 -> reaction k2 -> reaction (fun w => k2 (k1 w))
| r_call o k : reaction k -> reaction (fun w => fst (gstep k w o)).

Lemma behaviour_reaction K self k : behaviour K self k -> reaction k.
Proof. induction 1; [apply r_id | apply r_seq; assumption | apply r_call; assumption]. Qed.

Lemma tstep_reaction (t : rop) : reaction (fun w => fst (tstep w t)).
Proof.
  revert t. fix IHt 1. intros [o prog]. cbn [tstep]. apply r_call.
  induction prog as [|t' r IHr]; cbn [fold_left].
  - apply r_id.
  - apply (r_seq (fun w => fst (tstep w t')) (fun w => fold_left (fun w2 t'' => fst (tstep w2 t'')) r w)).
    + apply IHt.
    + apply IHr.
Qed.

Lemma trun_reaction prog : reaction (fun w => trun w prog).
Proof.
  unfold trun. induction prog as [|t r IH]; cbn [fold_left].
  - apply r_id.
  - apply (r_seq (fun w => fst (tstep w t)) (fun w => fold_left (fun w2 t'' => fst (tstep w2 t'')) r w)).
    + apply tstep_reaction.
    + apply IH.
Qed.

Lemma enter_market w o w1 sender fs m fail :
  enter w o = Some (Ok (w1, sender, fs, m, fail)) -> market w1 = market w.
Proof.
  intros En. destruct o; simpl in En; try discriminate; inversion En as [E']; clear En.
  - step E'. inv E'. reflexivity.
  - destruct (kind w token); try discriminate. step E'. inv E'. reflexivity.
  - destruct (kind w coll); try discriminate. step E'. inv E'. reflexivity.
Qed.

Section DeepTrace.
  Variable R : mstate -> mstate -> Prop.
  Hypothesis R_refl : forall s, R s s.
  Hypothesis R_trans : forall a b c, R a b -> R b c -> R a c.
  Hypothesis R_exec : forall o e sender fs m s s' out,
    Inv s -> execute o e sender fs m s = Ok (s', out) -> R s s'.

  (** [k] keeps the invariant and relates the marketplace state before to the one after. *)
  Definition keeps (k : world -> world) : Prop :=
    forall w, Inv (market w) -> Inv (market (k w)) /\ R (market w) (market (k w)).

  Lemma gdispatch_keeps k (Hk : keeps k) ms : forall w i fail armed w',
    gdispatch k w i fail armed ms = Ok w' -> Inv (market w) -> Inv (market w') /\ R (market w) (market w').
  Proof.
    induction ms as [|m r IH]; intros w i fail armed w' H I; [simpl in H; inv H; split; [exact I | apply R_refl]|].
    cbn [gdispatch] in H. step H; [discriminate|]. step H. rename x into w1.
    pose proof (dispatch1_static _ _ _ Hb) as (Em & _).
    assert (I1 : Inv (market w1)) by (rewrite Em; exact I). rewrite <- Em.
    destruct (armed && to_hostile w m).
    - destruct (Hk w1 I1) as [I2 R2]. destruct (IH _ _ _ _ _ H I2) as [I3 R3].
      split; [exact I3 | eapply R_trans; eassumption].
    - apply (IH _ _ _ _ _ H I1).
  Qed.

  Lemma gstep_keeps k o : keeps k -> keeps (fun w => fst (gstep k w o)).
  Proof.
    intros Hk w I. unfold gstep. destruct (gtry_step k w o) as [[w' out]|] eqn:H; cbn [fst]; [|split; [exact I | apply R_refl]].
    destruct (enter w o) as [r|] eqn:En.
    - rewrite (gtry_step_enter _ _ _ _ En) in H. destruct r as [[[[[w1 sender] fs] m] fail]|]; [|discriminate].
      pose proof (enter_market _ _ _ _ _ _ _ En) as Em.
      unfold grun_market in H. step H. destruct x as [s' out']. step H. inv H.
      assert (I1 : Inv (market w1)) by (rewrite Em; exact I).
      assert (I2 : Inv (market (set_market w1 s'))) by (simpl; eapply execute_pres; [exact I1 | exact Hb]).
      destruct (gdispatch_keeps k Hk _ _ _ _ _ _ Hb0 I2) as [I3 R3]. split; [exact I3|].
      rewrite <- Em. eapply R_trans; [eapply R_exec; [exact I1 | exact Hb] | exact R3].
    - rewrite (gtry_step_other _ _ _ En) in H.
      pose proof (step_Inv w o I) as G1. pose proof (step_R R R_refl R_exec w o I) as G2.
      rewrite step_fst, H in G1, G2. split; assumption.
  Qed.

  Theorem reaction_keeps k : reaction k -> keeps k.
  Proof.
    induction 1 as [| k1 k2 _ IH1 _ IH2 | o k _ IH].
    - intros w I. split; [exact I | apply R_refl].
    - intros w I. destruct (IH1 w I) as [I1 R1]. destruct (IH2 (k1 w) I1) as [I2 R2].
      split; [exact I2 | eapply R_trans; eassumption].
    - apply gstep_keeps, IH.
  Qed.
End DeepTrace.

(** Instances. *)
Theorem reaction_Inv k w : reaction k -> Inv (market w) -> Inv (market (k w)).
Proof.
  intros Hr I. apply (reaction_keeps (fun _ _ => True)); auto.
Qed.

Theorem deep_wf w prog : initial w ->
  let s := market (trun w prog) in
  (forall k l, In (k, l) (listings s) -> wf_listing k l) /\
  (forall k b, In (k, b) (buckets s) -> wf_bucket k b).
Proof.
  intros [t Ht] s. assert (I : Inv s).
  { apply (reaction_Inv (fun w1 => trun w1 prog)); [apply trun_reaction | eapply Inv_init; exact Ht]. }
  split; [apply (inv_l _ I) | apply (inv_b _ I)].
Qed.

Theorem reaction_rank_mono k w id :
  reaction k -> Inv (market w) -> (lrank (market w) id <= lrank (market (k w)) id)%nat.
Proof.
  intros Hr I. apply (reaction_keeps (fun s s' => (lrank s id <= lrank s' id)%nat)); try assumption.
  - intros s. lia.
  - intros a b c H1 H2. lia.
  - intros o e sender fs m s s' out Is H. eapply execute_rank_mono; eassumption.
Qed.

Theorem reaction_brank_mono k w id :
  reaction k -> Inv (market w) -> (brank (market w) id <= brank (market (k w)) id)%nat.
Proof.
  intros Hr I. apply (reaction_keeps (fun s s' => (brank s id <= brank s' id)%nat)); try assumption.
  - intros s. lia.
  - intros a b c H1 H2. lia.
  - intros o e sender fs m s s' out Is H. eapply execute_brank_mono; eassumption.
Qed.

Theorem reaction_used_mono k w :
  reaction k -> Inv (market w) ->
  incl (l_used (market w)) (l_used (market (k w))) /\ incl (b_used (market w)) (b_used (market (k w))).
Proof.
  intros Hr I.
  apply (reaction_keeps (fun s s' => incl (l_used s) (l_used s') /\ incl (b_used s) (b_used s'))); try assumption.
  - intros s. split; apply incl_refl.
  - intros a b c [A1 A2] [B1 B2]. split; eapply incl_tran; eassumption.
  - intros o e sender fs m s s' out _ H. eapply execute_used_mono, H.
Qed.

(** Claimed once, for good, whatever nesting happens in between. *)
Theorem withdrawn_bucket_stays_withdrawn_deep k w id o e sender fs :
  reaction k -> Inv (market w) -> (2 <= brank (market w) id)%nat ->
  is_ok (execute o e sender fs (RemoveBucket id) (market (k w))) = false.
Proof.
  intros Hr I H2. pose proof (reaction_brank_mono k w id Hr I) as Hm. pose proof (reaction_Inv k w Hr I) as I'.
  destruct (execute o e sender fs (RemoveBucket id) (market (k w))) as [[s' out]|] eqn:E; [|reflexivity].
  destruct (remove_brank _ _ _ _ _ _ _ _ I' E) as [E1 _]. lia.
Qed.

Theorem exited_listing_stays_exited_deep k w id o e sender fs m :
  reaction k -> Inv (market w) -> (4 <= lrank (market w) id)%nat -> exits_l_b m id = true ->
  is_ok (execute o e sender fs m (market (k w))) = false.
Proof.
  intros Hr I H4 Hx. pose proof (reaction_rank_mono k w id Hr I) as Hm. pose proof (reaction_Inv k w Hr I) as I'.
  destruct (execute o e sender fs m (market (k w))) as [[s' out]|] eqn:E; [|reflexivity].
  destruct (exit_rank _ _ _ _ _ _ _ _ _ I' E Hx) as [E1 _]. lia.
Qed.

(** ** Nobody but the initiators is debited, at any depth (C04, C19)

    A reaction none of whose calls — at any level of nesting — is initiated by [a] leaves every
    balance and every NFT of [a] at least as it was. *)
Inductive reaction_not_by (a : addr) : (world -> world) -> Prop :=
| n_id : reaction_not_by a (fun w => w)
| n_seq k1 k2 : reaction_not_by a k1 -> reaction_not_by a k2 -> reaction_not_by a (fun w => k2 (k1 w))
| n_call o k : op_initiator o <> Some a -> reaction_not_by a k -> reaction_not_by a (fun w => fst (gstep k w o)).

Definition spares (a : addr) (k : world -> world) : Prop :=
  forall w, a <> self_addr w -> nondecr w (k w) a /\ self_addr (k w) = self_addr w.

Lemma gdispatch_spares a k (Hk : spares a k) ms : forall w i fail armed w',
  gdispatch k w i fail armed ms = Ok w' -> a <> self_addr w -> nondecr w w' a /\ self_addr w' = self_addr w.
Proof.
  induction ms as [|m r IH]; intros w i fail armed w' H Ha; [simpl in H; inv H; split; [apply nondecr_refl | reflexivity]|].
  cbn [gdispatch] in H. step H; [discriminate|]. step H. rename x into w1.
  pose proof (dispatch1_static _ _ _ Hb) as (_ & _ & _ & _ & _ & _ & _ & Hs & _).
  assert (N1 : nondecr w w1 a) by (eapply dispatch1_others; eassumption).
  assert (Ha1 : a <> self_addr w1) by congruence.
  destruct (armed && to_hostile w m).
  - destruct (Hk w1 Ha1) as [N2 S2]. destruct (IH _ _ _ _ _ H) as [N3 S3]; [congruence|].
    split; [|congruence]. eapply nondecr_trans; [exact N1|]. eapply nondecr_trans; [exact N2 | exact N3].
  - destruct (IH _ _ _ _ _ H Ha1) as [N3 S3]. split; [|congruence]. eapply nondecr_trans; [exact N1 | exact N3].
Qed.

Lemma gstep_spares a k o : op_initiator o <> Some a -> spares a k -> spares a (fun w => fst (gstep k w o)).
Proof.
  intros Hi Hk w Ha. unfold gstep. destruct (gtry_step k w o) as [[w' out]|] eqn:H; cbn [fst]; [|split; [apply nondecr_refl | reflexivity]].
  destruct (enter w o) as [r|] eqn:En.
  - rewrite (gtry_step_enter _ _ _ _ En) in H. destruct r as [[[[[w1 sender] fs] m] fail]|]; [|discriminate].
    destruct (enter_others _ _ _ _ _ _ _ _ En Hi) as [A Es].
    unfold grun_market in H. step H. destruct x as [s' out']. step H. inv H.
    assert (E : nondecr w1 (set_market w1 s') a) by (unfold nondecr; simpl; splits; intros; try lia; assumption).
    destruct (gdispatch_spares a k Hk _ _ _ _ _ _ Hb0) as [N3 S3]; [simpl; congruence|].
    simpl in S3. split; [|congruence].
    eapply nondecr_trans; [exact A|]. eapply nondecr_trans; [exact E | exact N3].
  - rewrite (gtry_step_other _ _ _ En) in H.
    pose proof (step_others_nondecreasing w o a Hi Ha) as G. destruct (step_static w o) as (_ & Hs & _).
    rewrite step_fst, H in G, Hs. split; assumption.
Qed.

Theorem reaction_spares a k : reaction_not_by a k -> spares a k.
Proof.
  induction 1 as [| k1 k2 _ IH1 _ IH2 | o k Hi _ IH].
  - intros w Ha. split; [apply nondecr_refl | reflexivity].
  - intros w Ha. destruct (IH1 w Ha) as [N1 S1]. destruct (IH2 (k1 w)) as [N2 S2]; [congruence|].
    split; [eapply nondecr_trans; eassumption | congruence].
  - apply gstep_spares; assumption.
Qed.

(** A transaction with any such reaction debits nobody but the initiators of its calls. *)
Theorem gstep_others_nondecreasing w o k a :
  op_initiator o <> Some a -> reaction_not_by a k -> a <> self_addr w -> nondecr w (fst (gstep k w o)) a.
Proof.
  intros Hi Hk Ha. apply (gstep_spares a k o Hi (reaction_spares a k Hk) w Ha).
Qed.
