(** * ReentrantFees: the fee ledger (C10) across transactions with re-entry.

    [gap d w] = what the community pool holds + what is still pending in records.  A plain
    operation moves it by exactly the fee a successful purchase charges ([step_pool_ledger]).
    With a hostile token re-entering during dispatch the purchases nested in the transaction
    charge fees too; [rstep_charged] adds them up at the worlds where they happen, and the
    ledger equation holds for the transaction as a whole: every fee charged — by the transaction
    itself or by a re-entrant call — reaches the pool exactly once or is still pending. *)
From FM Require Export PoolFees Reentrant.

Definition gap (d : denom) (w : world) : N := bank w (pool_addr w) d + pending d (market w).

(** [step_pool_ledger] does not need the backing, only the [sound] parts of [good]. *)
Lemma step_pool_ledger_sound w o d :
  sound w -> reg_clean_pool w -> kind w (pool_addr w) = KUser -> outside_ok w o -> pool_quiet w o ->
  gap d (fst (step w o)) = gap d w + (if ok (snd (step w o)) then charged_op d w o else 0).
Proof.
  intros [Iv Hc Hp Hself] Hcp Hkp Ho Hq. unfold gap.
  assert (Hpl0 : pool_addr (fst (step w o)) = pool_addr w) by apply step_static. rewrite Hpl0.
  unfold step. destruct (try_step w o) as [[w' out]|] eqn:H; simpl; [|lia].
  unfold try_step in H. destruct o; simpl in Hq, Ho; simpl charged_op.
  - step H. rename x into b.
    pose proof (run_market_pool (set_bank w b) sender funds_ m fail w' out d Iv Hcp Hp Hq H) as E. simpl in E.
    destruct Ho as [Hne _]. rewrite (pay_funds_third _ _ _ _ _ (pool_addr w) d Hb) in E by congruence. exact E.
  - destruct (kind w token) eqn:Hkt; try discriminate. step H.
    assert (Htok : token <> pool_addr w) by (eapply kind_ne; try eassumption; discriminate).
    pose proof (run_market_pool (set_cw20 w x) token [] (Receive user amt inner) fail w' out d Iv Hcp Hp Htok H) as E. simpl in E. lia.
  - destruct (kind w coll) eqn:Hkc; try discriminate. step H.
    assert (Hcol : coll <> pool_addr w) by (eapply kind_ne; try eassumption; discriminate).
    pose proof (run_market_pool (set_nft w x) coll [] (ReceiveNft user tok inner) fail w' out d Iv Hcp Hp Hcol H) as E. simpl in E. lia.
  - destruct (kind w token); try discriminate. step H. inv H. simpl. lia.
  - destruct (kind w coll); try discriminate. step H. inv H. simpl. lia.
  - destruct Hq as [Hu Ht]. remember (filter (fun c : denom * N => negb (snd c =? 0)) cs) as nz. destruct nz; [discriminate|]. step H. inv H.
    simpl. rewrite (bank_move_third _ _ _ _ _ (pool_addr w) d Hb) by congruence. lia.
  - step H. inv H. simpl. lia.
  - step H; [|discriminate]. inv H. simpl. lia.
  - inv H. simpl. lia.
  - inv H. simpl. lia.
Qed.

Lemma pool_quiet_static w w' o : pool_addr w' = pool_addr w -> pool_quiet w o -> pool_quiet w' o.
Proof. intros Hp. unfold pool_quiet. rewrite Hp. tauto. Qed.

Definition quiet_outsider (w : world) (o : op) : Prop := outside_ok w o /\ pool_quiet w o.

Lemma run_gap d ops : forall w,
  sound w -> reg_clean_pool w -> kind w (pool_addr w) = KUser -> Forall (quiet_outsider w) ops ->
  gap d (run w ops) = gap d w + total_charged d w ops /\
  sound (run w ops) /\ reg_clean_pool (run w ops) /\
  kind (run w ops) = kind w /\ self_addr (run w ops) = self_addr w /\ pool_addr (run w ops) = pool_addr w.
Proof.
  unfold run. induction ops as [|o r IH]; cbn [fold_left total_charged]; intros w S Hcp Hkp Hq.
  - splits; try assumption; try reflexivity. lia.
  - inversion Hq as [|? ? [Ho Hpq] Hq2]; subst.
    destruct (step_static w o) as (Hk & Hs & Hpl).
    pose proof (step_pool_ledger_sound w o d S Hcp Hkp Ho Hpq) as E.
    destruct (IH (fst (step w o))) as (A & B & C & D & F & G).
    + apply step_sound; assumption.
    + apply step_reg_clean_pool; assumption.
    + rewrite Hk, Hpl. exact Hkp.
    + eapply Forall_impl; [|exact Hq2]. intros a [Ha1 Ha2]. split; [eapply outside_ok_static | eapply pool_quiet_static]; eassumption.
    + splits; try assumption; try congruence. lia.
Qed.

(** What the re-entrant program charges, at the world where it runs. *)
Fixpoint rdispatch_charged (d : denom) (w : world) (prog : list op) (ms : list out_msg) : N :=
  match ms with
  | [] => 0
  | m :: r =>
      match dispatch1 w m with
      | Ok w1 => if to_hostile w m then total_charged d w1 prog else rdispatch_charged d w1 prog r
      | Err => 0
      end
  end.

Lemma rdispatch_charged_nil d ms : forall w, rdispatch_charged d w [] ms = 0.
Proof.
  induction ms as [|m r IH]; intros w; [reflexivity|]. cbn [rdispatch_charged].
  destruct (dispatch1 w m) as [w1|]; [|reflexivity]. destruct (to_hostile w m); [reflexivity | apply IH].
Qed.

Lemma rdispatch_gap d ms : forall w i fail prog w',
  rdispatch w i fail prog ms = Ok w' ->
  sound w -> reg_clean_pool w -> kind w (pool_addr w) = KUser ->
  Forall (recipient_ok (pool_addr w)) ms -> Forall (quiet_outsider w) prog ->
  gap d w' = gap d w + pool_sent d ms + rdispatch_charged d w prog ms /\ pool_addr w' = pool_addr w.
Proof.
  induction ms as [|m r IH]; intros w i fail prog w' H S Hcp Hkp Hr Hq.
  - simpl in H. inv H. unfold pool_sent. simpl. split; [lia | reflexivity].
  - cbn [rdispatch] in H. step H; [discriminate|]. step H. rename x into w1. inversion Hr as [|? ? Hr1 Hr2]; subst.
    pose proof (dispatch1_static _ _ _ Hb) as (Em & Er & Ek & _ & _ & _ & _ & Es & Erg & Epl).
    pose proof S as [Iv Hcl Hp Hself].
    pose proof (dispatch1_pool _ _ _ d Hb Hr1 Hp) as E1.
    assert (S1 : sound w1).
    { constructor; [rewrite Em; exact Iv | unfold reg_clean; rewrite Er, Es; exact Hcl | congruence | congruence]. }
    assert (Hcp1 : reg_clean_pool w1) by (unfold reg_clean_pool; rewrite Er, Epl; exact Hcp).
    assert (Hkp1 : kind w1 (pool_addr w1) = KUser) by (rewrite Ek, Epl; exact Hkp).
    assert (G1 : gap d w1 = gap d w + pool_val d m) by (unfold gap; rewrite Epl, Em, E1; lia).
    assert (Hr2' : Forall (recipient_ok (pool_addr w1)) r) by (rewrite Epl; exact Hr2).
    assert (Hq1 : Forall (quiet_outsider w1) prog).
    { eapply Forall_impl; [|exact Hq]. intros a [Ha1 Ha2]. split; [eapply outside_ok_static | eapply pool_quiet_static]; eassumption. }
    cbn [rdispatch_charged]. rewrite Hb.
    assert (Hps : pool_sent d (m :: r) = pool_val d m + pool_sent d r) by reflexivity. rewrite Hps.
    destruct (to_hostile w m).
    + destruct (run_gap d prog w1 S1 Hcp1 Hkp1 Hq1) as (A & B & C & D & F & G).
      destruct (IH _ _ _ _ _ H B C) as [X Y].
      * rewrite D, G. exact Hkp1.
      * rewrite G. exact Hr2'.
      * constructor.
      * rewrite rdispatch_charged_nil in X. split; [lia | congruence].
    + destruct (IH _ _ _ _ _ H S1 Hcp1 Hkp1 Hr2' Hq1) as [X Y]. split; [lia | congruence].
Qed.

(** What the whole transaction charges: its own purchase, and the purchases nested in it. *)
Definition rstep_charged (d : denom) (w : world) (o : op) (prog : list op) : N :=
  match enter w o with
  | Some (Ok (w1, sender, fs, m, fail)) =>
      match execute (oracle_of w1) (env_of w1) sender fs m (market w1) with
      | Ok (s', out) => charged d m sender (market w1) + rdispatch_charged d (set_market w1 s') prog out
      | Err => 0
      end
  | _ => 0
  end.

Lemma enter_pool w o w1 sender fs m fail d :
  enter w o = Some (Ok (w1, sender, fs, m, fail)) -> outside_ok w o -> pool_quiet w o ->
  kind w (pool_addr w) = KUser -> pool_addr w <> self_addr w ->
  bank w1 (pool_addr w) d = bank w (pool_addr w) d /\ sender <> pool_addr w.
Proof.
  intros E Ho Hq Hkp Hps. destruct o; simpl in E; try discriminate; simpl in Ho, Hq; inversion E as [E']; clear E.
  - step E'. inv E'. destruct Ho as [Hne _]. split; [|exact Hq]. simpl.
    apply (pay_funds_third _ _ _ _ _ (pool_addr w) d Hb); [intros X; apply Hq; symmetry; exact X | exact Hps].
  - destruct (kind w token) eqn:Hkt; try discriminate. step E'. inv E'. split; [reflexivity|].
    eapply kind_ne; try eassumption; discriminate.
  - destruct (kind w coll) eqn:Hkc; try discriminate. step E'. inv E'. split; [reflexivity|].
    eapply kind_ne; try eassumption; discriminate.
Qed.

Theorem rstep_pool_ledger w o prog d :
  sound w -> reg_clean_pool w -> kind w (pool_addr w) = KUser ->
  quiet_outsider w o -> Forall (quiet_outsider w) prog ->
  gap d (fst (rstep w o prog)) = gap d w + (if ok (snd (rstep w o prog)) then rstep_charged d w o prog else 0).
Proof.
  intros S Hcp Hkp [Ho Hq] Hprog. pose proof S as [Iv Hc Hp Hself]. unfold rstep.
  destruct (rtry_step w o prog) as [[w' out]|] eqn:H; cbn [fst snd ok]; [|lia].
  destruct (enter w o) as [r|] eqn:En.
  - rewrite (rtry_step_enter _ _ _ _ En) in H. destruct r as [[[[[w1 sender] fs] m] fail]|]; [|discriminate].
    destruct (enter_held _ _ _ _ _ _ _ En Hself Ho) as (Em & Er & Ek & Es & Epl & Erg & Hne & Hh).
    destruct (enter_pool _ _ _ _ _ _ _ d En Ho Hq Hkp Hp) as [Eb Hsp].
    unfold rstep_charged. rewrite En.
    unfold rrun_market in H. step H. destruct x as [s' out']. step H. inv H. rewrite Hb.
    assert (Hc1 : reg_clean w1) by (unfold reg_clean; rewrite Er, Es; exact Hc).
    assert (Hcp1 : reg_clean_pool w1) by (unfold reg_clean_pool; rewrite Er, Epl; exact Hcp).
    assert (Iv1 : Inv (market w1)) by (rewrite Em; exact Iv).
    assert (Hsp1 : sender <> pool_addr w1) by congruence.
    pose proof (execute_recipients (pool_addr w1) _ _ _ _ _ _ _ _ Hb Hsp1 (oracle_of_clean_pool _ Hcp1)) as Hr.
    pose proof (fee_conservation d _ _ _ _ _ _ _ _ Iv1 Hb) as Hf.
    assert (S1 : sound (set_market w1 s')).
    { constructor; simpl; [eapply execute_pres; eassumption | exact Hc1 | congruence | congruence]. }
    destruct (rdispatch_gap d _ _ _ _ _ _ Hb0 S1) as [X Y].
    + exact Hcp1.
    + simpl. rewrite Ek, Epl. exact Hkp.
    + exact Hr.
    + eapply Forall_impl; [|exact Hprog]. intros a [Ha1 Ha2].
      split; [eapply (outside_ok_static w) | eapply (pool_quiet_static w)]; simpl; assumption.
    + unfold gap in *. simpl in X, Y. rewrite Y, X, Epl, Eb, Em in *. lia.
  - rewrite (rtry_step_other _ _ _ En) in H.
    pose proof (step_pool_ledger_sound w o d S Hcp Hkp Ho Hq) as G. unfold step in G. rewrite H in G. cbn [fst snd ok] in G.
    unfold rstep_charged. rewrite En. rewrite G. destruct o; simpl in En; try discriminate; simpl; lia.
Qed.
