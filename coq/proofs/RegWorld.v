(** Registry facts lifted to worlds. *)
From FM Require Export Frame RegistryFacts.

Theorem step_reg_bounds w o : reg_bounds (registry w) -> reg_bounds (registry (fst (step w o))).
Proof.
  intros Hb. rewrite step_fst. destruct (try_step w o) as [[w' out]|] eqn:H; [|exact Hb].
  apply try_step_registry in H. destruct H as [-> | (a & m & _ & He)]; [exact Hb|].
  eapply reg_bounds_pres; eassumption.
Qed.

Theorem run_reg_bounds ops : forall w, reg_bounds (registry w) -> reg_bounds (registry (run w ops)).
Proof.
  unfold run. induction ops as [|o r IH]; simpl; intros w H; [exact H|]. apply IH, step_reg_bounds, H.
Qed.

Theorem step_only_admin w o c :
  reg_lookup c (registry (fst (step w o))) <> reg_lookup c (registry w) ->
  exists a m, o = RegExec a m /\ c = target m /\ kind w c <> KUser /\ admin w c = Some a.
Proof.
  rewrite step_fst. destruct (try_step w o) as [[w' out]|] eqn:H; [|congruence].
  apply try_step_registry in H. destruct H as [-> | (a & m & -> & He)]; [congruence|].
  intros Hne. destruct (only_admin _ _ _ _ _ _ _ He Hne) as [-> Hadm].
  exists a, m. splits; try reflexivity.
  - unfold contract_info_of in Hadm. destruct (kind w (target m)); simpl in Hadm; congruence.
  - unfold contract_info_of in Hadm. destruct (is_contract_kind (kind w (target m))); congruence.
Qed.
