(** * RegistryFacts: the royalty registry (C14). *)
From FM Require Export Tac.

Lemma reg_lookup_put_same c e r : reg_lookup c (reg_put c e r) = Some e.
Proof. unfold reg_put. simpl. rewrite N.eqb_refl. reflexivity. Qed.

Lemma reg_lookup_remove_same c r : reg_lookup c (reg_remove c r) = None.
Proof.
  induction r as [|[c' e] t IH]; simpl; [reflexivity|].
  dN c' c; [assumption|]. simpl. apply N.eqb_neq in n. rewrite n. assumption.
Qed.

Lemma reg_lookup_remove_other c c' r : c' <> c -> reg_lookup c' (reg_remove c r) = reg_lookup c' r.
Proof.
  intros Hne. induction r as [|[c2 e] t IH]; simpl; [reflexivity|].
  dN c2 c.
  - subst. dN c c'; [congruence | assumption].
  - simpl. rewrite IH. reflexivity.
Qed.

Lemma reg_lookup_put_other c c' e r : c' <> c -> reg_lookup c' (reg_put c e r) = reg_lookup c' r.
Proof.
  intros Hne. unfold reg_put. simpl. dN c c'; [congruence|]. apply reg_lookup_remove_other, Hne.
Qed.

Definition cooled (height : N) (e : rinfo) : Prop := last_updated e + COOLDOWN_BLOCKS <= height.

Lemma sat_cooldown h e :
  last_updated e + COOLDOWN_BLOCKS < U64 ->
  (h <? sat_add64 (last_updated e) COOLDOWN_BLOCKS = false <-> cooled h e).
Proof.
  intros Hb. unfold sat_add64, cooled. rewrite N.ltb_ge. rewrite N.min_l by lia. tauto.
Qed.

Lemma bps_ok_iff b : bps_ok b = true <-> 10 <= b /\ b <= 300.
Proof. unfold bps_ok, MIN_BPS, MAX_BPS. rewrite andb_true_iff, !N.leb_le. tauto. Qed.

Lemma is_admin_iff ca c a : is_admin ca c a = true <-> ca c = Some (Some a).
Proof.
  unfold is_admin. destruct (ca c) as [[x|]|]; split; intros H; try discriminate.
  - apply N.eqb_eq in H. subst. reflexivity.
  - inv H. apply N.eqb_refl.
Qed.

(** Register: accepted exactly when ... *)
Theorem register_iff ca h a c p b r :
  b < U64 ->
  (is_ok (reg_execute ca h a (Register c p b) r) = true <->
   (10 <= b /\ b <= 300) /\ valid_addr p = true /\ valid_addr c = true /\ ca c = Some (Some a) /\ reg_lookup c r = None).
Proof.
  intros Hb. simpl. rewrite <- is_admin_iff, <- bps_ok_iff.
  assert (Hlt : b <? U64 = true) by (apply N.ltb_lt; assumption). rewrite Hlt. simpl.
  destruct (bps_ok b), (valid_addr p), (valid_addr c), (is_admin ca c a), (reg_lookup c r); simpl;
    split; intros H; try discriminate; try tauto; try reflexivity;
    destruct H as (? & ? & ? & ? & ?); discriminate.
Qed.

Theorem register_effect ca h a c p b r r' :
  reg_execute ca h a (Register c p b) r = Ok r' ->
  reg_lookup c r' = Some (mkR h b p) /\ forall c', c' <> c -> reg_lookup c' r' = reg_lookup c' r.
Proof.
  simpl. intros H. destruct (_ && _); [|discriminate]. inv H.
  split; [apply reg_lookup_put_same | intros c' Hne; apply reg_lookup_put_other, Hne].
Qed.

Theorem update_iff ca h a c p b r :
  (forall e, reg_lookup c r = Some e -> last_updated e + COOLDOWN_BLOCKS < U64) ->
  (forall x, b = Some x -> x < U64) ->
  (is_ok (reg_execute ca h a (Update c p b) r) = true <->
   valid_addr c = true /\ ca c = Some (Some a) /\
   exists e, reg_lookup c r = Some e /\ cooled h e /\
     (forall x, b = Some x -> 10 <= x /\ x <= 300) /\ (forall x, p = Some x -> valid_addr x = true)).
Proof.
  intros Hcool Hb. simpl. rewrite <- is_admin_iff.
  destruct (valid_addr c); simpl; [|split; [discriminate | tauto]].
  destruct (is_admin ca c a); simpl; [|split; [discriminate | intros (_ & H & _); discriminate]].
  destruct (reg_lookup c r) as [e|] eqn:Hl; [|split; [discriminate | intros (_ & _ & e & H & _); discriminate]].
  pose proof (sat_cooldown h e (Hcool e eq_refl)) as Hs.
  destruct (h <? sat_add64 (last_updated e) COOLDOWN_BLOCKS) eqn:Hc.
  - split; [discriminate|]. intros (_ & _ & e' & He & Hco & _). inv He. apply Hs in Hco. discriminate.
  - assert (Hco : cooled h e) by (apply Hs; reflexivity).
    destruct b as [x|], p as [y|]; simpl.
    + assert (Hx : x <? U64 = true) by (apply N.ltb_lt, Hb; reflexivity). rewrite Hx. simpl.
      destruct (bps_ok x) eqn:Hbx, (valid_addr y) eqn:Hvy; simpl; split; intros H; try discriminate; try reflexivity.
      * splits; try reflexivity. exists e. splits; try assumption; try reflexivity.
        -- intros x' E. inv E. apply bps_ok_iff, Hbx.
        -- intros x' E. inv E. assumption.
      * destruct H as (_ & _ & e' & _ & _ & _ & H). specialize (H y eq_refl). congruence.
      * destruct H as (_ & _ & e' & _ & _ & H & _). specialize (H x eq_refl). apply bps_ok_iff in H. congruence.
      * destruct H as (_ & _ & e' & _ & _ & H & _). specialize (H x eq_refl). apply bps_ok_iff in H. congruence.
    + assert (Hx : x <? U64 = true) by (apply N.ltb_lt, Hb; reflexivity). rewrite Hx. simpl.
      destruct (bps_ok x) eqn:Hbx; simpl; split; intros H; try discriminate; try reflexivity.
      * splits; try reflexivity. exists e. splits; try assumption; try reflexivity.
        -- intros x' E. inv E. apply bps_ok_iff, Hbx.
        -- intros x' E. discriminate.
      * destruct H as (_ & _ & e' & _ & _ & H & _). specialize (H x eq_refl). apply bps_ok_iff in H. congruence.
    + destruct (valid_addr y) eqn:Hvy; simpl; split; intros H; try discriminate; try reflexivity.
      * splits; try reflexivity. exists e. splits; try assumption; try reflexivity.
        -- intros x' E. discriminate.
        -- intros x' E. inv E. assumption.
      * destruct H as (_ & _ & e' & _ & _ & _ & H). specialize (H y eq_refl). congruence.
    + split; intros H; [|reflexivity]. splits; try reflexivity. exists e. splits; try assumption; try reflexivity; intros x' E; discriminate.
Qed.

Theorem update_effect ca h a c p b r r' :
  reg_execute ca h a (Update c p b) r = Ok r' ->
  exists e, reg_lookup c r = Some e /\
    reg_lookup c r' = Some (mkR h (match b with Some x => x | None => bps e end)
                                   (match p with Some y => y | None => payout e end)) /\
    forall c', c' <> c -> reg_lookup c' r' = reg_lookup c' r.
Proof.
  simpl. intros H. destruct (_ && _); [|discriminate].
  destruct (reg_lookup c r) as [e|] eqn:Hl; [|discriminate].
  destruct (h <? _); [discriminate|].
  exists e. split; [reflexivity|].
  destruct b as [x|], p as [y|]; simpl in H;
    repeat match type of H with context [if ?c then _ else _] => destruct c end; try discriminate; inv H;
    (split; [apply reg_lookup_put_same | intros c' Hne; apply reg_lookup_put_other, Hne]).
Qed.

Theorem remove_iff ca h a c r :
  (forall e, reg_lookup c r = Some e -> last_updated e + COOLDOWN_BLOCKS < U64) ->
  (is_ok (reg_execute ca h a (Remove c) r) = true <->
   valid_addr c = true /\ ca c = Some (Some a) /\ exists e, reg_lookup c r = Some e /\ cooled h e).
Proof.
  intros Hcool. simpl. rewrite <- is_admin_iff.
  destruct (valid_addr c); simpl; [|split; [discriminate | tauto]].
  destruct (is_admin ca c a); simpl; [|split; [discriminate | intros (_ & H & _); discriminate]].
  destruct (reg_lookup c r) as [e|] eqn:Hl; [|split; [discriminate | intros (_ & _ & e & H & _); discriminate]].
  pose proof (sat_cooldown h e (Hcool e eq_refl)) as Hs.
  destruct (h <? sat_add64 (last_updated e) COOLDOWN_BLOCKS) eqn:Hc; simpl.
  - split; [discriminate|]. intros (_ & _ & e' & He & Hco). inv He. apply Hs in Hco. discriminate.
  - split; [|reflexivity]. intros _. splits; try reflexivity. exists e. split; [reflexivity | apply Hs; reflexivity].
Qed.

Theorem remove_effect ca h a c r r' :
  reg_execute ca h a (Remove c) r = Ok r' ->
  reg_lookup c r' = None /\ forall c', c' <> c -> reg_lookup c' r' = reg_lookup c' r.
Proof.
  simpl. intros H. destruct (_ && _); [|discriminate].
  destruct (reg_lookup c r) as [e|]; [|discriminate]. destruct (h <? _); [discriminate|]. inv H.
  split; [apply reg_lookup_remove_same | intros c' Hne; apply reg_lookup_remove_other, Hne].
Qed.

(** Only the admin changes an entry; rates stay within bounds. *)
Definition target (m : reg_msg) : addr :=
  match m with Register c _ _ => c | Update c _ _ => c | Remove c => c end.

Theorem only_admin ca h a m r r' c :
  reg_execute ca h a m r = Ok r' -> reg_lookup c r' <> reg_lookup c r ->
  c = target m /\ ca c = Some (Some a).
Proof.
  intros H Hne. assert (Hadm : ca (target m) = Some (Some a)).
  { apply is_admin_iff. destruct m; simpl in *.
    - destruct (b <? U64), (bps_ok b), (valid_addr p), (valid_addr c0), (is_admin ca c0 a); simpl in *; try discriminate; reflexivity.
    - destruct (valid_addr c0), (is_admin ca c0 a); simpl in *; try discriminate; reflexivity.
    - destruct (valid_addr c0), (is_admin ca c0 a); simpl in *; try discriminate; reflexivity. }
  dN c (target m); [subst; tauto|]. exfalso. apply Hne.
  destruct m; simpl in n.
  - apply register_effect in H. apply H, n.
  - apply update_effect in H. destruct H as (e & _ & _ & H). apply H, n.
  - apply remove_effect in H. apply H, n.
Qed.

Definition reg_bounds (r : rstate) : Prop := forall c e, reg_lookup c r = Some e -> 10 <= bps e /\ bps e <= 300.

Theorem reg_bounds_pres ca h a m r r' : reg_bounds r -> reg_execute ca h a m r = Ok r' -> reg_bounds r'.
Proof.
  intros Hb H c e Hl.
  dN c (target m).
  - subst. destruct m; simpl in *.
    + destruct (b <? U64); simpl in H; [|discriminate].
      destruct (bps_ok b) eqn:Hbb; simpl in H; [|discriminate].
      destruct (_ && _) eqn:E in H; [|discriminate]. inv H. rewrite reg_lookup_put_same in Hl. inv Hl. apply bps_ok_iff, Hbb.
    + pose proof H as H0. apply update_effect in H. destruct H as (e0 & He0 & Hn & _). rewrite Hn in Hl. inv Hl. simpl.
      destruct b as [x|]; [|apply (Hb _ _ He0)].
      simpl in H0. destruct (_ && _) in H0; [|discriminate]. rewrite He0 in H0. destruct (h <? _) in H0; [discriminate|].
      destruct (x <? U64); simpl in H0; [|discriminate]. destruct (bps_ok x) eqn:Hx; [apply bps_ok_iff, Hx | discriminate].
    + apply remove_effect in H. destruct H as [H _]. congruence.
  - assert (reg_lookup c r' = reg_lookup c r).
    { destruct m; simpl in n.
      - apply register_effect in H. apply H, n.
      - apply update_effect in H. destruct H as (e0 & _ & _ & H). apply H, n.
      - apply remove_effect in H. apply H, n. }
    rewrite H0 in Hl. apply (Hb _ _ Hl).
Qed.

(** Lookups return the current entry, in request order. *)
Theorem lookups r c cs :
  get_single r c = reg_lookup c r /\ (cs <> [] -> get_multi r cs = Ok (map (fun c => reg_lookup c r) cs)).
Proof. split; [reflexivity|]. intros H. destruct cs; [congruence | reflexivity]. Qed.
