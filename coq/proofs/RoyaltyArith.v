(** * RoyaltyArith: the royalty split is exact and total; the 50 % gate (C17 second half, C11). *)
From FM Require Export FeeArith.

Fixpoint total_bps (rs : list rinfo) : N :=
  match rs with [] => 0 | r :: t => total_bps t + bps r end.

(** Total paid out of one amount. *)
Definition pay_sum (a : N) (rs : list rinfo) : N :=
  sumN (map (fun r => a * bps r / 10000) rs).

(** One message per non-zero (asset, collection) pair. *)
Definition royalty_msgs (mk : addr -> N -> out_msg) (a : N) (rs : list rinfo) : list out_msg :=
  flat_map (fun r => let x := a * bps r / 10000 in if x =? 0 then [] else [mk (payout r) x]) rs.

Definition vec_msgs (mk : N -> addr -> N -> out_msg) (rs : list rinfo) (l : list (N * N)) : list out_msg :=
  flat_map (fun c => royalty_msgs (mk (fst c)) (snd c) rs) l.

Definition reduce (rs : list rinfo) (l : list (N * N)) : list (N * N) :=
  map (fun c => (fst c, snd c - pay_sum (snd c) rs)) l.

Definition rates_le (m : N) (rs : list rinfo) : Prop := Forall (fun r => bps r <= m) rs.

Lemma sum_bps_total rs : total_bps rs < U64 -> sum_bps rs = Ok (total_bps rs).
Proof.
  induction rs as [|r t IH]; simpl; intros H; [reflexivity|].
  rewrite IH by lia. cbn [bind].
  assert (Hlt : total_bps t + bps r <? U64 = true) by (apply N.ltb_lt; assumption).
  rewrite Hlt. reflexivity.
Qed.

Lemma sum_bps_overflow rs : U64 <= total_bps rs -> sum_bps rs = Err.
Proof.
  induction rs as [|r t IH]; simpl; intros H; [pose proof U64_pos; lia|].
  destruct (N.lt_ge_cases (total_bps t) U64) as [Hlt | Hge].
  - rewrite sum_bps_total by assumption. cbn [bind].
    assert (Hf : total_bps t + bps r <? U64 = false) by (apply N.ltb_ge; assumption).
    rewrite Hf. reflexivity.
  - rewrite IH by assumption. reflexivity.
Qed.

Lemma total_bps_bound rs m : rates_le m rs -> total_bps rs <= m * N.of_nat (length rs).
Proof.
  induction 1 as [|r t Hr Ht IH]; simpl; [lia|]. nia.
Qed.

Lemma royalty_amt_small a r : bps r <= 10000 -> a < U128 -> royalty_amt a r = a * bps r / 10000.
Proof.
  intros Hb Ha. unfold royalty_amt. cbv zeta.
  assert (H : a * bps r / 10000 <? U128 = true).
  { apply N.ltb_lt. assert (a * bps r / 10000 <= a) by nia. lia. }
  rewrite H. reflexivity.
Qed.

Lemma pay_sum_le a rs : 10000 * pay_sum a rs <= a * total_bps rs.
Proof.
  unfold pay_sum. induction rs as [|r t IH]; simpl; [lia|].
  assert (10000 * (a * bps r / 10000) <= a * bps r) by nia. nia.
Qed.

(** C11: royalties never take more than half. *)
Lemma pay_sum_half a rs : total_bps rs <= 5000 -> 2 * pay_sum a rs <= a.
Proof. intros H. pose proof (pay_sum_le a rs). nia. Qed.

Lemma pay_sum_lt a rs : total_bps rs <= 5000 -> 0 < a -> pay_sum a rs < a.
Proof. intros H Ha. pose proof (pay_sum_half a rs H). lia. Qed.

Lemma pay_sum_cons a r t : pay_sum a (r :: t) = a * bps r / 10000 + pay_sum a t.
Proof. reflexivity. Qed.

Lemma pay_royalties_spec mk orig rs bal :
  rates_le 10000 rs -> orig < U128 -> pay_sum orig rs <= bal ->
  pay_royalties mk orig rs bal = Ok (royalty_msgs mk orig rs, bal - pay_sum orig rs).
Proof.
  intros Hr Ho. revert bal. induction Hr as [|r t Hb Ht IH]; intros bal Hle.
  - simpl. unfold pay_sum. simpl. f_equal. f_equal. lia.
  - cbn [pay_royalties]. rewrite royalty_amt_small by assumption. rewrite pay_sum_cons in Hle.
    unfold royalty_msgs. cbn [flat_map]. fold (royalty_msgs mk orig t). cbv zeta.
    dN (orig * bps r / 10000) 0.
    + rewrite IH by lia. rewrite pay_sum_cons. f_equal. f_equal. lia.
    + unfold checked_sub.
      assert (Hle' : orig * bps r / 10000 <=? bal = true) by (apply N.leb_le; lia).
      rewrite Hle'. cbn [bind]. rewrite IH by lia. cbn [bind]. rewrite pay_sum_cons.
      simpl. f_equal. f_equal. lia.
Qed.

Lemma royalties_vec_spec mk rs l :
  rates_le 10000 rs -> total_bps rs <= 5000 -> amounts_ok l ->
  royalties_vec mk rs l = Ok (vec_msgs mk rs l, reduce rs l).
Proof.
  intros Hr Ht. induction 1 as [|[k a] t Ha Hl IH]; [reflexivity|].
  cbn [royalties_vec]. simpl in Ha.
  rewrite pay_royalties_spec; [|assumption|assumption|pose proof (pay_sum_half a rs Ht); lia].
  cbn [bind]. rewrite IH. cbn [bind]. reflexivity.
Qed.

Lemma rates_le_weaken m n rs : m <= n -> rates_le m rs -> rates_le n rs.
Proof. intros Hmn H. unfold rates_le in *. eapply Forall_impl; [|exact H]. simpl. intros; lia. Qed.

(** C17 (second half): for registry-legal rates that sum to at most 50 %, the royalty split
    succeeds with exactly these messages and this remainder. *)
Theorem royalties_total_exact g resp :
  wf_amounts g ->
  let rs := registered resp in
  rates_le 300 rs -> (length rs <= 25)%nat -> total_bps rs <= 5000 ->
  royalties g resp =
    Ok (vec_msgs (fun d to x => BankSend to [(d, x)]) rs (native g)
        ++ vec_msgs (fun t to x => Cw20Transfer t to x) rs (cw20 g),
        total_bps rs,
        mkG (reduce rs (native g)) (reduce rs (cw20 g)) (nfts g)).
Proof.
  intros [Hn Hc] rs Hr Hlen Ht. unfold royalties. fold rs.
  rewrite sum_bps_total by (pose proof U64_big; lia). cbn [bind].
  assert (Hcap : ROYALTY_CAP <? total_bps rs = false) by (apply N.ltb_ge; exact Ht).
  rewrite Hcap.
  assert (Hr' : rates_le 10000 rs) by (eapply rates_le_weaken; [|exact Hr]; lia).
  rewrite !royalties_vec_spec by assumption. reflexivity.
Qed.

(** The gate: more than 50 % is refused, whatever else (C11, C17 "never aborts otherwise"). *)
Theorem royalties_gate g resp : 5000 < total_bps (registered resp) -> royalties g resp = Err.
Proof.
  intros H. unfold royalties.
  destruct (N.lt_ge_cases (total_bps (registered resp)) U64) as [Hlt | Hge].
  - rewrite sum_bps_total by assumption. cbn [bind].
    assert (Hcap : ROYALTY_CAP <? total_bps (registered resp) = true) by (apply N.ltb_lt; exact H).
    rewrite Hcap. reflexivity.
  - rewrite sum_bps_overflow by assumption. reflexivity.
Qed.

Theorem royalties_gate_iff g resp :
  wf_amounts g -> rates_le 300 (registered resp) -> (length (registered resp) <= 25)%nat ->
  (royalties g resp = Err <-> 5000 < total_bps (registered resp)).
Proof.
  intros Hw Hr Hl. split; [|apply royalties_gate].
  intros He. destruct (N.lt_ge_cases 5000 (total_bps (registered resp))) as [H | H]; [assumption|].
  rewrite royalties_total_exact in He by assumption. discriminate.
Qed.

(** Per-asset conservation and bounds of the remainder. *)
Lemma amount_of_reduce_nodup k rs l :
  NoDup (map fst l) -> total_bps rs <= 5000 ->
  amount_of k (reduce rs l) + pay_sum (amount_of k l) rs = amount_of k l.
Proof.
  intros Hnd Ht. induction l as [|[k' a] t IH]; simpl.
  - unfold pay_sum. assert (Hz : sumN (map (fun r => 0 * bps r / 10000) rs) = 0).
    { clear Ht. induction rs as [|r rr IHr]; simpl; [reflexivity|]. rewrite IHr. nia. }
    rewrite Hz. reflexivity.
  - inv Hnd. dN k' k.
    + subst. rewrite (amount_of_notin k t) by assumption.
      assert (Hred : amount_of k (reduce rs t) = 0).
      { apply amount_of_notin. unfold reduce. rewrite map_map. simpl. assumption. }
      rewrite Hred. rewrite !N.add_0_r. pose proof (pay_sum_half a rs Ht). lia.
    + rewrite !N.add_0_l. apply IH. assumption.
Qed.

Lemma reduce_keys rs l : map fst (reduce rs l) = map fst l.
Proof. unfold reduce. rewrite map_map. reflexivity. Qed.

Lemma reduce_positive rs l :
  total_bps rs <= 5000 -> Forall (fun c => 0 < snd c) l -> Forall (fun c => 0 < snd c) (reduce rs l).
Proof.
  intros Ht. unfold reduce. induction 1 as [|[k a] t Ha Hl IH]; simpl; constructor; [|assumption].
  simpl in *. pose proof (pay_sum_half a rs Ht). lia.
Qed.

Lemma reduce_amounts_ok rs l : amounts_ok l -> amounts_ok (reduce rs l).
Proof.
  unfold amounts_ok, reduce. induction 1 as [|[k a] t Ha Hl IH]; simpl; constructor; [|assumption].
  simpl in *. lia.
Qed.

Lemma reduce_length rs l : length (reduce rs l) = length l.
Proof. unfold reduce. apply map_length. Qed.
