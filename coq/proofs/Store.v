(** Facts about the association-list store primitives of model/Market.v. *)
From FM Require Export ListFacts.

Lemma key_eqb_eq a b : key_eqb a b = true <-> a = b.
Proof. apply pair_eqb_eq. Qed.

Lemma key_eqb_refl a : key_eqb a a = true.
Proof. apply key_eqb_eq. reflexivity. Qed.

Lemma key_eqb_neq a b : key_eqb a b = false <-> a <> b.
Proof. rewrite <- key_eqb_eq. destruct (key_eqb a b); split; congruence. Qed.

Global Arguments put : simpl never.

Ltac dK a b := let H := fresh "Hk" in destruct (key_eqb a b) eqn:H; [apply key_eqb_eq in H | apply key_eqb_neq in H].

Section StoreFacts.
  Context {V : Type}.
  Implicit Types (l : list (key * V)) (k : key) (v : V).

  Lemma find_key_In k v l : find_key k l = Some v -> In (k, v) l.
  Proof.
    induction l as [|[k' v'] r IH]; simpl; intros H; [discriminate|].
    dK k' k; [inv H; left; reflexivity | right; apply IH, H].
  Qed.

  Lemma find_key_None k l : find_key k l = None <-> ~ In k (map fst l).
  Proof.
    induction l as [|[k' v'] r IH]; simpl; [tauto|].
    dK k' k; [split; [discriminate | intros H; exfalso; apply H; left; assumption]|].
    rewrite IH. split; [intros H [H1 | H1]; [congruence | tauto] | tauto].
  Qed.

  Lemma In_find_key k v l : NoDup (map fst l) -> In (k, v) l -> find_key k l = Some v.
  Proof.
    induction l as [|[k' v'] r IH]; simpl; intros Hnd Hin; [tauto|]. inv Hnd.
    destruct Hin as [Heq | Hin].
    - inv Heq. rewrite key_eqb_refl. reflexivity.
    - dK k' k; [|apply IH; assumption].
      subst. exfalso. apply H1. apply in_map_iff. exists (k, v). split; [reflexivity | assumption].
  Qed.

  Lemma In_remove_key k k' v' l : In (k', v') (remove_key k l) <-> In (k', v') l /\ k' <> k.
  Proof.
    induction l as [|[k2 v2] r IH]; simpl; [tauto|].
    dK k2 k.
    - rewrite IH. subst. split; [tauto|]. intros [[H | H] Hne]; [inv H; congruence | tauto].
    - simpl. rewrite IH. split.
      + intros [H | H]; [inv H; tauto | tauto].
      + tauto.
  Qed.

  Lemma In_put k v k' v' l : In (k', v') (put k v l) <-> (k', v') = (k, v) \/ (In (k', v') l /\ k' <> k).
  Proof. unfold put. simpl. rewrite In_remove_key. split; intros [H | H]; auto. Qed.

  Lemma find_key_remove_same k l : find_key k (remove_key k l) = None.
  Proof.
    induction l as [|[k2 v2] r IH]; simpl; [reflexivity|].
    dK k2 k; [assumption|]. simpl. apply key_eqb_neq in Hk. rewrite Hk. assumption.
  Qed.

  Lemma find_key_remove_other k k' l : k' <> k -> find_key k' (remove_key k l) = find_key k' l.
  Proof.
    intros Hne. induction l as [|[k2 v2] r IH]; simpl; [reflexivity|].
    dK k2 k.
    - subst. dK k k'; [congruence | assumption].
    - simpl. rewrite IH. reflexivity.
  Qed.

  Lemma find_key_put_same k v l : find_key k (put k v l) = Some v.
  Proof. unfold put. simpl. rewrite key_eqb_refl. reflexivity. Qed.

  Lemma find_key_put_other k k' v l : k' <> k -> find_key k' (put k v l) = find_key k' l.
  Proof.
    intros Hne. unfold put. simpl. dK k k'; [congruence|]. apply find_key_remove_other, Hne.
  Qed.

  (** Projections of the entries (ids, keys) stay duplicate-free. *)
  Lemma map_remove_key_incl {B} (f : key * V -> B) k l : incl (map f (remove_key k l)) (map f l).
  Proof.
    induction l as [|[k2 v2] r IH]; simpl; [apply incl_refl|].
    dK k2 k; [apply incl_tl, IH | simpl; apply incl_cons; [left; reflexivity | apply incl_tl, IH]].
  Qed.

  Lemma NoDup_map_remove_key {B} (f : key * V -> B) k l : NoDup (map f l) -> NoDup (map f (remove_key k l)).
  Proof.
    induction l as [|[k2 v2] r IH]; simpl; intros H; [constructor|]. inv H.
    dK k2 k; [apply IH, H3|]. simpl. constructor; [|apply IH, H3].
    intros Hin. apply H2. apply (map_remove_key_incl f k r), Hin.
  Qed.

  Lemma NoDup_map_put {B} (f : key * V -> B) k v l :
    NoDup (map f l) -> (forall k' v', In (k', v') l -> k' <> k -> f (k', v') <> f (k, v)) ->
    NoDup (map f (put k v l)).
  Proof.
    intros Hnd Hfresh. unfold put. simpl. constructor; [|apply NoDup_map_remove_key, Hnd].
    intros Hin. apply in_map_iff in Hin. destruct Hin as ([k' v'] & Hf & Hin).
    apply In_remove_key in Hin. destruct Hin as [Hin Hne]. apply (Hfresh k' v' Hin Hne). assumption.
  Qed.

  Lemma remove_key_notin k l : ~ In k (map fst l) -> remove_key k l = l.
  Proof.
    induction l as [|[k2 v2] r IH]; simpl; intros H; [reflexivity|].
    dK k2 k; [tauto|]. f_equal. apply IH. tauto.
  Qed.
End StoreFacts.

(** The unique index on listing ids. *)
Lemma find_by_id_In id l k v : find_by_id id l = Some (k, v) -> In (k, v) l /\ lid v = id.
Proof.
  unfold find_by_id. intros H. apply find_some in H. simpl in H. destruct H as [H1 H2].
  apply N.eqb_eq in H2. tauto.
Qed.

Lemma find_by_id_None id l : find_by_id id l = None <-> (forall k v, In (k, v) l -> lid v <> id).
Proof.
  unfold find_by_id. split.
  - intros H k v Hin Heq. apply (find_none _ _ H) in Hin. simpl in Hin. apply N.eqb_neq in Hin. tauto.
  - intros H. destruct (find _ l) as [[k v]|] eqn:Hf; [|reflexivity].
    apply find_some in Hf. simpl in Hf. destruct Hf as [H1 H2]. apply N.eqb_eq in H2.
    exfalso. apply (H k v H1 H2).
Qed.

Lemma In_find_by_id id l k v :
  NoDup (map (fun e => lid (snd e)) l) -> In (k, v) l -> lid v = id -> find_by_id id l = Some (k, v).
Proof.
  unfold find_by_id. induction l as [|[k2 v2] r IH]; simpl; intros Hnd Hin Hid; [tauto|]. inv Hnd.
  destruct Hin as [Heq | Hin].
  - inv Heq. rewrite N.eqb_refl. reflexivity.
  - dN (lid v2) (lid v); [|apply IH; auto].
    exfalso. apply H1. apply in_map_iff. exists (k, v). simpl. split; [congruence | assumption].
Qed.
