(** Shared proof set-up. *)
From Coq Require Export Lia ZArith ZifyBool ZifyNat ZifyN Permutation.
From FM Require Export Totals.
Ltac Zify.zify_post_hook ::= Z.div_mod_to_equations.

Arguments N.add : simpl never.
Arguments N.sub : simpl never.
Arguments N.mul : simpl never.
Arguments N.div : simpl never.
Arguments N.eqb : simpl never.
Arguments N.ltb : simpl never.
Arguments N.leb : simpl never.
Arguments N.pow : simpl never.

Lemma U128_pos : 0 < U128.
Proof. unfold U128. apply N.neq_0_lt_0, N.pow_nonzero. lia. Qed.

Lemma U64_pos : 0 < U64.
Proof. unfold U64. apply N.neq_0_lt_0, N.pow_nonzero. lia. Qed.

Lemma U64_big : 10000 < U64.
Proof. unfold U64. reflexivity. Qed.

Lemma U128_val : U128 = 340282366920938463463374607431768211456.
Proof. reflexivity. Qed.

Lemma U64_val : U64 = 18446744073709551616.
Proof. reflexivity. Qed.

Global Opaque U128 U64.

(** Boolean reflection helpers over [N]. *)
Lemma eqb_eq' a b : (a =? b) = true <-> a = b.   Proof. apply N.eqb_eq. Qed.
Lemma eqb_neq' a b : (a =? b) = false <-> a <> b. Proof. apply N.eqb_neq. Qed.

Ltac dN a b := destruct (N.eqb_spec a b).

Ltac inv H := inversion H; subst; clear H.

(** Monad inversion. *)
Lemma bind_ok {A B} (r : result A) (f : A -> result B) b :
  bind r f = Ok b -> exists a, r = Ok a /\ f a = Ok b.
Proof. destruct r; simpl; intros H; [eauto | discriminate]. Qed.

Ltac bind_inv H :=
  let a := fresh "x" in let H1 := fresh "H" in let H2 := fresh "H" in
  apply bind_ok in H; destruct H as (a & H1 & H2).

(** Split conjunctions only. *)
Ltac splits := repeat match goal with |- _ /\ _ => split end.
