(** * WF: well-formedness of balances and records, and its preservation by every balance
    operation (the ingredients of C12). *)
From FM Require Export Inv RoyaltyArith.

Definition pos_ok (l : list (N * N)) : Prop := Forall (fun c => 0 < snd c /\ snd c < U128) l.

Record wf_gbal (g : gbal) : Prop := mkWfG {
  wg_nonempty : gsize g <> 0;
  wg_native : pos_ok (native g);
  wg_cw20 : pos_ok (cw20 g);
  wg_nd_native : NoDup (map fst (native g));
  wg_nd_cw20 : NoDup (map fst (cw20 g));
  wg_nd_nfts : NoDup (nfts g)
}.

Lemma pos_ok_amounts_ok l : pos_ok l -> amounts_ok l.
Proof. unfold pos_ok, amounts_ok. apply Forall_impl. tauto. Qed.

Lemma wf_gbal_amounts g : wf_gbal g -> wf_amounts g.
Proof. intros [? ? ? ? ? ?]. split; apply pos_ok_amounts_ok; assumption. Qed.

Lemma forallb_pos_ok l :
  forallb (fun c : N * N => negb (snd c =? 0)) l = true -> amounts_ok l -> pos_ok l.
Proof.
  unfold pos_ok, amounts_ok. rewrite forallb_forall, !Forall_forall. intros H1 H2 x Hx.
  specialize (H1 x Hx). specialize (H2 x Hx). apply negb_true_iff, N.eqb_neq in H1. lia.
Qed.

Lemma gsize_nonzero_native n c f : n <> [] -> gsize (mkG n c f) <> 0.
Proof. unfold gsize. simpl. destruct n; [congruence | simpl; lia]. Qed.

Definition balance_in_range (b : balance) : Prop :=
  match b with BNative cs => amounts_ok cs | BCw20 _ a => a < U128 end.

Lemma wf_from_balance b : normalized_check b = true -> balance_in_range b -> wf_gbal (from_balance b).
Proof.
  destruct b as [cs | t a]; simpl; intros Hn Hr.
  - apply andb_true_iff in Hn. destruct Hn as [Hn Hnd]. apply andb_true_iff in Hn. destruct Hn as [Hne Hz].
    constructor; simpl; try constructor.
    + apply gsize_nonzero_native. destruct cs; [discriminate | congruence].
    + apply forallb_pos_ok; assumption.
    + apply nodupN_NoDup, Hnd.
  - apply negb_true_iff, N.eqb_neq in Hn.
    constructor; simpl; try constructor; try constructor; simpl; try tauto; try lia.
    unfold gsize. simpl. lia.
Qed.

Lemma wf_from_nft n : wf_gbal (from_nft n).
Proof.
  constructor; simpl; try constructor; try constructor; simpl; try tauto.
  unfold gsize. simpl. lia.
Qed.

Lemma forallb_and {A} (f g : A -> bool) l :
  forallb (fun x => f x && g x) l = forallb f l && forallb g l.
Proof. induction l as [|x r IH]; simpl; [reflexivity|]. rewrite IH. destruct (f x), (g x), (forallb f r); reflexivity. Qed.

Lemma validate_ask_ok a va :
  validate_ask a = Ok va ->
  va = a /\ wf_gbal a /\ gsize a <= MAX_NUM_ASSETS /\
  Forall (fun c => valid_addr (fst c) = true) (cw20 a) /\ Forall (fun c => valid_addr (fst c) = true) (nfts a).
Proof.
  unfold validate_ask. intros H. step H; [|discriminate]. inv H.
  apply andb_true_iff in Hc as [Hc H8]. apply andb_true_iff in Hc as [Hc H7].
  apply andb_true_iff in Hc as [Hc H6]. apply andb_true_iff in Hc as [Hc H5].
  apply andb_true_iff in Hc as [Hc H4]. apply andb_true_iff in Hc as [Hc H3].
  apply andb_true_iff in Hc as [H1 H2].
  rewrite forallb_and in H1. apply andb_true_iff in H1 as [Hnz Hnr].
  rewrite !forallb_and in H2. apply andb_true_iff in H2 as [H2 Hcr].
  apply andb_true_iff in H2 as [Hcv Hcz].
  split; [reflexivity|]. split; [|split; [apply N.leb_le, H5 | split]].
  - constructor.
    + apply negb_true_iff, N.eqb_neq in H4. assumption.
    + apply forallb_pos_ok; [assumption|]. unfold amounts_ok. rewrite Forall_forall. rewrite forallb_forall in Hnr.
      intros x Hx. apply N.ltb_lt, Hnr, Hx.
    + apply forallb_pos_ok; [assumption|]. unfold amounts_ok. rewrite Forall_forall. rewrite forallb_forall in Hcr.
      intros x Hx. apply N.ltb_lt, Hcr, Hx.
    + apply nodupN_NoDup; assumption.
    + apply nodupN_NoDup; assumption.
    + apply nodupP_NoDup; assumption.
  - rewrite Forall_forall. rewrite forallb_forall in Hcv. assumption.
  - rewrite Forall_forall. rewrite forallb_forall in H3. assumption.
Qed.

(** ** Merging coins *)
Lemma add_coin_spec l k a l' :
  add_coin l k a = Ok l' -> pos_ok l -> NoDup (map fst l) -> 0 < a -> a < U128 ->
  pos_ok l' /\ NoDup (map fst l') /\ l' <> [] /\ incl (map fst l) (map fst l') /\
  (forall x, In x (map fst l') -> x = k \/ In x (map fst l)) /\
  (length l <= length l')%nat /\
  (forall d, amount_of d l' = amount_of d l + (if k =? d then a else 0)) /\
  ((length l' = length l /\ In k (map fst l)) \/ (length l' = S (length l) /\ ~ In k (map fst l))).
Proof.
  revert l'. induction l as [|[k' a'] r IH]; simpl; intros l' H Hp Hnd Ha Hr.
  - inv H. splits; simpl.
    + repeat constructor; simpl; lia.
    + repeat constructor; simpl; tauto.
    + discriminate.
    + intros y [].
    + intros y [Hy | []]. left. congruence.
    + lia.
    + intros d. dN k d; lia.
    + right. split; [reflexivity | tauto].
  - inv Hp. inv Hnd. destruct H2 as [Hp1 Hp2]. simpl in *.
    dN k' k.
    + subst. unfold add128 in H. step H. step Hb; [|discriminate]. inv Hb. inv H. apply N.ltb_lt in Hc.
      splits; simpl.
      * constructor; [simpl; lia | assumption].
      * constructor; assumption.
      * discriminate.
      * apply incl_refl.
      * tauto.
      * lia.
      * intros d. dN k d; lia.
      * left. tauto.
    + step H. inv H. destruct (IH x Hb H3 H5 Ha Hr) as (I1 & I2 & I3 & I4 & I5 & I6 & I7 & I8).
      splits; simpl.
      * constructor; [simpl; lia | assumption].
      * constructor; [|assumption]. intros Hin. destruct (I5 _ Hin); [congruence | tauto].
      * discriminate.
      * apply incl_cons; [left; reflexivity|]. apply incl_tl, I4.
      * intros y [Hy | Hy]; [right; left; assumption|]. destruct (I5 _ Hy); tauto.
      * lia.
      * intros d. rewrite I7. lia.
      * destruct I8 as [[E1 E2] | [E1 E2]]; [left | right]; split; try lia; tauto.
Qed.

Lemma add_coins_spec cs : forall l l',
  add_coins l cs = Ok l' -> pos_ok l -> NoDup (map fst l) -> pos_ok cs ->
  pos_ok l' /\ NoDup (map fst l') /\ (cs <> [] -> l' <> []) /\ (l <> [] -> l' <> []) /\
  (length l <= length l')%nat /\
  (forall d, amount_of d l' = amount_of d l + amount_of d cs).
Proof.
  induction cs as [|[k a] r IH]; simpl; intros l l' H Hp Hnd Hcs.
  - inv H. splits; try tauto; try lia; try (intros d; lia).
  - inv Hcs. simpl in *. step H.
    destruct (add_coin_spec _ _ _ _ Hb Hp Hnd) as (A1 & A2 & A3 & A4 & A5 & A6 & A7 & A8); try lia.
    destruct (IH x l' H A1 A2 H3) as (B1 & B2 & B3 & B4 & B5 & B6).
    splits; try assumption; try lia; try tauto; try (intros d; rewrite B6, A7; lia).
Qed.

Lemma add_tokens_wf g b g' :
  add_tokens g b = Ok g' -> wf_gbal g -> normalized_check b = true -> balance_in_range b -> wf_gbal g'.
Proof.
  intros H [W1 W2 W3 W4 W5 W6] Hn Hr. destruct b as [cs | t a]; simpl in *; step H; inv H.
  - apply andb_true_iff in Hn. destruct Hn as [Hn Hnd]. apply andb_true_iff in Hn. destruct Hn as [Hne Hz].
    destruct (add_coins_spec cs (native g) x Hb W2 W4 (forallb_pos_ok _ Hz Hr)) as (B1 & B2 & B3 & B4 & B5 & B6).
    constructor; simpl; try assumption.
    apply gsize_nonzero_native. apply B3. destruct cs; [discriminate | congruence].
  - apply negb_true_iff, N.eqb_neq in Hn.
    destruct (add_coin_spec _ _ _ _ Hb W3 W5) as (A1 & A2 & A3 & A4 & A5 & A6 & A7 & A8); try lia.
    constructor; simpl; try assumption.
    unfold gsize in *. simpl in *. destruct x; [congruence | simpl; lia].
Qed.

Lemma check_valid_wf g : check_valid g = true -> wf_amounts g -> wf_gbal g /\ gsize g <= MAX_NUM_ASSETS.
Proof.
  unfold check_valid. intros H [Hn Hc].
  apply andb_true_iff in H as [H H7]. apply andb_true_iff in H as [H H6].
  apply andb_true_iff in H as [H H5]. apply andb_true_iff in H as [H H4].
  apply andb_true_iff in H as [H H3]. apply andb_true_iff in H as [H1 H2].
  split; [|apply N.leb_le; assumption].
  constructor.
  - apply negb_true_iff, N.eqb_neq in H3. assumption.
  - apply forallb_pos_ok; assumption.
  - apply forallb_pos_ok; assumption.
  - apply nodupN_NoDup; assumption.
  - apply nodupN_NoDup; assumption.
  - apply nodupP_NoDup; assumption.
Qed.

Lemma add_nft_wf g n : check_valid (add_nft g n) = true -> wf_gbal g -> wf_gbal (add_nft g n).
Proof.
  intros H W. apply check_valid_wf; [assumption|]. apply wf_gbal_amounts in W. exact W.
Qed.

(** ** The fee split keeps a balance well-formed *)
Lemma pos_ok_filter f l : pos_ok l -> pos_ok (filter f l).
Proof. unfold pos_ok. rewrite !Forall_forall. intros H x Hx. apply filter_In in Hx. apply H, Hx. Qed.

Lemma pos_ok_In l k a : pos_ok l -> In (k, a) l -> 0 < a /\ a < U128.
Proof. unfold pos_ok. rewrite Forall_forall. intros H Hin. apply (H (k, a) Hin). Qed.

Lemma calc_fee_wf fd g fee g' :
  calc_fee_coin fd g = Ok (fee, g') -> wf_gbal g ->
  wf_gbal g' /\ nfts g' = nfts g /\ cw20 g' = cw20 g /\ gsize g' = gsize g /\
  (forall d a, fee = Some (d, a) -> d = fee_denom_value fd /\ 0 < a /\ a < U128).
Proof.
  intros H W. pose proof W as [W1 W2 W3 W4 W5 W6]. unfold calc_fee_coin in H.
  destruct (find (fun c : N * N => fst c =? fee_denom_value fd) (native g)) as [[k a]|] eqn:Hf.
  - destruct (find_fee_some _ _ _ _ W4 Hf) as (-> & Hin & Ham). clear Ham.
    destruct (pos_ok_In _ _ _ W2 Hin) as [Ha0 Ha].
    rewrite (mul_ratio_fee a Ha) in H. cbn [bind] in H.
    step H; [inv H; splits; try assumption; try reflexivity; discriminate|].
    unfold checked_sub in H. step H. step Hb; [|discriminate]. inv Hb. inv H.
    apply N.eqb_neq in Hc. pose proof (fee_lt a Ha0) as Hlt.
    assert (Hlen := length_filter_remove1 _ _ _ W4 Hin).
    splits; simpl.
    + constructor; simpl; try assumption.
      * unfold gsize in *. simpl. rewrite app_length. simpl. unfold coin, denom, addr, tokid in *. lia.
      * unfold pos_ok. apply Forall_app. split; [apply pos_ok_filter, W2|]. constructor; [simpl; lia | constructor].
      * rewrite map_app. simpl. apply NoDup_app_single; [apply NoDup_map_filter, W4|].
        intros Hin'. apply in_map_iff in Hin'. destruct Hin' as ([k' a'] & Hk & Hin').
        apply filter_In in Hin'. simpl in *. subst. destruct Hin' as [_ Hne].
        rewrite N.eqb_refl in Hne. discriminate.
    + reflexivity.
    + reflexivity.
    + unfold gsize. simpl. rewrite app_length. simpl. f_equal. unfold coin, denom, addr, tokid in *. lia.
    + intros d a0 Hs. inv Hs. splits; [reflexivity | lia | lia].
  - inv H. splits; try assumption; try reflexivity; discriminate.
Qed.

(** ** The royalty split keeps a balance well-formed (no assumption on the registry) *)
Lemma sum_bps_inv rs t : sum_bps rs = Ok t -> t = total_bps rs.
Proof.
  revert t. induction rs as [|r rr IH]; simpl; intros t H; [inv H; reflexivity|].
  step H. step H; [|discriminate]. inv H. rewrite (IH x Hb). reflexivity.
Qed.

Lemma royalty_amt_le a r : royalty_amt a r <= a * bps r / 10000.
Proof. unfold royalty_amt. cbv zeta. destruct (_ <? U128); lia. Qed.

Definition paid (a : N) (rs : list rinfo) : N := sumN (map (royalty_amt a) rs).

Lemma paid_le a rs : paid a rs <= pay_sum a rs.
Proof.
  unfold paid, pay_sum. induction rs as [|r t IH]; simpl; [lia|]. pose proof (royalty_amt_le a r). lia.
Qed.

Lemma pay_royalties_inv mk orig rs : forall bal ms b,
  pay_royalties mk orig rs bal = Ok (ms, b) -> paid orig rs <= bal /\ b = bal - paid orig rs.
Proof.
  unfold paid. induction rs as [|r t IH]; simpl; intros bal ms b H.
  - inv H. split; lia.
  - step H.
    + apply N.eqb_eq in Hc. destruct (IH _ _ _ H) as [I1 I2]. rewrite Hc. split; lia.
    + unfold checked_sub in H. step H. step Hb; [|discriminate]. inv Hb. step H. step H. inv H.
      apply N.leb_le in Hc0. destruct (IH _ _ _ Hb) as [I1 I2]. split; lia.
Qed.

Lemma royalties_vec_inv mk rs : forall l ms l',
  royalties_vec mk rs l = Ok (ms, l') ->
  l' = map (fun c => (fst c, snd c - paid (snd c) rs)) l.
Proof.
  induction l as [|[k a] t IH]; simpl; intros ms l' H; [inv H; reflexivity|].
  step H. step H. step H. step H. inv H.
  destruct (pay_royalties_inv _ _ _ _ _ _ Hb) as [P1 P2]. subst. rewrite (IH _ _ Hb0). reflexivity.
Qed.

Lemma paid_pos_ok rs l :
  total_bps rs <= 5000 -> pos_ok l -> pos_ok (map (fun c => (fst c, snd c - paid (snd c) rs)) l).
Proof.
  intros Ht. unfold pos_ok. induction 1 as [|[k a] t [Ha0 Ha] Hl IH]; simpl; constructor; [|assumption].
  simpl in *. pose proof (paid_le a rs). pose proof (pay_sum_half a rs Ht). lia.
Qed.

Lemma royalties_wf g resp ms t g' :
  royalties g resp = Ok (ms, t, g') -> wf_gbal g ->
  wf_gbal g' /\ nfts g' = nfts g /\ gsize g' = gsize g /\ t = total_bps (registered resp) /\ t <= 5000.
Proof.
  unfold royalties. intros H [W1 W2 W3 W4 W5 W6].
  step H. apply sum_bps_inv in Hb. subst x. step H; [discriminate|]. apply N.ltb_ge in Hc.
  step H. step H. step H. step H. inv H.
  apply royalties_vec_inv in Hb. apply royalties_vec_inv in Hb0. subst.
  splits; simpl; try assumption; try reflexivity.
  - constructor; simpl; try assumption.
    + unfold gsize in *. simpl. rewrite !map_length. assumption.
    + apply paid_pos_ok; assumption.
    + apply paid_pos_ok; assumption.
    + rewrite map_map. simpl. assumption.
    + rewrite map_map. simpl. assumption.
  - unfold gsize. simpl. rewrite !map_length. reflexivity.
Qed.
