(** * WireFacts: the community-pool payload decodes back to exactly what was encoded
    (byte-level half of C10). *)
From FM Require Export History.
From FM Require Export Wire.

Lemma read_varint_cons f b r :
  read_varint (S f) (b :: r) =
  if b <? 128 then Some (b, r)
  else match read_varint f r with Some (v, r') => Some ((b - 128) + 128 * v, r') | None => None end.
Proof. reflexivity. Qed.

Lemma read_varint_fuel f : forall n rest,
  n < 128 ^ N.of_nat (S f) -> read_varint (S f) (varint_fuel f n ++ rest) = Some (n, rest).
Proof.
  induction f as [|f IH]; intros n rest Hn.
  - simpl in *. assert (E : n mod 128 = n) by (apply N.mod_small; lia). rewrite E.
    assert (L : n <? 128 = true) by (apply N.ltb_lt; lia). rewrite L. reflexivity.
  - cbn [varint_fuel]. destruct (N.ltb_spec n 128) as [L | L].
    + cbn [app]. rewrite read_varint_cons. assert (L' : n <? 128 = true) by (apply N.ltb_lt; exact L). rewrite L'. reflexivity.
    + cbn [app]. rewrite read_varint_cons.
      assert (B : n mod 128 + 128 <? 128 = false) by (apply N.ltb_ge; lia). rewrite B.
      rewrite IH.
      * f_equal. f_equal. pose proof (N.div_mod n 128). lia.
      * rewrite Nat2N.inj_succ, N.pow_succ_r' in Hn. apply N.div_lt_upper_bound; [lia | exact Hn].
Qed.

Lemma read_varint_varint n rest : n < 128 ^ 11 -> read_varint 11 (varint n ++ rest) = Some (n, rest).
Proof. intros H. unfold varint. apply (read_varint_fuel 10). exact H. Qed.

Lemma take_bytes_app (s rest : list byte) : take_bytes (lenN s) (s ++ rest) = Some (s, rest).
Proof.
  unfold take_bytes, lenN. rewrite app_length.
  assert (L : N.of_nat (length s) <=? N.of_nat (length s + length rest) = true) by (apply N.leb_le; lia). rewrite L.
  rewrite Nat2N.id. rewrite firstn_app, Nat.sub_diag, firstn_all. simpl. rewrite app_nil_r.
  rewrite skipn_app, Nat.sub_diag, skipn_all. reflexivity.
Qed.

Definition fits (s : list byte) : Prop := lenN s < 128 ^ 11.

Lemma read_ld_message field (m rest : list byte) :
  field * 8 + 2 < 128 ^ 11 -> fits m -> read_ld field (pb_message field m ++ rest) = Some (m, rest).
Proof.
  intros Hf Hm. unfold read_ld, pb_message, key_ld. rewrite <- !app_assoc.
  rewrite read_varint_varint by exact Hf. rewrite N.eqb_refl.
  rewrite read_varint_varint by exact Hm. apply take_bytes_app.
Qed.

Lemma read_ld_string field (s rest : list byte) :
  field * 8 + 2 < 128 ^ 11 -> s <> [] -> fits s -> read_ld field (pb_string field s ++ rest) = Some (s, rest).
Proof.
  intros Hf Hne Hs. unfold pb_string. destruct s as [|b r]; [congruence|].
  apply (read_ld_message field (b :: r) rest Hf Hs).
Qed.

Theorem decode_coin_encode denom amount :
  denom <> [] -> amount <> [] -> fits denom -> fits amount ->
  decode_coin (encode_coin denom amount) = Some (denom, amount).
Proof.
  intros H1 H2 F1 F2. unfold decode_coin, encode_coin.
  rewrite read_ld_string by (try assumption; vm_compute; reflexivity).
  rewrite <- (app_nil_r (pb_string 2 amount)).
  rewrite read_ld_string by (try assumption; vm_compute; reflexivity). reflexivity.
Qed.

(** The payload the marketplace emits is read back by a protobuf decoder for this schema as
    exactly (denom, amount string, depositor). *)
Theorem decode_fund_pool_encode denom amount depositor :
  denom <> [] -> amount <> [] -> depositor <> [] -> fits denom -> fits amount -> fits depositor ->
  fits (encode_coin denom amount) ->
  decode_fund_pool (encode_fund_pool denom amount depositor) = Some (denom, amount, depositor).
Proof.
  intros H1 H2 H3 F1 F2 F3 F4. unfold decode_fund_pool, encode_fund_pool.
  rewrite read_ld_message by (try assumption; vm_compute; reflexivity).
  rewrite decode_coin_encode by assumption.
  rewrite <- (app_nil_r (pb_string 2 depositor)).
  rewrite read_ld_string by (try assumption; vm_compute; reflexivity). reflexivity.
Qed.

(** ** Decimal amounts *)
Lemma digits_fuel_spec f : forall n acc,
  n < 10 ^ N.of_nat f -> (0 < f)%nat ->
  exists ds, digits_fuel f n acc = ds ++ acc /\ ds <> [] /\
             forall k, parse_decimal (ds ++ acc) k = parse_decimal acc (k * 10 ^ lenN ds + n).
Proof.
  induction f as [|f IH]; intros n acc Hn Hf; [lia|].
  cbn [digits_fuel]. cbv zeta. destruct (N.ltb_spec n 10) as [L | L].
  - exists [48 + n mod 10]. split; [reflexivity|]. split; [discriminate|]. intros k. cbn [app parse_decimal].
    assert (E : n mod 10 = n) by (apply N.mod_small; exact L). rewrite E.
    assert (B : (48 <=? 48 + n) && (48 + n <=? 57) = true) by (apply andb_true_iff; split; apply N.leb_le; lia). rewrite B.
    f_equal. unfold lenN. simpl. lia.
  - destruct f as [|f']; [simpl in Hn; lia|].
    destruct (IH (n / 10) ((48 + n mod 10) :: acc)) as (ds & E & Hne & Hp); [|lia|].
    + rewrite Nat2N.inj_succ, N.pow_succ_r' in Hn. apply N.div_lt_upper_bound; [lia | exact Hn].
    + exists (ds ++ [48 + n mod 10]). split; [rewrite E, <- app_assoc; reflexivity|]. split; [destruct ds; discriminate|].
      intros k. rewrite <- app_assoc. cbn [app]. rewrite Hp. cbn [parse_decimal].
      assert (Hm : n mod 10 < 10) by (apply N.mod_lt; lia).
      assert (B : (48 <=? 48 + n mod 10) && (48 + n mod 10 <=? 57) = true) by (apply andb_true_iff; split; apply N.leb_le; lia). rewrite B.
      f_equal. unfold lenN. rewrite app_length. simpl. rewrite Nat.add_1_r, Nat2N.inj_succ, N.pow_succ_r'.
      pose proof (N.div_mod n 10). lia.
Qed.

Theorem parse_decimal_decimal n : n < 10 ^ 40 -> decimal n <> [] /\ parse_decimal (decimal n) 0 = Some n.
Proof.
  intros H. unfold decimal. destruct (digits_fuel_spec 40 n [] H) as (ds & E & Hne & Hp); [lia|].
  rewrite E, app_nil_r. split; [exact Hne|]. specialize (Hp 0). rewrite app_nil_r in Hp. rewrite Hp. simpl. f_equal.
Qed.

Lemma U128_lt_10_40 : U128 < 10 ^ 40.
Proof. rewrite U128_val. vm_compute. reflexivity. Qed.

(** Every recorded fee (a positive Uint128) is rendered as a decimal string that reads back as
    the same number. *)
Theorem fee_amount_roundtrip a : a < U128 -> decimal a <> [] /\ parse_decimal (decimal a) 0 = Some a.
Proof. intros H. apply parse_decimal_decimal. pose proof U128_lt_10_40. lia. Qed.
