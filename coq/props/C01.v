(** C01 — escrow is exactly backed: holdings equal recorded obligations. *)
From FM Require Import Backed Reentrant ReentrantDeep CallSeqLedger.

(** [fresh w]: a freshly instantiated marketplace that holds nothing, next to an empty
    registry; everything else — user balances, token ledgers, NFT owners, admins, start time —
    is arbitrary.  [all_outside_ok w ops] is the property's proviso ("nobody sends it assets
    outside its deposit interface") made precise, op by op along the history:
      - plain messages come from user accounts or arbitrary (hostile) contracts, not from the
        marketplace itself or from an honest token contract (those act only through Send);
      - no direct bank / CW20 / NFT transfer has the marketplace address as source or target;
      - no registry entry names the marketplace itself as royalty payout address (O1).
    Nothing else is assumed: any mix of accounts, any message kinds (forged hook calls
    included), any amounts, any time advances, failing operations, both fee denominations. *)

(** After every operation of every such history: for each native denomination and each honest
    CW20 token the marketplace's balance equals the total promised by listings, buckets and
    pending fees; an NFT of an honest collection is owned by the marketplace iff it is recorded,
    and then in exactly one record, exactly once. *)
Theorem C01_escrow_exactly_backed : forall w ops, fresh w -> all_outside_ok w ops ->
  let w' := run w ops in let me := self_addr w' in
  (forall d, bank w' me d = owed_native (market w') d) /\
  (forall t, kind w' t = KCw20 -> cw20bal w' t me = owed_cw20 (market w') t) /\
  (forall c k, kind w' c = KCw721 ->
     countP (c, k) (recorded_nfts (market w')) = if opt_eqb (nft_owner w' c k) (Some me) then 1 else 0).
Proof. exact escrow_exactly_backed_totals. Qed.
Print Assumptions C01_escrow_exactly_backed.

(** The invariant is inductive: one step from any good world (not only reachable ones). *)
Theorem C01_step_preserves_backing : forall w o, good w -> outside_ok w o -> good (fst (step w o)).
Proof. exact step_good. Qed.
Print Assumptions C01_step_preserves_backing.

(** The contract-local conservation law behind it, for every message and every asset x
    (native denom, CW20 token, or single NFT): what the records promise afterwards plus what the
    response sends equals what they promised before plus what the message deposited. *)
Theorem C01_conservation : forall x o e sender fs m s s' out,
  Inv s -> execute o e sender fs m s = Ok (s', out) ->
  owed x s' + sent x out = owed x s + dep x sender fs m.
Proof. exact accounting. Qed.
Print Assumptions C01_conservation.

(** Dispatching the response takes exactly what the messages carry out of the holdings. *)
Theorem C01_dispatch_exact : forall ms w i w' x,
  dispatch w i None ms = Ok w' -> Forall (recipient_ok (self_addr w)) ms -> pool_addr w <> self_addr w ->
  honest_asset w x -> held w' x + sent x ms = held w x.
Proof. exact dispatch_held. Qed.
Print Assumptions C01_dispatch_exact.

(** No message of a response goes to an account [me] that is neither the sender nor a registered
    payout address — in particular the marketplace never sends anything to itself. *)
Theorem C01_recipients_are_others : forall me o e sender fs m s s' out,
  execute o e sender fs m s = Ok (s', out) -> sender <> me -> oracle_clean o me ->
  Forall (recipient_ok me) out.
Proof. exact execute_recipients. Qed.
Print Assumptions C01_recipients_are_others.

Definition winit : world :=
  mkW (fun a d => if (a =? 1) || (a =? 2) then 100000 else 0) (fun t a => if (t =? 10) && (a =? 2) then 500 else 0)
      (fun c k => if (c =? 30) && (k =? 1) then Some 1 else None)
      (fun a => if a =? 10 then KCw20 else if a =? 30 then KCw721 else if a =? 50 then KMarket else if a =? 51 then KRegistry else KUser)
      (fun a => if a =? 30 then Some 5 else None) (mkS [] [] [0] [0] (JUNO 100) (Some 51)) [] 100000000000 10 false 50 51 52.
(** a sale with fee and royalty, then the traded bucket is re-used to buy again (the history
    on which the unrepaired code lost 50 ujunox, DESIGN.md §7 D1) *)
Definition ops0 : list op :=
  [RegExec 5 (Register 30 6 100);
   NftSend 1 30 1 (Some (CreateListingCw721 7 (mkG [(0, 10000)] [(10, 40)] []) None)) None; Exec 1 [] (Finalize 7 600) None;
   Exec 2 [(0, 10000)] (CreateBucket 4) None; Cw20Send 2 10 40 (Some (AddToBucketCw20 4)) None;
   Exec 2 [] (BuyListing 7 4) None;
   Exec 2 [(3, 5)] (CreateListing 8 (mkG [(0, 9851)] [(10, 40)] []) None) None; Exec 2 [] (Finalize 8 600) None;
   Exec 1 [] (BuyListing 8 4) None].

Example C01_hyps_met :
  fresh winit /\ all_outside_ok winit ops0 /\
  let w' := run winit ops0 in
  bank w' 50 0 = 9851 /\ owed_native (market w') 0 = 9851 /\ pending_fees (market w') 0 = 49 /\ bank w' 52 0 = 50 /\
  cw20bal w' 10 50 = 40 /\ nft_owner w' 30 1 = Some 50 /\ countP (30, 1) (recorded_nfts (market w')) = 1.
Proof.
  split.
  { unfold fresh. split; [exists 100000000000; reflexivity|]. split; [reflexivity|]. split; [vm_compute; discriminate|].
    split; [reflexivity|]. split; [intros d; reflexivity|]. split.
    - intros t. unfold winit. simpl. destruct (t =? 10); vm_compute; reflexivity.
    - intros c k. unfold winit. simpl. destruct ((c =? 30) && (k =? 1)); vm_compute; discriminate. }
  split; [vm_compute; repeat split; try discriminate; auto|].
  cbv zeta. splits; vm_compute; reflexivity.
Qed.

(** ** Re-entrancy (model/Reentry.v, proofs/Reentrant.v)

    A hostile token contract may call the marketplace again while the marketplace's messages are
    being dispatched: [rstep w o prog] is the transaction [o] during which the hostile contract
    performs the operations [prog] (as sub-transactions whose failure it swallows) the moment the
    marketplace hands it a transfer.  The backing is preserved by every such transaction, whatever
    the program does — each of its operations finds the marketplace over-collateralised by exactly
    the messages still in flight and conserves that surplus. *)
Theorem C01_reentrant_transaction_preserves_backing : forall w o prog,
  good w -> outside_ok w o -> Forall (outside_ok w) prog -> good (fst (rstep w o prog)).
Proof. exact rstep_good. Qed.
Print Assumptions C01_reentrant_transaction_preserves_backing.

(** Inside a transaction: holdings = obligations + what is still in flight, and every operation an
    outsider performs at that point conserves the difference. *)
Theorem C01_outsiders_conserve_surplus : forall e w o,
  sound w -> surplus e w -> outside_ok w o -> surplus e (fst (step w o)).
Proof. exact step_surplus. Qed.
Print Assumptions C01_outsiders_conserve_surplus.

(** Over every history of transactions, each with an arbitrary re-entry program. *)
Theorem C01_escrow_backed_with_reentry : forall w tx, fresh w -> all_routside_ok w tx -> backed (rrun w tx).
Proof. exact escrow_backed_with_reentry. Qed.
Print Assumptions C01_escrow_backed_with_reentry.

(** The rule with re-entry extends the plain one. *)
Theorem C01_reentry_conservative : forall w o, rstep w o [] = step w o.
Proof. exact rstep_no_program. Qed.
Print Assumptions C01_reentry_conservative.

(** *** Re-entrancy nested to any depth (model/ReentryDeep.v, proofs/ReentrantDeep.v)

    [gstep k w o] is the transaction [o] during which the hostile contract reacts to the first
    transfer it is handed by [k].  [behaviour] is the closure of: nothing; one reaction after another;
    a marketplace call by an outsider during which the hostile contract again reacts with a
    behaviour.  A nested call may therefore itself be re-entered, without bound on depth or width. *)
Theorem C01_deep_reentrant_transaction_preserves_backing : forall w o k,
  good w -> outside_ok w o -> behaviour (kind w) (self_addr w) k -> good (fst (gstep k w o)).
Proof. exact gstep_good. Qed.
Print Assumptions C01_deep_reentrant_transaction_preserves_backing.

(** Any behaviour conserves holdings - obligations, whatever is in flight around it. *)
Theorem C01_behaviours_conserve_surplus : forall K self k, behaviour K self k ->
  forall e w, kind w = K -> self_addr w = self -> sound w -> surplus e w ->
    sound (k w) /\ surplus e (k w) /\ kind (k w) = K /\ self_addr (k w) = self /\ pool_addr (k w) = pool_addr w.
Proof. exact behaviour_conservative. Qed.
Print Assumptions C01_behaviours_conserve_surplus.

Theorem C01_escrow_backed_with_deep_reentry : forall w tx,
  fresh w ->
  Forall (fun t => outside_ok w (fst t) /\ behaviour (kind w) (self_addr w) (snd t)) tx ->
  backed (grun w tx).
Proof. exact escrow_backed_with_deep_reentry. Qed.
Print Assumptions C01_escrow_backed_with_deep_reentry.

(** Executable form: programs as trees ([tstep], [trun]). *)
Theorem C01_escrow_backed_with_tree_programs : forall w txs,
  fresh w -> trees_ok (kind w) (self_addr w) txs -> backed (trun w txs).
Proof. exact escrow_backed_with_tree_programs. Qed.
Print Assumptions C01_escrow_backed_with_tree_programs.

(** The flat rule (the one executed against the implementation) is the instance whose nested
    calls are not re-entered again. *)
Theorem C01_deep_reentry_conservative : forall w o prog, gstep (fun w1 => run w1 prog) w o = rstep w o prog.
Proof. exact gstep_run_is_rstep. Qed.
Print Assumptions C01_deep_reentry_conservative.

(** Contract-level, under every interleaving (proofs/CallSeqLedger.v): along any sequence of
    successful marketplace calls — any senders, order or nesting — with [deposited] / [sent_out]
    the totals of asset [x] that the calls deposited and their responses sent. *)
Theorem C01_conservation_under_every_interleaving : forall x d s s' deposited sent_out chg psent,
  Inv s -> mtrace x d s s' deposited sent_out chg psent ->
  owed x s' + sent_out = owed x s + deposited.
Proof. exact conservation_under_every_interleaving. Qed.
Print Assumptions C01_conservation_under_every_interleaving.

(** Non-vacuity: the hostile contract 70 owns a bucket of 100 coins and 5 of its own "tokens";
    withdrawing it, it is handed the coins, then the token transfer — during which it withdraws
    again (refused: the record is gone) and opens a new bucket with 450 coins, which it can only
    afford because the 100 have just arrived. *)
Definition wre : world :=
  mkW (fun a d => if (a =? 70) && (d =? 0) then 500 else 0) (fun t a => 0) (fun c k => None)
      (fun a => if a =? 70 then KHostile else if a =? 50 then KMarket else if a =? 51 then KRegistry else KUser)
      (fun a => None) (mkS [] [] [0] [0] (JUNO 100) (Some 51)) [] 100000000000 10 false 50 51 52.
Definition txre : list (op * list op) :=
  [(Exec 70 [(0, 100)] (CreateBucket 1) None, []);
   (Exec 70 [] (Receive 70 5 (Some (AddToBucketCw20 1))) None, []);
   (Exec 70 [] (RemoveBucket 1) None,
    [Exec 70 [] (RemoveBucket 1) None; Exec 70 [(0, 450)] (CreateBucket 4) None])].

Example C01_reentry_hyps_met :
  fresh wre /\ all_routside_ok wre txre /\
  let w' := rrun wre txre in
  bank w' 50 0 = 450 /\ owed_native (market w') 0 = 450 /\ bank w' 70 0 = 50 /\
  map fst (buckets (market w')) = [(70, 4)].
Proof.
  split.
  { unfold fresh. split; [exists 100000000000; reflexivity|]. split; [reflexivity|]. split; [vm_compute; discriminate|].
    split; [reflexivity|]. split; [intros d; reflexivity|]. split; [intros t; reflexivity|].
    intros c k. discriminate. }
  split.
  { vm_compute.
    repeat match goal with
           | |- _ /\ _ => split
           | |- Forall _ _ => constructor
           | |- _ \/ _ => right; reflexivity
           | |- _ <> _ => discriminate
           | |- _ -> False => discriminate
           | |- True => exact I
           end. }
  cbv zeta. splits; vm_compute; reflexivity.
Qed.


(** Non-vacuity at depth two: the hostile contract 70 owns bucket 1 (100 coins + 5 of its "tokens")
    and bucket 2 (50 coins + 3 "tokens").  It withdraws bucket 1; handed the token transfer it
    withdraws bucket 2; handed *that* token transfer it opens bucket 4 with 490 coins — which it can
    only afford because both payouts have just arrived. *)
Definition txdeep : list rop :=
  [RNode (Exec 70 [(0, 100)] (CreateBucket 1) None) [];
   RNode (Exec 70 [] (Receive 70 5 (Some (AddToBucketCw20 1))) None) [];
   RNode (Exec 70 [(0, 50)] (CreateBucket 2) None) [];
   RNode (Exec 70 [] (Receive 70 3 (Some (AddToBucketCw20 2))) None) [];
   RNode (Exec 70 [] (RemoveBucket 1) None)
     [RNode (Exec 70 [] (RemoveBucket 2) None)
        [RNode (Exec 70 [(0, 490)] (CreateBucket 4) None) []]]].

Example C01_deep_reentry_hyps_met :
  fresh wre /\ trees_ok (kind wre) (self_addr wre) txdeep /\
  let w' := trun wre txdeep in
  bank w' 50 0 = 490 /\ owed_native (market w') 0 = 490 /\ bank w' 70 0 = 10 /\
  map fst (buckets (market w')) = [(70, 4)].
Proof.
  split.
  { unfold fresh. split; [exists 100000000000; reflexivity|]. split; [reflexivity|]. split; [vm_compute; discriminate|].
    split; [reflexivity|]. split; [intros d; reflexivity|]. split; [intros t; reflexivity|].
    intros c k. discriminate. }
  split.
  { cbn [trees_ok tree_ok txdeep].
    repeat match goal with
           | |- _ /\ _ => split
           | |- True => exact I
           | |- outside_ok_at _ _ _ => apply (outside_ok_at_of wre); vm_compute; split; [discriminate | right; reflexivity]
           end. }
  cbv zeta. splits; vm_compute; reflexivity.
Qed.
