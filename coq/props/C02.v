(** C02 — a purchase succeeds exactly when the seller's published terms are met. *)
From FM Require Import BuyChain.

(** [terms_met w a l_id b_id]: listing [l_id] exists, is finalized (hence unsold), its
    expiration is not in the past ([now <= exp]; the property leaves the exact instant open, the
    model follows the code there), [a] is the whitelisted buyer when one is set, [a] owns bucket
    [b_id], the bucket's contents are a permutation of the ask on each of the three asset
    vectors (same assets and amounts, nothing extra or missing, any order), and on each side the
    rates of the distinct registered collections sum to at most 5000 bps. *)

(** The marketplace accepts the purchase message iff the terms are met (and no coins are
    attached; ids are u64).  [reg_link w]: the marketplace consults the registry it
    instantiated — an invariant of every reachable world, below. *)
Theorem C02_buy_accepted_iff_terms_met : forall w a fs l_id b_id,
  Inv (market w) -> reg_link w ->
  (is_ok (execute (oracle_of w) (env_of w) a fs (BuyListing l_id b_id) (market w)) = true <->
   fs = [] /\ l_id < U64 /\ b_id < U64 /\ terms_met w a l_id b_id).
Proof. exact buy_accepted_iff. Qed.
Print Assumptions C02_buy_accepted_iff_terms_met.

(** A purchase operation that succeeds on chain met the terms. *)
Theorem C02_successful_purchase_met_terms : forall w a fs l_id b_id fail,
  Inv (market w) -> reg_link w ->
  ok (snd (step w (Exec a fs (BuyListing l_id b_id) fail))) = true ->
  fs = [] /\ terms_met w a l_id b_id.
Proof. exact step_buy_sound. Qed.
Print Assumptions C02_successful_purchase_met_terms.

(** And conversely on chain: with backed holdings (C01), a user-account buyer and honest CW20
    tokens on both sides, a purchase whose terms are met succeeds as a transaction — every
    royalty payment and the flushed fee are payable, covered and dispatched. *)
Theorem C02_purchase_meeting_terms_succeeds : forall w a l_id b_id,
  good w -> reg_link w -> a <> self_addr w -> l_id < U64 -> b_id < U64 ->
  terms_met w a l_id b_id ->
  (forall kl l b, find_by_id l_id (listings (market w)) = Some (kl, l) -> find_key (a, b_id) (buckets (market w)) = Some b ->
     Forall (fun c => kind w (fst c) = KCw20) (cw20 (for_sale l)) /\ Forall (fun c => kind w (fst c) = KCw20) (cw20 (funds b))) ->
  ok (snd (step w (Exec a [] (BuyListing l_id b_id) None))) = true.
Proof. exact step_buy_complete. Qed.
Print Assumptions C02_purchase_meeting_terms_succeeds.

(** Otherwise it is refused with no effect. *)
Theorem C02_refused_no_effect : forall w o, ok (snd (step w o)) = false -> fst (step w o) = w.
Proof. exact step_refused_no_effect. Qed.
Print Assumptions C02_refused_no_effect.

(** The comparison of bucket and ask is exactly "same multiset on each vector". *)
Theorem C02_bucket_matches_ask_iff_same_assets : forall g h,
  wf_gbal g -> wf_gbal h -> (genbal_cmp g h = true <-> same_assets g h).
Proof. exact genbal_cmp_iff. Qed.
Print Assumptions C02_bucket_matches_ask_iff_same_assets.

(** Both hypotheses hold in every world reachable from an instantiated marketplace. *)
Theorem C02_hypotheses_always_hold : forall w ops, initial w -> Inv (market (run w ops)) /\ reg_link (run w ops).
Proof. intros w ops Hi. split; [apply reach_Inv, Hi | apply run_reg_link, initial_reg_link, Hi]. Qed.
Print Assumptions C02_hypotheses_always_hold.

Definition ask1 : gbal := mkG [(3, 5); (2, 7)] [] [].
Definition winit : world :=
  mkW (fun a d => if (a =? 1) || (a =? 2) || (a =? 3) then 1000 else 0) (fun _ _ => 0) (fun _ _ => None)
      (fun a => if a =? 50 then KMarket else if a =? 51 then KRegistry else KUser)
      (fun _ => None) (mkS [] [] [0] [0] (JUNO 100) (Some 51)) [] 100000000000 10 false 50 51 52.
Definition w0 : world :=
  run winit [Exec 1 [(4, 10)] (CreateListing 7 ask1 None) None; Exec 1 [] (Finalize 7 600) None;
             Exec 2 [(2, 7); (3, 5)] (CreateBucket 4) None;      (* the ask, permuted *)
             Exec 3 [(3, 5); (2, 8)] (CreateBucket 5) None;      (* one unit too much *)
             Exec 3 [(3, 5)] (CreateBucket 6) None].             (* an asset missing *)

Example C02_hyps_met :
  initial winit /\ terms_met w0 2 7 4 /\
  ok (snd (step w0 (Exec 2 [] (BuyListing 7 4) None))) = true /\
  ok (snd (step w0 (Exec 3 [] (BuyListing 7 5) None))) = false /\
  ok (snd (step w0 (Exec 3 [] (BuyListing 7 6) None))) = false /\
  ok (snd (step w0 (Exec 3 [] (BuyListing 7 4) None))) = false /\
  ok (snd (step (run w0 [Advance (600 * NANOS + 1) 1]) (Exec 2 [] (BuyListing 7 4) None))) = false.
Proof.
  split; [exists 100000000000; reflexivity|]. split.
  - eexists _, _, _. split; [vm_compute; reflexivity|]. split; [vm_compute; reflexivity|].
    split; [reflexivity|]. split; [left; reflexivity|]. split.
    + unfold same_assets. simpl. split; [apply perm_swap | split; constructor].
    + split; [intros x Hx; vm_compute in Hx; inv Hx; vm_compute; discriminate|]. split; vm_compute; discriminate.
  - splits; vm_compute; reflexivity.
Qed.
