(** C03 — a purchase swaps entitlements atomically; a listing sells at most once. *)
From FM Require Import Offer CallSeq ReentrantDeep.

(** A successful purchase does both halves in one transition: the listing is re-filed under
    the buyer, closed, with the buyer as its only claimant, and the bucket is re-filed under the
    seller as its owner; the old entries are gone and no other record moves. *)
Theorem C03_swap : forall o e sender fs l_id b_id s s' out,
  Inv s -> execute o e sender fs (BuyListing l_id b_id) s = Ok (s', out) ->
  exists kl l b l' b',
    find_by_id l_id (listings s) = Some (kl, l) /\ kl = (creator l, l_id) /\
    find_key (sender, b_id) (buckets s) = Some b /\
    find_key (sender, l_id) (listings s') = Some l' /\
    creator l' = sender /\ claimant l' = Some sender /\ lstatus l' = Closed /\ lid l' = l_id /\
    (creator l <> sender -> find_key kl (listings s') = None) /\
    find_key (creator l, b_id) (buckets s') = Some b' /\ owner b' = creator l /\
    (creator l <> sender -> find_key (sender, b_id) (buckets s') = None) /\
    (forall k, k <> kl -> k <> (sender, l_id) -> find_key k (listings s') = find_key k (listings s)) /\
    (forall k, k <> (sender, b_id) -> k <> (creator l, b_id) -> find_key k (buckets s') = find_key k (buckets s)).
Proof. exact buy_swaps. Qed.
Print Assumptions C03_swap.

(** Neither half happens without the other: an operation that does not succeed — for whatever
    reason, including a failing transfer — changes nothing at all. *)
Theorem C03_no_half_swap : forall w o, ok (snd (step w o)) = false -> fst (step w o) = w.
Proof. exact step_refused_no_effect. Qed.
Print Assumptions C03_no_half_swap.

(** Under every ordering of competing purchases, deletions and withdrawals — i.e. for every
    history of operations by any accounts — a listing id is sold at most once ... *)
Theorem C03_sold_at_most_once : forall id ops w,
  Inv (market w) -> (count_ok (fun m => buys_b m id) w ops <= 1)%nat.
Proof. exact sold_at_most_once. Qed.
Print Assumptions C03_sold_at_most_once.

(** ... its goods are paid out at most once (seller's deletion or buyer's withdrawal, never
    both) ... *)
Theorem C03_listing_claimed_at_most_once : forall id ops w,
  Inv (market w) -> (count_ok (fun m => exits_l_b m id) w ops <= 1)%nat.
Proof. exact listing_claimed_at_most_once. Qed.
Print Assumptions C03_listing_claimed_at_most_once.

(** ... and a bucket id is paid out at most once. *)
Theorem C03_bucket_claimed_at_most_once : forall id ops w,
  Inv (market w) -> (count_ok (fun m => removes_b_b m id) w ops <= 1)%nat.
Proof. exact bucket_removed_at_most_once. Qed.
Print Assumptions C03_bucket_claimed_at_most_once.

(** Losing buyers keep their buckets intact: no operation initiated by another account —
    somebody else's purchase in particular — changes a bucket. *)
Theorem C03_losers_keep_buckets : forall w o k b,
  Inv (market w) -> honest_op o -> find_key k (buckets (market w)) = Some b ->
  op_initiator o <> Some (fst k) ->
  find_key k (buckets (market (fst (step w o)))) = Some b.
Proof. exact step_bucket_frame. Qed.
Print Assumptions C03_losers_keep_buckets.

(** Only the claimant can withdraw a sold listing. *)
Theorem C03_only_claimant_withdraws : forall o e sender fs s id k l,
  Inv s -> In (k, l) (listings s) -> lid l = id -> claimant l <> Some sender ->
  execute o e sender fs (WithdrawPurchased id) s = Err.
Proof. exact foreign_withdraw_refused. Qed.
Print Assumptions C03_only_claimant_withdraws.

(** ** Under every interleaving (proofs/CallSeq.v)

    CosmWasm commits a contract's state before dispatching its messages and rolls a failing call
    back, so whatever happens around the marketplace — competing users, contracts re-entering
    at any depth in the middle of any dispatch — its state evolves by a sequence of successful
    [execute] calls with arbitrary senders, coins, oracle answers and block times: [mreach].
    The once-only clauses hold along every such sequence; no model of the chain, no schedule and
    no bound on nesting is involved. *)
Theorem C03_sold_once_under_every_interleaving : forall s o e a fs l_id b_id s1 out s2 o' e' a' fs' b_id',
  Inv s -> execute o e a fs (BuyListing l_id b_id) s = Ok (s1, out) -> mreach s1 s2 ->
  is_ok (execute o' e' a' fs' (BuyListing l_id b_id') s2) = false.
Proof. exact sold_once. Qed.
Print Assumptions C03_sold_once_under_every_interleaving.

Theorem C03_listing_claimed_once_under_every_interleaving : forall s o e a fs m id s1 out s2 o' e' a' fs' m',
  Inv s -> execute o e a fs m s = Ok (s1, out) -> exits_l_b m id = true -> mreach s1 s2 ->
  exits_l_b m' id = true ->
  is_ok (execute o' e' a' fs' m' s2) = false.
Proof. exact listing_claimed_once. Qed.
Print Assumptions C03_listing_claimed_once_under_every_interleaving.

Theorem C03_bucket_claimed_once_under_every_interleaving : forall s o e a fs id s1 out s2 o' e' a' fs',
  Inv s -> execute o e a fs (RemoveBucket id) s = Ok (s1, out) -> mreach s1 s2 ->
  is_ok (execute o' e' a' fs' (RemoveBucket id) s2) = false.
Proof. exact bucket_claimed_once. Qed.
Print Assumptions C03_bucket_claimed_once_under_every_interleaving.

Theorem C03_exited_listing_never_sold : forall s o e a fs m id s1 out s2 o' e' a' fs' b_id',
  Inv s -> execute o e a fs m s = Ok (s1, out) -> exits_l_b m id = true -> mreach s1 s2 ->
  is_ok (execute o' e' a' fs' (BuyListing id b_id') s2) = false.
Proof. exact exited_listing_not_sold. Qed.
Print Assumptions C03_exited_listing_never_sold.

Definition ask1 : gbal := mkG [(3, 5)] [] [].
Definition winit : world :=
  mkW (fun a d => if (a =? 1) || (a =? 2) || (a =? 3) then 1000 else 0) (fun _ _ => 0) (fun _ _ => None)
      (fun a => if a =? 50 then KMarket else if a =? 51 then KRegistry else KUser)
      (fun _ => None) (mkS [] [] [0] [0] (JUNO 100) (Some 51)) [] 100000000000 10 false 50 51 52.
Definition ops0 : list op :=
  [Exec 1 [(2, 10)] (CreateListing 7 ask1 None) None; Exec 1 [] (Finalize 7 600) None;
   Exec 2 [(3, 5)] (CreateBucket 4) None; Exec 3 [(3, 5)] (CreateBucket 5) None;
   Exec 2 [] (BuyListing 7 4) None; Exec 3 [] (BuyListing 7 5) None;
   Exec 2 [] (WithdrawPurchased 7) None; Exec 2 [] (WithdrawPurchased 7) None;
   Exec 1 [] (RemoveBucket 4) None; Exec 3 [] (RemoveBucket 5) None].

Example C03_hyps_met :
  Inv (market winit) /\
  count_ok (fun m => buys_b m 7) winit ops0 = 1%nat /\
  count_ok (fun m => exits_l_b m 7) winit ops0 = 1%nat /\
  count_ok (fun m => removes_b_b m 4) winit ops0 = 1%nat /\
  find_key (3, 5) (buckets (market (run winit (firstn 6 ops0)))) = Some (mkB 3 (mkG [(3, 5)] [] []) None) /\
  listings (market (run winit ops0)) = [] /\ buckets (market (run winit ops0)) = [].
Proof.
  split; [apply (reach_Inv winit []); exists 100000000000; reflexivity|].
  splits; vm_compute; reflexivity.
Qed.

(** Non-vacuity of the interleaving theorems: from the state with listing 7 on offer and the
    buckets 4 and 5, buyer 2's purchase goes through, and the resulting state is followed by a
    sequence of two further successful calls (the seller withdraws the proceeds, the loser
    withdraws the bucket). *)
Definition wA : world := run winit (firstn 4 ops0).
Example C03_interleaving_hyps_met :
  exists s1 out s2,
    Inv (market wA) /\
    execute (oracle_of wA) (env_of wA) 2 [] (BuyListing 7 4) (market wA) = Ok (s1, out) /\
    mreach s1 s2 /\ buckets s2 = [].
Proof.
  eexists _, _, _. split; [apply (reach_Inv winit (firstn 4 ops0)); exists 100000000000; reflexivity|].
  split; [vm_compute; reflexivity|]. split.
  - eapply (mr_step _ _ _ (oracle_of wA) (env_of wA) 3 [] (RemoveBucket 5)).
    + eapply (mr_step _ _ _ (oracle_of wA) (env_of wA) 1 [] (RemoveBucket 4)); [apply mr_refl | vm_compute; reflexivity].
    + vm_compute. reflexivity.
  - reflexivity.
Qed.


(** Claimed once, for good — whatever a hostile token contract does in between, re-entering the
    marketplace to any depth (model/ReentryDeep.v, [reaction]): a withdrawn bucket id is never
    paid out again, an exited listing id never exits again. *)
Theorem C03_withdrawn_bucket_stays_withdrawn_deep : forall k w id o e sender fs,
  reaction k -> Inv (market w) -> (2 <= brank (market w) id)%nat ->
  is_ok (execute o e sender fs (RemoveBucket id) (market (k w))) = false.
Proof. exact withdrawn_bucket_stays_withdrawn_deep. Qed.
Print Assumptions C03_withdrawn_bucket_stays_withdrawn_deep.

Theorem C03_exited_listing_stays_exited_deep : forall k w id o e sender fs m,
  reaction k -> Inv (market w) -> (4 <= lrank (market w) id)%nat -> exits_l_b m id = true ->
  is_ok (execute o e sender fs m (market (k w))) = false.
Proof. exact exited_listing_stays_exited_deep. Qed.
Print Assumptions C03_exited_listing_stays_exited_deep.
