(** C04 — only a record's owner can change it or release its assets. *)
From FM Require Import Auth Reentrant CallSeq ReentrantDeep.

(** [op_initiator o] is the account that sends operation [o] (the transaction sender, or the
    user who asks an honest token contract to send).  [honest_op o] excludes only a direct call
    of the two token-receive entry points, where the acting account is whatever the caller
    claims: that case is C18's subject (known finding F1).  The model state has no privileged
    address: [execute] never compares the sender with anything but record owners and claimants,
    so the deployer is an account like any other in every theorem below. *)

(** No operation initiated by an account other than a listing's owner changes that listing —
    the only exception is a valid purchase, which closes it on the published terms. *)
Theorem C04_foreign_listing_unchanged_or_bought : forall w o k l,
  Inv (market w) -> honest_op o -> find_key k (listings (market w)) = Some l ->
  op_initiator o <> Some (fst k) ->
  let s' := market (fst (step w o)) in
  find_key k (listings s') = Some l \/
  (exists buyer bid fail, o = Exec buyer [] (BuyListing (snd k) bid) fail /\
     bought (env_of w) buyer s' k l).
Proof. exact step_listing_frame. Qed.
Print Assumptions C04_foreign_listing_unchanged_or_bought.

(** No operation initiated by another account changes a bucket at all. *)
Theorem C04_foreign_bucket_unchanged : forall w o k b,
  Inv (market w) -> honest_op o -> find_key k (buckets (market w)) = Some b ->
  op_initiator o <> Some (fst k) ->
  find_key k (buckets (market (fst (step w o)))) = Some b.
Proof. exact step_bucket_frame. Qed.
Print Assumptions C04_foreign_bucket_unchanged.

(** Messages that alter, re-price, finalize, delete, top up, remove or spend a record owned by
    somebody else fail ... *)
Theorem C04_message_on_foreign_listing_fails : forall o e sender fs m s id k l,
  Inv s -> In (k, l) (listings s) -> lid l = id -> fst k <> sender -> aims_at_listing m id = true ->
  execute o e sender fs m s = Err.
Proof. exact foreign_listing_refused. Qed.
Print Assumptions C04_message_on_foreign_listing_fails.

Theorem C04_message_on_foreign_bucket_fails : forall o e sender fs m s id k b,
  Inv s -> In (k, b) (buckets s) -> snd k = id -> fst k <> sender -> aims_at_bucket m id = true ->
  execute o e sender fs m s = Err.
Proof. exact foreign_bucket_refused. Qed.
Print Assumptions C04_message_on_foreign_bucket_fails.

Theorem C04_withdraw_by_non_claimant_fails : forall o e sender fs s id k l,
  Inv s -> In (k, l) (listings s) -> lid l = id -> claimant l <> Some sender ->
  execute o e sender fs (WithdrawPurchased id) s = Err.
Proof. exact foreign_withdraw_refused. Qed.
Print Assumptions C04_withdraw_by_non_claimant_fails.

(** ... and a failed operation leaves all state and all balances untouched. *)
Theorem C04_refused_no_effect : forall w o, ok (snd (step w o)) = false -> fst (step w o) = w.
Proof. exact step_refused_no_effect. Qed.
Print Assumptions C04_refused_no_effect.

(** No action ever decreases another account's wallet: coins, tokens and NFTs of every account
    other than the initiator (and the marketplace's own account) never decrease. *)
Theorem C04_no_wallet_decrease : forall w o a,
  op_initiator o <> Some a -> a <> self_addr w -> nondecr w (fst (step w o)) a.
Proof. exact step_others_nondecreasing. Qed.
Print Assumptions C04_no_wallet_decrease.

(** The same when a hostile token contract re-enters the marketplace during dispatch
    (model/Reentry.v): a transaction with an arbitrary re-entry program debits nobody but the
    accounts that initiate its operations — the transaction's sender and the hostile contract
    itself. *)
Theorem C04_no_wallet_decrease_with_reentry : forall w o prog a,
  op_initiator o <> Some a -> Forall (fun n => op_initiator n <> Some a) prog -> a <> self_addr w ->
  nondecr w (fst (rstep w o prog)) a.
Proof. exact rstep_others_nondecreasing. Qed.
Print Assumptions C04_no_wallet_decrease_with_reentry.

(** ... and nested to any depth (model/ReentryDeep.v): [reaction_not_by a] — nothing; one reaction
    after another; a call not initiated by [a] during which the hostile contract again reacts that way. *)
Theorem C04_no_wallet_decrease_with_deep_reentry : forall w o k a,
  op_initiator o <> Some a -> reaction_not_by a k -> a <> self_addr w -> nondecr w (fst (gstep k w o)) a.
Proof. exact gstep_others_nondecreasing. Qed.
Print Assumptions C04_no_wallet_decrease_with_deep_reentry.

(** Under every interleaving (proofs/CallSeq.v): along any sequence of successful marketplace
    calls none of which acts for account [a] ([foreign a]: not sent by [a], no hook call naming
    [a] as depositor) — whatever their order or nesting — a bucket of [a] is untouched and a
    listing of [a] is untouched until somebody buys it. *)
Theorem C04_others_cannot_touch_my_bucket : forall a id b s s',
  Inv s -> foreign a s s' -> find_key (a, id) (buckets s) = Some b -> find_key (a, id) (buckets s') = Some b.
Proof. exact others_cannot_touch_my_bucket. Qed.
Print Assumptions C04_others_cannot_touch_my_bucket.

Theorem C04_others_can_only_buy_my_listing : forall a id l s s',
  Inv s -> foreign a s s' -> find_key (a, id) (listings s) = Some l ->
  find_key (a, id) (listings s') = Some l \/ (3 <= lrank s' id)%nat.
Proof. exact others_can_only_buy_my_listing. Qed.
Print Assumptions C04_others_can_only_buy_my_listing.

Definition ask1 : gbal := mkG [(0, 5)] [] [].
Definition l1 : listing := mkL 1 7 None None BeingPrepared None None (mkG [(0, 10)] [] []) ask1 None.
Definition winit : world :=
  mkW (fun a d => if (a =? 1) || (a =? 2) then 1000 else 0) (fun _ _ => 0) (fun _ _ => None)
      (fun a => if a =? 50 then KMarket else if a =? 51 then KRegistry else KUser)
      (fun _ => None) (mkS [] [] [0] [0] (JUNO 100) (Some 51)) [] 100000000000 10 false 50 51 52.
Definition w0 : world := run winit [Exec 1 [(0, 10)] (CreateListing 7 ask1 None) None].

Example C04_hyps_met :
  Inv (market w0) /\
  find_key (1, 7) (listings (market w0)) = Some l1 /\ honest_op (Exec 2 [] (DeleteListing 7) None) /\
  op_initiator (Exec 2 [] (DeleteListing 7) None) <> Some (fst (1, 7)) /\
  ok (snd (step w0 (Exec 2 [] (DeleteListing 7) None))) = false /\
  ok (snd (step w0 (Exec 2 [] (Finalize 7 600) None))) = false /\
  ok (snd (step w0 (Exec 2 [(0, 3)] (AddToListing 7) None))) = false /\
  ok (snd (step w0 (Exec 1 [] (DeleteListing 7) None))) = true /\
  bank (fst (step w0 (Exec 1 [] (DeleteListing 7) None))) 1 0 = 1000.
Proof.
  split; [apply reach_Inv; exists 100000000000; reflexivity|].
  splits; try (vm_compute; reflexivity). vm_compute. discriminate.
Qed.
