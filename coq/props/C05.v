(** C05 — deposits and payouts move exactly the stated assets to the right party. *)
From FM Require Import HookDeposits.

(** [deposit_target sender m]: the record a creation or top-up names — listing or bucket,
    filed under the depositor (the sender, or for the hooks the account the token contract
    reports) and the id.  All twelve deposit paths are covered. *)

(** Every successful creation or top-up sends nothing, increases what the marketplace owes by
    exactly the deposit — per asset x: attached coins, hook amount of the calling token, the
    hook's NFT — and changes no record but the named one. *)
Theorem C05_deposit_exact : forall o e sender fs m s s' out isl K,
  Inv s -> execute o e sender fs m s = Ok (s', out) -> deposit_target sender m = Some (isl, K) ->
  out = [] /\ (forall x, owed x s' = owed x s + dep x sender fs m) /\
  (if isl then only_listing_changed s s' K else only_bucket_changed s s' K).
Proof. exact deposit_exact. Qed.
Print Assumptions C05_deposit_exact.

(** On chain: exactly the attached coins leave the depositor and arrive at the marketplace;
    nobody else's balance, token or NFT changes; the record is the depositor's own. *)
Theorem C05_deposit_wallets : forall w a fs m fail isl K,
  good w -> a <> self_addr w -> is_hook m = false -> deposit_target a m = Some (isl, K) ->
  ok (snd (step w (Exec a fs m fail))) = true ->
  let w' := fst (step w (Exec a fs m fail)) in
  fst K = a /\
  (forall d, bank w' a d + amount_of d fs = bank w a d) /\
  (forall d, bank w' (self_addr w) d = bank w (self_addr w) d + amount_of d fs) /\
  (forall b d, b <> a -> b <> self_addr w -> bank w' b d = bank w b d) /\
  cw20bal w' = cw20bal w /\ nft_owner w' = nft_owner w.
Proof. exact deposit_wallets. Qed.
Print Assumptions C05_deposit_wallets.

(** The same for deposits through an honest token contract's Send: exactly the sent amount of
    that token (resp. exactly that NFT) moves from the user to the marketplace, nothing else. *)
Theorem C05_cw20_deposit_wallets : forall w u t amt0 inner fail,
  Inv (market w) -> u <> self_addr w ->
  ok (snd (step w (Cw20Send u t amt0 inner fail))) = true ->
  let w' := fst (step w (Cw20Send u t amt0 inner fail)) in
  bank w' = bank w /\ nft_owner w' = nft_owner w /\
  cw20bal w' t u + amt0 = cw20bal w t u /\ cw20bal w' t (self_addr w) = cw20bal w t (self_addr w) + amt0 /\
  (forall t' x, t' <> t \/ (x <> u /\ x <> self_addr w) -> cw20bal w' t' x = cw20bal w t' x).
Proof. exact cw20_deposit_wallets. Qed.
Print Assumptions C05_cw20_deposit_wallets.

Theorem C05_nft_deposit_wallets : forall w u c k inner fail,
  Inv (market w) ->
  ok (snd (step w (NftSend u c k inner fail))) = true ->
  let w' := fst (step w (NftSend u c k inner fail)) in
  bank w' = bank w /\ cw20bal w' = cw20bal w /\
  nft_owner w c k = Some u /\ nft_owner w' c k = Some (self_addr w) /\
  (forall c' k', (c', k') <> (c, k) -> nft_owner w' c' k' = nft_owner w c' k').
Proof. exact nft_deposit_wallets. Qed.
Print Assumptions C05_nft_deposit_wallets.

(** Every successful bucket removal, listing deletion or purchased-listing withdrawal removes
    the sender's record and nothing else and emits exactly its recorded assets to the sender
    plus its recorded fee to the community pool; a deletion (a record that never traded)
    carries no fee ([payout_of] spells this out per message kind). *)
Theorem C05_payout_exact : forall o e sender fs m s s' out,
  Inv s -> execute o e sender fs m s = Ok (s', out) -> is_payout m = true ->
  exists g f, payout_of e sender s s' out m g f.
Proof. exact payout_exact. Qed.
Print Assumptions C05_payout_exact.

(** On chain (holdings backed, C01): for every asset of an honest token the owner's wallet
    grows by exactly the record's content, the community pool's by exactly the recorded fee,
    and no other account's balance or NFT changes. *)
Theorem C05_payout_wallets : forall w a m fail,
  good w -> a <> self_addr w -> is_payout m = true ->
  ok (snd (step w (Exec a [] m fail))) = true ->
  let w' := fst (step w (Exec a [] m fail)) in
  exists g f, payout_of (env_of w) a (market w) (market w') (msgs (snd (step w (Exec a [] m fail)))) m g f /\
    forall x b, honest_asset w x -> b <> self_addr w ->
      holds w' b x = holds w b x + (if a =? b then amt x g else 0) + (if pool_addr w =? b then feeamt x f else 0).
Proof. exact payout_wallets. Qed.
Print Assumptions C05_payout_wallets.

(** A bucket's pending fee comes only from a trade: it is absent at creation, kept by every
    top-up, and no other account's action touches the bucket (C04). *)
Theorem C05_topup_keeps_everything_but_content : forall o e sender fs m s s' out id,
  execute o e sender fs m s = Ok (s', out) -> topup_b_b m id = true ->
  exists b b', find_key (actor_of sender m, id) (buckets s) = Some b /\
               find_key (actor_of sender m, id) (buckets s') = Some b' /\
               gsize (funds b') <= 25 /\ owner b' = owner b /\ bfee b' = bfee b.
Proof. exact topup_bucket_cap. Qed.
Print Assumptions C05_topup_keeps_everything_but_content.

(** What dispatch credits to any account other than the marketplace, per asset. *)
Theorem C05_dispatch_credits_exactly : forall ms w i w' a x,
  dispatch w i None ms = Ok w' -> a <> self_addr w -> pool_addr w <> self_addr w -> honest_asset w x ->
  holds w' a x = holds w a x + credit w x a ms.
Proof. exact dispatch_credit. Qed.
Print Assumptions C05_dispatch_credits_exactly.

Definition winit : world :=
  mkW (fun a d => if (a =? 1) || (a =? 2) then 100000 else 0) (fun _ _ => 0) (fun _ _ => None)
      (fun a => if a =? 50 then KMarket else if a =? 51 then KRegistry else KUser)
      (fun _ => None) (mkS [] [] [0] [0] (JUNO 100) (Some 51)) [] 100000000000 10 false 50 51 52.
Definition ops0 : list op :=
  [Exec 1 [(3, 7)] (CreateListing 7 (mkG [(0, 10000)] [] []) None) None; Exec 1 [] (Finalize 7 600) None;
   Exec 2 [(0, 9000)] (CreateBucket 4) None; Exec 2 [(0, 1000)] (AddToBucket 4) None; Exec 2 [] (BuyListing 7 4) None].
Definition w0 : world := run winit ops0.

Example C05_hyps_met :
  good w0 /\
  (* the seller removes the traded bucket: 9950 to the seller, the fee of 50 to the pool (52), nobody else *)
  let w' := fst (step w0 (Exec 1 [] (RemoveBucket 4) None)) in
  ok (snd (step w0 (Exec 1 [] (RemoveBucket 4) None))) = true /\
  bank w' 1 0 = bank w0 1 0 + 9950 /\ bank w' 52 0 = bank w0 52 0 + 50 /\ bank w' 2 0 = bank w0 2 0 /\ bank w' 50 0 = 0 /\
  (* a top-up took exactly 1000 from the buyer *)
  bank (run winit (firstn 4 ops0)) 2 0 + 1000 = bank (run winit (firstn 3 ops0)) 2 0.
Proof.
  split.
  { unfold w0. apply run_good.
    - apply fresh_good. unfold fresh. split; [exists 100000000000; reflexivity|]. split; [reflexivity|]. split; [vm_compute; discriminate|].
      split; [reflexivity|]. split; [intros d; reflexivity|]. split; [intros t; reflexivity|]. intros c k. discriminate.
    - vm_compute. repeat split; try discriminate; auto. }
  cbv zeta. splits; vm_compute; reflexivity.
Qed.
