(** C06 — a trade costs exactly the 0.5 % fee plus registered royalties, nothing more. *)
From FM Require Import BuySpec.

(** Structural form.  After a successful purchase the listing is filed under the buyer with
    goods [after_royalties rs_b l_bal] and fee [l_fee], the bucket under the seller with funds
    [after_royalties rs_s b_bal] and fee [b_fee], where [(l_fee, l_bal)] / [(b_fee, b_bal)]
    are the fee split of each side in the denomination in force (characterised for all 128-bit
    amounts by C17), [rs_s] are the registry entries of the distinct collections the seller is
    selling (charged to the bucket) and [rs_b] those of the collections the buyer pays with
    (charged to the goods).  The response consists of exactly the royalty payments of the two
    sides — one message per non-zero (asset, collection) pair, to the registered payout address —
    and the community-pool message of a fee still pending on a re-used bucket.  Nothing else. *)
Theorem C06_price_structural : forall w a l_id b_id s' out,
  Inv (market w) -> reg_link w ->
  execute_buy_listing (oracle_of w) (env_of w) a l_id b_id (market w) = Ok (s', out) ->
  exists kl l b l_fee l_bal b_fee b_bal,
    find_by_id l_id (listings (market w)) = Some (kl, l) /\ find_key (a, b_id) (buckets (market w)) = Some b /\
    calc_fee_coin (fee (market w)) (for_sale l) = Ok (l_fee, l_bal) /\
    calc_fee_coin (fee (market w)) (funds b) = Ok (b_fee, b_bal) /\
    let rs_s := registered (lookups w (colls_of (for_sale l))) in
    let rs_b := registered (lookups w (colls_of (funds b))) in
    total_bps rs_s <= 5000 /\ total_bps rs_b <= 5000 /\
    find_key (a, l_id) (listings s') =
      Some (mkL a (lid l) (fin l) (exp l) Closed (Some a) (wl l) (after_royalties rs_b l_bal) (ask l) l_fee) /\
    find_key (creator l, b_id) (buckets s') = Some (mkB (creator l) (after_royalties rs_s b_bal) b_fee) /\
    out = royalty_out rs_s b_bal ++ royalty_out rs_b l_bal ++ fee_msgs (self_addr w) (bfee b).
Proof. exact buy_price. Qed.
Print Assumptions C06_price_structural.

(** Per-asset form of one side: with [net fd rs d a = (a - f) - sum_r floor((a - f) * bps r / 10000)]
    and [f = floor(a * 5 / 1000)] when [d] is the fee denomination, else 0: every native amount
    becomes [net], every CW20 amount [a - sum_r floor(a * bps r / 10000)], NFTs are untouched, the
    recorded fee is [floor(a_fee_denom * 5 / 1000)] (absent iff zero). *)
Theorem C06_side_amounts : forall fd g fee g1 rs,
  wf_gbal g -> calc_fee_coin fd g = Ok (fee, g1) -> total_bps rs <= 5000 ->
  let fv := fee_denom_value fd in
  (forall d, amount_of d (native (after_royalties rs g1)) = net fd rs d (amount_of d (native g))) /\
  (forall t, amount_of t (cw20 (after_royalties rs g1)) = amount_of t (cw20 g) - pay_sum (amount_of t (cw20 g)) rs) /\
  nfts (after_royalties rs g1) = nfts g /\
  fee_amt fv fee = amount_of fv (native g) * 5 / 1000 /\
  (fee = None <-> amount_of fv (native g) * 5 / 1000 = 0) /\
  (forall d a, fee = Some (d, a) -> d = fv /\ 0 < a).
Proof. exact side_amounts. Qed.
Print Assumptions C06_side_amounts.

(** Floor rounding. *)
Theorem C06_floor : forall a n d, d <> 0 -> d * (a * n / d) <= a * n /\ a * n < d * (a * n / d + 1).
Proof. exact floor_spec. Qed.
Print Assumptions C06_floor.

(** Once per collection per side however many of its NFTs are involved. *)
Theorem C06_once_per_collection : forall g,
  NoDup (colls_of g) /\ (forall c, In c (colls_of g) <-> exists k, In (c, k) (nfts g)).
Proof. exact colls_once. Qed.
Print Assumptions C06_once_per_collection.

(** Traders' own wallets are untouched by the purchase itself: the purchase carries no coins
    and no account other than the marketplace is debited by it (royalty recipients are credited). *)
Theorem C06_traders_wallets_not_debited : forall w sender m fail a,
  a <> self_addr w -> nondecr w (fst (step w (Exec sender [] m fail))) a.
Proof. exact exec_without_funds_nondecreasing. Qed.
Print Assumptions C06_traders_wallets_not_debited.

Definition winit : world :=
  mkW (fun a d => if (a =? 1) || (a =? 2) then 100000 else 0) (fun _ _ => 0)
      (fun c k => if (c =? 30) && ((k =? 1) || (k =? 2)) then Some 1 else None)
      (fun a => if a =? 30 then KCw721 else if a =? 50 then KMarket else if a =? 51 then KRegistry else KUser)
      (fun a => if a =? 30 then Some 5 else None) (mkS [] [] [0] [0] (JUNO 100) (Some 51)) [] 100000000000 10 false 50 51 52.
(** collection 30 registered at 1 %, payout 6; seller sells two NFTs of it for 10000 ujuno (denom 0) *)
Definition w0 : world :=
  run winit [RegExec 5 (Register 30 6 100);
             NftSend 1 30 1 (Some (CreateListingCw721 7 (mkG [(0, 10000)] [] []) None)) None;
             NftSend 1 30 2 (Some (AddToListingCw721 7)) None; Exec 1 [] (Finalize 7 600) None;
             Exec 2 [(0, 10000)] (CreateBucket 4) None].
Definition w1 : world := fst (step w0 (Exec 2 [] (BuyListing 7 4) None)).

Example C06_hyps_met :
  ok (snd (step w0 (Exec 2 [] (BuyListing 7 4) None))) = true /\
  (* bucket: 10000 - 50 fee = 9950; one royalty of floor(9950 * 100 / 10000) = 99 although two NFTs: 9851 *)
  find_key (1, 4) (buckets (market w1)) = Some (mkB 1 (mkG [(0, 9851)] [] []) (Some (0, 50))) /\
  bank w1 6 0 = 99 /\ bank w1 2 0 = 90000 /\ bank w1 1 0 = 100000 /\
  net (JUNO 100) [mkR 10 100 6] 0 10000 = 9851.
Proof. splits; vm_compute; reflexivity. Qed.
