(** C07 — nothing gets stuck: every escrowed asset is always recoverable.

    Scope, as in DESIGN.md §6 C07: a record that contains an asset of a hostile token is outside
    these statements (its exit depends on that token's own transfer handler; that is C18's
    subject and known finding F1).  [tokens_honest w g]: every CW20 / NFT entry of [g] belongs to
    an honest cw20-base / cw721-base contract.  [good w]: invariant + backed holdings (C01) —
    true of every world reachable through the deposit interface; [ids_bounded]: stored ids are
    legal ids, true of every reachable world. *)
From FM Require Import Drain.

(** A bucket can be cashed out by its current owner at once, with a single message. *)
Theorem C07_bucket_exit_open : forall w a id b,
  good w -> ids_bounded (market w) -> find_key (a, id) (buckets (market w)) = Some b -> a <> self_addr w ->
  tokens_honest w (funds b) ->
  ok (snd (step w (Exec a [] (RemoveBucket id) None))) = true /\
  market (fst (step w (Exec a [] (RemoveBucket id) None))) = set_buckets (market w) (remove_key (a, id) (buckets (market w))).
Proof. exact exit_bucket. Qed.
Print Assumptions C07_bucket_exit_open.

(** An unfinalized listing can be cashed out by its creator at once (no expiration is set), a
    finalized unsold listing by its creator once expired. *)
Theorem C07_unsold_listing_exit_open : forall w a id l,
  good w -> ids_bounded (market w) -> find_key (a, id) (listings (market w)) = Some l -> a <> self_addr w ->
  tokens_honest w (for_sale l) -> lstatus l <> Closed -> (forall x, exp l = Some x -> x <= wnow w) ->
  ok (snd (step w (Exec a [] (DeleteListing id) None))) = true /\
  market (fst (step w (Exec a [] (DeleteListing id) None))) = set_listings (market w) (remove_key (a, id) (listings (market w))).
Proof. exact exit_listing_delete. Qed.
Print Assumptions C07_unsold_listing_exit_open.

(** A sold listing can be cashed out by its buyer at once. *)
Theorem C07_sold_listing_exit_open : forall w a id l,
  good w -> ids_bounded (market w) -> find_key (a, id) (listings (market w)) = Some l -> a <> self_addr w ->
  tokens_honest w (for_sale l) -> lstatus l = Closed ->
  ok (snd (step w (Exec a [] (WithdrawPurchased id) None))) = true /\
  market (fst (step w (Exec a [] (WithdrawPurchased id) None))) = set_listings (market w) (remove_key (a, id) (listings (market w))).
Proof. exact exit_listing_withdraw. Qed.
Print Assumptions C07_sold_listing_exit_open.

(** After time has passed beyond every expiration and every entitled party has sent its one
    exit message (each of which succeeds), no record remains and the marketplace holds no
    native coin, no honest token and no NFT of an honest collection. *)
Theorem C07_drain_empties : forall w,
  good w -> ids_bounded (market w) -> records_ok w ->
  exists ops, Forall is_exit_op ops /\
    let w' := run w (Advance (latest_exp (market w)) 0 :: ops) in
    listings (market w') = [] /\ buckets (market w') = [] /\
    (forall x, honest_asset w' x -> held w' x = 0).
Proof. exact drain_empties. Qed.
Print Assumptions C07_drain_empties.

(** The payout's messages dispatch whenever holdings are backed and tokens are honest: the
    general criterion behind the three exits. *)
Theorem C07_dispatch_succeeds : forall ms w i,
  Forall msg_payable ms -> Forall (recipient_ok (self_addr w)) ms -> Forall (msg_honest w) ms ->
  pool_addr w <> self_addr w ->
  (forall x, honest_asset w x -> sent x ms <= held w x) ->
  exists w', dispatch w i None ms = Ok w'.
Proof. exact dispatch_ok. Qed.
Print Assumptions C07_dispatch_succeeds.

(** The hypotheses hold in every world reachable through the deposit interface. *)
Theorem C07_hypotheses_reachable : forall w ops, fresh w -> all_outside_ok w ops ->
  good (run w ops) /\ ids_bounded (market (run w ops)).
Proof.
  intros w ops F Ha. split; [apply run_good; [apply fresh_good, F | exact Ha]|].
  apply run_ids_bounded.
  - destruct F as ([t Ht] & _). eapply Inv_init, Ht.
  - destruct F as ([t Ht] & _). unfold reply_instantiate, instantiate in Ht. destruct (valid_addr (reg_addr w)); [|discriminate].
    inversion Ht as [E]. split; simpl; intros ? ? [].
Qed.
Print Assumptions C07_hypotheses_reachable.

Definition winit : world :=
  mkW (fun a d => if (a =? 1) || (a =? 2) || (a =? 3) then 100000 else 0) (fun t a => if (t =? 10) && (a =? 2) then 500 else 0)
      (fun c k => if (c =? 30) && (k =? 1) then Some 1 else None)
      (fun a => if a =? 10 then KCw20 else if a =? 30 then KCw721 else if a =? 50 then KMarket else if a =? 51 then KRegistry else KUser)
      (fun a => if a =? 30 then Some 5 else None) (mkS [] [] [0] [0] (JUNO 100) (Some 51)) [] 100000000000 10 false 50 51 52.
(** one record in each lifecycle state: a preparing listing (8), a finalized unsold one (9), a sold
    one (7, bought by 2), the seller's traded bucket (4, pending fee), an untouched bucket (5) *)
Definition ops0 : list op :=
  [NftSend 1 30 1 (Some (CreateListingCw721 7 (mkG [(0, 10000)] [(10, 40)] []) None)) None; Exec 1 [] (Finalize 7 600) None;
   Exec 2 [(0, 10000)] (CreateBucket 4) None; Cw20Send 2 10 40 (Some (AddToBucketCw20 4)) None;
   Exec 2 [] (BuyListing 7 4) None;
   Exec 3 [(3, 5)] (CreateListing 8 (mkG [(0, 1)] [] []) None) None;
   Exec 3 [(3, 6)] (CreateListing 9 (mkG [(0, 1)] [] []) None) None; Exec 3 [] (Finalize 9 1209600) None;
   Exec 3 [(2, 9)] (CreateBucket 5) None].
Definition w0 : world := run winit ops0.
Definition exits : list op :=
  [Advance (1209600 * NANOS) 1;
   Exec 2 [] (WithdrawPurchased 7) None; Exec 3 [] (DeleteListing 8) None; Exec 3 [] (DeleteListing 9) None;
   Exec 1 [] (RemoveBucket 4) None; Exec 3 [] (RemoveBucket 5) None].

Example C07_hyps_met :
  good w0 /\ ids_bounded (market w0) /\
  length (listings (market w0)) = 3%nat /\ length (buckets (market w0)) = 2%nat /\
  ok (snd (step w0 (Exec 3 [] (DeleteListing 9) None))) = false /\          (* not yet expired *)
  let w' := run w0 exits in
  listings (market w') = [] /\ buckets (market w') = [] /\
  bank w' 50 0 = 0 /\ bank w' 50 2 = 0 /\ bank w' 50 3 = 0 /\ cw20bal w' 10 50 = 0 /\ nft_owner w' 30 1 = Some 2 /\ bank w' 52 0 = 50.
Proof.
  assert (F : fresh winit).
  { unfold fresh. split; [exists 100000000000; reflexivity|]. split; [reflexivity|]. split; [vm_compute; discriminate|].
    split; [reflexivity|]. split; [intros d; reflexivity|]. split.
    - intros t. unfold winit. simpl. destruct (t =? 10); vm_compute; reflexivity.
    - intros c k. unfold winit. simpl. destruct ((c =? 30) && (k =? 1)); vm_compute; discriminate. }
  assert (A : all_outside_ok winit ops0) by (vm_compute; repeat split; try discriminate; auto).
  destruct (C07_hypotheses_reachable winit ops0 F A) as [G B].
  split; [exact G|]. split; [exact B|]. cbv zeta. splits; vm_compute; reflexivity.
Qed.
