(** C08 — a finalized listing is an immutable, binding offer until it expires. *)
From FM Require Import Offer Reentrant ReentrantDeep CallSeq.

(** The owner of a listing still in preparation can finalize it for exactly the lifetimes
    600 .. 1209600 seconds, bounds included. *)
Theorem C08_finalize_iff : forall e a id secs s l,
  Inv s -> find_key (a, id) (listings s) = Some l ->
  (is_ok (execute_finalize e a id secs s) = true <->
   lstatus l = BeingPrepared /\ 600 <= secs /\ secs <= 1209600).
Proof. exact finalize_iff. Qed.
Print Assumptions C08_finalize_iff.

(** Effect: status FinalizedReady, finalized now, expiration = now + secs; goods, ask,
    whitelist, id and every other record unchanged; nothing is sent. *)
Theorem C08_finalize_effect : forall e a id secs s s' out,
  execute_finalize e a id secs s = Ok (s', out) ->
  exists l, find_key (a, id) (listings s) = Some l /\ lstatus l = BeingPrepared /\
    find_key (a, id) (listings s') =
      Some (mkL (creator l) (lid l) (Some (now e)) (Some (now e + secs * NANOS)) FinalizedReady
                (claimant l) (wl l) (for_sale l) (ask l) (lfee l)) /\
    (forall k, k <> (a, id) -> find_key k (listings s') = find_key k (listings s)) /\
    buckets s' = buckets s /\ out = [].
Proof. exact finalize_effect. Qed.
Print Assumptions C08_finalize_effect.

(** Whatever operation is executed by whomever (forged token-receive calls included), a
    finalized listing either stays exactly as it is (goods, ask, whitelist, times), or is bought
    on its published terms (ask, whitelist, times and id kept), or — only once its expiration
    time has passed — is deleted by its own seller. *)
Theorem C08_offer_immutable : forall w o k l,
  Inv (market w) -> find_key k (listings (market w)) = Some l -> lstatus l = FinalizedReady ->
  let s' := market (fst (step w o)) in
  find_key k (listings s') = Some l \/
  (exists buyer bid fail, o = Exec buyer [] (BuyListing (snd k) bid) fail /\ bought (env_of w) buyer s' k l) \/
  (exists fail, o = Exec (fst k) [] (DeleteListing (snd k)) fail /\
     (forall x, exp l = Some x -> x <= wnow w) /\ find_key k (listings s') = None).
Proof. exact step_finalized_frame. Qed.
Print Assumptions C08_offer_immutable.

(** A sold listing can only be withdrawn by its claimant; nothing else touches it. *)
Theorem C08_sold_listing_frozen : forall o e sender fs m s s' out k l,
  Inv s -> execute o e sender fs m s = Ok (s', out) -> find_key k (listings s) = Some l ->
  lstatus l = Closed ->
  find_key k (listings s') = Some l \/
  (m = WithdrawPurchased (snd k) /\ sender = fst k /\ find_key k (listings s') = None).
Proof. exact closed_frame. Qed.
Print Assumptions C08_sold_listing_frozen.

(** Status only moves forward.  [lrank s id]: 0 never seen, 1 preparing, 2 finalized, 3 sold,
    4 gone (withdrawn or deleted).  It never decreases, over any operation and any history:
    never reopened, never re-finalized, and an id that is gone stays gone. *)
Theorem C08_status_monotone_step : forall w o id,
  Inv (market w) -> (lrank (market w) id <= lrank (market (fst (step w o))) id)%nat.
Proof. exact step_rank_mono. Qed.
Print Assumptions C08_status_monotone_step.

Theorem C08_status_monotone : forall ops w id,
  Inv (market w) -> (lrank (market w) id <= lrank (market (run w ops)) id)%nat.
Proof. exact run_rank_mono. Qed.
Print Assumptions C08_status_monotone.

(** ... and over histories of transactions during which a hostile token contract re-enters the
    marketplace with arbitrary programs (model/Reentry.v): whatever it does in the middle of a
    dispatch, no listing ever moves back to an earlier status. *)
Theorem C08_status_monotone_with_reentry : forall tx w id,
  Inv (market w) -> (lrank (market w) id <= lrank (market (rrun w tx)) id)%nat.
Proof. exact rrun_rank_mono. Qed.
Print Assumptions C08_status_monotone_with_reentry.

(** ... nested to any depth (model/ReentryDeep.v): [reaction] is the closure of nothing, sequencing,
    and a marketplace call during which the hostile contract again reacts. *)
Theorem C08_status_monotone_with_deep_reentry : forall k w id,
  reaction k -> Inv (market w) -> (lrank (market w) id <= lrank (market (k w)) id)%nat.
Proof. exact reaction_rank_mono. Qed.
Print Assumptions C08_status_monotone_with_deep_reentry.

(** Under every interleaving (proofs/CallSeq.v): along any sequence of successful marketplace
    calls, by anybody, in any order or nesting, a finalized listing stays in the store field for
    field until the call that buys it or — by its owner, once it expired — deletes it. *)
Theorem C08_binding_offer_under_every_interleaving : forall s s' k l,
  Inv s -> mreach s s' -> find_key k (listings s) = Some l -> lstatus l = FinalizedReady ->
  find_key k (listings s') = Some l \/ (3 <= lrank s' (snd k))%nat.
Proof. exact binding_offer. Qed.
Print Assumptions C08_binding_offer_under_every_interleaving.

Definition ask1 : gbal := mkG [(0, 5)] [] [].
Definition winit : world :=
  mkW (fun a d => if (a =? 1) || (a =? 2) then 1000 else 0) (fun _ _ => 0) (fun _ _ => None)
      (fun a => if a =? 50 then KMarket else if a =? 51 then KRegistry else KUser)
      (fun _ => None) (mkS [] [] [0] [0] (JUNO 100) (Some 51)) [] 100000000000 10 false 50 51 52.
Definition w0 : world := run winit [Exec 1 [(2, 10)] (CreateListing 7 ask1 None) None].
Definition w1 : world := run w0 [Exec 1 [] (Finalize 7 600) None].

Example C08_hyps_met :
  Inv (market w0) /\ Inv (market w1) /\
  ok (snd (step w0 (Exec 1 [] (Finalize 7 599) None))) = false /\
  ok (snd (step w0 (Exec 1 [] (Finalize 7 600) None))) = true /\
  ok (snd (step w0 (Exec 1 [] (Finalize 7 1209600) None))) = true /\
  ok (snd (step w0 (Exec 1 [] (Finalize 7 1209601) None))) = false /\
  lrank (market w0) 7 = 1%nat /\ lrank (market w1) 7 = 2%nat /\
  ok (snd (step w1 (Exec 1 [] (ChangeAsk 7 ask1) None))) = false /\
  ok (snd (step w1 (Exec 1 [] (Finalize 7 700) None))) = false /\
  ok (snd (step w1 (Exec 1 [] (DeleteListing 7) None))) = false /\
  ok (snd (step (run w1 [Advance (600 * NANOS) 1]) (Exec 1 [] (DeleteListing 7) None))) = true /\
  lrank (market (run w1 [Advance (600 * NANOS) 1; Exec 1 [] (DeleteListing 7) None])) 7 = 4%nat.
Proof.
  assert (I0 : Inv (market w0)) by (unfold w0; apply reach_Inv; exists 100000000000; reflexivity).
  split; [exact I0|]. split; [unfold w1; apply run_Inv; exact I0|].
  splits; vm_compute; reflexivity.
Qed.
