(** C09 — listing and bucket ids are never reused. *)
From FM Require Import Ids Reentrant ReentrantDeep CallSeq.

(** [creates_l_b m id] / [creates_b_b m id]: message [m] asks for the creation of listing /
    bucket [id] — through the native message, the CW20 hook or the CW721 hook (three paths
    each, six in total; the hooks may be called by an honest token or forged). *)

(** A creation is accepted only for a legal id that was never used, and marks it. *)
Theorem C09_listing_creation_needs_fresh_legal_id : forall o e sender fs m s s' out id,
  Inv s -> execute o e sender fs m s = Ok (s', out) -> creates_l_b m id = true ->
  id <> 0 /\ id < 9007199254740990 /\ ~ In id (l_used s) /\ In id (l_used s').
Proof. exact create_listing_fresh. Qed.
Print Assumptions C09_listing_creation_needs_fresh_legal_id.

Theorem C09_bucket_creation_needs_fresh_legal_id : forall o e sender fs m s s' out id,
  Inv s -> execute o e sender fs m s = Ok (s', out) -> creates_b_b m id = true ->
  id <> 0 /\ id < 9007199254740990 /\ ~ In id (b_used s) /\ In id (b_used s').
Proof. exact create_bucket_fresh. Qed.
Print Assumptions C09_bucket_creation_needs_fresh_legal_id.

(** Contrapositives: a used id, id 0 and ids >= 9007199254740990 are refused for every
    sender, through every path. *)
Theorem C09_used_listing_id_refused : forall o e sender fs m s id,
  Inv s -> In id (l_used s) -> creates_l_b m id = true -> execute o e sender fs m s = Err.
Proof. exact used_listing_id_refused. Qed.
Print Assumptions C09_used_listing_id_refused.

Theorem C09_used_bucket_id_refused : forall o e sender fs m s id,
  Inv s -> In id (b_used s) -> creates_b_b m id = true -> execute o e sender fs m s = Err.
Proof. exact used_bucket_id_refused. Qed.
Print Assumptions C09_used_bucket_id_refused.

Theorem C09_illegal_listing_id_refused : forall o e sender fs m s id,
  Inv s -> (id = 0 \/ 9007199254740990 <= id) -> creates_l_b m id = true -> execute o e sender fs m s = Err.
Proof. exact illegal_listing_id_refused. Qed.
Print Assumptions C09_illegal_listing_id_refused.

Theorem C09_illegal_bucket_id_refused : forall o e sender fs m s id,
  Inv s -> (id = 0 \/ 9007199254740990 <= id) -> creates_b_b m id = true -> execute o e sender fs m s = Err.
Proof. exact illegal_bucket_id_refused. Qed.
Print Assumptions C09_illegal_bucket_id_refused.

(** No operation of any kind ever forgets a used id — not deletion, sale or withdrawal. *)
Theorem C09_used_forever : forall ops w,
  incl (l_used (market w)) (l_used (market (run w ops))) /\
  incl (b_used (market w)) (b_used (market (run w ops))).
Proof. exact run_used_mono. Qed.
Print Assumptions C09_used_forever.

(** The same over histories with re-entry (model/Reentry.v). *)
Theorem C09_used_forever_with_reentry : forall tx w,
  Inv (market w) ->
  incl (l_used (market w)) (l_used (market (rrun w tx))) /\
  incl (b_used (market w)) (b_used (market (rrun w tx))).
Proof. exact rrun_used_mono. Qed.
Print Assumptions C09_used_forever_with_reentry.

(** ... nested to any depth (model/ReentryDeep.v). *)
Theorem C09_used_forever_with_deep_reentry : forall k w,
  reaction k -> Inv (market w) ->
  incl (l_used (market w)) (l_used (market (k w))) /\
  incl (b_used (market w)) (b_used (market (k w))).
Proof. exact reaction_used_mono. Qed.
Print Assumptions C09_used_forever_with_deep_reentry.

(** Under every interleaving (proofs/CallSeq.v): once an id has been accepted for a listing
    (bucket), no later state reached by any sequence of marketplace calls — any senders, order or
    nesting — accepts it for a listing (bucket) again, through any of the three creation paths. *)
Theorem C09_listing_id_issued_once_under_every_interleaving : forall s o e a fs m id s1 out s2 o' e' a' fs' m',
  Inv s -> execute o e a fs m s = Ok (s1, out) -> creates_l_b m id = true -> mreach s1 s2 ->
  creates_l_b m' id = true -> execute o' e' a' fs' m' s2 = Err.
Proof. exact listing_id_issued_once. Qed.
Print Assumptions C09_listing_id_issued_once_under_every_interleaving.

Theorem C09_bucket_id_issued_once_under_every_interleaving : forall s o e a fs m id s1 out s2 o' e' a' fs' m',
  Inv s -> execute o e a fs m s = Ok (s1, out) -> creates_b_b m id = true -> mreach s1 s2 ->
  creates_b_b m' id = true -> execute o' e' a' fs' m' s2 = Err.
Proof. exact bucket_id_issued_once. Qed.
Print Assumptions C09_bucket_id_issued_once_under_every_interleaving.

(** Over every history from an instantiated marketplace, every id is accepted at most once
    for a listing and at most once for a bucket, whoever asks and through whichever path. *)
Theorem C09_listing_id_accepted_at_most_once : forall w ops id,
  initial w -> (l_creations id w ops <= 1)%nat.
Proof. exact reach_l_creations_once. Qed.
Print Assumptions C09_listing_id_accepted_at_most_once.

Theorem C09_bucket_id_accepted_at_most_once : forall w ops id,
  initial w -> (b_creations id w ops <= 1)%nat.
Proof. exact reach_b_creations_once. Qed.
Print Assumptions C09_bucket_id_accepted_at_most_once.

(** Hence at most one listing and one bucket exist per id at any time; every live record is
    filed under its id and its id is marked used. *)
Theorem C09_unique_live : forall w ops, initial w ->
  let s := market (run w ops) in
  NoDup (map lid_of (listings s)) /\ NoDup (map bid_of (buckets s)) /\
  NoDup (map fst (listings s)) /\ NoDup (map fst (buckets s)) /\
  (forall k l, In (k, l) (listings s) -> In (lid l) (l_used s) /\ snd k = lid l) /\
  (forall k b, In (k, b) (buckets s) -> In (snd k) (b_used s)).
Proof. exact reach_unique_live. Qed.
Print Assumptions C09_unique_live.

(** Non-vacuity: a concrete world in which listing 7 is created, deleted, and the re-creation
    of 7 by another account through the CW721 hook is refused; id 0 and MAX are refused. *)
Definition w0 : world :=
  mkW (fun a d => if (a =? 1) || (a =? 2) then 1000 else 0) (fun _ _ => 0)
      (fun c k => if (c =? 30) && (k =? 1) then Some 2 else None)
      (fun a => if a =? 30 then KCw721 else if a =? 50 then KMarket else if a =? 51 then KRegistry else KUser)
      (fun _ => None) (mkS [] [] [0] [0] (JUNO 100) (Some 51)) [] 100000000000 10 false 50 51 52.

Definition ask1 : gbal := mkG [(0, 5)] [] [].

Example C09_hyps_met :
  initial w0 /\
  let ops := [Exec 1 [(0, 10)] (CreateListing 7 ask1 None) None;
              Exec 1 [] (DeleteListing 7) None;
              NftSend 2 30 1 (Some (CreateListingCw721 7 ask1 None)) None;
              Exec 2 [(0, 10)] (CreateListing 0 ask1 None) None;
              Exec 2 [(0, 10)] (CreateListing 9007199254740990 ask1 None) None;
              Exec 2 [(0, 10)] (CreateListing 9007199254740989 ask1 None) None] in
  l_creations 7 w0 ops = 1%nat /\ l_creations 0 w0 ops = 0%nat /\
  l_creations 9007199254740990 w0 ops = 0%nat /\ l_creations 9007199254740989 w0 ops = 1%nat /\
  listings (market (run w0 (firstn 2 ops))) = [] /\ In 7 (l_used (market (run w0 ops))).
Proof.
  split; [exists 100000000000; reflexivity|]. cbv zeta. splits; try (vm_compute; reflexivity).
  vm_compute. tauto.
Qed.
