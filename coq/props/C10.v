(** C10 — every fee charged reaches the community pool exactly once.

    The Stargate payload is modelled down to its bytes (model/Wire.v: the protobuf encoding the
    `anybuf` calls of state.rs:628 produce, and the decimal rendering of the amount); the
    correspondence compares every real payload byte for byte with the model's encoder, and the
    theorems at the end of this file show that a decoder for this schema reads back exactly the
    recorded denomination, amount and depositor.  Outside the model: that the chain's
    distribution module accepts the message (it is applied by the harness as a bank transfer to
    the community-pool account after an independent `prost` decode). *)
From FM Require Import WireFacts ReentrantFees CallSeqLedger.

(** [charged d m sender s]: what message [m] charges in denomination [d] — nothing unless it is
    a purchase, then floor(0.5 %) of the amount in the fee denomination on each side (C06).
    [total_charged d w ops]: the sum over the successful operations of a history.
    [all_quiet w ops]: the history stays inside the deposit interface (C01's proviso) and the
    community-pool account — a module account — neither sends, nor is claimed as an actor, nor is
    funded by anybody else or named as a royalty payout address. *)

(** The ledger equation, over every such history from a fresh marketplace: what the pool holds
    plus what is still recorded as pending equals what the pool held at the start plus every fee
    charged.  A dropped fee would make the left side too small, a duplicated one too large, one
    paid to a user too small; re-using a traded bucket is an ordinary step of the history. *)
Theorem C10_fee_ledger : forall d w ops,
  fresh w -> kind w (pool_addr w) = KUser -> all_quiet w ops ->
  bank (run w ops) (pool_addr w) d + pending_fees (market (run w ops)) d = bank w (pool_addr w) d + total_charged d w ops.
Proof. exact fresh_pool_ledger. Qed.
Print Assumptions C10_fee_ledger.

(** One step, from any good world. *)
Theorem C10_fee_ledger_step : forall w o d,
  good w -> reg_clean_pool w -> kind w (pool_addr w) = KUser -> outside_ok w o -> pool_quiet w o ->
  let w' := fst (step w o) in
  bank w' (pool_addr w) d + pending d (market w') =
  bank w (pool_addr w) d + pending d (market w) + (if ok (snd (step w o)) then charged_op d w o else 0).
Proof. exact step_pool_ledger. Qed.
Print Assumptions C10_fee_ledger_step.

(** With a hostile token contract re-entering the marketplace during dispatch (model/Reentry.v):
    [gap d w] is what the pool holds plus what is pending; [rstep_charged d w o prog] is what the
    transaction charges — its own purchase plus the purchases among the re-entrant calls, each
    evaluated at the world in which it happens.  The equation needs no backing ([sound] is [good]
    without it), so it holds at the intermediate points as well. *)
Theorem C10_fee_ledger_with_reentry : forall w o prog d,
  sound w -> reg_clean_pool w -> kind w (pool_addr w) = KUser ->
  quiet_outsider w o -> Forall (quiet_outsider w) prog ->
  gap d (fst (rstep w o prog)) = gap d w + (if ok (snd (rstep w o prog)) then rstep_charged d w o prog else 0).
Proof. exact rstep_pool_ledger. Qed.
Print Assumptions C10_fee_ledger_with_reentry.

(** Contract-level, under every interleaving (proofs/CallSeqLedger.v): along any sequence of
    successful marketplace calls, every fee charged ([chg]) is still pending in a record or has
    been sent to the community pool in a message ([psent]) — exactly once. *)
Theorem C10_fee_ledger_under_every_interleaving : forall x d s s' deposited sent_out chg psent,
  Inv s -> mtrace x d s s' deposited sent_out chg psent ->
  pending d s' + psent = pending d s + chg.
Proof. exact fee_ledger_under_every_interleaving. Qed.
Print Assumptions C10_fee_ledger_under_every_interleaving.

(** Contract-local form, for every message from every state satisfying the invariant. *)
Theorem C10_fee_conservation : forall d o e sender fs m s s' out,
  Inv s -> execute o e sender fs m s = Ok (s', out) ->
  pending d s' + pool_sent d out = pending d s + charged d m sender s.
Proof. exact fee_conservation. Qed.
Print Assumptions C10_fee_conservation.

(** No later than the proceeds: the payout of a record carries exactly its recorded fee, as one
    fund-community-pool message whose depositor is the marketplace; a purchase paid with a
    traded bucket flushes that bucket's pending fee the same way; royalties never go to the pool. *)
Theorem C10_paid_with_proceeds : forall o e sender fs m s s' out,
  execute o e sender fs m s = Ok (s', out) ->
  match m with
  | RemoveBucket id => exists b, find_key (sender, id) (buckets s) = Some b /\
                                  out = send_tokens_cosmos (owner b) (funds b) ++ fee_msgs (self e) (bfee b)
  | WithdrawPurchased id => exists k l, find_by_id id (listings s) = Some (k, l) /\
                                  out = send_tokens_cosmos sender (for_sale l) ++ fee_msgs (self e) (lfee l)
  | BuyListing l_id b_id => exists b ms, find_key (sender, b_id) (buckets s) = Some b /\
                                  out = ms ++ fee_msgs (self e) (bfee b) /\ forall d, pool_sent d ms = 0
  | _ => True
  end.
Proof. exact payout_carries_fee. Qed.
Print Assumptions C10_paid_with_proceeds.

(** The pool account changes only through those messages (dispatch adds exactly their total). *)
Theorem C10_pool_changes_only_by_fund_messages : forall ms w i w' d,
  dispatch w i None ms = Ok w' -> Forall (recipient_ok (pool_addr w)) ms -> pool_addr w <> self_addr w ->
  bank w' (pool_addr w) d = bank w (pool_addr w) d + pool_sent d ms.
Proof. exact dispatch_pool. Qed.
Print Assumptions C10_pool_changes_only_by_fund_messages.

(** A recorded fee is unaffected by top-ups (and by fee cycles: C13). *)
Theorem C10_topup_keeps_fee : forall o e sender fs m s s' out id,
  execute o e sender fs m s = Ok (s', out) -> topup_b_b m id = true ->
  exists b b', find_key (actor_of sender m, id) (buckets s) = Some b /\
               find_key (actor_of sender m, id) (buckets s') = Some b' /\
               gsize (funds b') <= 25 /\ owner b' = owner b /\ bfee b' = bfee b.
Proof. exact topup_bucket_cap. Qed.
Print Assumptions C10_topup_keeps_fee.

(** The payload: a protobuf decoder for MsgFundCommunityPool reads the emitted bytes back as
    exactly (denom, decimal amount, depositor) ... *)
Theorem C10_payload_decodes_to_what_was_recorded : forall denom amount depositor,
  denom <> [] -> amount <> [] -> depositor <> [] -> fits denom -> fits amount -> fits depositor ->
  fits (encode_coin denom amount) ->
  decode_fund_pool (encode_fund_pool denom amount depositor) = Some (denom, amount, depositor).
Proof. exact decode_fund_pool_encode. Qed.
Print Assumptions C10_payload_decodes_to_what_was_recorded.

(** ... and the decimal amount string of every Uint128 fee reads back as the same number. *)
Theorem C10_amount_string_roundtrip : forall a,
  a < U128 -> decimal a <> [] /\ parse_decimal (decimal a) 0 = Some a.
Proof. exact fee_amount_roundtrip. Qed.
Print Assumptions C10_amount_string_roundtrip.

Definition winit : world :=
  mkW (fun a d => if (a =? 1) || (a =? 2) || (a =? 3) then 100000 else 0) (fun _ _ => 0) (fun _ _ => None)
      (fun a => if a =? 50 then KMarket else if a =? 51 then KRegistry else KUser)
      (fun _ => None) (mkS [] [] [0] [0] (JUNO 100) (Some 51)) [] 100000000000 10 false 50 51 52.
(** the traded bucket is re-used, then everything is cashed out *)
Definition ops0 : list op :=
  [Exec 1 [(3, 7)] (CreateListing 7 (mkG [(0, 10000)] [] []) None) None; Exec 1 [] (Finalize 7 600) None;
   Exec 2 [(0, 10000)] (CreateBucket 4) None; Exec 2 [] (BuyListing 7 4) None;
   Exec 3 [(3, 5)] (CreateListing 8 (mkG [(0, 9950)] [] []) None) None; Exec 3 [] (Finalize 8 600) None;
   Exec 1 [] (BuyListing 8 4) None;
   Exec 3 [] (RemoveBucket 4) None; Exec 1 [] (WithdrawPurchased 8) None; Exec 2 [] (WithdrawPurchased 7) None].

Example C10_hyps_met :
  fresh winit /\ kind winit (pool_addr winit) = KUser /\ all_quiet winit ops0 /\
  total_charged 0 winit ops0 = 99 /\ bank (run winit ops0) 52 0 = 99 /\ pending_fees (market (run winit ops0)) 0 = 0 /\
  bank (run winit (firstn 7 ops0)) 52 0 = 50 /\ pending_fees (market (run winit (firstn 7 ops0))) 0 = 49 /\
  bank (run winit ops0) 50 0 = 0 /\
  (* "ujunox", 50, "contract0" *)
  encode_fund_pool [117;106;117;110;111;120] (decimal 50) [99;111;110;116;114;97;99;116;48]
    = [10;12;10;6;117;106;117;110;111;120;18;2;53;48;18;9;99;111;110;116;114;97;99;116;48].
Proof.
  split.
  { unfold fresh. split; [exists 100000000000; reflexivity|]. split; [reflexivity|]. split; [vm_compute; discriminate|].
    split; [reflexivity|]. split; [intros d; reflexivity|]. split; [intros t; reflexivity|]. intros c k. discriminate. }
  split; [reflexivity|]. split; [vm_compute; repeat split; try discriminate; auto|].
  splits; vm_compute; reflexivity.
Qed.
