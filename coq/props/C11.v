(** C11 — royalties never take more than half of any traded amount (arithmetic core; the
    purchase-level statements are in C02 / C06). *)
From FM Require Import RoyaltyArith.

(** The gate is exact: refused iff the registered rates sum to more than 5000 bps. *)
Theorem C11_gate : forall g resp,
  wf_amounts g -> rates_le 300 (registered resp) -> (length (registered resp) <= 25)%nat ->
  (royalties g resp = Err <-> 5000 < total_bps (registered resp)).
Proof. exact royalties_gate_iff. Qed.
Print Assumptions C11_gate.

(** Exactly 50 % is allowed. *)
Theorem C11_exactly_half_allowed : forall g resp,
  wf_amounts g -> rates_le 300 (registered resp) -> (length (registered resp) <= 25)%nat ->
  total_bps (registered resp) = 5000 -> is_ok (royalties g resp) = true.
Proof.
  intros g resp Hw Hr Hl Ht.
  rewrite (royalties_total_exact g resp Hw Hr Hl) by (rewrite Ht; apply N.le_refl). reflexivity.
Qed.
Print Assumptions C11_exactly_half_allowed.

(** No more than half of any amount is paid out ... *)
Theorem C11_at_most_half : forall a rs, total_bps rs <= 5000 -> 2 * pay_sum a rs <= a.
Proof. exact pay_sum_half. Qed.
Print Assumptions C11_at_most_half.

(** ... and no positive amount is reduced to zero, neither by the fee nor by the royalties. *)
Theorem C11_never_zero : forall a rs, total_bps rs <= 5000 -> 0 < a ->
  0 < a - a * 5 / 1000 /\ 0 < (a - a * 5 / 1000) - pay_sum (a - a * 5 / 1000) rs.
Proof.
  intros a rs Ht Ha. pose proof (fee_lt a Ha) as Hf.
  split; [apply N.lt_add_lt_sub_r; exact Hf|].
  assert (H1 : 0 < a - a * 5 / 1000) by (apply N.lt_add_lt_sub_r; exact Hf).
  pose proof (pay_sum_lt _ rs Ht H1) as H2. apply N.lt_add_lt_sub_r. exact H2.
Qed.
Print Assumptions C11_never_zero.

(** Unregistered collections contribute nothing; the sum is over the registered ones. *)
Theorem C11_unregistered_free : forall resp, registered (None :: resp) = registered resp.
Proof. reflexivity. Qed.
Print Assumptions C11_unregistered_free.

Example C11_hyps_met :
  let rs := repeat (mkR 1 300 5) 16 ++ [mkR 1 200 4] in
  total_bps rs = 5000 /\ 2 * pay_sum 9950 rs <= 9950 /\ pay_sum 9950 rs = 4967.
Proof. cbv zeta. split; [vm_compute; reflexivity | split; [vm_compute; discriminate | vm_compute; reflexivity]]. Qed.
