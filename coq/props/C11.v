(** C11 — royalties never take more than half of any traded amount. *)
From FM Require Import BuySpec.

(** The gate is exact: refused iff the registered rates sum to more than 5000 bps. *)
Theorem C11_gate : forall g resp,
  wf_amounts g -> rates_le 300 (registered resp) -> (length (registered resp) <= 25)%nat ->
  (royalties g resp = Err <-> 5000 < total_bps (registered resp)).
Proof. exact royalties_gate_iff. Qed.
Print Assumptions C11_gate.

(** Exactly 50 % is allowed. *)
Theorem C11_exactly_half_allowed : forall g resp,
  wf_amounts g -> rates_le 300 (registered resp) -> (length (registered resp) <= 25)%nat ->
  total_bps (registered resp) = 5000 -> is_ok (royalties g resp) = true.
Proof.
  intros g resp Hw Hr Hl Ht.
  rewrite (royalties_total_exact g resp Hw Hr Hl) by (rewrite Ht; apply N.le_refl). reflexivity.
Qed.
Print Assumptions C11_exactly_half_allowed.

(** No more than half of any amount is paid out ... *)
Theorem C11_at_most_half : forall a rs, total_bps rs <= 5000 -> 2 * pay_sum a rs <= a.
Proof. exact pay_sum_half. Qed.
Print Assumptions C11_at_most_half.

(** ... and no positive amount is reduced to zero, neither by the fee nor by the royalties. *)
Theorem C11_never_zero : forall a rs, total_bps rs <= 5000 -> 0 < a ->
  0 < a - a * 5 / 1000 /\ 0 < (a - a * 5 / 1000) - pay_sum (a - a * 5 / 1000) rs.
Proof.
  intros a rs Ht Ha. pose proof (fee_lt a Ha) as Hf.
  split; [apply N.lt_add_lt_sub_r; exact Hf|].
  assert (H1 : 0 < a - a * 5 / 1000) by (apply N.lt_add_lt_sub_r; exact Hf).
  pose proof (pay_sum_lt _ rs Ht H1) as H2. apply N.lt_add_lt_sub_r. exact H2.
Qed.
Print Assumptions C11_never_zero.

(** Unregistered collections contribute nothing; the sum is over the registered ones. *)
Theorem C11_unregistered_free : forall resp, registered (None :: resp) = registered resp.
Proof. reflexivity. Qed.
Print Assumptions C11_unregistered_free.

(** Purchase level.  If the rates of the distinct registered collections on one side sum to
    more than 5000 bps, the purchase message is refused (hence without effect) ... *)
Theorem C11_over_half_refused : forall w a fs l_id b_id kl l b,
  Inv (market w) -> reg_link w ->
  find_by_id l_id (listings (market w)) = Some (kl, l) -> find_key (a, b_id) (buckets (market w)) = Some b ->
  (5000 < due w (colls_of (for_sale l)) \/ 5000 < due w (colls_of (funds b))) ->
  execute (oracle_of w) (env_of w) a fs (BuyListing l_id b_id) (market w) = Err.
Proof. exact over_half_refused. Qed.
Print Assumptions C11_over_half_refused.

(** ... while any sum up to and including 5000 is accepted when the other terms are met
    (C02), with no assumption on the registry contents. *)
Theorem C11_gate_no_registry_assumption : forall g resp,
  wf_amounts g -> total_bps (registered resp) <= 5000 -> is_ok (royalties g resp) = true.
Proof. intros g resp Hw Ht. rewrite (royalties_exact g resp Hw Ht). reflexivity. Qed.
Print Assumptions C11_gate_no_registry_assumption.

Example C11_hyps_met :
  let rs := repeat (mkR 1 300 5) 16 ++ [mkR 1 200 4] in
  total_bps rs = 5000 /\ 2 * pay_sum 9950 rs <= 9950 /\ pay_sum 9950 rs = 4967.
Proof. cbv zeta. split; [vm_compute; reflexivity | split; [vm_compute; discriminate | vm_compute; reflexivity]]. Qed.
