(** C12 — every escrow record is well-formed and therefore payable. *)
From FM Require Import Accept Reentrant ReentrantDeep CallSeq.

(** [wf_gbal g]: at least one asset, every amount in 1 .. 2^128-1, no duplicate denomination,
    token or NFT.  [wf_listing k l]: filed under (creator, id); goods and ask well-formed; ask
    of at most 25 items; status, timestamps, claimant and pending fee mutually consistent
    ([life_ok]); pending fee positive.  [wf_bucket k b]: filed under its owner; funds
    well-formed; pending fee positive. *)

(** In every world reachable from an instantiated marketplace by any history of operations,
    every stored listing and bucket is well-formed. *)
Theorem C12_wf_always : forall w ops, initial w ->
  let s := market (run w ops) in
  (forall k l, In (k, l) (listings s) -> wf_listing k l) /\
  (forall k b, In (k, b) (buckets s) -> wf_bucket k b).
Proof. exact reach_wf. Qed.
Print Assumptions C12_wf_always.

(** The same over histories in which a hostile token contract re-enters the marketplace during
    dispatch with arbitrary programs (model/Reentry.v): no proviso on who does what. *)
Theorem C12_wf_always_with_reentry : forall w tx, initial w ->
  let s := market (rrun w tx) in
  (forall k l, In (k, l) (listings s) -> wf_listing k l) /\
  (forall k b, In (k, b) (buckets s) -> wf_bucket k b).
Proof. exact reach_wf_with_reentry. Qed.
Print Assumptions C12_wf_always_with_reentry.

(** ... and with re-entrancy nested to any depth (model/ReentryDeep.v): [trun] runs transactions
    given as trees, each call carrying the program that runs if it is re-entered. *)
Theorem C12_wf_always_with_deep_reentry : forall w prog, initial w ->
  let s := market (trun w prog) in
  (forall k l, In (k, l) (listings s) -> wf_listing k l) /\
  (forall k b, In (k, b) (buckets s) -> wf_bucket k b).
Proof. exact deep_wf. Qed.
Print Assumptions C12_wf_always_with_deep_reentry.

Theorem C12_invariant_kept_by_every_reaction : forall k w, reaction k -> Inv (market w) -> Inv (market (k w)).
Proof. exact reaction_Inv. Qed.
Print Assumptions C12_invariant_kept_by_every_reaction.

(** Under every interleaving: the invariant holds after any sequence of successful calls. *)
Theorem C12_wf_under_every_interleaving : forall s s', mreach s s' -> Inv s -> Inv s'.
Proof. exact mreach_Inv. Qed.
Print Assumptions C12_wf_under_every_interleaving.

(** The invariant is inductive for every message, from every state (not only reachable ones). *)
Theorem C12_every_message_preserves_wf : forall o e sender fs m s s' out,
  Inv s -> execute o e sender fs m s = Ok (s', out) -> Inv s'.
Proof. exact execute_pres. Qed.
Print Assumptions C12_every_message_preserves_wf.

(** A successful top-up — native, CW20 hook or CW721 hook — leaves the record with at most 25
    assets, and changes nothing of it but its content. *)
Theorem C12_bucket_topup_cap : forall o e sender fs m s s' out id,
  execute o e sender fs m s = Ok (s', out) -> topup_b_b m id = true ->
  exists b b', find_key (actor_of sender m, id) (buckets s) = Some b /\
               find_key (actor_of sender m, id) (buckets s') = Some b' /\
               gsize (funds b') <= 25 /\ owner b' = owner b /\ bfee b' = bfee b.
Proof. exact topup_bucket_cap. Qed.
Print Assumptions C12_bucket_topup_cap.

Theorem C12_listing_topup_cap : forall o e sender fs m s s' out id,
  execute o e sender fs m s = Ok (s', out) -> topup_l_b m id = true ->
  exists l l', find_key (actor_of sender m, id) (listings s) = Some l /\
               find_key (actor_of sender m, id) (listings s') = Some l' /\
               gsize (for_sale l') <= 25 /\ lstatus l = BeingPrepared /\
               l' = with_for_sale l (for_sale l').
Proof. exact topup_listing_cap. Qed.
Print Assumptions C12_listing_topup_cap.

(** An ask is accepted exactly when it is non-empty, zero-free, duplicate-free, at most 25
    items, with valid token / collection addresses. *)
Theorem C12_ask_accepted_iff : forall a, (exists va, validate_ask a = Ok va) <-> ask_ok a.
Proof. exact validate_ask_iff. Qed.
Print Assumptions C12_ask_accepted_iff.

(** Deposits: accepted exactly when they keep the record well-formed — for a fresh legal id, an
    owned listing still in preparation, or any owned bucket.  One theorem per generic handler;
    the native, CW20-hook and CW721-hook messages are instances ([ok] is the deposit's own validity
    check, [balance_in_range]: amounts are Uint128 values, as the JSON decoder guarantees). *)
Theorem C12_bucket_creation_accepted_iff : forall c ok g id s,
  Inv s -> (is_ok (create_bucket_g c ok g id s) = true <-> id < 9007199254740990 /\ ~ In id (b_used s) /\ ok = true).
Proof. exact create_bucket_accept_iff. Qed.
Print Assumptions C12_bucket_creation_accepted_iff.

Theorem C12_listing_creation_accepted_iff : forall user ok g id a w s,
  Inv s ->
  (is_ok (create_listing_g user ok g id a w s) = true <->
   id < 9007199254740990 /\ ok = true /\ ~ In id (l_used s) /\ wl_ok user w = true /\ ask_ok a).
Proof. exact create_listing_accept_iff. Qed.
Print Assumptions C12_listing_creation_accepted_iff.

Theorem C12_bucket_topup_accepted_iff : forall sender b id s bk,
  Inv s -> find_key (sender, id) (buckets s) = Some bk -> balance_in_range b ->
  (is_ok (execute_add_to_bucket sender b id s) = true <->
   normalized_check b = true /\ exists g, add_tokens (funds bk) b = Ok g /\ gsize g <= 25).
Proof. exact add_to_bucket_accept_iff. Qed.
Print Assumptions C12_bucket_topup_accepted_iff.

Theorem C12_bucket_nft_topup_accepted_iff : forall user n id s bk,
  Inv s -> find_key (user, id) (buckets s) = Some bk ->
  (is_ok (execute_add_to_bucket_cw721 user n id s) = true <->
   ~ In n (nfts (funds bk)) /\ gsize (funds bk) + 1 <= 25).
Proof. exact add_nft_to_bucket_accept_iff. Qed.
Print Assumptions C12_bucket_nft_topup_accepted_iff.

Theorem C12_listing_topup_accepted_iff : forall sender b id s l,
  Inv s -> find_key (sender, id) (listings s) = Some l -> balance_in_range b ->
  (is_ok (execute_add_to_listing sender b id s) = true <->
   lstatus l = BeingPrepared /\ normalized_check b = true /\
   exists g, add_tokens (for_sale l) b = Ok g /\ gsize g <= 25).
Proof. exact add_to_listing_accept_iff. Qed.
Print Assumptions C12_listing_topup_accepted_iff.

Theorem C12_listing_nft_topup_accepted_iff : forall user n id s l,
  Inv s -> find_key (user, id) (listings s) = Some l ->
  (is_ok (execute_add_to_listing_cw721 user n id s) = true <->
   lstatus l = BeingPrepared /\ ~ In n (nfts (for_sale l)) /\ gsize (for_sale l) + 1 <= 25).
Proof. exact add_nft_to_listing_accept_iff. Qed.
Print Assumptions C12_listing_nft_topup_accepted_iff.

(** Hence a payout can never be rejected by the bank or a token contract for being empty,
    zero or duplicated: every message of a bucket removal, listing deletion or
    purchased-listing withdrawal is payable, and no NFT is sent twice. *)
Theorem C12_payout_messages_payable : forall o e sender fs m s s' out,
  Inv s -> execute o e sender fs m s = Ok (s', out) -> is_payout_msg m = true ->
  Forall msg_payable out /\ NoDup (sent_nfts out).
Proof. exact payout_messages_payable. Qed.
Print Assumptions C12_payout_messages_payable.

Example C12_hyps_met :
  ask_ok (mkG [(0, 5); (3, 1)] [(10, 7)] [(30, 1); (30, 2)]) /\
  validate_ask (mkG [(0, 5); (0, 1)] [] []) = Err /\
  validate_ask (mkG [(0, 0)] [] []) = Err /\
  validate_ask gempty = Err /\
  msg_payable (BankSend 1 [(0, 5); (3, 1)]) /\ ~ msg_payable (BankSend 1 [(0, 5); (0, 1)]).
Proof.
  splits; try (vm_compute; reflexivity).
  - apply (proj1 (C12_ask_accepted_iff _)). eexists. vm_compute. reflexivity.
  - vm_compute. discriminate.
Qed.
