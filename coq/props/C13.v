(** C13 — the fee denomination alternates, at most once per week. *)
From FM Require Import History CallSeq.

(** Whatever operation (of any kind, by anybody) changes the fee item, it is the public cycle
    message without attached coins, strictly more than 604800 s of block time after the
    previous switch or instantiation; the denomination flips between the two configured ones
    and the switch time is recorded.  ([seconds (wnow w) < U64] holds of every CosmWasm
    [Timestamp], which is a [u64] of nanoseconds.) *)
Theorem C13_only_cycle_switches_after_a_week : forall w o,
  seconds (wnow w) < U64 ->
  fee (market (fst (step w o))) <> fee (market w) ->
  (exists a fail, o = Exec a [] FeeCycle fail) /\
  fee_last (fee (market w)) + 604800 < seconds (wnow w) /\
  fee_last (fee (market (fst (step w o)))) = seconds (wnow w) /\
  fee_denom_value (fee (market (fst (step w o)))) <> fee_denom_value (fee (market w)) /\
  (fee_denom_value (fee (market (fst (step w o)))) = D_JUNO \/ fee_denom_value (fee (market (fst (step w o)))) = D_USDC).
Proof. exact step_fee_spacing. Qed.
Print Assumptions C13_only_cycle_switches_after_a_week.

(** Over a whole history: the block times (in seconds) at which the denomination switched are
    each more than 604800 s after the previous one, the first more than 604800 s after
    instantiation.  ([times_fit]: every block time of the history is a u64 Timestamp.) *)
Theorem C13_switches_spaced_over_history : forall ops w,
  times_fit w ops -> spaced (fee_last (fee (market w))) (switch_times w ops).
Proof. exact switches_spaced. Qed.
Print Assumptions C13_switches_spaced_over_history.

(** To the nanosecond.  The cooldown origin is stored in whole seconds, rounded down; measured on
    the exact block times (nanoseconds) successive switches — and the first one after an
    instantiation at [t0] whose second is the stored origin — are still more than 604800 s
    apart: the rounding can lengthen the wait, never shorten it. *)
Theorem C13_switches_spaced_to_the_nanosecond : forall ops w t0,
  times_fit w ops -> seconds t0 = fee_last (fee (market w)) ->
  spaced_ns t0 (switch_times_ns w ops).
Proof. exact switches_spaced_ns. Qed.
Print Assumptions C13_switches_spaced_to_the_nanosecond.

(** Under every interleaving (proofs/CallSeq.v): along any sequence of successful marketplace
    calls none of which is the cycle message — whoever sends them, in any order or nesting — the
    fee denomination and its cooldown origin stay exactly as they are. *)
Theorem C13_only_the_cycle_message_switches : forall s s',
  mreach_but (fun m => m = FeeCycle) s s' -> fee s' = fee s.
Proof. exact fee_changes_only_by_cycle. Qed.
Print Assumptions C13_only_the_cycle_message_switches.

(** Before (and at) the week mark every cycle attempt is refused without effect ... *)
Theorem C13_cycle_refused_within_week : forall w a fs fail,
  seconds (wnow w) <= sat_add64 (fee_last (fee (market w))) 604800 ->
  fst (step w (Exec a fs FeeCycle fail)) = w.
Proof. exact cycle_refused. Qed.
Print Assumptions C13_cycle_refused_within_week.

(** ... and once more than 604800 s have elapsed any account can switch. *)
Theorem C13_anyone_can_cycle_after_week : forall w a,
  sat_add64 (fee_last (fee (market w))) 604800 < seconds (wnow w) ->
  ok (snd (step w (Exec a [] FeeCycle None))) = true.
Proof. exact cycle_accepted. Qed.
Print Assumptions C13_anyone_can_cycle_after_week.

(** A successful cycle flips the fee item and changes nothing else: no record, hence no fee
    already recorded, is affected. *)
Theorem C13_cycle_changes_only_the_fee_item : forall w a fail,
  ok (snd (step w (Exec a [] FeeCycle fail))) = true ->
  fst (step w (Exec a [] FeeCycle fail)) =
  set_market w (set_fee (market w) (flip (fee (market w)) (seconds (wnow w)))).
Proof. exact cycle_effect. Qed.
Print Assumptions C13_cycle_changes_only_the_fee_item.

(** Each purchase records its fees in the denomination in force at that moment and does not
    touch the fee item. *)
Theorem C13_charged_in_current_denom : forall o e sender fs l_id b_id s s' out,
  execute o e sender fs (BuyListing l_id b_id) s = Ok (s', out) ->
  exists kl l l' b',
    find_by_id l_id (listings s) = Some (kl, l) /\
    find_key (sender, l_id) (listings s') = Some l' /\
    find_key (creator l, b_id) (buckets s') = Some b' /\
    (forall c, lfee l' = Some c -> fst c = fee_denom_value (fee s)) /\
    (forall c, bfee b' = Some c -> fst c = fee_denom_value (fee s)) /\
    fee s' = fee s.
Proof. exact buy_fee_denom. Qed.
Print Assumptions C13_charged_in_current_denom.

(** No message other than the cycle touches the fee item (handler level). *)
Theorem C13_other_messages_keep_fee_item : forall o e sender fs m s s' out,
  execute o e sender fs m s = Ok (s', out) -> m <> FeeCycle -> fee s' = fee s.
Proof. exact execute_fee_frame. Qed.
Print Assumptions C13_other_messages_keep_fee_item.

Definition w0 : world :=
  mkW (fun _ _ => 0) (fun _ _ => 0) (fun _ _ => None)
      (fun a => if a =? 50 then KMarket else if a =? 51 then KRegistry else KUser)
      (fun _ => None) (mkS [] [] [0] [0] (JUNO 100) (Some 51)) [] 100000000000 10 false 50 51 52.

Example C13_hyps_met :
  let w1 := run w0 [Advance (604800 * NANOS) 1] in
  let w2 := run w0 [Advance (604801 * NANOS) 1] in
  fst (step w1 (Exec 3 [] FeeCycle None)) = w1 /\
  fee (market (fst (step w2 (Exec 3 [] FeeCycle None)))) = USDC 604901 /\
  fee (market (run w2 [Exec 3 [] FeeCycle None; Exec 4 [] FeeCycle None])) = USDC 604901 /\
  fee (market (run w2 [Exec 3 [] FeeCycle None; Advance (604801 * NANOS) 1; Exec 4 [] FeeCycle None])) = JUNO 1209702 /\
  switch_times w0 [Advance (604801 * NANOS) 1; Exec 3 [] FeeCycle None; Exec 4 [] FeeCycle None; Advance (604801 * NANOS) 1; Exec 4 [] FeeCycle None]
    = [604901; 1209702].
Proof.
  cbv zeta. splits; try (vm_compute; reflexivity).
Qed.
