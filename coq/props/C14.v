(** C14 — royalty entries change only by the collection's admin, within bounds. *)
From FM Require Import RegWorld.

(** [ca c] is the chain's answer to "who is the wasm admin of c": [None] when c is not a
    contract, [Some None] when it has no admin, [Some (Some a)] otherwise. *)
Theorem C14_register_iff : forall ca h a c p b r, b < U64 ->
  (is_ok (reg_execute ca h a (Register c p b) r) = true <->
   (10 <= b /\ b <= 300) /\ valid_addr p = true /\ valid_addr c = true /\
   ca c = Some (Some a) /\ reg_lookup c r = None).
Proof. exact register_iff. Qed.
Print Assumptions C14_register_iff.

Theorem C14_update_iff : forall ca h a c p b r,
  (forall e, reg_lookup c r = Some e -> last_updated e + COOLDOWN_BLOCKS < U64) ->
  (forall x, b = Some x -> x < U64) ->
  (is_ok (reg_execute ca h a (Update c p b) r) = true <->
   valid_addr c = true /\ ca c = Some (Some a) /\
   exists e, reg_lookup c r = Some e /\ cooled h e /\
     (forall x, b = Some x -> 10 <= x /\ x <= 300) /\ (forall x, p = Some x -> valid_addr x = true)).
Proof. exact update_iff. Qed.
Print Assumptions C14_update_iff.

Theorem C14_remove_iff : forall ca h a c r,
  (forall e, reg_lookup c r = Some e -> last_updated e + COOLDOWN_BLOCKS < U64) ->
  (is_ok (reg_execute ca h a (Remove c) r) = true <->
   valid_addr c = true /\ ca c = Some (Some a) /\ exists e, reg_lookup c r = Some e /\ cooled h e).
Proof. exact remove_iff. Qed.
Print Assumptions C14_remove_iff.

(** Effects: the entry becomes (height, bps, payout), keeps unspecified fields on a partial
    update, disappears on removal; every other entry is unchanged. *)
Theorem C14_register_effect : forall ca h a c p b r r',
  reg_execute ca h a (Register c p b) r = Ok r' ->
  reg_lookup c r' = Some (mkR h b p) /\ forall c', c' <> c -> reg_lookup c' r' = reg_lookup c' r.
Proof. exact register_effect. Qed.
Print Assumptions C14_register_effect.

Theorem C14_update_effect : forall ca h a c p b r r',
  reg_execute ca h a (Update c p b) r = Ok r' ->
  exists e, reg_lookup c r = Some e /\
    reg_lookup c r' = Some (mkR h (match b with Some x => x | None => bps e end)
                                   (match p with Some y => y | None => payout e end)) /\
    forall c', c' <> c -> reg_lookup c' r' = reg_lookup c' r.
Proof. exact update_effect. Qed.
Print Assumptions C14_update_effect.

Theorem C14_remove_effect : forall ca h a c r r',
  reg_execute ca h a (Remove c) r = Ok r' ->
  reg_lookup c r' = None /\ forall c', c' <> c -> reg_lookup c' r' = reg_lookup c' r.
Proof. exact remove_effect. Qed.
Print Assumptions C14_remove_effect.

(** In every world reachable from one whose entries are within bounds (the empty registry in
    particular), every entry has a rate between 10 and 300 bps. *)
Theorem C14_bounds_always : forall ops w, reg_bounds (registry w) -> reg_bounds (registry (run w ops)).
Proof. exact run_reg_bounds. Qed.
Print Assumptions C14_bounds_always.

(** Whatever operation changes the entry of a collection, it is a registry message sent by
    the account that is that contract's wasm admin at that moment. *)
Theorem C14_only_admin : forall w o c,
  reg_lookup c (registry (fst (step w o))) <> reg_lookup c (registry w) ->
  exists a m, o = RegExec a m /\ c = target m /\ kind w c <> KUser /\ admin w c = Some a.
Proof. exact step_only_admin. Qed.
Print Assumptions C14_only_admin.

Theorem C14_lookups : forall r c cs,
  get_single r c = reg_lookup c r /\ (cs <> [] -> get_multi r cs = Ok (map (fun c => reg_lookup c r) cs)).
Proof. exact lookups. Qed.
Print Assumptions C14_lookups.

Example C14_hyps_met :
  let ca := fun c => if c =? 14 then Some (Some 5) else None in
  let r := [(14, mkR 5000 300 5)] in
  is_ok (reg_execute ca 5100 5 (Update 14 None (Some 10)) r) = true /\
  is_ok (reg_execute ca 5099 5 (Update 14 None (Some 10)) r) = false /\
  is_ok (reg_execute ca 5100 4 (Remove 14) r) = false /\
  reg_bounds r.
Proof.
  cbv zeta. splits; try (vm_compute; reflexivity).
  intros c e H. simpl in H. destruct (14 =? c); inv H. simpl. lia.
Qed.
