(** C15 — purchases, deposits and payouts are all-or-nothing when a transfer fails.

    Partial, and said so: that a failing message without reply handler aborts the whole
    transaction is wasmd's rule; it is *modelled* by [step] (result monad, fall back to the old
    world), not verified.  What the repository contributes — and what these theorems pin — is
    that no transfer is issued with a reply mode that could swallow a failure, that records are
    changed in the same handler invocation that emits the transfers, and that a failure at any
    message position therefore leaves nothing behind.  The run-time half is exercised on the
    real code by fault injection at every outgoing message position (DESIGN.md §6 C15). *)
From FM Require Import Atomic Reentrant ReentrantDeep.

(** Every outgoing message of an [execute] response is fire-and-forget (reply_on = never). *)
Theorem C15_fire_and_forget : forall ms,
  Forall (fun sm => sm_reply sm = ReplyNever /\ sm_id sm = 0) (add_messages ms).
Proof. exact execute_fire_and_forget. Qed.
Print Assumptions C15_fire_and_forget.

(** If the [j]-th transfer issued by an operation fails — whichever position, whichever kind:
    token, NFT, bank, pool — the operation has no effect: records, balances and NFT ownership
    are exactly as before. *)
Theorem C15_fault_no_effect : forall w o w' out j,
  try_step w (set_fail o None) = Ok (w', out) -> (j < length out)%nat ->
  step w (set_fail o (Some j)) = (w, mkOut false []).
Proof. exact fault_no_effect. Qed.
Print Assumptions C15_fault_no_effect.

(** A failure produced by the modelled chain itself (hostile token refusing, uncovered or
    malformed bank send, refused pool deposit) aborts the operation as well. *)
Theorem C15_dispatch_failure_aborts : forall w sender fs m s' out,
  execute (oracle_of w) (env_of w) sender fs m (market w) = Ok (s', out) ->
  dispatch (set_market w s') 0 None out = Err -> run_market w sender fs m None = Err.
Proof. exact dispatch_failure_aborts. Qed.
Print Assumptions C15_dispatch_failure_aborts.

Theorem C15_failed_operation_no_effect : forall w o, ok (snd (step w o)) = false -> fst (step w o) = w.
Proof. exact step_refused_no_effect. Qed.
Print Assumptions C15_failed_operation_no_effect.

(** The same operation succeeds with its normal effect once the fault is gone. *)
Theorem C15_retry : forall w o w' out j,
  try_step w (set_fail o None) = Ok (w', out) -> (j < length out)%nat ->
  step (fst (step w (set_fail o (Some j)))) (set_fail o None) = (w', mkOut true out).
Proof. exact retry_after_fault. Qed.
Print Assumptions C15_retry.

(** With a hostile token that re-enters the marketplace during dispatch (model/Reentry.v): a
    transaction that fails anywhere — in the handler, in a message delivered before or after the
    re-entrant calls — leaves the world as it was, the effects of those calls included. *)
Theorem C15_reentrant_failure_no_effect : forall w o prog,
  ok (snd (rstep w o prog)) = false -> fst (rstep w o prog) = w.
Proof. exact rstep_refused_no_effect. Qed.
Print Assumptions C15_reentrant_failure_no_effect.

(** The same with re-entrancy nested to any depth (model/ReentryDeep.v): whatever the hostile contract
    did inside the transaction, [k] being any function at all. *)
Theorem C15_deep_reentrant_failure_no_effect : forall k w o,
  ok (snd (gstep k w o)) = false -> fst (gstep k w o) = w.
Proof. exact gstep_refused_no_effect. Qed.
Print Assumptions C15_deep_reentrant_failure_no_effect.

Definition winit : world :=
  mkW (fun a d => if (a =? 1) || (a =? 2) then 1000 else 0) (fun t a => if (t =? 10) && (a =? 1) then 500 else 0) (fun _ _ => None)
      (fun a => if a =? 10 then KCw20 else if a =? 50 then KMarket else if a =? 51 then KRegistry else KUser)
      (fun _ => None) (mkS [] [] [0] [0] (JUNO 100) (Some 51)) [] 100000000000 10 false 50 51 52.
Definition w0 : world := run winit [Exec 1 [(2, 10); (3, 4)] (CreateBucket 7) None; Cw20Send 1 10 30 (Some (AddToBucketCw20 7)) None].

Example C15_hyps_met :
  (* a bucket payout of two messages (bank send, CW20 transfer): fault at either position *)
  (exists w' out, try_step w0 (set_fail (Exec 1 [] (RemoveBucket 7) None) None) = Ok (w', out) /\ length out = 2%nat) /\
  buckets (market (fst (step w0 (Exec 1 [] (RemoveBucket 7) (Some 1%nat))))) = buckets (market w0) /\
  bank (fst (step w0 (Exec 1 [] (RemoveBucket 7) (Some 1%nat)))) 1 2 = 990 /\
  bank (fst (step w0 (Exec 1 [] (RemoveBucket 7) None))) 1 2 = 1000 /\
  cw20bal (fst (step w0 (Exec 1 [] (RemoveBucket 7) None))) 10 1 = 500.
Proof.
  split; [eexists _, _; split; [vm_compute; reflexivity | reflexivity]|].
  splits; vm_compute; reflexivity.
Qed.
