(** C16 — queries report exactly what is stored and what is purchasable. *)
From FM Require Import QueryFacts Listed.

(** Owner queries: every page number 1 .. 255 is answered (never fails), page p is entries
    20(p-1) .. 20p-1 of the owner's records in id order, the 255 pages laid end to end are exactly
    that list (each record once; 20 * 255 = 5100 records is the reach of an 8-bit page number and
    is stated, not hidden), and that list is a permutation of the owner's stored records. *)
Theorem C16_owner_listings_pages : forall s o,
  valid_addr o = true -> (length (owned o (listings s)) <= 20 * 255)%nat ->
  (forall p, (1 <= p <= 255)%nat ->
     get_listings_by_owner s o (N.of_nat p) = Ok (map snd (page_of (N.of_nat p) (owned o (listings s))))) /\
  pages_upto 255 (owned o (listings s)) = owned o (listings s) /\
  Permutation (owned o (listings s)) (filter (fun e => fst (fst e) =? o) (listings s)).
Proof. exact owner_listings_pages. Qed.
Print Assumptions C16_owner_listings_pages.

Theorem C16_owner_buckets_pages : forall s o,
  valid_addr o = true -> (length (owned o (buckets s)) <= 20 * 255)%nat ->
  (forall p, (1 <= p <= 255)%nat ->
     get_buckets s o (N.of_nat p) = Ok (map (fun e => (snd (fst e), snd e)) (page_of (N.of_nat p) (owned o (buckets s))))) /\
  pages_upto 255 (owned o (buckets s)) = owned o (buckets s) /\
  Permutation (owned o (buckets s)) (filter (fun e => fst (fst e) =? o) (buckets s)).
Proof. exact owner_buckets_pages. Qed.
Print Assumptions C16_owner_buckets_pages.

(** Pages beyond the data are empty, not errors (for any list and any page number). *)
Theorem C16_pages_laid_end_to_end : forall (A : Type) n (l : list A), pages_upto n l = firstn (20 * n) l.
Proof. exact @pages_upto_firstn. Qed.
Print Assumptions C16_pages_laid_end_to_end.

(** [open_offer now l]: finalized, unsold, expiration not in the past — the comparison the
    purchase makes, in nanoseconds.  The market query (all pages) returns precisely those ... *)
Theorem C16_market_precise : forall s now_ns l,
  Inv s -> (length (market_window s now_ns) <= 20 * 255)%nat ->
  ((exists p ls, (1 <= p <= 255)%nat /\ get_listings_for_market s now_ns (N.of_nat p) = Ok ls /\ In l ls) <->
   (exists k, In (k, l) (listings s)) /\ open_offer now_ns l).
Proof. exact market_precise. Qed.
Print Assumptions C16_market_precise.

(** ... and the whitelist query precisely those reserved for that buyer. *)
Theorem C16_whitelist_precise : forall s now_ns b l,
  Inv s -> valid_addr b = true ->
  ((exists ls, get_whitelisted s now_ns b = Ok ls /\ In l ls) <->
   (exists k, In (k, l) (listings s)) /\ wl l = Some b /\ open_offer now_ns l).
Proof. exact whitelisted_precise. Qed.
Print Assumptions C16_whitelist_precise.

(** So a listed item is never already unpurchasable: the listing-side terms of C02 hold. *)
Theorem C16_listed_is_purchasable : forall s k l now_ns,
  Inv s -> In (k, l) (listings s) -> open_offer_b now_ns l = true ->
  lstatus l = FinalizedReady /\ claimant l = None /\ (forall x, exp l = Some x -> now_ns <= x).
Proof. exact listed_is_purchasable. Qed.
Print Assumptions C16_listed_is_purchasable.

(** ... and, joined with C02's acceptance rule: whatever the market query (any page) returns at
    the world's block time — that very instant included at which the listing expires — is
    accepted by [BuyListing] in that same state from any buyer the reservation allows who holds a
    bucket with exactly the asked assets (royalties within the cap); likewise for the whitelist
    query and the buyer it was asked for. *)
Theorem C16_listed_is_accepted_now : forall w p ls l a b_id b,
  Inv (market w) -> reg_link w ->
  get_listings_for_market (market w) (wnow w) p = Ok ls -> In l ls ->
  find_key (a, b_id) (buckets (market w)) = Some b -> lid l < U64 -> b_id < U64 ->
  (wl l = None \/ wl l = Some a) -> same_assets (funds b) (ask l) ->
  due w (colls_of (for_sale l)) <= 5000 -> due w (colls_of (funds b)) <= 5000 ->
  is_ok (execute (oracle_of w) (env_of w) a [] (BuyListing (lid l) b_id) (market w)) = true.
Proof. exact listed_is_accepted. Qed.
Print Assumptions C16_listed_is_accepted_now.

Theorem C16_whitelisted_is_accepted_now : forall w ls l a b_id b,
  Inv (market w) -> reg_link w -> valid_addr a = true ->
  get_whitelisted (market w) (wnow w) a = Ok ls -> In l ls ->
  find_key (a, b_id) (buckets (market w)) = Some b -> lid l < U64 -> b_id < U64 ->
  same_assets (funds b) (ask l) ->
  due w (colls_of (for_sale l)) <= 5000 -> due w (colls_of (funds b)) <= 5000 ->
  is_ok (execute (oracle_of w) (env_of w) a [] (BuyListing (lid l) b_id) (market w)) = true.
Proof. exact whitelisted_is_accepted. Qed.
Print Assumptions C16_whitelisted_is_accepted_now.

(** The fee query reports the denomination in force (the one the next purchase is charged in,
    C13) and a next-change time up to which every cycle attempt is refused and after which any
    account's attempt is accepted. *)
Theorem C16_fee_query : forall w,
  let '(_, denom, nc) := get_fee_denom (market w) in
  denom = fee_denom_value (fee (market w)) /\
  (forall a fs fail, seconds (wnow w) <= nc -> fst (step w (Exec a fs FeeCycle fail)) = w) /\
  (forall a, nc < seconds (wnow w) -> ok (snd (step w (Exec a [] FeeCycle None))) = true).
Proof. exact fee_query_truthful. Qed.
Print Assumptions C16_fee_query.

Definition winit : world :=
  mkW (fun a d => if (a =? 1) || (a =? 2) then 100000 else 0) (fun _ _ => 0) (fun _ _ => None)
      (fun a => if a =? 50 then KMarket else if a =? 51 then KRegistry else KUser)
      (fun _ => None) (mkS [] [] [0] [0] (JUNO 100000000) (Some 51)) [] 100000000999999999 10 false 50 51 52.
Definition mk (i : N) : list op := [Exec 1 [(2, i)] (CreateListing i (mkG [(3, 5)] [] []) None) None; Exec 1 [] (Finalize i (600 + i)) None].
Definition w0 : world := run winit (flat_map mk (map N.of_nat (seq 1 21))).

Example C16_hyps_met :
  Inv (market w0) /\
  length (owned 1 (listings (market w0))) = 21%nat /\
  (exists ls, get_listings_by_owner (market w0) 1 2 = Ok ls /\ map lid ls = [21]) /\
  (exists ls, get_listings_by_owner (market w0) 1 255 = Ok ls /\ ls = []) /\
  (* 601.1 s later listing 1 (600 + 1 s) has expired 0.1 s ago: not listed; listing 2 still is *)
  (exists ls, get_listings_for_market (market w0) (wnow w0 + 601100000000) 1 = Ok ls /\ map lid ls = map N.of_nat (seq 2 19)).
Proof.
  split; [unfold w0; apply reach_Inv; exists 100000000999999999; reflexivity|].
  split; [vm_compute; reflexivity|].
  split; [eexists; split; vm_compute; reflexivity|].
  split; [eexists; split; vm_compute; reflexivity|].
  eexists; split; vm_compute; reflexivity.
Qed.
