(** C17 — fee and royalty arithmetic is exact and total for all 128-bit amounts.
    Property theorems only: each is closed by [exact] of a lemma proved under proofs/. *)
From FM Require Import RoyaltyArith.

(** The fee split: for every balance with amounts below 2^128 and duplicate-free denominations,
    either fee denomination: it succeeds ([= Ok]: no overflow, wrap or abort), NFTs and CW20
    entries are untouched, every other denomination keeps its amount, fee + remainder =
    original, the fee is the floor of 0.5 %, and it is [None] exactly when that floor is 0. *)
Theorem C17_fee_total_exact : forall fd g,
  wf_amounts g -> NoDup (map fst (native g)) ->
  let fv := fee_denom_value fd in
  exists fee g', calc_fee_coin fd g = Ok (fee, g') /\
    nfts g' = nfts g /\ cw20 g' = cw20 g /\
    (forall d, d <> fv -> amount_of d (native g') = amount_of d (native g)) /\
    amount_of fv (native g') + fee_amt fv fee = amount_of fv (native g) /\
    fee_amt fv fee = amount_of fv (native g) * 5 / 1000 /\
    (fee = None <-> amount_of fv (native g) * 5 / 1000 = 0) /\
    (forall d a, fee = Some (d, a) -> d = fv /\ 0 < a) /\
    wf_amounts g' /\ NoDup (map fst (native g')) /\
    length (native g') = length (native g).
Proof. exact calc_fee_total_exact. Qed.
Print Assumptions C17_fee_total_exact.

(** The royalty split: for up to 25 registry-legal entries summing to at most 5000 bps it
    succeeds with exactly one payout message per non-zero (asset, collection) pair, to the
    registered address, and the remainder [a - sum of payouts] per asset; NFTs untouched. *)
Theorem C17_royalty_total_exact : forall g resp,
  wf_amounts g ->
  let rs := registered resp in
  rates_le 300 rs -> (length rs <= 25)%nat -> total_bps rs <= 5000 ->
  royalties g resp =
    Ok (vec_msgs (fun d to x => BankSend to [(d, x)]) rs (native g)
        ++ vec_msgs (fun t to x => Cw20Transfer t to x) rs (cw20 g),
        total_bps rs,
        mkG (reduce rs (native g)) (reduce rs (cw20 g)) (nfts g)).
Proof. exact royalties_total_exact. Qed.
Print Assumptions C17_royalty_total_exact.

(** Above the cap the split is refused — never a panic-free wrong answer. *)
Theorem C17_royalty_gate_total : forall g resp,
  5000 < total_bps (registered resp) -> royalties g resp = Err.
Proof. exact royalties_gate. Qed.
Print Assumptions C17_royalty_gate_total.

(** Per asset: remainder + payouts = original (payouts being the floors [a * bps / 10000]). *)
Theorem C17_royalty_conservation : forall k rs l,
  NoDup (map fst l) -> total_bps rs <= 5000 ->
  amount_of k (reduce rs l) + pay_sum (amount_of k l) rs = amount_of k l.
Proof. exact amount_of_reduce_nodup. Qed.
Print Assumptions C17_royalty_conservation.

(** Floor rounding. *)
Theorem C17_floor : forall a n d, d <> 0 ->
  d * (a * n / d) <= a * n /\ a * n < d * (a * n / d + 1).
Proof. exact floor_spec. Qed.
Print Assumptions C17_floor.

(** Keys, lengths, ranges and positivity survive the royalty split. *)
Theorem C17_royalty_shape : forall rs l,
  map fst (reduce rs l) = map fst l /\ length (reduce rs l) = length l /\
  (amounts_ok l -> amounts_ok (reduce rs l)) /\
  (total_bps rs <= 5000 -> Forall (fun c => 0 < snd c) l -> Forall (fun c => 0 < snd c) (reduce rs l)).
Proof.
  intros rs l. exact (conj (reduce_keys rs l) (conj (reduce_length rs l)
    (conj (reduce_amounts_ok rs l) (reduce_positive rs l)))).
Qed.
Print Assumptions C17_royalty_shape.

(** Non-vacuity: a concrete balance at the top of the range meets the hypotheses, and the
    functions evaluate as the theorems say. *)
Example C17_hyps_met :
  let g := mkG [(2, 7); (0, 340282366920938463463374607431768211455)] [(12, 10001)] [(14, 3)] in
  wf_amounts g /\ NoDup (map fst (native g)) /\
  calc_fee_coin (JUNO 0) g =
    Ok (Some (0, 1701411834604692317316873037158841057),
        mkG [(2, 7); (0, 338580955086333771146057734394609370398)] [(12, 10001)] [(14, 3)]).
Proof.
  cbv zeta. split; [|split].
  - split; repeat constructor; cbn [snd]; rewrite U128_val; reflexivity.
  - repeat constructor; simpl; intuition discriminate.
  - vm_compute. reflexivity.
Qed.

Example C17_royalty_hyps_met :
  let g := mkG [(0, 10000); (2, 33)] [(12, 340282366920938463463374607431768211455)] [] in
  let resp := [Some (mkR 1 300 5); None; Some (mkR 1 33 4)] in
  wf_amounts g /\ rates_le 300 (registered resp) /\ (length (registered resp) <= 25)%nat /\
  total_bps (registered resp) <= 5000 /\
  royalties g resp =
    Ok ([BankSend 5 [(0, 300)]; BankSend 4 [(0, 33)];
         Cw20Transfer 12 5 10208471007628153903901238222953046343;
         Cw20Transfer 12 4 1122931810839096929429136204524835097],
        333, mkG [(0, 9667); (2, 33)] [(12, 328950964102471212630044233004290330015)] []).
Proof.
  cbv zeta. split; [|split; [|split; [|split]]].
  - split; repeat constructor; cbn [snd]; rewrite U128_val; reflexivity.
  - repeat constructor; simpl; lia.
  - simpl. lia.
  - simpl. lia.
  - vm_compute. reflexivity.
Qed.
