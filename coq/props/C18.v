(** C18 — a third-party contract cannot alter or freeze someone else's escrow.

    The property is FALSE of the code and of the faithful model (known finding F1, recorded in
    known_findings.json by signature, not repairable by a small patch: DESIGN.md §7).  The
    development therefore proves (1) the refutation, with a concrete witness that is also a
    corpus script failing on the real code; (2) that everything outside the known class is
    impossible; (3) a bound on what the known class can do. *)
From FM Require Import Hostile CallSeqHostile.

Definition winit : world :=
  mkW (fun a d => if (a =? 1) || (a =? 2) then 1000 else 0) (fun _ _ => 0) (fun _ _ => None)
      (fun a => if a =? 60 then KHostile else if a =? 50 then KMarket else if a =? 51 then KRegistry else KUser)
      (fun _ => None) (mkS [] [] [0] [0] (JUNO 100) (Some 51)) [] 100000000000 10 false 50 51 52.

(** usr2 offers listing 3 for 5 units of denom 3; usr1 holds bucket 7 with exactly that. *)
Definition w0 : world :=
  run winit [Exec 2 [(2, 9)] (CreateListing 3 (mkG [(3, 5)] [] []) None) None; Exec 2 [] (Finalize 3 600) None;
             Exec 1 [(3, 5)] (CreateBucket 7) None].
Definition forged : op := Exec 60 [] (Receive 1 5 (Some (AddToBucketCw20 7))) None.
Definition w1 : world := run w0 [forged; HostileFail true].

(** (1) Refutation: contract 60, which owns nothing and was sent nothing by usr1, changes
    usr1's bucket; afterwards usr1 can neither withdraw it (the forged token's transfer fails)
    nor use it for the purchase it satisfied before. *)
Theorem C18_refuted :
  Inv (market w0) /\
  ok (snd (step w0 (Exec 1 [] (RemoveBucket 7) None))) = true /\
  ok (snd (step w0 (Exec 1 [] (BuyListing 3 7) None))) = true /\
  ok (snd (step w0 forged)) = true /\
  find_key (1, 7) (buckets (market w1)) <> find_key (1, 7) (buckets (market w0)) /\
  ok (snd (step w1 (Exec 1 [] (RemoveBucket 7) None))) = false /\
  ok (snd (step w1 (Exec 1 [] (BuyListing 3 7) None))) = false.
Proof.
  split; [unfold w0; apply reach_Inv; exists 100000000000; reflexivity|].
  splits; try (vm_compute; reflexivity). vm_compute. discriminate.
Qed.
Print Assumptions C18_refuted.

(** (2) Outside the known class nothing is possible.  Whatever message a contract [h] sends —
    any kind, any payload, any claimed sender — a listing of another account is unchanged, or
    validly purchased by [h] with [h]'s own bucket, or it is still in preparation and [h]
    forged a top-up appending one asset issued by [h] itself.  Finalized and sold listings,
    asks, whitelists, owners and pending fees are out of reach. *)
Theorem C18_outside_known_class_listing : forall o e h fs m s s' out k l,
  Inv s -> execute o e h fs m s = Ok (s', out) -> find_key k (listings s) = Some l -> fst k <> h ->
  find_key k (listings s') = Some l \/
  (exists bid, m = BuyListing (snd k) bid /\ bought e h s' k l) \/
  (is_hook m = true /\ topup_l_b m (snd k) = true /\ actor_of h m = fst k /\ lstatus l = BeingPrepared /\
   exists g, find_key k (listings s') = Some (with_for_sale l g) /\ grown_by h (for_sale l) g).
Proof. exact outside_known_class_listing. Qed.
Print Assumptions C18_outside_known_class_listing.

Theorem C18_outside_known_class_bucket : forall o e h fs m s s' out k b,
  Inv s -> execute o e h fs m s = Ok (s', out) -> find_key k (buckets s) = Some b -> fst k <> h ->
  find_key k (buckets s') = Some b \/
  (is_hook m = true /\ topup_b_b m (snd k) = true /\ actor_of h m = fst k /\
   exists g, find_key k (buckets s') = Some (mkB (owner b) g (bfee b)) /\ grown_by h (funds b) g).
Proof. exact outside_known_class_bucket. Qed.
Print Assumptions C18_outside_known_class_bucket.

(** (3) Bound on the known class: the forged top-up adds exactly one asset keyed by the
    caller's own address; native coins, the amounts of every other token and every recorded
    NFT are exactly as before — it can add junk and thereby freeze, it cannot take, move or
    re-price anything. *)
Theorem C18_known_class_bounded : forall h g g',
  grown_by h g g' ->
  native g' = native g /\
  (forall t, t <> h -> amount_of t (cw20 g') = amount_of t (cw20 g)) /\
  (forall n, In n (nfts g) -> In n (nfts g')) /\
  (forall n, In n (nfts g') -> In n (nfts g) \/ fst n = h).
Proof. exact grown_by_bounded. Qed.
Print Assumptions C18_known_class_bounded.

(** No wallet is ever debited by somebody else's call (C04), forged or not. *)
Theorem C18_no_wallet_touched : forall w o a,
  op_initiator o <> Some a -> a <> self_addr w -> nondecr w (fst (step w o)) a.
Proof. exact step_others_nondecreasing. Qed.
Print Assumptions C18_no_wallet_touched.

(** Under every interleaving (proofs/CallSeqHostile.v): along any sequence of successful calls
    sent by contracts of a set [P] (none of them the victim) — forged hook calls naming the victim
    included, in any order or nesting — the victim's bucket is still stored under the same key
    with the same owner and pending fee; its coins, every token that is not one of the attackers'
    own and every NFT it held are exactly as before; and whatever was added is an attacker's own
    "token" (known finding F1, bounded). *)
Theorem C18_hostile_contracts_only_add_junk : forall P a id b s s',
  Inv s -> hostile_seq P a s s' -> find_key (a, id) (buckets s) = Some b ->
  exists g, find_key (a, id) (buckets s') = Some (mkB (owner b) g (bfee b)) /\ only_junk_added P (funds b) g.
Proof. exact hostile_contracts_only_add_junk. Qed.
Print Assumptions C18_hostile_contracts_only_add_junk.

(** Non-vacuity: two forged top-ups of usr1's bucket 7 by contract 60 (a CW20 hook, then an NFT
    hook) form a hostile sequence; the bucket afterwards holds the coins it held, plus junk. *)
Example C18_hostile_sequence_hyps_met :
  exists s',
    Inv (market w0) /\ hostile_seq (fun h => h = 60) 1 (market w0) s' /\
    find_key (1, 7) (buckets (market w0)) = Some (mkB 1 (mkG [(3, 5)] [] []) None) /\
    find_key (1, 7) (buckets s') = Some (mkB 1 (mkG [(3, 5)] [(60, 5)] [(60, 9)]) None).
Proof.
  eexists. split; [unfold w0; apply reach_Inv; exists 100000000000; reflexivity|]. split; [|split].
  - eapply (hs_step _ _ _ _ _ (oracle_of w0) (env_of w0) 60 [] (ReceiveNft 1 9 (Some (AddToBucketCw721 7)))).
    + eapply (hs_step _ _ _ _ _ (oracle_of w0) (env_of w0) 60 [] (Receive 1 5 (Some (AddToBucketCw20 7))));
        [apply hs_refl | vm_compute; reflexivity | reflexivity | discriminate].
    + vm_compute. reflexivity.
    + reflexivity.
    + discriminate.
  - vm_compute. reflexivity.
  - vm_compute. reflexivity.
Qed.
