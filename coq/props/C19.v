(** C19 — only deposit messages can take assets from their sender. *)
From FM Require Import Deposits ReentrantDeep.

(** Deposit messages: the four that create or top up a listing or bucket with attached coins.
    Everything else — fee cycle, change ask, finalize, delete, remove bucket, buy, withdraw, and
    the two token-receive entry points — is refused when coins are attached. *)
Theorem C19_non_deposit_refuses_coins : forall o e sender fs m s,
  is_deposit_msg m = false -> fs <> [] -> execute o e sender fs m s = Err.
Proof. exact non_deposit_refuses_coins. Qed.
Print Assumptions C19_non_deposit_refuses_coins.

(** On chain: the transaction fails and the world — including the sender's coins — is unchanged. *)
Theorem C19_non_deposit_with_coins_has_no_effect : forall w a fs m fail,
  is_deposit_msg m = false -> fs <> [] ->
  fst (step w (Exec a fs m fail)) = w /\ ok (snd (step w (Exec a fs m fail))) = false.
Proof. exact step_non_deposit_with_coins_refused. Qed.
Print Assumptions C19_non_deposit_with_coins_has_no_effect.

(** A refused or failed operation of any kind leaves every asset where it was. *)
Theorem C19_refused_keeps_assets : forall w o, ok (snd (step w o)) = false -> fst (step w o) = w.
Proof. exact step_refused_no_effect. Qed.
Print Assumptions C19_refused_keeps_assets.

(** Apart from deposits no marketplace message ever reduces any balance or NFT holding of its
    sender (or of anybody but the marketplace itself). *)
Theorem C19_only_deposits_debit : forall w sender fs m fail a,
  is_deposit_msg m = false -> a <> self_addr w -> nondecr w (fst (step w (Exec sender fs m fail))) a.
Proof. exact non_deposit_never_debits. Qed.
Print Assumptions C19_only_deposits_debit.

(** And whatever the operation, accounts other than its initiator are never debited. *)
Theorem C19_only_the_initiator_can_be_debited : forall w o a,
  op_initiator o <> Some a -> a <> self_addr w -> nondecr w (fst (step w o)) a.
Proof. exact step_others_nondecreasing. Qed.
Print Assumptions C19_only_the_initiator_can_be_debited.

Definition winit : world :=
  mkW (fun a d => if (a =? 1) || (a =? 2) then 1000 else 0) (fun _ _ => 0) (fun _ _ => None)
      (fun a => if a =? 50 then KMarket else if a =? 51 then KRegistry else KUser)
      (fun _ => None) (mkS [] [] [0] [0] (JUNO 100) (Some 51)) [] 100000000000 10 false 50 51 52.
Definition w0 : world := run winit [Exec 1 [(0, 10)] (CreateListing 7 (mkG [(0, 5)] [] []) None) None].

Example C19_hyps_met :
  (* the same Finalize succeeds without coins and is refused with 123 uatom (denom 2) attached *)
  ok (snd (step w0 (Exec 1 [] (Finalize 7 600) None))) = true /\
  ok (snd (step w0 (Exec 1 [(2, 123)] (Finalize 7 600) None))) = false /\
  is_deposit_msg (Finalize 7 600) = false /\
  bank (fst (step w0 (Exec 1 [(0, 7)] (AddToListing 7) None))) 1 0 = 983.
Proof. splits; vm_compute; reflexivity. Qed.


(** Whatever a hostile token contract does while the marketplace's messages are being dispatched —
    re-entering to any depth (model/ReentryDeep.v) — an account that initiates none of the calls
    involved loses nothing: assets are taken only from the sender of a (deposit) message. *)
Theorem C19_bystanders_lose_nothing_with_deep_reentry : forall w o k a,
  op_initiator o <> Some a -> reaction_not_by a k -> a <> self_addr w -> nondecr w (fst (gstep k w o)) a.
Proof. exact gstep_others_nondecreasing. Qed.
Print Assumptions C19_bystanders_lose_nothing_with_deep_reentry.
