//! Interface census: wildcard-free matches over every message enum of both contracts.  A new
//! message kind (which the model does not know) makes this binary fail to compile; the checks
//! that quantify over "every message kind" (C04, C15, C19) then report the broken tie.
use marketplace::msg::{ExecuteMsg, QueryMsg, ReceiveMsg, ReceiveNftMsg};
use royalties::msg::{ExecuteMsg as RegExecuteMsg, QueryMsg as RegQueryMsg};

fn exec_kind(m: &ExecuteMsg) -> &'static str {
    match m {
        ExecuteMsg::FeeCycle {} => "fee_cycle",
        ExecuteMsg::Receive(_) => "receive",
        ExecuteMsg::ReceiveNft(_) => "receive_nft",
        ExecuteMsg::CreateListing { listing_id: _, create_msg: _ } => "create_listing",
        ExecuteMsg::AddToListing { listing_id: _ } => "add_to_listing",
        ExecuteMsg::ChangeAsk { listing_id: _, new_ask: _ } => "change_ask",
        ExecuteMsg::Finalize { listing_id: _, seconds: _ } => "finalize",
        ExecuteMsg::DeleteListing { listing_id: _ } => "delete_listing",
        ExecuteMsg::CreateBucket { bucket_id: _ } => "create_bucket",
        ExecuteMsg::AddToBucket { bucket_id: _ } => "add_to_bucket",
        ExecuteMsg::RemoveBucket { bucket_id: _ } => "remove_bucket",
        ExecuteMsg::BuyListing { listing_id: _, bucket_id: _ } => "buy_listing",
        ExecuteMsg::WithdrawPurchased { listing_id: _ } => "withdraw_purchased",
    }
}

fn recv_kind(m: &ReceiveMsg) -> &'static str {
    match m {
        ReceiveMsg::CreateListingCw20 { listing_id: _, create_msg: _ } => "create_listing_cw20",
        ReceiveMsg::AddToListingCw20 { listing_id: _ } => "add_to_listing_cw20",
        ReceiveMsg::CreateBucketCw20 { bucket_id: _ } => "create_bucket_cw20",
        ReceiveMsg::AddToBucketCw20 { bucket_id: _ } => "add_to_bucket_cw20",
    }
}

fn recv_nft_kind(m: &ReceiveNftMsg) -> &'static str {
    match m {
        ReceiveNftMsg::CreateListingCw721 { listing_id: _, create_msg: _ } => "create_listing_cw721",
        ReceiveNftMsg::AddToListingCw721 { listing_id: _ } => "add_to_listing_cw721",
        ReceiveNftMsg::CreateBucketCw721 { bucket_id: _ } => "create_bucket_cw721",
        ReceiveNftMsg::AddToBucketCw721 { bucket_id: _ } => "add_to_bucket_cw721",
    }
}

fn query_kind(m: &QueryMsg) -> &'static str {
    match m {
        QueryMsg::GetFeeDenom {} => "get_fee_denom",
        QueryMsg::GetBuckets { bucket_owner: _, page_num: _ } => "get_buckets",
        QueryMsg::GetListingsByOwner { owner: _, page_num: _ } => "get_listings_by_owner",
        QueryMsg::GetListingsByWhitelist { owner: _ } => "get_listings_by_whitelist",
        QueryMsg::GetListingsForMarket { page_num: _ } => "get_listings_for_market",
        QueryMsg::GetRoyaltyAddr {} => "get_royalty_addr",
    }
}

fn reg_exec_kind(m: &RegExecuteMsg) -> &'static str {
    match m {
        RegExecuteMsg::Register { nft_contract: _, payout_addr: _, bps: _ } => "register",
        RegExecuteMsg::Update { nft_contract: _, new_payout_addr: _, new_bps: _ } => "update",
        RegExecuteMsg::Remove { nft_contract: _ } => "remove",
    }
}

fn reg_query_kind(m: &RegQueryMsg) -> &'static str {
    match m {
        RegQueryMsg::RoyaltyInfoSingle { nft_contract: _ } => "royalty_info_single",
        RegQueryMsg::RoyaltyInfoMulti { nft_contracts: _ } => "royalty_info_multi",
    }
}

fn main() {
    let _ = (exec_kind, recv_kind, recv_nft_kind, query_kind, reg_exec_kind, reg_query_kind);
    println!("census ok: 13 execute, 4+4 hook, 6 query, 3+2 registry message kinds");
}
