//! The chain slice: a cw-multi-test `App` containing the real marketplace (wrapped in a thin
//! adapter, see `MarketAdapter`), the real royalty registry it instantiates, real cw20-base /
//! cw721-base instances, an optional hostile token contract, funded users and a community-pool
//! account.
use std::cell::RefCell;
use std::collections::BTreeSet;
use std::panic::{catch_unwind, AssertUnwindSafe};
use std::rc::Rc;

use anyhow::{anyhow, bail, Result as AnyResult};
use cosmwasm_std::{
    coin, Addr, BankMsg, Binary, BlockInfo, Coin, CosmosMsg, Deps, DepsMut, Empty, Env,
    MessageInfo, Reply, ReplyOn, Response, SubMsg, Timestamp, Uint128, WasmMsg,
};
use cw_multi_test::{App, Contract, ContractWrapper, Executor};
use serde_json::{json, Value};

use crate::dump;
use crate::hostile::HostileContract;

pub const FUND_POOL_URL: &str = "/cosmos.distribution.v1beta1.MsgFundCommunityPool";

#[derive(Default)]
pub struct Shared {
    /// decoded outgoing messages of the most recent successful marketplace `execute` call
    pub last_msgs: Vec<Value>,
    /// number of marketplace `execute` calls during the current operation
    pub market_calls: u32,
    /// make the i-th outgoing message of the marketplace response fail (fault injection)
    pub fail_idx: Option<usize>,
    pub pool: String,
    pub panicked: bool,
    /// the hostile token's own transfer handlers fail while this is set
    pub hostile_fail: bool,
    /// re-entry program of the hostile contract: calls it makes (as sub-transactions whose failure it
    /// swallows) the first time the marketplace sends it a transfer during the current operation
    pub reentry: Vec<Value>,
    /// set when the program ran: its length; and the indices of the calls that failed (reported to `reply`)
    pub reentry_ran: Option<usize>,
    pub reentry_failed: Vec<usize>,
}

pub type SharedRef = Rc<RefCell<Shared>>;

/// Adapter around the real, unmodified marketplace entry points.
///
/// * every call goes to `marketplace::contract::{instantiate, execute, query, reply}`;
/// * a Rust panic inside the handler (integer overflow with overflow-checks on) is caught and
///   reported as a failed call — that is what a panic is on chain;
/// * the outgoing messages of `execute` are logged (decoded) for the observation;
/// * cw-multi-test 0.16 cannot execute `CosmosMsg::Stargate`; a well-formed
///   `MsgFundCommunityPool` whose depositor is the contract itself is applied as a bank transfer to
///   the community-pool account, anything else as a failing message;
/// * Cosmos-SDK bank strictness: a `BankMsg::Send` that is empty, contains a zero amount or a
///   duplicate denomination fails (cw-multi-test would silently normalise it);
/// * fault injection: the message at `fail_idx` is replaced by one that fails.
pub struct MarketAdapter {
    pub shared: SharedRef,
}

fn failing_msg() -> CosmosMsg {
    CosmosMsg::Wasm(WasmMsg::Execute {
        contract_addr: "no_such_contract".to_string(),
        msg: Binary::from(b"{}".to_vec()),
        funds: vec![],
    })
}

fn coins_json(cs: &[Coin]) -> Value {
    Value::Array(cs.iter().map(|c| json!([c.denom, c.amount.to_string()])).collect())
}

fn strict_bank_ok(cs: &[Coin]) -> bool {
    if cs.is_empty() {
        return false;
    }
    let mut seen = BTreeSet::new();
    for c in cs {
        if c.amount.is_zero() || !seen.insert(c.denom.clone()) {
            return false;
        }
    }
    true
}

/// Independent, minimal protobuf decoder for
/// `MsgFundCommunityPool { repeated Coin amount = 1; string depositor = 2; }`,
/// `Coin { string denom = 1; string amount = 2; }`.  Rejects unknown fields, wrong wire types and
/// trailing garbage.
pub fn decode_fund_pool(buf: &[u8]) -> Option<(Vec<(String, String)>, String)> {
    fn varint(b: &[u8], i: &mut usize) -> Option<u64> {
        let mut v: u64 = 0;
        let mut shift = 0;
        loop {
            let byte = *b.get(*i)?;
            *i += 1;
            v |= ((byte & 0x7f) as u64) << shift;
            if byte & 0x80 == 0 {
                return Some(v);
            }
            shift += 7;
            if shift > 63 {
                return None;
            }
        }
    }
    fn fields(b: &[u8]) -> Option<Vec<(u64, Vec<u8>)>> {
        let mut i = 0;
        let mut out = vec![];
        while i < b.len() {
            let tag = varint(b, &mut i)?;
            if tag & 7 != 2 {
                return None;
            }
            let len = varint(b, &mut i)? as usize;
            let end = i.checked_add(len)?;
            if end > b.len() {
                return None;
            }
            out.push((tag >> 3, b[i..end].to_vec()));
            i = end;
        }
        Some(out)
    }
    let mut coins = vec![];
    let mut depositor: Option<String> = None;
    for (no, body) in fields(buf)? {
        match no {
            1 => {
                let mut denom = None;
                let mut amount = None;
                for (n2, b2) in fields(&body)? {
                    match n2 {
                        1 if denom.is_none() => denom = Some(String::from_utf8(b2).ok()?),
                        2 if amount.is_none() => amount = Some(String::from_utf8(b2).ok()?),
                        _ => return None,
                    }
                }
                coins.push((denom?, amount?));
            }
            2 if depositor.is_none() => depositor = Some(String::from_utf8(body).ok()?),
            _ => return None,
        }
    }
    Some((coins, depositor?))
}

fn decode_wasm_exec(contract_addr: &str, msg: &Binary, funds: &[Coin]) -> Value {
    let v: Value = serde_json::from_slice(msg.as_slice()).unwrap_or(Value::Null);
    if let Some(t) = v.get("transfer") {
        if let (Some(r), Some(a)) = (t.get("recipient").and_then(|x| x.as_str()), t.get("amount").and_then(|x| x.as_str())) {
            if funds.is_empty() && v.as_object().map_or(false, |o| o.len() == 1) {
                return json!({"kind": "cw20_transfer", "token": contract_addr, "to": r, "amount": a});
            }
        }
    }
    if let Some(t) = v.get("transfer_nft") {
        if let (Some(r), Some(a)) = (t.get("recipient").and_then(|x| x.as_str()), t.get("token_id").and_then(|x| x.as_str())) {
            if funds.is_empty() && v.as_object().map_or(false, |o| o.len() == 1) {
                return json!({"kind": "nft_transfer", "coll": contract_addr, "to": r, "token_id": a});
            }
        }
    }
    json!({"kind": "other", "debug": format!("wasm execute {contract_addr} {v} funds {funds:?}")})
}

impl MarketAdapter {
    fn rewrite(&self, env: &Env, resp: Response) -> Response {
        let mut sh = self.shared.borrow_mut();
        // the first marketplace call of an operation is the operation itself; later ones are re-entrant calls
        // made by a hostile contract during dispatch: their messages are not the operation's, and the fault
        // injection addresses the operation's own messages
        let outer = sh.market_calls <= 1;
        let mut logged = vec![];
        let mut new_msgs: Vec<SubMsg> = vec![];
        for (i, sm) in resp.messages.iter().enumerate() {
            let mut replaced: Option<CosmosMsg> = None;
            let mut d = match &sm.msg {
                CosmosMsg::Bank(BankMsg::Send { to_address, amount }) => {
                    if !strict_bank_ok(amount) {
                        replaced = Some(failing_msg());
                    }
                    json!({"kind": "bank", "to": to_address, "coins": coins_json(amount)})
                }
                CosmosMsg::Wasm(WasmMsg::Execute { contract_addr, msg, funds }) => {
                    decode_wasm_exec(contract_addr, msg, funds)
                }
                CosmosMsg::Stargate { type_url, value } => {
                    let dec = if type_url == FUND_POOL_URL { decode_fund_pool(value.as_slice()) } else { None };
                    match dec {
                        Some((coins, depositor)) => {
                            let parsed: Option<Vec<Coin>> = coins
                                .iter()
                                .map(|(d, a)| a.parse::<u128>().ok().map(|x| coin(x, d.clone())))
                                .collect();
                            let wellformed = parsed.as_ref().map_or(false, |cs| strict_bank_ok(cs))
                                && depositor == env.contract.address.as_str();
                            if wellformed {
                                replaced = Some(CosmosMsg::Bank(BankMsg::Send {
                                    to_address: sh.pool.clone(),
                                    amount: parsed.unwrap(),
                                }));
                            } else {
                                replaced = Some(failing_msg());
                            }
                            let raw: String = value.as_slice().iter().map(|b| format!("{:02x}", b)).collect();
                            json!({"kind": "fund_pool", "depositor": depositor,
                                   "coins": Value::Array(coins.iter().map(|(d, a)| json!([d, a])).collect()),
                                   "wellformed": wellformed, "type_url": type_url, "raw": raw})
                        }
                        None => {
                            replaced = Some(failing_msg());
                            json!({"kind": "other", "debug": format!("stargate {type_url}")})
                        }
                    }
                }
                other => json!({"kind": "other", "debug": format!("{other:?}")}),
            };
            d["reply_on"] = json!(match sm.reply_on {
                ReplyOn::Always => "always",
                ReplyOn::Error => "error",
                ReplyOn::Success => "success",
                ReplyOn::Never => "never",
            });
            d["id"] = json!(sm.id);
            d["gas_limit"] = json!(sm.gas_limit);
            logged.push(d);
            if outer && sh.fail_idx == Some(i) {
                replaced = Some(failing_msg());
            }
            new_msgs.push(SubMsg {
                id: sm.id,
                msg: replaced.unwrap_or_else(|| sm.msg.clone()),
                gas_limit: sm.gas_limit,
                reply_on: sm.reply_on.clone(),
            });
        }
        if outer {
            sh.last_msgs = logged;
        }
        let mut r = Response::new().add_submessages(new_msgs).add_attributes(resp.attributes).add_events(resp.events);
        if let Some(data) = resp.data {
            r = r.set_data(data);
        }
        r
    }
}

impl Contract<Empty> for MarketAdapter {
    fn execute(&self, deps: DepsMut, env: Env, info: MessageInfo, msg: Vec<u8>) -> AnyResult<Response> {
        self.shared.borrow_mut().market_calls += 1;
        let m: marketplace::msg::ExecuteMsg = cosmwasm_std::from_slice(&msg)?;
        let env2 = env.clone();
        let r = catch_unwind(AssertUnwindSafe(|| marketplace::contract::execute(deps, env, info, m)));
        match r {
            Err(_) => {
                self.shared.borrow_mut().panicked = true;
                bail!("PANIC in marketplace execute")
            }
            Ok(Err(e)) => Err(anyhow!(e)),
            Ok(Ok(resp)) => Ok(self.rewrite(&env2, resp)),
        }
    }

    fn instantiate(&self, deps: DepsMut, env: Env, info: MessageInfo, msg: Vec<u8>) -> AnyResult<Response> {
        let m: marketplace::msg::InstantiateMsg = cosmwasm_std::from_slice(&msg)?;
        let resp = marketplace::contract::instantiate(deps, env, info, m).map_err(|e| anyhow!(e))?;
        let mut sh = self.shared.borrow_mut();
        sh.last_msgs = resp
            .messages
            .iter()
            .map(|sm| {
                json!({"kind": match &sm.msg { CosmosMsg::Wasm(WasmMsg::Instantiate{..}) => "instantiate", _ => "other" },
                       "reply_on": format!("{:?}", sm.reply_on).to_lowercase(), "id": sm.id, "gas_limit": sm.gas_limit})
            })
            .collect();
        Ok(resp)
    }

    fn query(&self, deps: Deps, env: Env, msg: Vec<u8>) -> AnyResult<Binary> {
        let m: marketplace::msg::QueryMsg = cosmwasm_std::from_slice(&msg)?;
        let r = catch_unwind(AssertUnwindSafe(|| marketplace::contract::query(deps, env, m)));
        match r {
            Err(_) => bail!("PANIC in marketplace query"),
            Ok(Err(e)) => Err(anyhow!(e)),
            Ok(Ok(b)) => Ok(b),
        }
    }

    fn sudo(&self, _deps: DepsMut, _env: Env, _msg: Vec<u8>) -> AnyResult<Response> {
        bail!("sudo not implemented for contract")
    }

    fn reply(&self, deps: DepsMut, env: Env, msg: Reply) -> AnyResult<Response> {
        marketplace::contract::reply(deps, env, msg).map_err(|e| anyhow!(e))
    }

    fn migrate(&self, _deps: DepsMut, _env: Env, _msg: Vec<u8>) -> AnyResult<Response> {
        bail!("migrate not implemented for contract")
    }
}

fn cw20_code() -> Box<dyn Contract<Empty>> {
    Box::new(ContractWrapper::new(
        cw20_base::contract::execute,
        cw20_base::contract::instantiate,
        cw20_base::contract::query,
    ))
}

fn cw721_code() -> Box<dyn Contract<Empty>> {
    Box::new(ContractWrapper::new(
        cw721_base::entry::execute,
        cw721_base::entry::instantiate,
        cw721_base::entry::query,
    ))
}

fn royalty_code() -> Box<dyn Contract<Empty>> {
    Box::new(ContractWrapper::new(
        royalty::contract::execute,
        royalty::contract::instantiate,
        royalty::contract::query,
    ))
}

pub struct ContractInfo {
    pub kind: String, // "cw20" | "cw721" | "hostile"
    pub addr: Addr,
}

pub struct World {
    pub app: App,
    pub market: Addr,
    pub registry: Option<Addr>,
    pub pool: Addr,
    pub users: Vec<String>,
    pub contracts: Vec<ContractInfo>,
    pub nft_tokens: Vec<(Addr, String)>,
    pub denoms: BTreeSet<String>,
    pub shared: SharedRef,
    pub setup_msgs: Vec<Value>,
}

fn s(v: &Value) -> AnyResult<String> {
    v.as_str().map(|x| x.to_string()).ok_or_else(|| anyhow!("expected string, got {v}"))
}

fn amt(v: &Value) -> AnyResult<u128> {
    match v {
        Value::String(x) => x.parse::<u128>().map_err(|e| anyhow!("bad amount {x}: {e}")),
        Value::Number(n) => n.as_u64().map(|x| x as u128).ok_or_else(|| anyhow!("bad amount {n}")),
        _ => bail!("bad amount {v}"),
    }
}

fn coins_of(v: &Value) -> AnyResult<Vec<Coin>> {
    let mut out = vec![];
    if let Some(a) = v.as_array() {
        for c in a {
            out.push(coin(amt(&c[1])?, s(&c[0])?));
        }
    }
    Ok(out)
}

impl World {
    pub fn new(cfg: &Value) -> AnyResult<World> {
        let shared: SharedRef = Rc::new(RefCell::new(Shared::default()));
        let pool = s(&cfg["pool"])?;
        shared.borrow_mut().pool = pool.clone();
        let users: Vec<String> = cfg["users"].as_array().ok_or_else(|| anyhow!("users"))?.iter().map(|u| s(u)).collect::<AnyResult<_>>()?;
        let deployer = Addr::unchecked(s(&cfg["deployer"])?);

        let mut app = App::default();
        let t0: u64 = s(&cfg["t0_ns"])?.parse()?;
        let h0 = cfg["height"].as_u64().ok_or_else(|| anyhow!("height"))?;
        app.set_block(BlockInfo { height: h0, time: Timestamp::from_nanos(t0), chain_id: "verif-1".to_string() });

        let mut denoms = BTreeSet::new();
        denoms.insert("ujunox".to_string());
        denoms.insert("uusdcx".to_string());
        // bank balances
        let mut per_user: std::collections::BTreeMap<String, Vec<Coin>> = Default::default();
        if let Some(rows) = cfg["bank"].as_array() {
            for r in rows {
                let (u, d, a) = (s(&r[0])?, s(&r[1])?, amt(&r[2])?);
                denoms.insert(d.clone());
                per_user.entry(u).or_default().push(coin(a, d));
            }
        }
        app.init_modules(|router, _, storage| -> AnyResult<()> {
            for (u, cs) in per_user.iter() {
                router.bank.init_balance(storage, &Addr::unchecked(u), cs.clone())?;
            }
            Ok(())
        })?;

        // marketplace (contract0) and, through its instantiate sub-message, the registry (contract1)
        let market_id = app.store_code(Box::new(MarketAdapter { shared: shared.clone() }));
        let royalty_id = app.store_code(royalty_code());
        let market = app.instantiate_contract(
            market_id,
            deployer.clone(),
            &marketplace::msg::InstantiateMsg { royalty_code_id: royalty_id },
            &[],
            "fuzion_market",
            None,
        )?;
        let setup_msgs = shared.borrow().last_msgs.clone();

        let cw20_id = app.store_code(cw20_code());
        let cw721_id = app.store_code(cw721_code());
        let hostile_id = app.store_code(Box::new(HostileContract { shared: shared.clone() }));

        let mut contracts = vec![];
        let mut nft_tokens = vec![];
        if let Some(cs) = cfg["contracts"].as_array() {
            for (i, c) in cs.iter().enumerate() {
                let kind = s(&c["kind"])?;
                let admin = c.get("admin").and_then(|a| a.as_str()).map(|x| x.to_string());
                match kind.as_str() {
                    "cw20" => {
                        let mut bals = vec![];
                        if let Some(rows) = c["balances"].as_array() {
                            for r in rows {
                                bals.push(cw20::Cw20Coin { address: s(&r[0])?, amount: Uint128::new(amt(&r[1])?) });
                            }
                        }
                        let msg = cw20_base::msg::InstantiateMsg {
                            name: format!("token{i}"),
                            symbol: "TOK".to_string(),
                            decimals: 6,
                            initial_balances: bals,
                            mint: None,
                            marketing: None,
                        };
                        let addr = app.instantiate_contract(cw20_id, deployer.clone(), &msg, &[], format!("cw20-{i}"), admin)?;
                        contracts.push(ContractInfo { kind, addr });
                    }
                    "cw721" => {
                        let msg = cw721_base::msg::InstantiateMsg {
                            name: format!("coll{i}"),
                            symbol: "NFT".to_string(),
                            minter: deployer.to_string(),
                        };
                        let addr = app.instantiate_contract(cw721_id, deployer.clone(), &msg, &[], format!("cw721-{i}"), admin)?;
                        if let Some(rows) = c["tokens"].as_array() {
                            for r in rows {
                                let (tid, owner) = (s(&r[0])?, s(&r[1])?);
                                let m: cw721_base::ExecuteMsg<Option<Empty>, Empty> = cw721_base::ExecuteMsg::Mint(cw721_base::MintMsg {
                                    token_id: tid.clone(),
                                    owner,
                                    token_uri: None,
                                    extension: None,
                                });
                                app.execute_contract(deployer.clone(), addr.clone(), &m, &[])?;
                                nft_tokens.push((addr.clone(), tid));
                            }
                        }
                        contracts.push(ContractInfo { kind, addr });
                    }
                    "hostile" => {
                        let addr = app.instantiate_contract(hostile_id, deployer.clone(), &json!({}), &[], format!("hostile-{i}"), admin)?;
                        contracts.push(ContractInfo { kind, addr });
                    }
                    k => bail!("unknown contract kind {k}"),
                }
            }
        }

        let mut w = World {
            app,
            market,
            registry: None,
            pool: Addr::unchecked(pool),
            users,
            contracts,
            nft_tokens,
            denoms,
            shared,
            setup_msgs,
        };
        // the registry address as the chain knows it: the only other contract created so far by the market
        w.registry = dump::registry_addr(&w);
        Ok(w)
    }

    pub fn addr_table(&self) -> Value {
        json!({
            "market": self.market.as_str(),
            "registry": self.registry.as_ref().map(|a| a.as_str().to_string()),
            "pool": self.pool.as_str(),
            "contracts": self.contracts.iter().map(|c| json!({"kind": c.kind, "addr": c.addr.as_str()})).collect::<Vec<_>>(),
            "setup_msgs": self.setup_msgs,
        })
    }

    pub fn observe(&self) -> Value {
        dump::observe(self)
    }

    fn hostile_addr(&self, a: &str) -> bool {
        self.contracts.iter().any(|c| c.kind == "hostile" && c.addr.as_str() == a)
    }

    fn note_denoms(&mut self, cs: &[Coin]) {
        for c in cs {
            self.denoms.insert(c.denom.clone());
        }
    }

    /// `op["reentry"]`: exec operations of a hostile contract, performed by it re-entrantly (hostile.rs).  An element may carry
    /// a `reentry` list of its own (the program that runs if that nested call is re-entered, model/ReentryDeep.v): then every
    /// element of every level gets a `prog` field (deep mode).
    fn prog_of(&self, arr: &[Value], deep: bool) -> Vec<Value> {
        let mut prog = vec![];
        for n in arr {
            let mut e = match n["t"].as_str() {
                // the hostile contract sends honest tokens it holds to the marketplace (Send / SendNft on the token)
                Some("cw20_send") => {
                    let inner = serde_json::to_vec(&n["inner"]).unwrap_or_default();
                    json!({"to": n["token"], "funds": [],
                           "msg": {"send": {"contract": self.market.as_str(), "amount": n["amount"], "msg": Binary::from(inner)}}})
                }
                Some("nft_send") => {
                    let inner = serde_json::to_vec(&n["inner"]).unwrap_or_default();
                    json!({"to": n["coll"], "funds": [],
                           "msg": {"send_nft": {"contract": self.market.as_str(), "token_id": n["token_id"], "msg": Binary::from(inner)}}})
                }
                // a plain call of the marketplace
                _ => json!({"to": self.market.as_str(), "msg": n["msg"], "funds": n["funds"]}),
            };
            if deep {
                let sub = n.get("reentry").and_then(|x| x.as_array()).cloned().unwrap_or_default();
                e["prog"] = Value::Array(self.prog_of(&sub, true));
            }
            prog.push(e);
        }
        prog
    }

    fn set_reentry(&mut self, op: &Value) {
        let arr: Vec<Value> = op.get("reentry").and_then(|x| x.as_array()).cloned().unwrap_or_default();
        let deep = arr.iter().any(|n| n.get("reentry").and_then(|x| x.as_array()).map(|a| !a.is_empty()).unwrap_or(false));
        let prog = self.prog_of(&arr, deep);
        self.shared.borrow_mut().reentry = prog;
    }

    fn exec_op(&mut self, op: &Value) -> AnyResult<()> {
        let t = s(&op["t"])?;
        match t.as_str() {
            "exec" => {
                let sender = s(&op["sender"])?;
                let funds = coins_of(&op["funds"])?;
                self.note_denoms(&funds);
                let msg = &op["msg"];
                self.set_reentry(op);
                if self.hostile_addr(&sender) {
                    // the hostile contract forwards the message, so the marketplace sees it as sender
                    // (attached coins are forwarded from the hostile contract's own balance)
                    let fwd = json!({"forward": {"to": self.market.as_str(), "msg": msg, "funds": op["funds"]}});
                    let driver = Addr::unchecked(self.users[0].clone());
                    self.app.execute_contract(driver, Addr::unchecked(sender), &fwd, &[])?;
                } else {
                    self.app.execute(
                        Addr::unchecked(sender),
                        CosmosMsg::Wasm(WasmMsg::Execute {
                            contract_addr: self.market.to_string(),
                            msg: Binary::from(serde_json::to_vec(msg)?),
                            funds,
                        }),
                    )?;
                }
            }
            "cw20_send" => {
                self.set_reentry(op);
                let inner = &op["inner"];
                let m = json!({"send": {"contract": self.market.as_str(), "amount": s(&op["amount"])?,
                                          "msg": Binary::from(serde_json::to_vec(inner)?)}});
                self.app.execute_contract(Addr::unchecked(s(&op["user"])?), Addr::unchecked(s(&op["token"])?), &m, &[])?;
            }
            "nft_send" => {
                self.set_reentry(op);
                let inner = &op["inner"];
                let m = json!({"send_nft": {"contract": self.market.as_str(), "token_id": s(&op["token_id"])?,
                                              "msg": Binary::from(serde_json::to_vec(inner)?)}});
                self.app.execute_contract(Addr::unchecked(s(&op["user"])?), Addr::unchecked(s(&op["coll"])?), &m, &[])?;
            }
            "cw20_transfer" => {
                let m = json!({"transfer": {"recipient": s(&op["to"])?, "amount": s(&op["amount"])?}});
                self.app.execute_contract(Addr::unchecked(s(&op["user"])?), Addr::unchecked(s(&op["token"])?), &m, &[])?;
            }
            "nft_transfer" => {
                let m = json!({"transfer_nft": {"recipient": s(&op["to"])?, "token_id": s(&op["token_id"])?}});
                self.app.execute_contract(Addr::unchecked(s(&op["user"])?), Addr::unchecked(s(&op["coll"])?), &m, &[])?;
            }
            "bank_send" => {
                let coins = coins_of(&op["coins"])?;
                self.note_denoms(&coins);
                self.app.execute(
                    Addr::unchecked(s(&op["user"])?),
                    CosmosMsg::Bank(BankMsg::Send { to_address: s(&op["to"])?, amount: coins }),
                )?;
            }
            "reg" => {
                let reg = self.registry.clone().ok_or_else(|| anyhow!("no registry"))?;
                self.app.execute(
                    Addr::unchecked(s(&op["sender"])?),
                    CosmosMsg::Wasm(WasmMsg::Execute {
                        contract_addr: reg.to_string(),
                        msg: Binary::from(serde_json::to_vec(&op["msg"])?),
                        funds: vec![],
                    }),
                )?;
            }
            "set_admin" => {
                // performed by whoever is the current admin; an environment change, not a contract message
                let c = s(&op["contract"])?;
                let cur = self.app.wrap().query_wasm_contract_info(c.clone())?.admin.ok_or_else(|| anyhow!("contract has no admin"))?;
                let msg = match op["admin"].as_str() {
                    Some(a) => WasmMsg::UpdateAdmin { contract_addr: c, admin: a.to_string() },
                    None => WasmMsg::ClearAdmin { contract_addr: c },
                };
                self.app.execute(Addr::unchecked(cur), CosmosMsg::Wasm(msg))?;
            }
            "advance" => {
                let dns: u64 = s(&op["dns"])?.parse()?;
                let dh = op["dh"].as_u64().unwrap_or(0);
                self.app.update_block(|b| {
                    b.time = b.time.plus_nanos(dns);
                    b.height += dh;
                });
            }
            "hostile_fail" => {
                self.shared.borrow_mut().hostile_fail = op["on"].as_bool().unwrap_or(false);
            }
            other => bail!("unknown op {other}"),
        }
        Ok(())
    }

    pub fn run_op(&mut self, op: &Value, fail_msg: Option<u64>) -> Value {
        {
            let mut sh = self.shared.borrow_mut();
            sh.last_msgs.clear();
            sh.reentry_ran = None;
            sh.reentry_failed.clear();
            sh.market_calls = 0;
            sh.panicked = false;
            sh.fail_idx = fail_msg.map(|x| x as usize);
        }
        let r = catch_unwind(AssertUnwindSafe(|| self.exec_op(op)));
        let (outcome, err) = match r {
            Ok(Ok(())) => ("ok", String::new()),
            Ok(Err(e)) => {
                if self.shared.borrow().panicked {
                    ("panic", format!("{e:#}"))
                } else {
                    ("refused", format!("{e:#}"))
                }
            }
            Err(_) => ("panic", "panic outside contract".to_string()),
        };
        let mut sh = self.shared.borrow_mut();
        sh.fail_idx = None;
        sh.reentry.clear();
        let emitted = sh.last_msgs.len();
        let msgs = if outcome == "ok" { sh.last_msgs.clone() } else { vec![] };
        let calls = sh.market_calls;
        // outcomes of the re-entrant calls, when the program ran in a transaction that went through
        let nested = match (outcome, sh.reentry_ran) {
            ("ok", Some(n)) => Value::Array((0..n).map(|k| Value::Bool(!sh.reentry_failed.contains(&k))).collect()),
            _ => Value::Null,
        };
        drop(sh);
        json!({"outcome": outcome, "err": err, "msgs": msgs, "emitted": emitted, "market_calls": calls, "nested": nested, "obs": self.observe()})
    }

    pub fn run_queries(&self, req: &Value) -> Value {
        dump::run_queries(self, req)
    }

    pub fn raw_query(&self, req: &Value) -> Value {
        let target = match req["target"].as_str() {
            Some("registry") => match &self.registry {
                Some(r) => r.clone(),
                None => return json!({"err": "no registry"}),
            },
            _ => self.market.clone(),
        };
        let r: Result<Value, _> = self.app.wrap().query_wasm_smart(target, &req["msg"]);
        match r {
            Ok(v) => json!({"ok": v}),
            Err(e) => json!({"err": format!("{e}")}),
        }
    }
}
