//! Canonical observations: the complete state of both contracts decoded from *raw storage*
//! (never through the contracts' own queries), all ledgers restricted to the universe, and the
//! query battery used by the C16 / C14 correspondence.
use cosmwasm_std::{Addr, Binary, Coin, Empty, Timestamp};
use marketplace::state::{Bucket, FeeDenom, GenericBalance, Listing, Status};
use royalties::RoyaltyInfo;
use serde_json::{json, Value};

use crate::chain::World;

pub fn coin_json(c: &Coin) -> Value {
    json!([c.denom, c.amount.to_string()])
}

pub fn gbal_json(g: &GenericBalance) -> Value {
    json!({
        "native": g.native.iter().map(coin_json).collect::<Vec<_>>(),
        "cw20": g.cw20.iter().map(|c| json!([c.address.as_str(), c.amount.to_string()])).collect::<Vec<_>>(),
        "nfts": g.nfts.iter().map(|n| json!([n.contract_address.as_str(), n.token_id])).collect::<Vec<_>>(),
    })
}

fn ts(t: &Option<Timestamp>) -> Value {
    match t {
        Some(x) => json!(x.nanos().to_string()),
        None => Value::Null,
    }
}

pub fn listing_json(l: &Listing) -> Value {
    json!({
        "creator": l.creator.as_str(),
        "id": l.id.to_string(),
        "fin": ts(&l.finalized_time),
        "exp": ts(&l.expiration_time),
        "status": match l.status { Status::BeingPrepared => "BeingPrepared", Status::FinalizedReady => "FinalizedReady", Status::Closed => "Closed" },
        "claimant": l.claimant.as_ref().map(|a| a.as_str().to_string()),
        "wl": l.whitelisted_buyer.as_ref().map(|a| a.as_str().to_string()),
        "for_sale": gbal_json(&l.for_sale),
        "ask": gbal_json(&l.ask),
        "fee": l.fee_amount.as_ref().map(coin_json),
    })
}

pub fn bucket_json(b: &Bucket) -> Value {
    json!({
        "owner": b.owner.as_str(),
        "funds": gbal_json(&b.funds),
        "fee": b.fee_amount.as_ref().map(coin_json),
    })
}

/// Split a cw-storage-plus map key `len(ns) ns rest` into `(ns, rest)`.
fn split_ns(key: &[u8]) -> Option<(&[u8], &[u8])> {
    if key.len() < 2 {
        return None;
    }
    let n = u16::from_be_bytes([key[0], key[1]]) as usize;
    if key.len() < 2 + n {
        return None;
    }
    Some((&key[2..2 + n], &key[2 + n..]))
}

/// Split `len(part) part rest`.
fn split_part(key: &[u8]) -> Option<(&[u8], &[u8])> {
    split_ns(key)
}

fn u64_of(b: &[u8]) -> Option<u64> {
    if b.len() != 8 {
        return None;
    }
    let mut a = [0u8; 8];
    a.copy_from_slice(b);
    Some(u64::from_be_bytes(a))
}

fn pk_of(raw: &[u8]) -> Option<(String, u64)> {
    let (owner, rest) = split_part(raw)?;
    Some((String::from_utf8(owner.to_vec()).ok()?, u64_of(rest)?))
}

pub fn registry_addr(w: &World) -> Option<Addr> {
    for (k, v) in w.app.dump_wasm_raw(&w.market) {
        if k == b"royalty_regsitry" {
            let a: Option<Addr> = cosmwasm_std::from_slice(&v).ok()?;
            return a;
        }
    }
    None
}

pub fn observe(w: &World) -> Value {
    let mut listings = vec![];
    let mut buckets = vec![];
    let mut l_used = vec![];
    let mut b_used = vec![];
    let mut fee = Value::Null;
    let mut reg_item = Value::Null;
    let mut ix_id = vec![];
    let mut ix_wl = vec![];
    let mut ix_fin = vec![];
    let mut unknown = vec![];

    for (k, v) in w.app.dump_wasm_raw(&w.market) {
        if k == b"fee_denom" {
            let f: Result<FeeDenom, _> = cosmwasm_std::from_slice(&v);
            fee = match f {
                Ok(FeeDenom::JUNO(t)) => json!({"kind": "JUNO", "last": t.to_string()}),
                Ok(FeeDenom::USDC(t)) => json!({"kind": "USDC", "last": t.to_string()}),
                Err(e) => json!({"undecodable": format!("{e}")}),
            };
            continue;
        }
        if k == b"royalty_regsitry" {
            let a: Result<Option<Addr>, _> = cosmwasm_std::from_slice(&v);
            reg_item = match a {
                Ok(Some(x)) => json!(x.as_str()),
                Ok(None) => Value::Null,
                Err(e) => json!({"undecodable": format!("{e}")}),
            };
            continue;
        }
        if k == b"contract_info" {
            continue;
        }
        let Some((ns, rest)) = split_ns(&k) else {
            unknown.push(json!(String::from_utf8_lossy(&k)));
            continue;
        };
        match ns {
            b"listings_im" => match (pk_of(rest), cosmwasm_std::from_slice::<Listing>(&v)) {
                (Some((o, id)), Ok(l)) => {
                    let mut j = listing_json(&l);
                    j["kowner"] = json!(o);
                    j["kid"] = json!(id.to_string());
                    listings.push(j);
                }
                _ => unknown.push(json!(format!("listing {:?}", String::from_utf8_lossy(&k)))),
            },
            b"buckets" => match (pk_of(rest), cosmwasm_std::from_slice::<Bucket>(&v)) {
                (Some((o, id)), Ok(b)) => {
                    let mut j = bucket_json(&b);
                    j["kowner"] = json!(o);
                    j["kid"] = json!(id.to_string());
                    buckets.push(j);
                }
                _ => unknown.push(json!(format!("bucket {:?}", String::from_utf8_lossy(&k)))),
            },
            b"listing_id_used" => match u64_of(rest) {
                Some(id) => l_used.push(json!(id.to_string())),
                None => unknown.push(json!("listing_id_used key")),
            },
            b"bucket_id_used" => match u64_of(rest) {
                Some(id) => b_used.push(json!(id.to_string())),
                None => unknown.push(json!("bucket_id_used key")),
            },
            b"listing__id" => {
                let pk = serde_json::from_slice::<Value>(&v).ok().and_then(|x| x["pk"].as_str().map(|s| s.to_string()))
                    .and_then(|s| Binary::from_base64(&s).ok()).and_then(|b| pk_of(b.as_slice()));
                match (u64_of(rest), pk) {
                    (Some(id), Some((o, pid))) => ix_id.push(json!([id.to_string(), o, pid.to_string()])),
                    _ => unknown.push(json!("listing__id entry")),
                }
            }
            b"listing__whitelisted__buyer" => {
                let pk = serde_json::from_slice::<Value>(&v).ok().and_then(|x| x["pk"].as_str().map(|s| s.to_string()))
                    .and_then(|s| Binary::from_base64(&s).ok()).and_then(|b| pk_of(b.as_slice()));
                let key = split_part(rest).and_then(|(a, r)| Some((String::from_utf8(a.to_vec()).ok()?, u64_of(r)?)));
                match (key, pk) {
                    (Some((buyer, id)), Some((o, pid))) => ix_wl.push(json!([buyer, id.to_string(), o, pid.to_string()])),
                    _ => unknown.push(json!("listing__whitelisted__buyer entry")),
                }
            }
            b"listing__finalized__date" => {
                let e = split_part(rest).and_then(|(secs, pk)| Some((u64_of(secs)?, pk_of(pk)?)));
                match e {
                    Some((secs, (o, pid))) => ix_fin.push(json!([secs.to_string(), o, pid.to_string()])),
                    None => unknown.push(json!("listing__finalized__date entry")),
                }
            }
            _ => unknown.push(json!(String::from_utf8_lossy(&k))),
        }
    }

    let mut registry = vec![];
    if let Some(reg) = &w.registry {
        for (k, v) in w.app.dump_wasm_raw(reg) {
            if k == b"contract_info" {
                continue;
            }
            match (split_ns(&k), cosmwasm_std::from_slice::<RoyaltyInfo>(&v)) {
                (Some((b"royalty_registry", rest)), Ok(ri)) => registry.push(json!({
                    "coll": String::from_utf8_lossy(rest),
                    "last_updated": ri.last_updated.to_string(),
                    "bps": ri.bps.to_string(),
                    "payout": ri.payout_addr.as_str(),
                })),
                _ => unknown.push(json!(format!("registry {:?}", String::from_utf8_lossy(&k)))),
            }
        }
    }

    // ledgers, restricted to the universe
    let mut universe: Vec<String> = w.users.clone();
    universe.push(w.pool.to_string());
    universe.push(w.market.to_string());
    if let Some(r) = &w.registry {
        universe.push(r.to_string());
    }
    for c in &w.contracts {
        universe.push(c.addr.to_string());
    }
    let mut bank = vec![];
    for a in &universe {
        if let Ok(cs) = w.app.wrap().query_all_balances(a.clone()) {
            for c in cs {
                if !c.amount.is_zero() {
                    bank.push(json!([a, c.denom, c.amount.to_string()]));
                }
            }
        }
    }
    let mut cw20 = vec![];
    for c in w.contracts.iter().filter(|c| c.kind == "cw20") {
        for a in &universe {
            let r: Result<cw20::BalanceResponse, _> =
                w.app.wrap().query_wasm_smart(c.addr.clone(), &cw20::Cw20QueryMsg::Balance { address: a.clone() });
            if let Ok(b) = r {
                if !b.balance.is_zero() {
                    cw20.push(json!([c.addr.as_str(), a, b.balance.to_string()]));
                }
            }
        }
    }
    let mut nft = vec![];
    for (coll, tid) in &w.nft_tokens {
        let r: Result<cw721::OwnerOfResponse, _> = w.app.wrap().query_wasm_smart(
            coll.clone(),
            &cw721_base::QueryMsg::<Empty>::OwnerOf { token_id: tid.clone(), include_expired: None },
        );
        if let Ok(o) = r {
            nft.push(json!([coll.as_str(), tid, o.owner, o.approvals.len()]));
        }
    }
    let mut admin = vec![];
    let mut all_contracts: Vec<String> = vec![w.market.to_string()];
    if let Some(r) = &w.registry {
        all_contracts.push(r.to_string());
    }
    for c in &w.contracts {
        all_contracts.push(c.addr.to_string());
    }
    for c in &all_contracts {
        if let Ok(ci) = w.app.wrap().query_wasm_contract_info(c.clone()) {
            admin.push(json!([c, ci.admin]));
        }
    }

    let b = w.app.block_info();
    json!({
        "time_ns": b.time.nanos().to_string(),
        "height": b.height,
        "listings": listings,
        "buckets": buckets,
        "l_used": l_used,
        "b_used": b_used,
        "fee": fee,
        "registry_item": reg_item,
        "ix_id": ix_id,
        "ix_wl": ix_wl,
        "ix_fin": ix_fin,
        "registry": registry,
        "bank": bank,
        "cw20": cw20,
        "nft": nft,
        "admin": admin,
        "hostile_fail": w.shared.borrow().hostile_fail,
        "unknown_keys": unknown,
    })
}

fn q(w: &World, msg: Value) -> Value {
    let r: Result<Value, _> = w.app.wrap().query_wasm_smart(w.market.clone(), &msg);
    match r {
        Ok(v) => json!({"ok": v}),
        Err(e) => {
            let s = format!("{e}");
            if s.contains("PANIC") {
                json!({"panic": s})
            } else {
                json!({"err": s})
            }
        }
    }
}

fn canon_listing(v: &Value) -> Value {
    match serde_json::from_value::<Listing>(v.clone()) {
        Ok(l) => listing_json(&l),
        Err(e) => json!({"undecodable": format!("{e}")}),
    }
}

fn canon_listings(r: Value) -> Value {
    if let Some(ok) = r.get("ok") {
        let ls = ok["listings"].as_array().cloned().unwrap_or_default();
        return json!({"ok": ls.iter().map(canon_listing).collect::<Vec<_>>()});
    }
    r
}

fn canon_buckets(r: Value) -> Value {
    if let Some(ok) = r.get("ok") {
        let bs = ok["buckets"].as_array().cloned().unwrap_or_default();
        let out: Vec<Value> = bs
            .iter()
            .map(|e| {
                let id = e[0].as_u64().map(|x| x.to_string()).unwrap_or_default();
                match serde_json::from_value::<Bucket>(e[1].clone()) {
                    Ok(b) => {
                        let mut j = bucket_json(&b);
                        j["kid"] = json!(id);
                        j
                    }
                    Err(er) => json!({"undecodable": format!("{er}")}),
                }
            })
            .collect();
        return json!({"ok": out});
    }
    r
}

/// The query battery: every query of the marketplace for the given addresses and page numbers,
/// and both registry lookups for the given collections / batches.
pub fn run_queries(w: &World, req: &Value) -> Value {
    let addrs: Vec<String> = req["addrs"].as_array().map(|a| a.iter().filter_map(|x| x.as_str().map(|s| s.to_string())).collect()).unwrap_or_default();
    let pages: Vec<u64> = req["pages"].as_array().map(|a| a.iter().filter_map(|x| x.as_u64()).collect()).unwrap_or_default();
    let fee = q(w, json!({"get_fee_denom": {}}));
    let roy = q(w, json!({"get_royalty_addr": {}}));
    let mut by_owner = vec![];
    let mut bucks = vec![];
    let mut wl = vec![];
    let mut market = vec![];
    for a in &addrs {
        for p in &pages {
            by_owner.push(json!({"owner": a, "page": p, "r": canon_listings(q(w, json!({"get_listings_by_owner": {"owner": a, "page_num": p}})))}));
            bucks.push(json!({"owner": a, "page": p, "r": canon_buckets(q(w, json!({"get_buckets": {"bucket_owner": a, "page_num": p}})))}));
        }
        wl.push(json!({"owner": a, "r": canon_listings(q(w, json!({"get_listings_by_whitelist": {"owner": a}})))}));
    }
    for p in &pages {
        market.push(json!({"page": p, "r": canon_listings(q(w, json!({"get_listings_for_market": {"page_num": p}})))}));
    }
    let mut single = vec![];
    let mut multi = vec![];
    if let Some(reg) = &w.registry {
        let canon_ri = |v: &Value| -> Value {
            if v.is_null() {
                return Value::Null;
            }
            match serde_json::from_value::<RoyaltyInfo>(v.clone()) {
                Ok(ri) => json!({"last_updated": ri.last_updated.to_string(), "bps": ri.bps.to_string(), "payout": ri.payout_addr.as_str()}),
                Err(e) => json!({"undecodable": format!("{e}")}),
            }
        };
        if let Some(cs) = req["colls"].as_array() {
            for c in cs {
                let r: Result<Value, _> = w.app.wrap().query_wasm_smart(reg.clone(), &json!({"royalty_info_single": {"nft_contract": c}}));
                single.push(json!({"coll": c, "r": match r { Ok(v) => json!({"ok": canon_ri(&v)}), Err(e) => json!({"err": format!("{e}")}) }}));
            }
        }
        if let Some(bs) = req["batches"].as_array() {
            for b in bs {
                let r: Result<Value, _> = w.app.wrap().query_wasm_smart(reg.clone(), &json!({"royalty_info_multi": {"nft_contracts": b}}));
                multi.push(json!({"batch": b, "r": match r {
                    Ok(v) => json!({"ok": v.as_array().map(|a| a.iter().map(canon_ri).collect::<Vec<_>>()).unwrap_or_default()}),
                    Err(e) => json!({"err": format!("{e}")}) }}));
            }
        }
    }
    json!({"fee": fee, "royalty_addr": roy, "by_owner": by_owner, "buckets": bucks, "whitelist": wl, "market": market,
           "reg_single": single, "reg_multi": multi})
}
