//! A hostile third-party contract: it answers the CW20 `TokenInfo` probe, forwards any message
//! to any contract (so the marketplace sees the hostile contract as `info.sender`, with whatever
//! `sender` field the payload claims), and its own `transfer` / `transfer_nft` handlers succeed
//! or fail according to a switch; when they succeed they may call back into the marketplace
//! (re-entry program, model/Reentry.v).
use anyhow::{bail, Result as AnyResult};
use cosmwasm_std::{to_binary, Binary, CosmosMsg, Deps, DepsMut, Empty, Env, MessageInfo, Reply, Response, SubMsg, Uint128, WasmMsg};
use cw_multi_test::Contract;
use serde_json::Value;

use crate::chain::SharedRef;

fn parse_funds(v: Option<&Value>) -> AnyResult<Vec<cosmwasm_std::Coin>> {
    let mut funds = vec![];
    if let Some(arr) = v.and_then(|x| x.as_array()) {
        for c in arr {
            let denom = c[0].as_str().unwrap_or("").to_string();
            let amount = match &c[1] {
                Value::String(x) => x.parse::<u128>()?,
                other => other.as_u64().unwrap_or(0) as u128,
            };
            funds.push(cosmwasm_std::Coin { denom, amount: Uint128::new(amount) });
        }
    }
    Ok(funds)
}

pub struct HostileContract {
    pub shared: SharedRef,
}

impl Contract<Empty> for HostileContract {
    fn execute(&self, _deps: DepsMut, _env: Env, _info: MessageInfo, msg: Vec<u8>) -> AnyResult<Response> {
        let v: Value = serde_json::from_slice(&msg)?;
        if let Some(f) = v.get("forward") {
            let to = f["to"].as_str().unwrap_or("").to_string();
            let inner = serde_json::to_vec(&f["msg"])?;
            let funds = parse_funds(f.get("funds"))?;
            return Ok(Response::new().add_message(CosmosMsg::Wasm(WasmMsg::Execute {
                contract_addr: to,
                msg: Binary::from(inner),
                funds,
            })));
        }
        if let Some(f) = v.get("nested") {
            // arm the program of this nested call (possibly empty: then a transfer handed to us during it does nothing), forward
            let sub: Vec<Value> = f.get("prog").and_then(|x| x.as_array()).cloned().unwrap_or_default();
            self.shared.borrow_mut().reentry = sub;
            return Ok(Response::new().add_message(CosmosMsg::Wasm(WasmMsg::Execute {
                contract_addr: f["to"].as_str().unwrap_or("").to_string(),
                msg: Binary::from(serde_json::to_vec(&f["msg"])?),
                funds: parse_funds(f.get("funds"))?,
            })));
        }
        if v.get("nested_clear").is_some() {
            self.shared.borrow_mut().reentry.clear();
            return Ok(Response::new());
        }
        if v.get("transfer").is_some() || v.get("transfer_nft").is_some() {
            if self.shared.borrow().hostile_fail {
                bail!("hostile token refuses to transfer")
            }
            // re-entry: the first transfer request of the operation triggers the program, each call as a
            // sub-transaction whose failure is swallowed (reply on error, see `reply`)
            let prog: Vec<Value> = std::mem::take(&mut self.shared.borrow_mut().reentry);
            if !prog.is_empty() {
                self.shared.borrow_mut().reentry_ran = Some(prog.len());
            }
            let mut resp = Response::new();
            // deep mode (model/ReentryDeep.v): every call of the program carries the program that runs if that call is
            // re-entered; the call is then routed through `nested` below, which arms that program before forwarding
            let deep = prog.iter().any(|f| f.get("prog").is_some());
            for (k, f) in prog.iter().enumerate() {
                let (to, inner, funds) = if deep {
                    (_env.contract.address.to_string(), serde_json::to_vec(&serde_json::json!({"nested": f}))?, vec![])
                } else {
                    (f["to"].as_str().unwrap_or("").to_string(), serde_json::to_vec(&f["msg"])?, parse_funds(f.get("funds"))?)
                };
                resp = resp.add_submessage(SubMsg::reply_on_error(
                    CosmosMsg::Wasm(WasmMsg::Execute { contract_addr: to, msg: Binary::from(inner), funds }),
                    1000 + k as u64,
                ));
            }
            if deep {
                // whatever the last nested call left armed is disarmed before the outer dispatch goes on
                resp = resp.add_message(CosmosMsg::Wasm(WasmMsg::Execute {
                    contract_addr: _env.contract.address.to_string(),
                    msg: Binary::from(serde_json::to_vec(&serde_json::json!({"nested_clear": {}}))?),
                    funds: vec![],
                }));
            }
            return Ok(resp);
        }
        bail!("hostile: unknown message")
    }

    fn instantiate(&self, _deps: DepsMut, _env: Env, _info: MessageInfo, _msg: Vec<u8>) -> AnyResult<Response> {
        Ok(Response::new())
    }

    fn query(&self, _deps: Deps, _env: Env, msg: Vec<u8>) -> AnyResult<Binary> {
        let v: Value = serde_json::from_slice(&msg)?;
        if v.get("token_info").is_some() {
            return Ok(to_binary(&cw20::TokenInfoResponse {
                name: "hostile".to_string(),
                symbol: "HST".to_string(),
                decimals: 6,
                total_supply: Uint128::new(1_000_000),
            })?);
        }
        bail!("hostile: unknown query")
    }

    fn sudo(&self, _deps: DepsMut, _env: Env, _msg: Vec<u8>) -> AnyResult<Response> {
        bail!("sudo not implemented")
    }

    fn reply(&self, _deps: DepsMut, _env: Env, msg: Reply) -> AnyResult<Response> {
        // a failed re-entrant call is swallowed (and noted for the observation)
        if msg.id >= 1000 {
            self.shared.borrow_mut().reentry_failed.push((msg.id - 1000) as usize);
        }
        Ok(Response::new())
    }

    fn migrate(&self, _deps: DepsMut, _env: Env, _msg: Vec<u8>) -> AnyResult<Response> {
        bail!("migrate not implemented")
    }
}
