//! Correspondence harness: a JSON-lines server that runs the *real* marketplace and royalty
//! registry contracts of /repo (plus real cw20-base / cw721-base and a hostile token) under
//! cw-multi-test, one operation per request, and reports the complete canonical observation
//! of the system after every operation.  The Python driver (tools/) owns generation,
//! monitors and the emission of Gallina literals; nothing here knows about the model.
mod chain;
mod dump;
mod hostile;
mod pure;

use std::io::{BufRead, Write};

use serde_json::{json, Value};

fn main() {
    // Panics inside contract code are caught (a panic is a failed transaction on chain);
    // keep stderr quiet about them.
    std::panic::set_hook(Box::new(|_| {}));

    let stdin = std::io::stdin();
    let stdout = std::io::stdout();
    let mut out = std::io::BufWriter::new(stdout.lock());
    let mut world: Option<chain::World> = None;

    for line in stdin.lock().lines() {
        let line = match line {
            Ok(l) => l,
            Err(_) => break,
        };
        if line.trim().is_empty() {
            continue;
        }
        let req: Value = match serde_json::from_str(&line) {
            Ok(v) => v,
            Err(e) => {
                writeln!(out, "{}", json!({"error": format!("bad request: {e}")})).unwrap();
                out.flush().unwrap();
                continue;
            }
        };
        let cmd = req.get("cmd").and_then(|c| c.as_str()).unwrap_or("");
        let resp: Value = match cmd {
            "init" => match chain::World::new(&req["cfg"]) {
                Ok(w) => {
                    let r = json!({"ok": true, "addrs": w.addr_table(), "obs": w.observe()});
                    world = Some(w);
                    r
                }
                Err(e) => json!({"error": format!("init failed: {e:#}")}),
            },
            "op" => match world.as_mut() {
                Some(w) => w.run_op(&req["op"], req.get("fail_msg").and_then(|v| v.as_u64())),
                None => json!({"error": "no world"}),
            },
            "obs" => match world.as_ref() {
                Some(w) => json!({"obs": w.observe()}),
                None => json!({"error": "no world"}),
            },
            "queries" => match world.as_ref() {
                Some(w) => w.run_queries(&req),
                None => json!({"error": "no world"}),
            },
            "raw_query" => match world.as_ref() {
                Some(w) => w.raw_query(&req),
                None => json!({"error": "no world"}),
            },
            "calc_fee" => pure::calc_fee(&req),
            "royalties" => pure::royalties(&req),
            "genbal_cmp" => pure::genbal_cmp(&req),
            "quit" => break,
            _ => json!({"error": format!("unknown cmd {cmd}")}),
        };
        writeln!(out, "{}", resp).unwrap();
        out.flush().unwrap();
    }
}
