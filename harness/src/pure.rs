//! Direct calls of the public pure functions (C17 / C11 / C02 tie): `calc_fee_coin`,
//! `GenericBalance::royalties`, `genbal_cmp`.
use std::panic::{catch_unwind, AssertUnwindSafe};

use cosmwasm_std::{coin, Addr, BankMsg, CosmosMsg, Uint128, WasmMsg};
use cw20::Cw20CoinVerified;
use marketplace::state::{FeeDenom, GenericBalance, Nft};
use royalties::RoyaltyInfo;
use serde_json::{json, Value};

use crate::dump::{coin_json, gbal_json};

fn u128_of(v: &Value) -> u128 {
    match v {
        Value::String(s) => s.parse().unwrap_or(0),
        Value::Number(n) => n.as_u64().unwrap_or(0) as u128,
        _ => 0,
    }
}

pub fn gbal_of(v: &Value) -> GenericBalance {
    let arr = |k: &str| v[k].as_array().cloned().unwrap_or_default();
    GenericBalance {
        native: arr("native").iter().map(|c| coin(u128_of(&c[1]), c[0].as_str().unwrap_or(""))).collect(),
        cw20: arr("cw20")
            .iter()
            .map(|c| Cw20CoinVerified { address: Addr::unchecked(c[0].as_str().unwrap_or("")), amount: Uint128::new(u128_of(&c[1])) })
            .collect(),
        nfts: arr("nfts")
            .iter()
            .map(|c| Nft { contract_address: Addr::unchecked(c[0].as_str().unwrap_or("")), token_id: c[1].as_str().unwrap_or("").to_string() })
            .collect(),
    }
}

fn fee_denom_of(v: &Value) -> FeeDenom {
    match v.as_str() {
        Some("USDC") => FeeDenom::USDC(0),
        _ => FeeDenom::JUNO(0),
    }
}

pub fn calc_fee(req: &Value) -> Value {
    let fd = fee_denom_of(&req["fee_kind"]);
    let bal = gbal_of(&req["bal"]);
    match catch_unwind(AssertUnwindSafe(|| marketplace::utils::calc_fee_coin(&fd, &bal))) {
        Err(_) => json!({"panic": true}),
        Ok(Err(e)) => json!({"err": format!("{e}")}),
        Ok(Ok((fee, b))) => json!({"ok": {"fee": fee.as_ref().map(coin_json), "bal": gbal_json(&b)}}),
    }
}

fn msg_json(m: &CosmosMsg) -> Value {
    match m {
        CosmosMsg::Bank(BankMsg::Send { to_address, amount }) => {
            json!({"kind": "bank", "to": to_address, "coins": amount.iter().map(coin_json).collect::<Vec<_>>()})
        }
        CosmosMsg::Wasm(WasmMsg::Execute { contract_addr, msg, funds }) => {
            let v: Value = serde_json::from_slice(msg.as_slice()).unwrap_or(Value::Null);
            match (v["transfer"]["recipient"].as_str(), v["transfer"]["amount"].as_str()) {
                (Some(r), Some(a)) if funds.is_empty() => json!({"kind": "cw20_transfer", "token": contract_addr, "to": r, "amount": a}),
                _ => json!({"kind": "other", "debug": format!("{v}")}),
            }
        }
        other => json!({"kind": "other", "debug": format!("{other:?}")}),
    }
}

pub fn royalties(req: &Value) -> Value {
    let mut bal = gbal_of(&req["bal"]);
    let rs: Vec<Option<RoyaltyInfo>> = req["rs"]
        .as_array()
        .cloned()
        .unwrap_or_default()
        .iter()
        .map(|r| {
            if r.is_null() {
                None
            } else {
                Some(RoyaltyInfo {
                    last_updated: u128_of(&r["last_updated"]) as u64,
                    bps: u128_of(&r["bps"]) as u64,
                    payout_addr: Addr::unchecked(r["payout"].as_str().unwrap_or("")),
                })
            }
        })
        .collect();
    match catch_unwind(AssertUnwindSafe(|| {
        let r = bal.royalties(rs);
        (r, bal)
    })) {
        Err(_) => json!({"panic": true}),
        Ok((Err(e), _)) => json!({"err": format!("{e}")}),
        Ok((Ok((msgs, bps)), b)) => json!({"ok": {"msgs": msgs.iter().map(msg_json).collect::<Vec<_>>(), "bps": bps.to_string(), "bal": gbal_json(&b)}}),
    }
}

pub fn genbal_cmp(req: &Value) -> Value {
    let one = gbal_of(&req["one"]);
    let two = gbal_of(&req["two"]);
    match catch_unwind(AssertUnwindSafe(|| marketplace::state::genbal_cmp(&one, &two))) {
        Err(_) => json!({"panic": true}),
        Ok(r) => json!({"ok": r.is_ok()}),
    }
}
