#!/usr/bin/env python3
"""tools/coverage.py [--hist N] [--ops N] — which source regions of /repo's contracts does the correspondence run execute?

Builds the harness with `-C instrument-coverage` (separate target directory), runs every corpus script, N generated
histories with probes and faults, and the pure-function jobs against it, merges the profiles and writes
coverage/summary.json (per file: lines, functions, regions) and coverage/uncovered.txt (source lines of the contracts
that were never executed).  A development aid that makes the residue of the execution tie visible (DESIGN §10); it is
not a registered check and decides nothing."""
import argparse, glob, json, os, shutil, subprocess, sys
from multiprocessing import Pool

ROOT = os.path.dirname(os.path.dirname(os.path.abspath(__file__)))
sys.path.insert(0, os.path.join(ROOT, "tools"))
TARGET = os.path.join(ROOT, ".cache", "target-cov")
WORK = os.path.join(ROOT, ".cache", "cov")
LLVM = os.path.expanduser("~/.rustup/toolchains/nightly-x86_64-unknown-linux-gnu/lib/rustlib/x86_64-unknown-linux-gnu/bin")
GUARD = "fuzion_market_verif"


def main():
    ap = argparse.ArgumentParser()
    ap.add_argument("--hist", type=int, default=32)
    ap.add_argument("--ops", type=int, default=120)
    a = ap.parse_args()
    # build scripts and proc macros are instrumented too and would drop their profiles into the crates' source
    # directories (/repo included): send them to a scratch directory instead
    os.makedirs(os.path.join(TARGET, "build-profiles"), exist_ok=True)
    env = dict(os.environ, CARGO_NET_OFFLINE="true", CARGO_TARGET_DIR=TARGET, RUSTFLAGS="--cfg %s -C instrument-coverage" % GUARD,
               LLVM_PROFILE_FILE=os.path.join(TARGET, "build-profiles", "%p-%m.profraw"))
    r = subprocess.run(["cargo", "build", "--offline", "--release", "--bin", "fm-harness"], cwd=os.path.join(ROOT, "harness"), env=env,
                       capture_output=True, text=True)
    if r.returncode != 0:
        sys.exit("instrumented build failed:\n" + r.stderr[-2000:])
    binary = os.path.join(TARGET, "release", "fm-harness")
    shutil.rmtree(WORK, ignore_errors=True)
    os.makedirs(WORK)
    os.environ["LLVM_PROFILE_FILE"] = os.path.join(WORK, "%p-%m.profraw")
    from fm import corpus, pure, runner
    jobs = [{"name": n, "kind": "corpus", "outdir": WORK, "binary": binary, "no_coq": True} for n in corpus.SCRIPTS]
    for i in range(a.hist):
        jobs.append({"name": "g%d" % i, "kind": "gen", "seed": 100003 + i, "n_ops": a.ops, "probes": 3, "fault_prob": 0.05, "q_every": 10,
                     "outdir": WORK, "binary": binary, "no_coq": True})
    pjobs = [{"name": "p%d" % i, "seed": 7919 + i, "n": 300, "outdir": WORK, "binary": binary, "no_coq": True} for i in range(4)]
    with Pool(16) as p:
        r1 = p.map_async(runner.run_job, jobs, chunksize=1)
        r2 = p.map_async(pure.run_pure, pjobs, chunksize=1)
        res = r1.get() + r2.get()
    errs = [j for j in res if j.get("error")]
    for j in errs:
        print("job %s: %s" % (j["name"], j["error"][-300:]))
    raws = glob.glob(os.path.join(WORK, "*.profraw"))
    prof = os.path.join(WORK, "all.profdata")
    subprocess.run([os.path.join(LLVM, "llvm-profdata"), "merge", "-sparse", "-o", prof] + raws, check=True)
    srcs = sorted(glob.glob("/repo/contracts/*/src/*.rs") + glob.glob("/repo/packages/*/src/*.rs"))
    srcs = [s for s in srcs if not any(x in s for x in ("integration_tests", "_tests", "/test"))]
    ex = subprocess.run([os.path.join(LLVM, "llvm-cov"), "export", "-format=text", "-instr-profile", prof, binary] + srcs,
                        capture_output=True, text=True, check=True)
    data = json.loads(ex.stdout)["data"][0]
    out = {"histories": len(jobs), "pure_jobs": len(pjobs), "profiles": len(raws), "files": {}}
    unc = []
    for f in data["files"]:
        name = f["filename"]
        s = f["summary"]
        out["files"][name.replace("/repo/", "")] = {k: {"count": s[k]["count"], "covered": s[k]["covered"]} for k in ("lines", "functions", "regions")}
    sh = subprocess.run([os.path.join(LLVM, "llvm-cov"), "show", "-instr-profile", prof, binary] + srcs, capture_output=True, text=True, check=True)
    cur = None
    for line in sh.stdout.split("\n"):
        if line.startswith("/repo/") and line.rstrip().endswith(":"):
            cur = line.rstrip()[:-1].replace("/repo/", "")
            continue
        parts = line.split("|", 2)
        if cur and len(parts) == 3 and parts[0].strip().isdigit() and parts[1].strip() == "0":
            text = parts[2].strip()
            if text and not text.startswith("//") and text not in ("}", "{", "})", "});", "},", ")", ");", "} else {"):
                unc.append("%s:%s: %s" % (cur, parts[0].strip(), text[:140]))
    os.makedirs(os.path.join(ROOT, "coverage"), exist_ok=True)
    json.dump(out, open(os.path.join(ROOT, "coverage", "summary.json"), "w"), indent=1)
    open(os.path.join(ROOT, "coverage", "uncovered.txt"), "w").write("\n".join(unc) + "\n")
    for k, v in out["files"].items():
        print("%-48s lines %4d/%-4d regions %4d/%-4d functions %3d/%-3d" % (k, v["lines"]["covered"], v["lines"]["count"], v["regions"]["covered"],
                                                                          v["regions"]["count"], v["functions"]["covered"], v["functions"]["count"]))
    print("uncovered source lines listed in coverage/uncovered.txt:", len(unc))
    shutil.rmtree(WORK, ignore_errors=True)


if __name__ == "__main__":
    main()
