"""Turn a recorded session into a cases file for coqc."""
from . import emit
from .world import obs_key


def emit_session(sess, path, qsteps=None):
    """Writes the cases file.  Case numbers: step i -> i; the query check after step i -> 100000+i;
    the set-up check -> 999999.  qsteps: {step_index or -1: query battery result}."""
    u = sess.universe()
    lines = [emit.HEADER, "Definition cfg := %s." % emit.cfg(u)]
    ids = {}

    def oname(o):
        k = obs_key(o)
        if k not in ids:
            ids[k] = "o%d" % len(ids)
            lines.append("Definition %s := %s." % (ids[k], emit.obs(o)))
        return ids[k]

    skipped = []
    o0 = oname(sess.obs0)
    # set-up: instantiate + reply yield the initial market state
    lines.append("Eval vm_compute in (999999, match reply_instantiate %s (instantiate %s) with "
                 "Ok s => if entries_eqb listing_eqb (listings s) (listings (o_market %s)) && "
                 "entries_eqb bucket_eqb (buckets s) (buckets (o_market %s)) && set_eqb (l_used s) (l_used (o_market %s)) && "
                 "set_eqb (b_used s) (b_used (o_market %s)) && fee_eqb (fee s) (fee (o_market %s)) && "
                 "opt_eqb (registry_item s) (registry_item (o_market %s)) then 0 else 1 | Err => 1 end)."
                 % (emit.A(sess.registry), emit.n(sess.obs0["time_ns"]), o0, o0, o0, o0, o0, o0))
    for st in sess.steps:
        try:
            pre = oname(st["pre"])
            post = oname(st["post"])
            if st["op"].get("reentry") and any(x.get("reentry") for x in st["op"]["reentry"]):
                # nested deeper than one level: the tree rule (the outcomes of the nested calls are not compared here)
                term = "(check_tstep cfg %s %s %s %s %s)" % (
                    pre, emit.rop(st["op"]), "true" if st["outcome"] == "ok" else "false",
                    emit.lst(emit.out_msg(m) for m in st["msgs"]), post)
            elif st["op"].get("reentry"):
                nested = st.get("nested")
                nested_t = "None" if nested is None else "(Some %s)" % emit.lst("true" if x else "false" for x in nested)
                term = "(check_rstep cfg %s %s %s %s %s %s %s)" % (
                    pre, emit.op(st["op"]), emit.lst(emit.op(x) for x in st["op"]["reentry"]), "true" if st["outcome"] == "ok" else "false",
                    emit.lst(emit.out_msg(m) for m in st["msgs"]), nested_t, post)
            else:
                term = "(check_step cfg %s %s %s %s %s)" % (
                    pre, emit.op(st["op"]), "true" if st["outcome"] == "ok" else "false",
                    emit.lst(emit.out_msg(m) for m in st["msgs"]), post)
        except ValueError as e:
            skipped.append((st["i"], str(e)))
            continue
        lines.append("Eval vm_compute in (%d, %s)." % (st["i"], term))
        pool_msgs = [m for m in st["msgs"] if m.get("kind") == "fund_pool"]
        if pool_msgs:
            # byte-level comparison of every community-pool payload with the model's encoder (case 200000 + i)
            try:
                conj = " && ".join(emit.wire_term(m) for m in pool_msgs)
                lines.append("Eval vm_compute in (%d, if %s then 0 else 1)." % (200000 + st["i"], conj))
            except ValueError as e:
                skipped.append((200000 + st["i"], str(e)))
    for i, q in (qsteps or {}).items():
        o = sess.obs0 if i < 0 else sess.steps[i]["post"]
        try:
            lines.append("Eval vm_compute in (%d, check_queries cfg %s %s)." % (100000 + max(i, -1) + 1, oname(o), emit.qobs(q)))
        except ValueError as e:
            skipped.append((100000 + i, str(e)))
    with open(path, "w") as f:
        f.write("\n".join(lines) + "\n")
    return skipped
