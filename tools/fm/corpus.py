"""Boundary corpus (DESIGN.md §4.3): deterministic scripted scenarios that always run first.
Each function drives a Session; `SCRIPTS` maps name -> (cfg builder, script, flags)."""
from . import world
from .experiments import with_faults
from .msgs import E, G

CW20A, CW20B = "contract2", "contract3"
COLL1, COLL2, COLL3 = "contract4", "contract5", "contract6"
HOSTILE = "contract7"
MAX_SAFE_INT = 9007199254740990
NANOS = 10 ** 9


def adv(s, secs=0, ns=0, dh=1):
    return s.do({"t": "advance", "dns": secs * NANOS + ns, "dh": dh}, "valid")


def listing(s, u, lid, funds, ask, secs=600, wl=None, finalize=True):
    s.do(E(u, {"k": "create_listing", "id": lid, "ask": ask, "wl": wl}, funds), "valid")
    if finalize:
        s.do(E(u, {"k": "finalize", "id": lid, "secs": secs}), "valid")


def bucket(s, u, bid, funds):
    return s.do(E(u, {"k": "create_bucket", "id": bid}, funds), "valid")


def buy(s, u, lid, bid, tag="valid"):
    return s.do(E(u, {"k": "buy", "lid": lid, "bid": bid}), tag)


def reg(s, coll, bps, payout="usr5", sender="usr5"):
    return s.do({"t": "reg", "sender": sender, "msg": {"k": "register", "coll": coll, "payout": payout, "bps": bps}}, "valid")


def nft_send(s, u, coll, tok, inner):
    return s.do({"t": "nft_send", "user": u, "coll": coll, "token_id": tok, "inner": inner}, "valid")


def cw20_send(s, u, token, amt, inner):
    return s.do({"t": "cw20_send", "user": u, "token": token, "amount": amt, "inner": inner}, "valid")


# ---------------------------------------------------------------------------
def traded_bucket_reused(s):
    """C01 / C10: sale proceeds (a bucket carrying a pending fee) pay for another purchase."""
    listing(s, "usr0", 1, [["ujunox", 7777]], G(n=[["ujunox", 10000]]))
    bucket(s, "usr1", 1, [["ujunox", 10000]])
    buy(s, "usr1", 1, 1)                       # bucket 1 -> usr0, funds 9950, fee 50
    listing(s, "usr2", 2, [["uatom", 5]], G(n=[["ujunox", 9950]]))
    buy(s, "usr0", 2, 1, "reuse")              # traded bucket pays; new fee 49
    s.do(E("usr2", {"k": "remove_bucket", "id": 1}), "valid")
    s.do(E("usr0", {"k": "withdraw_purchased", "id": 2}), "valid")
    s.do(E("usr1", {"k": "withdraw_purchased", "id": 1}), "valid")


def traded_bucket_royalty(s):
    """C06 / C10: a proceeds bucket that still carries the fee of its first sale pays for a purchase that owes royalties on both
    kinds of fungible: the old fee is flushed *and* every royalty is sent."""
    reg(s, COLL1, 300, "usr5")
    reg(s, COLL2, 100, "usr4")
    listing(s, "usr0", 1, [["uatom", 7]], G(n=[["ujunox", 10000]], c=[[CW20A, 400]]))
    bucket(s, "usr1", 1, [["ujunox", 10000]])
    cw20_send(s, "usr1", CW20A, 400, {"k": "add_to_bucket_cw20", "id": 1})
    buy(s, "usr1", 1, 1)                        # bucket 1 -> usr0: 9950 ujunox + 400 CW20A, fee 50 pending
    nft_send(s, "usr2", COLL1, "3", {"k": "create_listing_cw721", "id": 2, "ask": G(n=[["ujunox", 9950]], c=[[CW20A, 400]]), "wl": None})
    nft_send(s, "usr2", COLL2, "3", {"k": "add_to_listing_cw721", "id": 2})
    s.do(E("usr2", {"k": "finalize", "id": 2, "secs": 600}), "valid")
    with_faults(s, E("usr0", {"k": "buy", "lid": 2, "bid": 1}), "reuse")   # royalties 3 % + 1 % of both, old fee 50 to the pool, new fee 49
    with_faults(s, E("usr2", {"k": "remove_bucket", "id": 1}))
    s.do(E("usr0", {"k": "withdraw_purchased", "id": 2}), "valid")
    s.do(E("usr1", {"k": "withdraw_purchased", "id": 1}), "valid")


def traded_bucket_topped_up(s):
    listing(s, "usr0", 1, [["uusdcx", 5]], G(n=[["ujunox", 400], ["uatom", 3]]))
    bucket(s, "usr1", 1, [["ujunox", 400], ["uatom", 3]])
    buy(s, "usr1", 1, 1)
    s.do(E("usr0", {"k": "add_to_bucket", "id": 1}, [["ujunox", 2], ["uosmo", 9]]), "valid")
    nft_send(s, "usr0", COLL1, "1", {"k": "add_to_bucket_cw721", "id": 1})           # every top-up path keeps the pending fee
    cw20_send(s, "usr0", CW20A, 55, {"k": "add_to_bucket_cw20", "id": 1})
    listing(s, "usr2", 2, [["uatom", 5]], G(n=[["ujunox", 400], ["uatom", 3], ["uosmo", 9]], c=[[CW20A, 55]], f=[[COLL1, "1"]]))
    buy(s, "usr0", 2, 1, "reuse")
    adv(s, 604801)
    s.do(E("usr3", {"k": "fee_cycle"}), "valid")       # denomination switches between purchase and withdrawal
    with_faults(s, E("usr2", {"k": "remove_bucket", "id": 1}))
    with_faults(s, E("usr0", {"k": "withdraw_purchased", "id": 2}))
    with_faults(s, E("usr1", {"k": "withdraw_purchased", "id": 1}))


def traded_bucket_zero_second_fee(s):
    """C10 / C01: a traded bucket (pending fee) pays for a purchase that itself charges no
    bucket-side fee: (a) amount below 200, (b) fee denomination switched in between.  The old
    fee must reach the pool exactly once."""
    listing(s, "usr0", 1, [["uatom", 7]], G(n=[["ujunox", 200]]))
    bucket(s, "usr1", 1, [["ujunox", 200]])
    buy(s, "usr1", 1, 1)                       # bucket 1 -> usr0: 199 ujunox, fee 1 pending
    listing(s, "usr2", 2, [["uatom", 5]], G(n=[["ujunox", 199]]))
    buy(s, "usr0", 2, 1, "reuse")              # 199 * 5 / 1000 = 0: no new fee; the old fee is flushed
    with_faults(s, E("usr2", {"k": "remove_bucket", "id": 1}))
    s.do(E("usr0", {"k": "withdraw_purchased", "id": 2}), "valid")
    s.do(E("usr1", {"k": "withdraw_purchased", "id": 1}), "valid")
    # (b) the denomination switches between the two purchases (the marketplace also holds the other fee denomination)
    bucket(s, "usr4", 9, [["uusdcx", 1000]])
    listing(s, "usr0", 3, [["uatom", 7]], G(n=[["ujunox", 10000]]))
    bucket(s, "usr1", 3, [["ujunox", 10000]])
    buy(s, "usr1", 3, 3)                       # bucket 3 -> usr0: 9950 ujunox, fee 50 pending
    adv(s, 604801)
    s.do(E("usr3", {"k": "fee_cycle"}), "valid")
    listing(s, "usr2", 4, [["uatom", 5]], G(n=[["ujunox", 9950]]))
    buy(s, "usr0", 4, 3, "reuse")              # USDC in force: no fee on a ujunox bucket
    listing(s, "usr3", 5, [["uosmo", 5]], G(n=[["ujunox", 9950]]))
    buy(s, "usr2", 5, 3, "reuse")              # traded a third time
    with_faults(s, E("usr3", {"k": "remove_bucket", "id": 3}))
    for u, i in (("usr1", 3), ("usr0", 4), ("usr2", 5)):
        s.do(E(u, {"k": "withdraw_purchased", "id": i}), "valid")


def interleaved_collections(s):
    """C06: several NFTs of one registered collection with NFTs of other collections between
    them, on the listing side and on the bucket side: one royalty per collection per side."""
    reg(s, COLL1, 100, "usr5")
    reg(s, COLL2, 200, "usr4")
    # seller side: COLL1#1, COLL2#1(usr0 owns tokens 1 and 6 of each), COLL1#6
    s.do({"t": "nft_send", "user": "usr0", "coll": COLL1, "token_id": "1",
          "inner": {"k": "create_listing_cw721", "id": 1, "ask": G(n=[["ujunox", 10000]], c=[[CW20A, 3000]]), "wl": None}}, "valid")
    nft_send(s, "usr0", COLL2, "1", {"k": "add_to_listing_cw721", "id": 1})
    nft_send(s, "usr0", COLL1, "6", {"k": "add_to_listing_cw721", "id": 1})
    nft_send(s, "usr0", COLL3, "1", {"k": "add_to_listing_cw721", "id": 1})
    nft_send(s, "usr0", COLL2, "6", {"k": "add_to_listing_cw721", "id": 1})
    s.do(E("usr0", {"k": "finalize", "id": 1, "secs": 3600}), "valid")
    bucket(s, "usr1", 1, [["ujunox", 10000]])
    cw20_send(s, "usr1", CW20A, 3000, {"k": "add_to_bucket_cw20", "id": 1})
    buy(s, "usr1", 1, 1)
    # buyer side: the bucket carries COLL2#2, COLL1#2, COLL2#... (usr1 owns token 2 of each; token 3 is usr2's)
    listing(s, "usr2", 2, [["uusdcx", 20000], ["uatom", 999]], G(f=[[COLL2, "2"], [COLL1, "2"], [COLL2, "3"]]), finalize=False)
    cw20_send(s, "usr2", CW20B, 4000, {"k": "add_to_listing_cw20", "id": 2})
    s.do(E("usr2", {"k": "finalize", "id": 2, "secs": 3600}), "valid")
    s.do({"t": "nft_transfer", "user": "usr2", "coll": COLL2, "token_id": "3", "to": "usr1"}, "valid")
    s.do({"t": "nft_send", "user": "usr1", "coll": COLL2, "token_id": "2", "inner": {"k": "create_bucket_cw721", "id": 2}}, "valid")
    nft_send(s, "usr1", COLL1, "2", {"k": "add_to_bucket_cw721", "id": 2})
    nft_send(s, "usr1", COLL2, "3", {"k": "add_to_bucket_cw721", "id": 2})
    buy(s, "usr1", 2, 2)
    for u, k, i in (("usr0", "remove_bucket", 1), ("usr1", "withdraw_purchased", 1), ("usr2", "remove_bucket", 2), ("usr1", "withdraw_purchased", 2)):
        s.do(E(u, {"k": k, "id": i}), "valid")


def same_id_two_owners(s):
    """C01 / C03 / C09: a second account asks for a bucket / listing id that another account
    holds, through every creation path; then the purchase re-keys records onto the other
    account, where nothing may be overwritten."""
    # buckets: first creation by NFT hook / CW20 hook / coins, second by the other paths
    s.do({"t": "nft_send", "user": "usr0", "coll": COLL1, "token_id": "1", "inner": {"k": "create_bucket_cw721", "id": 5}}, "valid")
    bucket(s, "usr1", 5, [["ujunox", 100]])                                                        # refused: id 5 is taken
    cw20_send(s, "usr1", CW20A, 70, {"k": "create_bucket_cw20", "id": 5})                         # refused
    s.do({"t": "cw20_send", "user": "usr0", "token": CW20A, "amount": 40, "inner": {"k": "create_bucket_cw20", "id": 6}}, "valid")
    bucket(s, "usr1", 6, [["uatom", 100]])                                                         # refused
    s.do({"t": "nft_send", "user": "usr1", "coll": COLL1, "token_id": "2", "inner": {"k": "create_bucket_cw721", "id": 6}}, "valid")  # refused
    bucket(s, "usr0", 7, [["uosmo", 9]])
    s.do({"t": "nft_send", "user": "usr1", "coll": COLL2, "token_id": "2", "inner": {"k": "create_bucket_cw721", "id": 7}}, "valid")  # refused
    # the two id spaces are separate: listing ids 5, 6, 7 are fresh although buckets 5, 6, 7 exist (created by NFT hook, CW20 hook, coins)
    listing(s, "usr3", 5, [["uatom", 1]], G(n=[["uosmo", 2]]), finalize=False)
    cw20_send(s, "usr3", CW20A, 2, {"k": "create_listing_cw20", "id": 6, "ask": G(n=[["uosmo", 2]]), "wl": None})
    nft_send(s, "usr3", COLL1, "4", {"k": "create_listing_cw721", "id": 7, "ask": G(n=[["uosmo", 2]]), "wl": None})
    for i in (5, 6, 7):
        s.do(E("usr3", {"k": "delete_listing", "id": i}), "valid")
    # usr1 sells for exactly what usr0's buckets hold; the buckets are re-keyed onto usr1
    listing(s, "usr1", 1, [["uatom", 11]], G(f=[[COLL1, "1"]]))
    listing(s, "usr1", 2, [["uatom", 12]], G(c=[[CW20A, 40]]))
    listing(s, "usr1", 3, [["uatom", 13]], G(n=[["uosmo", 9]]))
    buy(s, "usr0", 1, 5)
    buy(s, "usr0", 2, 6)
    buy(s, "usr0", 3, 7)
    # a traded bucket with a pending fee sits unwithdrawn with the seller; a third account asks for its id through the coin
    # path (it holds no bucket of that id itself) and tries to pay the seller's next listing with it
    bucket(s, "usr0", 8, [["ujunox", 1000]])
    listing(s, "usr1", 4, [["uatom", 14]], G(n=[["ujunox", 1000]]))
    buy(s, "usr0", 4, 8)                                                                           # bucket 8 -> usr1, fee 5 pending
    bucket(s, "usr2", 8, [["ujunox", 2000]])                                                       # refused: id 8 is used
    cw20_send(s, "usr2", CW20A, 3, {"k": "create_bucket_cw20", "id": 8})                          # refused
    listing(s, "usr1", 5, [["uatom", 15]], G(n=[["ujunox", 2000]]))
    buy(s, "usr2", 5, 8)                                                                           # refused: usr2 has no bucket 8
    with_faults(s, E("usr1", {"k": "remove_bucket", "id": 8}))
    # listings: same id asked by a second account through each path while the first is live
    listing(s, "usr2", 9, [["uatom", 1]], G(n=[["uosmo", 2]]), finalize=False)
    s.do({"t": "nft_send", "user": "usr3", "coll": COLL1, "token_id": "4", "inner": {"k": "create_listing_cw721", "id": 9, "ask": G(n=[["uosmo", 2]]), "wl": None}}, "valid")
    s.do({"t": "cw20_send", "user": "usr3", "token": CW20A, "amount": 5, "inner": {"k": "create_listing_cw20", "id": 9, "ask": G(n=[["uosmo", 2]]), "wl": None}}, "valid")
    s.do(E("usr3", {"k": "create_listing", "id": 9, "ask": G(n=[["uosmo", 2]]), "wl": None}, [["uatom", 3]]), "valid")
    s.do(E("usr2", {"k": "finalize", "id": 9, "secs": 600}), "valid")
    bucket(s, "usr3", 9, [["uosmo", 2]])
    buy(s, "usr3", 9, 9)


def lifecycle_owner_misuse(s):
    """C08 / C05 / C10 / C03: the *current owner* of a record sends every message kind that does
    not fit the record's lifecycle state — preparing, finalized (before / after expiry), sold
    (before / after the original expiry, fee pending), traded bucket."""
    ask = G(n=[["ujunox", 10000]])

    def every_kind(u, lid, bid=None):
        s.do(E(u, {"k": "change_ask", "id": lid, "ask": G(n=[["uatom", 1]])}), "misuse")
        s.do(E(u, {"k": "add_to_listing", "id": lid}, [["uosmo", 1]]), "misuse")
        s.do(E(u, {"k": "finalize", "id": lid, "secs": 600}), "misuse")
        s.do(E(u, {"k": "withdraw_purchased", "id": lid}), "misuse")
        s.do(E(u, {"k": "delete_listing", "id": lid}), "misuse")

    # listing 1: sold (fee pending on both sides), buyer misuses it before and after the original expiry
    listing(s, "usr0", 1, [["ujunox", 1000], ["uatom", 5]], ask, secs=600)
    bucket(s, "usr1", 1, [["ujunox", 10000]])
    buy(s, "usr1", 1, 1)
    s.do(E("usr1", {"k": "change_ask", "id": 1, "ask": G(n=[["uatom", 1]])}), "misuse")
    s.do(E("usr1", {"k": "add_to_listing", "id": 1}, [["uosmo", 1]]), "misuse")
    nft_send(s, "usr1", COLL1, "2", {"k": "add_to_listing_cw721", "id": 1})
    cw20_send(s, "usr1", CW20A, 5, {"k": "add_to_listing_cw20", "id": 1})
    s.do(E("usr1", {"k": "finalize", "id": 1, "secs": 600}), "misuse")
    s.do(E("usr1", {"k": "delete_listing", "id": 1}), "misuse")                # sold, not expired
    s.do(E("usr0", {"k": "delete_listing", "id": 1}), "misuse")                # the seller, after the sale
    s.do(E("usr1", {"k": "buy", "lid": 1, "bid": 1}), "misuse")
    # listing 2: finalized, not expired — the seller misuses it; listing 3 stays in preparation
    listing(s, "usr2", 2, [["uatom", 7]], ask, secs=600)
    listing(s, "usr2", 3, [["uatom", 8]], ask, finalize=False)
    s.do(E("usr2", {"k": "change_ask", "id": 2, "ask": G(n=[["uatom", 1]])}), "misuse")
    s.do(E("usr2", {"k": "add_to_listing", "id": 2}, [["uosmo", 1]]), "misuse")
    s.do(E("usr2", {"k": "finalize", "id": 2, "secs": 700}), "misuse")
    s.do(E("usr2", {"k": "withdraw_purchased", "id": 2}), "misuse")
    s.do(E("usr2", {"k": "delete_listing", "id": 2}), "misuse")
    s.do(E("usr2", {"k": "withdraw_purchased", "id": 3}), "misuse")
    # traded bucket (fee pending): its new owner, the seller, misuses it
    s.do(E("usr0", {"k": "create_bucket", "id": 1}, [["uatom", 1]]), "misuse")          # id taken
    s.do(E("usr0", {"k": "buy", "lid": 3, "bid": 1}), "misuse")                         # listing 3 is not finalized
    adv(s, 600, 1)                                                                        # past every expiration
    s.do(E("usr1", {"k": "delete_listing", "id": 1}), "misuse")                # sold + expired: still only withdrawable
    s.do(E("usr1", {"k": "finalize", "id": 1, "secs": 600}), "misuse")
    s.do(E("usr0", {"k": "buy", "lid": 2, "bid": 1}), "misuse")                # expired
    s.do(E("usr2", {"k": "finalize", "id": 2, "secs": 600}), "misuse")         # no re-finalisation after expiry
    s.do(E("usr2", {"k": "change_ask", "id": 2, "ask": G(n=[["uatom", 1]])}), "misuse")
    s.do(E("usr1", {"k": "withdraw_purchased", "id": 1}), "valid")
    s.do(E("usr1", {"k": "withdraw_purchased", "id": 1}), "misuse")            # twice
    s.do(E("usr0", {"k": "remove_bucket", "id": 1}), "valid")
    s.do(E("usr0", {"k": "remove_bucket", "id": 1}), "misuse")                 # twice
    s.do(E("usr2", {"k": "delete_listing", "id": 2}), "valid")
    s.do(E("usr2", {"k": "delete_listing", "id": 2}), "misuse")


def integer_truncation(s):
    """C08 / C09 / C14: u64 fields whose low 32 (or 16) bits look legal — lifetimes k*2^32 + r,
    ids that differ only above bit 32, bps above 2^32."""
    ask = G(n=[["uosmo", 7]])
    for i, secs in enumerate([2 ** 32 + 600, 2 ** 32 + 1209600, 2 * 2 ** 32 + 3600, 3 * 2 ** 32 + 86400, 2 ** 32 + 599,
                              2 ** 16 * 2 ** 32 + 600, 2 ** 53 + 600, 2 ** 63 + 3600], start=1):
        listing(s, "usr0", i, [["uatom", i]], ask, finalize=False)
        s.do(E("usr0", {"k": "finalize", "id": i, "secs": secs}), "valid")          # all refused
        s.do(E("usr0", {"k": "delete_listing", "id": i}), "valid")                 # still in preparation: refundable at once
    # ids that coincide modulo 2^32 are different ids
    listing(s, "usr1", 20, [["uatom", 1]], ask, secs=600)
    listing(s, "usr2", 2 ** 32 + 20, [["uatom", 2]], ask, secs=600)
    bucket(s, "usr3", 20, [["uosmo", 7]])
    bucket(s, "usr4", 2 ** 32 + 20, [["uosmo", 7]])
    buy(s, "usr3", 2 ** 32 + 20, 20)
    buy(s, "usr4", 20, 2 ** 32 + 20)
    s.do(E("usr3", {"k": "withdraw_purchased", "id": 20}), "valid")                # refused: usr3 bought 2^32+20
    s.do(E("usr3", {"k": "withdraw_purchased", "id": 2 ** 32 + 20}), "valid")
    s.do(E("usr4", {"k": "withdraw_purchased", "id": 20}), "valid")
    s.do(E("usr2", {"k": "remove_bucket", "id": 20}), "valid")
    s.do(E("usr1", {"k": "remove_bucket", "id": 2 ** 32 + 20}), "valid")
    # registry: a rate whose low bits are legal
    s.do({"t": "reg", "sender": "usr5", "msg": {"k": "register", "coll": COLL1, "payout": "usr5", "bps": 2 ** 32 + 100}}, "valid")
    s.do({"t": "reg", "sender": "usr5", "msg": {"k": "register", "coll": COLL1, "payout": "usr5", "bps": 2 ** 16 + 100}}, "valid")
    s.do({"t": "reg", "sender": "usr5", "msg": {"k": "register", "coll": COLL1, "payout": "usr5", "bps": 100}}, "valid")
    adv(s, 10, dh=100)
    s.do({"t": "reg", "sender": "usr5", "msg": {"k": "update", "coll": COLL1, "payout": None, "bps": 2 ** 32 + 200}}, "valid")


def fee_boundaries(s):
    """C06 / C17: amounts around multiples of 200, both fee denominations."""
    lid = 0
    for amt in [1, 199, 200, 201, 399, 400, 1800, 9999, 10001, 19999 * 200]:       # fees 0 0 1 1 1 2 9 49 50 19999 (a leading 9, an all-9 tail)
        for d in ["ujunox", "uusdcx"]:
            lid += 1
            listing(s, "usr0", lid, [[d, amt], ["uatom", amt]], G(n=[[d, amt]]))
            bucket(s, "usr1", lid, [[d, amt]])
            buy(s, "usr1", lid, lid)
    adv(s, 604801)
    s.do(E("usr1", {"k": "fee_cycle"}), "valid")
    for amt in [200, 201, 10 ** 12 + 199]:
        for d in ["ujunox", "uusdcx"]:
            lid += 1
            listing(s, "usr2", lid, [[d, amt]], G(n=[[d, amt], ["uosmo", 1]]))
            bucket(s, "usr3", lid, [["uosmo", 1], [d, amt]])
            buy(s, "usr3", lid, lid)
    for i in range(1, lid + 1):
        s.do(E("usr0" if i <= 20 else "usr2", {"k": "remove_bucket", "id": i}), "valid")
        s.do(E("usr1" if i <= 20 else "usr3", {"k": "withdraw_purchased", "id": i}), "valid")


def royalties_both_sides(s):
    """C06 / C11: registered collections on either side, shared payout, several NFTs of one
    collection, royalties on CW20 assets, every royalty transfer failing in turn (C15)."""
    reg(s, COLL1, 300, "usr5")
    reg(s, COLL2, 33, "usr4")
    # seller sells two NFTs of COLL1 plus coins; buyer pays coins, cw20 and an NFT of COLL2
    listing(s, "usr0", 1, [["ujunox", 100000], ["uatom", 999]], G(n=[["uusdcx", 20001]], c=[[CW20A, 5000]], f=[[COLL2, "2"]]), finalize=False)
    nft_send(s, "usr0", COLL1, "1", {"k": "add_to_listing_cw721", "id": 1})
    s.do({"t": "nft_transfer", "user": "usr0", "coll": COLL1, "token_id": "6", "to": "usr0"}, "valid")
    nft_send(s, "usr0", COLL1, "6", {"k": "add_to_listing_cw721", "id": 1})
    cw20_send(s, "usr0", CW20B, 777, {"k": "add_to_listing_cw20", "id": 1})
    s.do(E("usr0", {"k": "finalize", "id": 1, "secs": 3600}), "valid")
    bucket(s, "usr1", 1, [["uusdcx", 20001]])
    cw20_send(s, "usr1", CW20A, 5000, {"k": "add_to_bucket_cw20", "id": 1})
    nft_send(s, "usr1", COLL2, "2", {"k": "add_to_bucket_cw721", "id": 1})
    with_faults(s, E("usr1", {"k": "buy", "lid": 1, "bid": 1}))
    with_faults(s, E("usr0", {"k": "remove_bucket", "id": 1}))
    with_faults(s, E("usr1", {"k": "withdraw_purchased", "id": 1}))
    # same collection on both sides, tiny amounts (royalty floors to zero)
    listing(s, "usr2", 2, [["ujunox", 1], ["uatom", 33]], G(n=[["uatom", 34]], f=[[COLL1, "3"]]), finalize=False)
    nft_send(s, "usr2", COLL1, "3", {"k": "add_to_listing_cw721", "id": 2})
    s.do(E("usr2", {"k": "finalize", "id": 2, "secs": 600}), "valid")
    # the asked NFT (COLL1 #3) is now escrowed: ask cannot be met; change of plan: usr3 offers COLL1 #4
    listing(s, "usr2", 3, [["ujunox", 2], ["uatom", 34]], G(n=[["uatom", 34]], f=[[COLL1, "4"]]))
    bucket(s, "usr3", 3, [["uatom", 34]])
    nft_send(s, "usr3", COLL1, "4", {"k": "add_to_bucket_cw721", "id": 3})
    buy(s, "usr3", 3, 3)


def royalty_cap_cfg():
    return world.default_cfg(n_cw20=1, n_cw721=19, hostile=False, tokens_per_coll=6)


def royalty_cap(s):
    """C11: 16*300+200 = 5000 allowed; 17*300 = 5100 refused; on the listing side and on the
    bucket side; unregistered collections and duplicates mixed in."""
    colls = s.by_kind("cw721")  # 19 collections; the last has no admin
    for c in colls[:16]:
        reg(s, c, 300)
    reg(s, colls[16], 200)
    # listing with NFTs of 17 collections (sum exactly 5000) + the unregistered one + a duplicate collection
    s.do({"t": "nft_send", "user": "usr0", "coll": colls[0], "token_id": "1",
          "inner": {"k": "create_listing_cw721", "id": 1, "ask": G(n=[["ujunox", 10000], ["uatom", 2]]), "wl": None}}, "valid")
    for c in colls[1:17]:
        nft_send(s, "usr0", c, "1", {"k": "add_to_listing_cw721", "id": 1})
    nft_send(s, "usr0", colls[18], "1", {"k": "add_to_listing_cw721", "id": 1})
    nft_send(s, "usr0", colls[0], "6", {"k": "add_to_listing_cw721", "id": 1})     # a second NFT of the first collection, 17 NFTs later: counted once
    s.do(E("usr0", {"k": "finalize", "id": 1, "secs": 86400}), "valid")
    bucket(s, "usr1", 1, [["ujunox", 10000], ["uatom", 2]])
    with_faults(s, E("usr1", {"k": "buy", "lid": 1, "bid": 1}))        # exactly 50 %: allowed
    # now 5100 on the seller side: raise the 200 to 300 (after the cooldown)
    adv(s, 10, dh=100)
    s.do({"t": "reg", "sender": "usr5", "msg": {"k": "update", "coll": colls[16], "payout": None, "bps": 300}}, "valid")
    s.do({"t": "nft_send", "user": "usr1", "coll": colls[0], "token_id": "2",
          "inner": {"k": "create_listing_cw721", "id": 2, "ask": G(n=[["uusdcx", 400]]), "wl": None}}, "valid")
    for c in colls[1:17]:
        nft_send(s, "usr1", c, "2", {"k": "add_to_listing_cw721", "id": 2})
    s.do(E("usr1", {"k": "finalize", "id": 2, "secs": 86400}), "valid")
    bucket(s, "usr2", 2, [["uusdcx", 400]])
    buy(s, "usr2", 2, 2)                                               # 5100: refused
    # bucket side over the cap: usr2 pays with NFTs of 17 collections
    listing(s, "usr3", 3, [["ujunox", 3]], G(f=[[c, "3"] for c in colls[:17]]), secs=86400)
    s.do({"t": "nft_send", "user": "usr2", "coll": colls[0], "token_id": "3", "inner": {"k": "create_bucket_cw721", "id": 3}}, "valid")
    for c in colls[1:17]:
        nft_send(s, "usr2", c, "3", {"k": "add_to_bucket_cw721", "id": 3})
    buy(s, "usr2", 3, 3)                                               # 5100 on the buyer side: refused
    for bps in (299, 201):                                             # 5099 and 5001: still over half, on either side
        adv(s, 10, dh=100)
        s.do({"t": "reg", "sender": "usr5", "msg": {"k": "update", "coll": colls[16], "payout": None, "bps": bps}}, "valid")
        buy(s, "usr2", 3, 3)
        buy(s, "usr2", 2, 2)
    adv(s, 10, dh=100)
    s.do({"t": "reg", "sender": "usr5", "msg": {"k": "update", "coll": colls[16], "payout": None, "bps": 200}}, "valid")
    buy(s, "usr2", 3, 3)                                               # 5000: allowed
    buy(s, "usr2", 2, 2)                                               # 5000: allowed


def expiry_edges(s):
    """C02 / C03 / C08: one nanosecond before, at, and after the expiration; delete-vs-buy."""
    listing(s, "usr0", 1, [["uatom", 5]], G(n=[["uosmo", 7]]), secs=600)
    listing(s, "usr0", 2, [["uatom", 5]], G(n=[["uosmo", 7]]), secs=600)
    listing(s, "usr0", 3, [["uatom", 5]], G(n=[["uosmo", 7]]), secs=600)
    for b in (1, 2, 3):
        bucket(s, "usr1", b, [["uosmo", 7]])
    s.do(E("usr0", {"k": "delete_listing", "id": 1}), "valid")           # refused: not expired
    adv(s, 599, 999_999_999)                                              # 1 ns before expiry
    s.do(E("usr0", {"k": "delete_listing", "id": 1}), "valid")           # still refused
    buy(s, "usr1", 1, 1)                                                  # ok
    adv(s, 0, 1)                                                          # exactly at expiry (unconstrained)
    s.query_here()                                                        # ... but whatever the market query lists now must be purchasable now (C16)
    buy(s, "usr1", 2, 2)
    adv(s, 0, 1)                                                          # 1 ns after
    buy(s, "usr1", 3, 3)                                                  # refused
    buy(s, "usr1", 2, 2)
    s.do(E("usr0", {"k": "delete_listing", "id": 3}), "valid")           # ok now
    s.do(E("usr0", {"k": "delete_listing", "id": 3}), "valid")           # twice: refused
    s.do(E("usr0", {"k": "delete_listing", "id": 2}), "valid")
    s.do(E("usr0", {"k": "delete_listing", "id": 1}), "valid")           # sold: refused
    s.do(E("usr1", {"k": "withdraw_purchased", "id": 1}), "valid")
    s.do(E("usr1", {"k": "withdraw_purchased", "id": 1}), "valid")       # twice: refused
    s.do(E("usr0", {"k": "remove_bucket", "id": 1}), "valid")
    s.do(E("usr0", {"k": "remove_bucket", "id": 1}), "valid")            # twice: refused


def market_order(s):
    """C16: the market query follows the index (finalisation second, owner, id), not the order of creation: listings
    finalized within one block by owners and with ids in descending order (found by tools/modelmut.py)."""
    ask = G(n=[["uosmo", 7]])
    for u, lid in (("usr1", 8), ("usr3", 9), ("usr0", 7), ("usr1", 3), ("usr2", 1), ("usr0", 4), ("usr3", 10)):
        listing(s, u, lid, [["uatom", 5]], ask, secs=3600)
    s.query_here()
    adv(s, 1, 0)
    for u, lid in (("usr0", 5), ("usr2", 6), ("usr0", 2), ("usr1", 11)):
        listing(s, u, lid, [["uatom", 5]], ask, secs=3600)
    s.query_here()


def long_lived_listings(s):
    """C16: the market / whitelist queries late in a near-maximum lifetime (the index window must span the
    longest lifetime a listing can be finalized with); the query battery runs at the end of the script."""
    ask = G(n=[["uosmo", 7]])
    listing(s, "usr0", 1, [["uatom", 5]], ask, secs=1209600)                       # the maximum
    listing(s, "usr0", 2, [["uatom", 5]], ask, secs=1209599, wl="usr1")
    adv(s, 3600)
    listing(s, "usr2", 3, [["uatom", 5]], ask, secs=1206000)                       # same expiry, finalized later
    adv(s, 100000)
    listing(s, "usr2", 4, [["uatom", 5]], ask, secs=1029601)
    listing(s, "usr2", 5, [["uatom", 5]], ask, secs=604800)
    listing(s, "usr2", 6, [["uatom", 5]], ask, secs=600)                           # long expired at the query
    adv(s, 1105999, 999_999_999)                                                   # 1 ns before 1 and 3 expire; 2 expired 1 s ago
    bucket(s, "usr1", 1, [["uosmo", 7]])
    s.do(E("usr3", {"k": "fee_cycle"}), "valid")


def competing_buyers(s):
    """C03: two buyers with identical buckets, whitelisted buyer, self purchase."""
    listing(s, "usr0", 1, [["uatom", 5]], G(n=[["uosmo", 7]], c=[[CW20A, 3]]), secs=3600)
    for u, b in (("usr1", 1), ("usr2", 2)):
        bucket(s, u, b, [["uosmo", 7]])
        cw20_send(s, u, CW20A, 3, {"k": "add_to_bucket_cw20", "id": b})
    buy(s, "usr2", 1, 1)        # usr2 with usr1's bucket: refused
    buy(s, "usr2", 1, 2)
    buy(s, "usr1", 1, 1)        # already sold: refused
    listing(s, "usr0", 2, [["uatom", 5]], G(c=[[CW20A, 3]], n=[["uosmo", 7]]), secs=3600, wl="usr3")
    buy(s, "usr1", 2, 1)        # not whitelisted: refused
    s.do({"t": "cw20_transfer", "user": "usr1", "token": CW20A, "to": "usr3", "amount": 3}, "valid")
    bucket(s, "usr3", 3, [["uosmo", 7]])
    cw20_send(s, "usr3", CW20A, 3, {"k": "add_to_bucket_cw20", "id": 3})
    buy(s, "usr3", 2, 3)
    # the stranger's address sorts *after* the reserved buyer's this time (found by tools/modelmut.py: a whitelist test
    # weakened to an ordering went unnoticed while every stranger sorted before the buyer)
    listing(s, "usr0", 5, [["uatom", 5]], G(n=[["uosmo", 7]]), secs=3600, wl="usr1")
    bucket(s, "usr2", 5, [["uosmo", 7]])
    bucket(s, "usr1", 6, [["uosmo", 7]])
    buy(s, "usr2", 5, 5)        # refused
    buy(s, "usr1", 5, 6)
    # a reservation survives everything the owner does to a draft: new ask, top-ups by every path
    listing(s, "usr0", 7, [["uatom", 5]], G(n=[["uosmo", 9]]), wl="usr1", finalize=False)
    s.do(E("usr0", {"k": "change_ask", "id": 7, "ask": G(n=[["uosmo", 7]])}), "valid")
    s.do(E("usr0", {"k": "add_to_listing", "id": 7}, [["uatom", 1]]), "valid")
    cw20_send(s, "usr0", CW20A, 1, {"k": "add_to_listing_cw20", "id": 7})
    nft_send(s, "usr0", COLL1, "1", {"k": "add_to_listing_cw721", "id": 7})
    s.do(E("usr0", {"k": "finalize", "id": 7, "secs": 3600}), "valid")
    bucket(s, "usr2", 7, [["uosmo", 7]])
    bucket(s, "usr1", 8, [["uosmo", 7]])
    buy(s, "usr2", 7, 7)        # refused: still reserved for usr1
    buy(s, "usr1", 7, 8)
    # self purchase
    listing(s, "usr4", 4, [["ujunox", 1000]], G(n=[["ujunox", 1000]]), secs=600)
    bucket(s, "usr4", 4, [["ujunox", 1000]])
    buy(s, "usr4", 4, 4)
    s.do(E("usr4", {"k": "remove_bucket", "id": 4}), "valid")
    s.do(E("usr4", {"k": "withdraw_purchased", "id": 4}), "valid")


def ids_never_reused(s):
    """C09: re-use after delete / sale / withdrawal through each of the six creation paths."""
    ask = G(n=[["uosmo", 7]])
    listing(s, "usr0", 1, [["uatom", 5]], ask, finalize=False)
    s.do(E("usr0", {"k": "delete_listing", "id": 1}), "valid")
    bucket(s, "usr1", 1, [["uosmo", 7]])
    s.do(E("usr1", {"k": "remove_bucket", "id": 1}), "valid")
    for u in ("usr0", "usr2"):
        s.do(E(u, {"k": "create_listing", "id": 1, "ask": ask, "wl": None}, [["uatom", 5]]), "malformed")
        cw20_send(s, u, CW20A, 5, {"k": "create_listing_cw20", "id": 1, "ask": ask, "wl": None})
        tok = "1" if u == "usr0" else "3"
        nft_send(s, u, COLL1, tok, {"k": "create_listing_cw721", "id": 1, "ask": ask, "wl": None})
        s.do(E(u, {"k": "create_bucket", "id": 1}, [["uatom", 5]]), "malformed")
        cw20_send(s, u, CW20A, 5, {"k": "create_bucket_cw20", "id": 1})
        nft_send(s, u, COLL1, tok, {"k": "create_bucket_cw721", "id": 1})
    for i in (0, MAX_SAFE_INT, MAX_SAFE_INT + 1, 2 ** 64 - 1):
        s.do(E("usr0", {"k": "create_listing", "id": i, "ask": ask, "wl": None}, [["uatom", 5]]), "malformed")
        s.do(E("usr0", {"k": "create_bucket", "id": i}, [["uatom", 5]]), "malformed")
        nft_send(s, "usr0", COLL1, "1", {"k": "create_bucket_cw721", "id": i})
        cw20_send(s, "usr0", CW20A, 5, {"k": "create_listing_cw20", "id": i, "ask": ask, "wl": None})
    s.do(E("usr0", {"k": "create_listing", "id": MAX_SAFE_INT - 1, "ask": ask, "wl": None}, [["uatom", 5]]), "valid")
    s.do(E("usr0", {"k": "create_bucket", "id": MAX_SAFE_INT - 1}, [["uatom", 5]]), "valid")
    # an id sold and withdrawn stays used; bucket and listing id spaces are separate
    nft_send(s, "usr0", COLL1, "1", {"k": "create_listing_cw721", "id": 2, "ask": ask, "wl": None})
    s.do(E("usr0", {"k": "finalize", "id": 2, "secs": 600}), "valid")
    cw20_send(s, "usr1", CW20A, 9, {"k": "create_bucket_cw20", "id": 2})
    bucket(s, "usr1", 3, [["uosmo", 7]])
    buy(s, "usr1", 2, 3)
    s.do(E("usr1", {"k": "withdraw_purchased", "id": 2}), "valid")
    s.do(E("usr0", {"k": "remove_bucket", "id": 3}), "valid")
    s.do(E("usr1", {"k": "create_listing", "id": 2, "ask": ask, "wl": None}, [["uatom", 5]]), "malformed")
    s.do(E("usr0", {"k": "create_bucket", "id": 3}, [["uatom", 5]]), "malformed")
    nft_send(s, "usr1", COLL1, "1", {"k": "create_listing_cw721", "id": 2, "ask": ask, "wl": None})


def finalize_bounds(s):
    """C08: lifetimes 599/600/1209600/1209601, edits after finalisation."""
    ask = G(n=[["uosmo", 7]])
    for lid, secs in ((1, 599), (2, 600), (3, 1209600), (4, 1209601), (5, 2 ** 64 - 1), (6, 0)):
        listing(s, "usr0", lid, [["uatom", 5]], ask, secs=secs)
    for lid in (2, 3):
        s.do(E("usr0", {"k": "finalize", "id": lid, "secs": 700}), "malformed")
        s.do(E("usr0", {"k": "change_ask", "id": lid, "ask": G(n=[["uosmo", 1]])}), "malformed")
        s.do(E("usr0", {"k": "add_to_listing", "id": lid}, [["uatom", 1]]), "malformed")
        cw20_send(s, "usr0", CW20A, 4, {"k": "add_to_listing_cw20", "id": lid})
        nft_send(s, "usr0", COLL1, "1", {"k": "add_to_listing_cw721", "id": lid})
        s.do(E("usr0", {"k": "delete_listing", "id": lid}), "malformed")
    bucket(s, "usr1", 1, [["uosmo", 7]])
    buy(s, "usr1", 2, 1)
    s.do(E("usr1", {"k": "finalize", "id": 2, "secs": 700}), "malformed")     # buyer re-finalizing a sold listing
    s.do(E("usr1", {"k": "change_ask", "id": 2, "ask": ask}), "malformed")
    s.do(E("usr1", {"k": "add_to_listing", "id": 2}, [["uatom", 1]]), "malformed")
    s.do(E("usr1", {"k": "delete_listing", "id": 2}), "malformed")
    adv(s, 1209600)
    s.do(E("usr0", {"k": "delete_listing", "id": 3}), "valid")


def fee_cycle_week(s):
    """C13: week -1 s / exactly / +1 s, twice in one block, purchases before and after."""
    listing(s, "usr0", 1, [["ujunox", 1000], ["uusdcx", 1000]], G(n=[["ujunox", 2000], ["uusdcx", 2000]]), secs=1209600)
    bucket(s, "usr1", 1, [["uusdcx", 2000], ["ujunox", 2000]])
    adv(s, 604799, 0)
    s.do(E("usr2", {"k": "fee_cycle"}), "valid")     # last+604799: refused
    adv(s, 1, 0)
    s.do(E("usr2", {"k": "fee_cycle"}), "valid")     # exactly the week: unconstrained
    adv(s, 1, 0)
    s.do(E("usr3", {"k": "fee_cycle"}), "valid")     # +1 s: accepted
    s.do(E("usr3", {"k": "fee_cycle"}), "valid")     # twice in one block: refused
    s.do(E("usr7", {"k": "fee_cycle"}), "valid")
    buy(s, "usr1", 1, 1)                              # charged in USDC
    adv(s, 3600, 0)
    s.do(E("usr2", {"k": "fee_cycle"}), "valid")     # an hour after the switch, USDC in force: refused
    adv(s, 300000, 0)
    s.do(E("usr2", {"k": "fee_cycle"}), "valid")     # half a week after the switch: refused
    listing(s, "usr2", 2, [["ujunox", 1000], ["uusdcx", 1000]], G(n=[["ujunox", 2000], ["uusdcx", 2000]]), secs=1209600)
    bucket(s, "usr3", 2, [["uusdcx", 2000], ["ujunox", 2000]])
    adv(s, 604801 - 303600, 5)
    s.do(E("usr0", {"k": "fee_cycle"}), "valid")     # back to JUNO
    buy(s, "usr3", 2, 2)                              # charged in JUNO
    s.do(E("usr1", {"k": "fee_cycle"}), "valid")     # right after the second switch, same block: refused
    adv(s, 604799, 0)
    s.do(E("usr4", {"k": "fee_cycle"}), "valid")     # a week minus ~1 s after the second switch: refused
    adv(s, 2, 0)
    s.do(E("usr4", {"k": "fee_cycle"}), "valid")     # third switch
    s.do(E("usr4", {"k": "fee_cycle"}), "valid")     # and not again
    for u, k, i in (("usr0", "remove_bucket", 1), ("usr1", "withdraw_purchased", 1), ("usr2", "remove_bucket", 2), ("usr3", "withdraw_purchased", 2)):
        s.do(E(u, {"k": k, "id": i}), "valid")


def fee_cycle_subsecond_cfg():
    return world.default_cfg(t0=1_700_000_000_900_000_000)


def fee_cycle_subsecond(s):
    """C13 with block times that carry nanoseconds: the origin is stored in whole seconds (rounded down), so inside the
    second of the week mark less than a week may have elapsed: instantiated at x.9 s, attempts at +604799.2 s (refused),
    +604800.0 s (a whole week, the open instant), +604800.2 s (accepted)."""
    listing(s, "usr0", 1, [["ujunox", 1000], ["uusdcx", 1000]], G(n=[["ujunox", 2000], ["uusdcx", 2000]]), secs=1209600)
    bucket(s, "usr1", 1, [["uusdcx", 2000], ["ujunox", 2000]])
    adv(s, 604799, 200_000_000)
    s.do(E("usr2", {"k": "fee_cycle"}), "valid")     # 604799.2 s elapsed, though the clock's second is already origin+604800: refused
    buy(s, "usr1", 1, 1)                              # still charged in JUNO
    adv(s, 0, 800_000_000)
    s.do(E("usr2", {"k": "fee_cycle"}), "valid")     # exactly a week
    adv(s, 0, 200_000_000)
    s.do(E("usr3", {"k": "fee_cycle"}), "valid")     # accepted (unless the previous one was)
    adv(s, 604799, 900_000_000)
    s.do(E("usr3", {"k": "fee_cycle"}), "valid")     # less than a week after the switch at x.1 / x.3 s: refused
    adv(s, 1, 0)
    s.do(E("usr4", {"k": "fee_cycle"}), "valid")


def registry_rules(s):
    """C14: bounds, cooldown 99/100/101, admin hand-over, no admin, partial updates."""
    for bps in (0, 9, 301, 2 ** 64 - 1):
        reg(s, COLL1, bps)
    reg(s, COLL1, 10, sender="usr1")                 # not the admin
    reg(s, COLL3, 100)                               # contract without admin
    s.do({"t": "set_admin", "contract": COLL3, "admin": "usr5"}, "valid")      # ... which nobody can give one (refused)
    s.do({"t": "set_admin", "contract": "usr3", "admin": "usr5"}, "valid")     # not a contract (refused)
    reg(s, "usr3", 100)                              # not a contract
    up = lambda coll, p, b, sender="usr5": s.do({"t": "reg", "sender": sender, "msg": {"k": "update", "coll": coll, "payout": p, "bps": b}}, "valid")
    rm = lambda coll, sender="usr5": s.do({"t": "reg", "sender": sender, "msg": {"k": "remove", "coll": coll}}, "valid")
    # nothing registered yet: the admin's Update / Remove of a collection without an entry (every shape of Update)
    up(COLL1, "usr3", None)
    up(COLL1, None, None)
    up(COLL1, None, 100)
    up(COLL1, "usr3", 100)
    rm(COLL1)
    s.query_here()
    reg(s, COLL1, 10, payout="x")
    reg(s, COLL1, 10)
    reg(s, COLL1, 20)                                # twice
    reg(s, COLL2, 300)
    adv(s, 5, dh=99)
    up(COLL1, None, 50)
    rm(COLL1)
    adv(s, 5, dh=1)
    up(COLL1, None, 50, sender="usr1")
    up(COLL1, None, 9)
    up(COLL1, "x", None)
    up(COLL1, None, 50)                              # exactly 100 blocks: accepted
    up(COLL1, "usr3", None)                          # cooldown restarts
    adv(s, 5, dh=101)
    up(COLL1, "usr3", None)
    adv(s, 5, dh=100)
    up(COLL1, None, None)
    s.do({"t": "set_admin", "contract": COLL1, "admin": "usr4"}, "valid")
    adv(s, 5, dh=100)
    up(COLL1, None, 300)                             # old admin: refused
    up(COLL1, None, 300, sender="usr4")
    adv(s, 5, dh=100)
    rm(COLL1, sender="usr5")
    rm(COLL1, sender="usr4")
    up(COLL1, "usr3", None, sender="usr4")           # removed: nothing to update, whatever the cooldown says
    up(COLL1, None, None, sender="usr4")
    s.query_here()
    reg(s, COLL1, 123, sender="usr4")                # immediate re-register
    s.do({"t": "set_admin", "contract": COLL2, "admin": None}, "valid")
    adv(s, 5, dh=100)
    up(COLL2, None, 10)                              # admin cleared: nobody can
    rm(COLL2)


def malformed_deposits(s):
    """C12: zero, duplicates in every position, empty, 25 vs 26 assets by each path."""
    ask = G(n=[["uosmo", 7]])
    for funds in ([], [["uatom", 0]], [["uatom", 5], ["uatom", 5]], [["uatom", 5], ["uosmo", 1], ["uatom", 6]], [["uosmo", 1], ["uatom", 6], ["uatom", 6]]):
        s.do(E("usr0", {"k": "create_listing", "id": 1, "ask": ask, "wl": None}, funds), "malformed")
        s.do(E("usr0", {"k": "create_bucket", "id": 1}, funds), "malformed")
    for a in (G(), G(n=[["uatom", 0]]), G(n=[["uatom", 1], ["uosmo", 2], ["uatom", 1]]), G(c=[[CW20A, 0]]), G(c=[[CW20A, 1], [CW20B, 2], [CW20A, 3]]),
              G(f=[[COLL1, "1"], [COLL1, "1"]]), G(c=[["x", 1]]), G(f=[["USR0", "1"]]),
              G(n=[["uatom", 2 ** 128]]), G(c=[[CW20A, 2 ** 128]]), G(n=[["uatom", 2 ** 128 - 1]], c=[[CW20A, 2 ** 128]]),
              G(n=[["d%02d" % i, 1] for i in range(26)]), G(n=[["d%02d" % i, 1] for i in range(24)], c=[[CW20A, 1]], f=[[COLL1, "1"]])):
        s.do(E("usr0", {"k": "create_listing", "id": 1, "ask": a, "wl": None}, [["uatom", 5]]), "malformed")
    s.do(E("usr0", {"k": "create_listing", "id": 1, "ask": G(n=[["d%02d" % i, 1] for i in range(23)], c=[[CW20A, 1]], f=[[COLL1, "1"]]), "wl": None}, [["uatom", 5]]), "valid")
    s.do(E("usr0", {"k": "change_ask", "id": 1, "ask": G(n=[["d%02d" % i, 1] for i in range(26)])}), "malformed")
    s.do(E("usr0", {"k": "change_ask", "id": 1, "ask": G(n=[["d%02d" % i, 2] for i in range(25)])}), "valid")
    # top up to 25 assets, the 26th is refused by each path
    s.do(E("usr0", {"k": "add_to_listing", "id": 1}, [["d%02d" % i, 3] for i in range(22)]), "valid")
    cw20_send(s, "usr0", CW20A, 5, {"k": "add_to_listing_cw20", "id": 1})
    nft_send(s, "usr0", COLL1, "1", {"k": "add_to_listing_cw721", "id": 1})      # 25
    s.do(E("usr0", {"k": "add_to_listing", "id": 1}, [["d30", 1]]), "malformed")
    cw20_send(s, "usr0", CW20B, 5, {"k": "add_to_listing_cw20", "id": 1})
    nft_send(s, "usr0", COLL2, "1", {"k": "add_to_listing_cw721", "id": 1})
    s.do(E("usr0", {"k": "add_to_listing", "id": 1}, [["uatom", 1], ["d00", 1]]), "valid")   # merges: still 25
    cw20_send(s, "usr0", CW20A, 5, {"k": "add_to_listing_cw20", "id": 1})
    bucket(s, "usr0", 2, [["d%02d" % i, 3] for i in range(23)])
    cw20_send(s, "usr0", CW20A, 5, {"k": "add_to_bucket_cw20", "id": 2})
    nft_send(s, "usr0", COLL2, "1", {"k": "add_to_bucket_cw721", "id": 2})       # 25
    s.do(E("usr0", {"k": "add_to_bucket", "id": 2}, [["d30", 1]]), "malformed")
    cw20_send(s, "usr0", CW20B, 5, {"k": "add_to_bucket_cw20", "id": 2})
    nft_send(s, "usr0", COLL3, "1", {"k": "add_to_bucket_cw721", "id": 2})
    s.do(E("usr0", {"k": "add_to_bucket", "id": 2}, [["d05", 10], ["d06", 10]]), "valid")
    # the same NFT sent twice (after getting it back)
    s.do(E("usr0", {"k": "remove_bucket", "id": 2}), "valid")
    nft_send(s, "usr0", COLL2, "1", {"k": "create_bucket_cw721", "id": 3})
    nft_send(s, "usr0", COLL2, "1", {"k": "add_to_bucket_cw721", "id": 3})      # no longer the owner: refused by the token
    # 26 denominations at creation (the cap is on top-ups and asks)
    s.do(E("usr0", {"k": "create_bucket", "id": 4}, [["d%02d" % i, 1] for i in range(26)]), "valid")
    s.do(E("usr0", {"k": "add_to_bucket", "id": 4}, [["d00", 1]]), "valid")
    s.do(E("usr0", {"k": "remove_bucket", "id": 4}), "valid")


def malformed_cfg():
    return world.default_cfg(extra_denoms=["d%02d" % i for i in range(31)])


def coins_on_every_message(s):
    """C19: every non-deposit message kind, valid in itself, with coins attached."""
    ask = G(n=[["uosmo", 7]])
    coins = [["uatom", 123]]
    listing(s, "usr0", 1, [["uatom", 5]], ask, finalize=False)
    s.do(E("usr0", {"k": "change_ask", "id": 1, "ask": ask}, coins), "funds_on_nondeposit")
    s.do(E("usr0", {"k": "finalize", "id": 1, "secs": 600}, coins), "funds_on_nondeposit")
    s.do(E("usr0", {"k": "finalize", "id": 1, "secs": 600}), "valid")
    bucket(s, "usr1", 1, [["uosmo", 7]])
    s.do(E("usr1", {"k": "buy", "lid": 1, "bid": 1}, coins), "funds_on_nondeposit")
    buy(s, "usr1", 1, 1)
    s.do(E("usr1", {"k": "withdraw_purchased", "id": 1}, [["uatom", 1], ["uosmo", 2]]), "funds_on_nondeposit")
    s.do(E("usr0", {"k": "remove_bucket", "id": 1}, coins), "funds_on_nondeposit")
    listing(s, "usr2", 2, [["uatom", 5]], ask, finalize=False)
    s.do(E("usr2", {"k": "delete_listing", "id": 2}, coins), "funds_on_nondeposit")
    adv(s, 604801)
    s.do(E("usr3", {"k": "fee_cycle"}, coins), "funds_on_nondeposit")
    s.do(E("usr3", {"k": "fee_cycle"}), "valid")
    s.do(E("usr3", {"k": "receive", "sender": "usr3", "amount": 5, "inner": {"k": "create_bucket_cw20", "id": 9}}, coins), "funds_on_nondeposit")
    s.do(E("usr3", {"k": "receive_nft", "sender": "usr3", "token_id": "1", "inner": {"k": "create_bucket_cw721", "id": 9}}, coins), "funds_on_nondeposit")
    # the hooks called by a *contract* that forwards coins with the callback (a payable token / router): refused,
    # although the same calls without coins are accepted
    s.do({"t": "bank_send", "user": "usr3", "to": HOSTILE, "coins": [["uatom", 500], ["ujunox", 500]]}, "valid")
    s.do(E(HOSTILE, {"k": "receive", "sender": "usr3", "amount": 5, "inner": {"k": "create_bucket_cw20", "id": 9}}, coins), "funds_on_nondeposit")
    s.do(E(HOSTILE, {"k": "receive_nft", "sender": "usr3", "token_id": "1", "inner": {"k": "create_bucket_cw721", "id": 10}}, coins), "funds_on_nondeposit")
    s.do(E(HOSTILE, {"k": "receive_nft", "sender": "usr3", "token_id": "1", "inner": {"k": "create_listing_cw721", "id": 11, "ask": ask, "wl": None}},
           [["ujunox", 7], ["uatom", 1]]), "funds_on_nondeposit")
    s.do(E(HOSTILE, {"k": "receive", "sender": "usr3", "amount": 5, "inner": {"k": "create_bucket_cw20", "id": 9}}), "hostile")
    s.do(E(HOSTILE, {"k": "receive_nft", "sender": "usr3", "token_id": "1", "inner": {"k": "create_bucket_cw721", "id": 10}}), "hostile")
    s.do(E(HOSTILE, {"k": "receive_nft", "sender": "usr3", "token_id": "2", "inner": {"k": "add_to_bucket_cw721", "id": 10}}, coins), "funds_on_nondeposit")
    s.do(E(HOSTILE, {"k": "receive", "sender": "usr3", "amount": 6, "inner": {"k": "add_to_bucket_cw20", "id": 9}}, coins), "funds_on_nondeposit")
    s.do(E("usr1", {"k": "withdraw_purchased", "id": 1}), "valid")
    s.do(E("usr0", {"k": "remove_bucket", "id": 1}), "valid")
    s.do(E("usr2", {"k": "delete_listing", "id": 2}), "valid")
    # a *contract* (a treasury, a DAO) that owns records of its own sends every non-deposit message kind with coins attached:
    # refused like anybody else's; the same messages without coins go through
    H = HOSTILE
    s.do(E(H, {"k": "create_listing", "id": 20, "ask": ask, "wl": None}, [["uatom", 5]]), "hostile")
    s.do(E(H, {"k": "change_ask", "id": 20, "ask": ask}, coins), "funds_on_nondeposit")
    s.do(E(H, {"k": "finalize", "id": 20, "secs": 600}, coins), "funds_on_nondeposit")
    s.do(E(H, {"k": "finalize", "id": 20, "secs": 600}), "hostile")
    s.do(E(H, {"k": "create_bucket", "id": 21}, [["uosmo", 7]]), "hostile")
    s.do(E(H, {"k": "remove_bucket", "id": 21}, coins), "funds_on_nondeposit")
    s.do(E(H, {"k": "buy", "lid": 20, "bid": 21}, coins), "funds_on_nondeposit")
    s.do(E(H, {"k": "buy", "lid": 20, "bid": 21}), "hostile")
    s.do(E(H, {"k": "withdraw_purchased", "id": 20}, coins), "funds_on_nondeposit")
    s.do(E(H, {"k": "withdraw_purchased", "id": 20}), "hostile")
    s.do(E(H, {"k": "remove_bucket", "id": 21}), "hostile")
    s.do(E(H, {"k": "fee_cycle"}, coins), "funds_on_nondeposit")


def hostile_hooks(s):
    """C18: forged-sender hook calls against records in every lifecycle state."""
    ask = G(n=[["uosmo", 7]])
    listing(s, "usr0", 1, [["uatom", 5]], ask, finalize=False)     # preparing
    listing(s, "usr0", 2, [["uatom", 5]], ask)                     # finalized
    listing(s, "usr0", 3, [["uatom", 5]], ask)
    bucket(s, "usr1", 1, [["uosmo", 7]])
    bucket(s, "usr1", 2, [["uosmo", 7]])
    buy(s, "usr1", 3, 1)                                           # listing 3 sold, bucket 1 traded
    for fail in (False, True):
        s.do({"t": "hostile_fail", "on": fail}, "valid")
        for hook in ("receive", "receive_nft"):
            suf = "_cw20" if hook == "receive" else "_cw721"
            for victim, inner in (("usr0", {"k": "add_to_listing" + suf, "id": 2}), ("usr1", {"k": "add_to_listing" + suf, "id": 3}),
                                  ("usr0", {"k": "add_to_bucket" + suf, "id": 1}), ("usr1", {"k": "add_to_bucket" + suf, "id": 1}),
                                  ("usr0", {"k": "add_to_bucket" + suf, "id": 2}), ("usr0", None),
                                  ("x", {"k": "add_to_bucket" + suf, "id": 2})):
                m = {"k": hook, "sender": victim, "inner": inner}
                if hook == "receive":
                    m["amount"] = 5
                else:
                    m["token_id"] = "7"
                s.do(E(HOSTILE, m), "hostile")
        for k, m in (("finalize", {"k": "finalize", "id": 1, "secs": 600}), ("delete", {"k": "delete_listing", "id": 1}),
                     ("remove", {"k": "remove_bucket", "id": 2}), ("buy", {"k": "buy", "lid": 2, "bid": 2}),
                     ("withdraw", {"k": "withdraw_purchased", "id": 3}), ("cycle", {"k": "fee_cycle"})):
            s.do(E(HOSTILE, m), "hostile")
    s.do({"t": "hostile_fail", "on": False}, "valid")


def hostile_recreate(s):
    """C18: forged-sender *create* calls naming ids that already belong to the forged sender, for records created on
    every deposit path (coins, CW20 hook, NFT hook) and in every lifecycle state."""
    ask = G(n=[["uosmo", 7]])
    listing(s, "usr0", 1, [["uatom", 5]], ask, finalize=False)                                            # coins, preparing
    nft_send(s, "usr0", COLL1, "1", {"k": "create_listing_cw721", "id": 2, "ask": ask, "wl": None})       # NFT hook, preparing
    nft_send(s, "usr0", COLL1, "6", {"k": "create_listing_cw721", "id": 3, "ask": ask, "wl": None})       # NFT hook, finalized
    s.do(E("usr0", {"k": "finalize", "id": 3, "secs": 3600}), "valid")
    nft_send(s, "usr0", COLL2, "1", {"k": "create_listing_cw721", "id": 4, "ask": ask, "wl": None})       # NFT hook, sold
    s.do(E("usr0", {"k": "finalize", "id": 4, "secs": 3600}), "valid")
    cw20_send(s, "usr0", CW20A, 9, {"k": "create_listing_cw20", "id": 5, "ask": ask, "wl": None})         # CW20 hook, finalized
    s.do(E("usr0", {"k": "finalize", "id": 5, "secs": 3600}), "valid")
    bucket(s, "usr1", 1, [["uosmo", 7]])                                                                  # coins
    nft_send(s, "usr1", COLL2, "2", {"k": "create_bucket_cw721", "id": 2})                                # NFT hook
    cw20_send(s, "usr1", CW20A, 4, {"k": "create_bucket_cw20", "id": 3})                                  # CW20 hook
    bucket(s, "usr1", 4, [["uosmo", 7]])
    buy(s, "usr1", 4, 4)                                       # listing 4 -> usr1 (sold), bucket 4 -> usr0 (traded)
    for hook in ("receive", "receive_nft"):
        suf = "_cw20" if hook == "receive" else "_cw721"
        targets = [("usr0", "listing", i) for i in (1, 2, 3, 5)] + [("usr1", "listing", 4), ("usr0", "listing", 4)]
        targets += [("usr1", "bucket", i) for i in (1, 2, 3)] + [("usr0", "bucket", 4), ("usr1", "bucket", 4)]
        for victim, kind, rid in targets:
            inner = {"k": "create_%s%s" % (kind, suf), "id": rid}
            if kind == "listing":
                inner.update({"ask": ask, "wl": None})
            m = {"k": hook, "sender": victim, "inner": inner}
            if hook == "receive":
                m["amount"] = 1
            else:
                m["token_id"] = "7"
            s.do(E(HOSTILE, m), "hostile")
    # every record is still where it was and leaves as usual
    s.do(E("usr1", {"k": "withdraw_purchased", "id": 4}), "valid")
    s.do(E("usr0", {"k": "remove_bucket", "id": 4}), "valid")
    s.do(E("usr0", {"k": "delete_listing", "id": 2}), "valid")


def hook_edge_inputs(s):
    """Inputs that only a hook can carry (found unexecuted by tools/coverage.py): a whitelisted buyer equal to the
    creator on the NFT path, an unparsable whitelisted buyer, and a zero CW20 amount (an honest token refuses to send
    zero, so only a contract calling Receive directly can deliver it)."""
    ask = G(n=[["uosmo", 7]])
    nft_send(s, "usr0", COLL1, "1", {"k": "create_listing_cw721", "id": 1, "ask": ask, "wl": "usr0"})     # refused: own buyer
    nft_send(s, "usr0", COLL1, "1", {"k": "create_listing_cw721", "id": 1, "ask": ask, "wl": "x"})        # refused: bad address
    nft_send(s, "usr0", COLL1, "1", {"k": "create_listing_cw721", "id": 1, "ask": ask, "wl": "usr1"})
    cw20_send(s, "usr0", CW20A, 5, {"k": "create_listing_cw20", "id": 2, "ask": ask, "wl": "usr0"})       # refused
    cw20_send(s, "usr0", CW20A, 5, {"k": "create_listing_cw20", "id": 2, "ask": ask, "wl": "usr1"})
    cw20_send(s, "usr0", CW20A, 0, {"k": "add_to_listing_cw20", "id": 2})                                 # the token refuses zero
    bucket(s, "usr1", 1, [["uosmo", 7]])
    for victim, inner in (("usr1", {"k": "create_bucket_cw20", "id": 5}), ("usr1", {"k": "add_to_bucket_cw20", "id": 1}),
                          ("usr0", {"k": "add_to_listing_cw20", "id": 2}),
                          ("usr0", {"k": "create_listing_cw20", "id": 6, "ask": ask, "wl": None})):
        s.do(E(HOSTILE, {"k": "receive", "sender": victim, "amount": 0, "inner": inner}), "hostile")      # all refused
    buy(s, "usr1", 77, 1)                                           # own bucket, a listing id that does not exist: refused
    buy(s, "usr1", 1, 1)                                            # listing 1 not finalized yet: refused
    s.do(E("usr0", {"k": "finalize", "id": 1, "secs": 600}), "valid")
    bucket(s, "usr2", 3, [["uosmo", 7]])
    buy(s, "usr2", 1, 3)                                            # the NFT-created listing is reserved for usr1: refused
    s.do(E("usr0", {"k": "finalize", "id": 2, "secs": 600}), "valid")
    buy(s, "usr2", 2, 3)                                            # so is the CW20-created one
    buy(s, "usr1", 1, 1)


def R(op, prog):
    """the operation with a re-entry program: what the hostile contract does when the marketplace hands it a transfer"""
    op = dict(op)
    op["reentry"] = prog
    return op


def reentrant_withdrawal(s):
    """Re-entrancy (model/Reentry.v): the hostile contract holds a bucket of coins, its own "token" and an honest NFT.
    Withdrawing it makes the marketplace send, in this order, the coins, the hostile token (the contract's handler
    runs and calls the marketplace again while the NFT is still in flight) and the NFT."""
    H = HOSTILE
    s.do({"t": "bank_send", "user": "usr0", "to": H, "coins": [["ujunox", 500]]}, "valid")
    s.do({"t": "nft_transfer", "user": "usr0", "coll": COLL1, "token_id": "1", "to": H}, "valid")
    s.do(E(H, {"k": "create_bucket", "id": 1}, [["ujunox", 100]]), "hostile")
    s.do(E(H, {"k": "receive", "sender": H, "amount": 5, "inner": {"k": "add_to_bucket_cw20", "id": 1}}), "hostile")
    nft_send(s, H, COLL1, "1", {"k": "add_to_bucket_cw721", "id": 1})
    bucket(s, "usr1", 2, [["uosmo", 7]])
    listing(s, "usr0", 3, [["uatom", 5]], G(n=[["ujunox", 450]]))
    prog = [E(H, {"k": "remove_bucket", "id": 1}),                                   # again: the record is gone already
            E(H, {"k": "create_bucket", "id": 4}, [["ujunox", 450]]),                 # paid with coins that arrived a moment ago
            E(H, {"k": "buy", "lid": 3, "bid": 4}),                                   # a whole purchase inside the withdrawal
            E(H, {"k": "receive", "sender": "usr1", "amount": 1, "inner": {"k": "add_to_bucket_cw20", "id": 2}}),   # forged top-up (F1)
            E(H, {"k": "withdraw_purchased", "id": 3}),
            E(H, {"k": "create_bucket", "id": 5}, [["ujunox", 10 ** 9]])]             # more than it has: refused, swallowed
    # the NFT transfer (message 2) fails after the re-entrant calls have run: everything is undone, theirs included
    s.do(R(E(H, {"k": "remove_bucket", "id": 1}, fail=2), prog), "fault")
    # the hostile transfer itself fails: the program never runs
    s.do({"t": "hostile_fail", "on": True}, "valid")
    s.do(R(E(H, {"k": "remove_bucket", "id": 1}), prog), "hostile")
    s.do({"t": "hostile_fail", "on": False}, "valid")
    s.do(R(E(H, {"k": "remove_bucket", "id": 1}), prog), "hostile")
    s.do(R(E(H, {"k": "remove_bucket", "id": 1}), prog), "hostile")                  # refused: no program runs either
    s.do(E("usr0", {"k": "remove_bucket", "id": 4}), "valid")
    # the classic: other people's coins of the same denomination are in escrow, the hostile contract's record holds coins and
    # its token only, and while being paid out it asks to be paid out again (and again through a different message kind)
    bucket(s, "usr2", 10, [["ujunox", 1000]])
    bucket(s, "usr3", 11, [["ujunox", 700], ["uatom", 5]])
    s.do(E(H, {"k": "create_bucket", "id": 12}, [["ujunox", 40]]), "hostile")
    s.do(E(H, {"k": "receive", "sender": H, "amount": 1, "inner": {"k": "add_to_bucket_cw20", "id": 12}}), "hostile")
    s.do(R(E(H, {"k": "remove_bucket", "id": 12}), [E(H, {"k": "remove_bucket", "id": 12}), E(H, {"k": "remove_bucket", "id": 12}),
                                                    E(H, {"k": "add_to_bucket", "id": 12}, [["ujunox", 1]])]), "hostile")
    # the same for a purchased listing claimed by the hostile contract: goods = coins + its own token
    listing(s, "usr0", 13, [["ujunox", 300]], G(n=[["uatom", 2]]), finalize=False)
    s.do(E(H, {"k": "receive", "sender": "usr0", "amount": 1, "inner": {"k": "add_to_listing_cw20", "id": 13}}), "hostile")   # forged top-up (F1)
    s.do(E("usr0", {"k": "finalize", "id": 13, "secs": 600}), "valid")
    s.do({"t": "bank_send", "user": "usr1", "to": H, "coins": [["uatom", 2]]}, "valid")
    s.do(E(H, {"k": "create_bucket", "id": 14}, [["uatom", 2]]), "hostile")
    s.do(E(H, {"k": "buy", "lid": 13, "bid": 14}), "hostile")
    s.do(R(E(H, {"k": "withdraw_purchased", "id": 13}), [E(H, {"k": "withdraw_purchased", "id": 13}), E(H, {"k": "delete_listing", "id": 13})]), "hostile")


def reentrant_royalty(s):
    """Re-entrancy during a purchase between two honest users: the buyer's bucket carries a hostile "token" (forged
    top-up, F1) which the ask names, the listing holds an NFT of a registered collection, so the royalty on the hostile
    token is a transfer request to the hostile contract in the middle of the purchase."""
    H = HOSTILE
    s.do({"t": "bank_send", "user": "usr2", "to": H, "coins": [["ujunox", 300]]}, "valid")
    reg(s, COLL1, 100, "usr5")
    ask = G(n=[["ujunox", 10000]], c=[[H, 1000]])
    nft_send(s, "usr0", COLL1, "1", {"k": "create_listing_cw721", "id": 1, "ask": ask, "wl": None})
    s.do(E("usr0", {"k": "finalize", "id": 1, "secs": 600}), "valid")
    bucket(s, "usr1", 1, [["ujunox", 10000]])
    s.do(E(H, {"k": "receive", "sender": "usr1", "amount": 1000, "inner": {"k": "add_to_bucket_cw20", "id": 1}}), "hostile")
    bucket(s, "usr3", 2, [["uosmo", 7]])
    prog = [E(H, {"k": "withdraw_purchased", "id": 1}),                               # not the buyer: refused
            E(H, {"k": "receive", "sender": "usr1", "amount": 1, "inner": {"k": "add_to_listing_cw20", "id": 1}}),  # sold: refused
            E(H, {"k": "receive", "sender": "usr0", "amount": 3, "inner": {"k": "add_to_bucket_cw20", "id": 1}}),   # the seller's proceeds (F1)
            E(H, {"k": "create_bucket", "id": 7}, [["ujunox", 300]]),
            E(H, {"k": "fee_cycle"}),
            E(H, {"k": "receive_nft", "sender": "usr3", "token_id": "9", "inner": {"k": "add_to_bucket_cw721", "id": 2}})]
    s.do(R(E("usr1", {"k": "buy", "lid": 1, "bid": 1}, fail=0), prog), "fault")       # the royalty in coins fails: no re-entry at all
    s.do(R(E("usr1", {"k": "buy", "lid": 1, "bid": 1}), prog), "valid")
    # the seller's proceeds: coins, hostile token (re-entry), then the pool fee - which fails: the re-entrant withdrawal is undone too
    s.do(R(E("usr0", {"k": "remove_bucket", "id": 1}, fail=2), [E(H, {"k": "remove_bucket", "id": 7})]), "fault")
    s.do(R(E("usr0", {"k": "remove_bucket", "id": 1}), [E(H, {"k": "remove_bucket", "id": 7})]), "valid")
    s.do(E(H, {"k": "remove_bucket", "id": 7}), "hostile")                            # gone
    s.do(E("usr1", {"k": "withdraw_purchased", "id": 1}), "valid")


def reentrant_in_flight(s):
    """Re-entrancy: what the re-entrant call can and cannot use depends on which messages have been delivered.  The hostile
    contract's bucket holds its own token first and an honest CW20 second, so during the re-entry the honest tokens are
    still in flight: sending them back at that moment fails; after the transaction it works."""
    H = HOSTILE
    s.do({"t": "cw20_transfer", "user": "usr0", "token": CW20A, "to": H, "amount": 7}, "valid")
    s.do({"t": "nft_transfer", "user": "usr0", "coll": COLL1, "token_id": "1", "to": H}, "valid")
    s.do(E(H, {"k": "receive", "sender": H, "amount": 5, "inner": {"k": "create_bucket_cw20", "id": 1}}), "hostile")
    cw20_send(s, H, CW20A, 7, {"k": "add_to_bucket_cw20", "id": 1})
    nft_send(s, H, COLL1, "1", {"k": "add_to_bucket_cw721", "id": 1})
    prog = [{"t": "cw20_send", "user": H, "token": CW20A, "amount": 7, "inner": {"k": "create_bucket_cw20", "id": 2}},      # not yet delivered
            {"t": "nft_send", "user": H, "coll": COLL1, "token_id": "1", "inner": {"k": "create_bucket_cw721", "id": 3}},   # not yet delivered
            E(H, {"k": "receive", "sender": H, "amount": 2, "inner": {"k": "create_bucket_cw20", "id": 4}})]                # its own junk: accepted
    s.do(R(E(H, {"k": "remove_bucket", "id": 1}), prog), "hostile")
    cw20_send(s, H, CW20A, 7, {"k": "create_bucket_cw20", "id": 2})                    # now it has them
    # the other way round: an honest CW20 first, the hostile token second: the honest tokens have arrived when it re-enters
    s.do(E(H, {"k": "receive", "sender": H, "amount": 1, "inner": {"k": "add_to_bucket_cw20", "id": 2}}), "hostile")
    prog2 = [{"t": "cw20_send", "user": H, "token": CW20A, "amount": 7, "inner": {"k": "create_bucket_cw20", "id": 5}},
             E(H, {"k": "remove_bucket", "id": 5}),
             {"t": "cw20_send", "user": H, "token": CW20A, "amount": 3, "inner": {"k": "create_bucket_cw20", "id": 6}}]
    s.do(R(E(H, {"k": "remove_bucket", "id": 2}), prog2), "hostile")


def reentrant_depth_two(s):
    """Re-entrancy nested two and three levels deep (model/ReentryDeep.v, the scenario of C01_deep_reentry_hyps_met): the hostile
    contract withdraws bucket 1, is handed its own token, withdraws bucket 2, is handed *that* token, and opens a bucket that it
    can only afford because both payouts have arrived; a nested call whose own nested call fails; a nested call that is not
    re-entered leaves nothing armed for its sibling or for the outer dispatch; the outer transaction failing afterwards."""
    H = HOSTILE
    s.do({"t": "bank_send", "user": "usr3", "to": H, "coins": [["uatom", 500]]}, "valid")
    def two_buckets():
        s.do(E(H, {"k": "create_bucket", "id": 1}, [["uatom", 100]]), "hostile")
        s.do(E(H, {"k": "receive", "sender": H, "amount": 5, "inner": {"k": "add_to_bucket_cw20", "id": 1}}), "hostile")
        s.do(E(H, {"k": "create_bucket", "id": 2}, [["uatom", 50]]), "hostile")
        s.do(E(H, {"k": "receive", "sender": H, "amount": 3, "inner": {"k": "add_to_bucket_cw20", "id": 2}}), "hostile")
    two_buckets()
    # 350 left; 490 is affordable only after 100 + 50 have come back
    deep = [R(E(H, {"k": "remove_bucket", "id": 2}), [E(H, {"k": "create_bucket", "id": 4}, [["uatom", 490]])])]
    # first with the outer token transfer failing after everything: all of it is undone
    with_faults(s, R(E(H, {"k": "remove_bucket", "id": 1}), deep))
    s.do(E(H, {"k": "remove_bucket", "id": 4}), "hostile")
    # three levels; the innermost call is refused (bucket 2 is gone by then) and a sibling follows it
    s.do(E(H, {"k": "create_bucket", "id": 5}, [["uatom", 100]]), "hostile")
    s.do(E(H, {"k": "receive", "sender": H, "amount": 5, "inner": {"k": "add_to_bucket_cw20", "id": 5}}), "hostile")
    s.do(E(H, {"k": "create_bucket", "id": 6}, [["uatom", 50]]), "hostile")
    s.do(E(H, {"k": "receive", "sender": H, "amount": 3, "inner": {"k": "add_to_bucket_cw20", "id": 6}}), "hostile")
    s.do(E(H, {"k": "create_bucket", "id": 7}, [["uatom", 20]]), "hostile")
    s.do(E(H, {"k": "receive", "sender": H, "amount": 1, "inner": {"k": "add_to_bucket_cw20", "id": 7}}), "hostile")
    l3 = [R(E(H, {"k": "remove_bucket", "id": 7}), [E(H, {"k": "remove_bucket", "id": 6}),            # refused: being withdrawn / gone
                                                     E(H, {"k": "create_bucket", "id": 8}, [["uatom", 400]])]),
          E(H, {"k": "create_bucket", "id": 9}, [["uatom", 10]])]
    l2 = [R(E(H, {"k": "remove_bucket", "id": 6}), l3),
          R(E(H, {"k": "create_bucket", "id": 10}, [["uatom", 1]]), [E(H, {"k": "create_bucket", "id": 11}, [["uatom", 1]])])]   # never re-entered: its program must not run later
    s.do(R(E(H, {"k": "remove_bucket", "id": 5}), l2), "hostile")
    # a program armed for a call that is not re-entered must not fire in a later, plain transaction either
    s.do(E(H, {"k": "remove_bucket", "id": 8}), "hostile")
    s.do(E(H, {"k": "remove_bucket", "id": 9}), "hostile")
    s.do(E(H, {"k": "remove_bucket", "id": 10}), "hostile")
    s.do(E(H, {"k": "remove_bucket", "id": 11}), "hostile")      # refused: never created


def royalty_many_collections_cfg():
    return world.default_cfg(n_cw20=1, n_cw721=25, hostile=False, tokens_per_coll=3)


def royalty_many_collections(s):
    """C11 / C14 / C06: more than twenty registered collections on one side (a record holds up to 25 assets): the cap counts
    every one of them, the batched lookup answers every one of them."""
    colls = s.by_kind("cw721")  # 25 collections; the last has no admin
    for c in colls[:24]:
        reg(s, c, 250 if c != colls[23] else 10)
    # 21 collections at 250 bps = 5250: refused (the first 20 alone would be exactly 5000)
    s.do({"t": "nft_send", "user": "usr0", "coll": colls[0], "token_id": "1",
          "inner": {"k": "create_listing_cw721", "id": 1, "ask": G(n=[["ujunox", 10000]]), "wl": None}}, "valid")
    for c in colls[1:21]:
        nft_send(s, "usr0", c, "1", {"k": "add_to_listing_cw721", "id": 1})
    s.do(E("usr0", {"k": "finalize", "id": 1, "secs": 86400}), "valid")
    bucket(s, "usr1", 1, [["ujunox", 10000]])
    buy(s, "usr1", 1, 1)                                               # 5250: refused
    # 20 collections at 250 (5000) + the 10-bps one would be 5010: refused; without it exactly 50 %: allowed, 20 payouts
    s.do({"t": "nft_send", "user": "usr1", "coll": colls[0], "token_id": "2",
          "inner": {"k": "create_listing_cw721", "id": 2, "ask": G(n=[["ujunox", 10000]]), "wl": None}}, "valid")
    for c in colls[1:20] + [colls[24]]:
        nft_send(s, "usr1", c, "2", {"k": "add_to_listing_cw721", "id": 2})
    s.do(E("usr1", {"k": "finalize", "id": 2, "secs": 86400}), "valid")
    bucket(s, "usr2", 2, [["ujunox", 10000]])
    with_faults(s, E("usr2", {"k": "buy", "lid": 2, "bid": 2}))        # 20 x 250 + an unregistered one: allowed
    # the buyer's side: 22 collections of which the last two in address order are the registered ones that tip it over
    listing(s, "usr3", 3, [["ujunox", 3]], G(f=[[c, "3"] for c in colls[2:24]]), secs=86400)
    s.do({"t": "nft_send", "user": "usr2", "coll": colls[2], "token_id": "3", "inner": {"k": "create_bucket_cw721", "id": 3}}, "valid")
    for c in colls[3:24]:
        nft_send(s, "usr2", c, "3", {"k": "add_to_bucket_cw721", "id": 3})
    buy(s, "usr2", 3, 3)                                               # 21 x 250 + 10 = 5260 on the buyer side: refused


def nft_duplicates_via_hook(s):
    """C12 / C02: the same NFT delivered twice to one record, with another NFT in between (an honest collection cannot do
    that; a contract calling ReceiveNft directly can): refused — otherwise a bucket [n, m, n] would pass for an ask [n, m, k]."""
    H = HOSTILE
    ask = G(f=[[H, "7"], [COLL1, "2"], [COLL2, "2"]])
    listing(s, "usr0", 1, [["uatom", 5]], ask, secs=3600)
    s.do(E(H, {"k": "receive_nft", "sender": "usr1", "token_id": "7", "inner": {"k": "create_bucket_cw721", "id": 1}}), "hostile")
    nft_send(s, "usr1", COLL1, "2", {"k": "add_to_bucket_cw721", "id": 1})
    s.do(E(H, {"k": "receive_nft", "sender": "usr1", "token_id": "7", "inner": {"k": "add_to_bucket_cw721", "id": 1}}), "hostile")   # duplicate, not adjacent: refused
    buy(s, "usr1", 1, 1)                                               # two of three asked NFTs: refused
    # the same on a listing in preparation, and an adjacent duplicate
    s.do(E(H, {"k": "receive_nft", "sender": "usr2", "token_id": "8", "inner": {"k": "create_listing_cw721", "id": 2, "ask": G(n=[["uosmo", 1]]), "wl": None}}), "hostile")
    s.do(E(H, {"k": "receive_nft", "sender": "usr2", "token_id": "8", "inner": {"k": "add_to_listing_cw721", "id": 2}}), "hostile")   # adjacent duplicate: refused
    s.do(E(H, {"k": "receive_nft", "sender": "usr2", "token_id": "9", "inner": {"k": "add_to_listing_cw721", "id": 2}}), "hostile")
    s.do(E(H, {"k": "receive_nft", "sender": "usr2", "token_id": "8", "inner": {"k": "add_to_listing_cw721", "id": 2}}), "hostile")   # not adjacent: refused
    nft_send(s, "usr1", COLL2, "2", {"k": "add_to_bucket_cw721", "id": 1})
    buy(s, "usr1", 1, 1)                                               # now the bucket matches


def hostile_freeze(s):
    """F1 (known finding): a forged top-up freezes the victim's bucket."""
    ask = G(n=[["uosmo", 7]])
    listing(s, "usr0", 1, [["uatom", 5]], ask)
    bucket(s, "usr1", 1, [["uosmo", 7]])
    s.do(E(HOSTILE, {"k": "receive", "sender": "usr1", "amount": 5, "inner": {"k": "add_to_bucket_cw20", "id": 1}}), "hostile")
    s.do({"t": "hostile_fail", "on": True}, "valid")
    buy(s, "usr1", 1, 1)                                                   # no longer matches the ask
    s.do(E("usr1", {"k": "remove_bucket", "id": 1}), "valid")             # the hostile transfer fails
    listing(s, "usr2", 2, [["uatom", 5]], ask, finalize=False)
    s.do(E(HOSTILE, {"k": "receive_nft", "sender": "usr2", "token_id": "9", "inner": {"k": "add_to_listing_cw721", "id": 2}}), "hostile")
    s.do(E("usr2", {"k": "delete_listing", "id": 2}), "valid")
    s.do({"t": "hostile_fail", "on": False}, "valid")


def big_amounts_cfg():
    # per-denomination supplies stay below 2^128 (cfg_ok)
    return world.default_cfg(rich=[("usr0", "ujunox", 2 ** 126 + 2 ** 125), ("usr1", "ujunox", 2 ** 127 - 1), ("usr0", "uatom", 2 ** 128 - 1 - 5 * 10 ** 15)])


def big_amounts(s):
    """C17 / C12 / C06 / C02: amounts near 2^128 through real purchases (fee and royalty on them); Uint128 overflow on a top-up."""
    a = 2 ** 127 - 1
    reg(s, COLL1, 300, "usr5")
    reg(s, COLL2, 10, "usr4")
    # royalties of 3 % and 0.1 % on 2^126 (amount * bps exceeds 2^128): paid by the bucket side for the listing's NFTs
    nft_send(s, "usr1", COLL1, "2", {"k": "create_listing_cw721", "id": 9, "ask": G(n=[["ujunox", 2 ** 126]]), "wl": None})
    nft_send(s, "usr1", COLL2, "2", {"k": "add_to_listing_cw721", "id": 9})
    s.do(E("usr1", {"k": "finalize", "id": 9, "secs": 600}), "valid")
    bucket(s, "usr0", 9, [["ujunox", 2 ** 126]])
    buy(s, "usr0", 9, 9)
    s.do(E("usr1", {"k": "remove_bucket", "id": 9}), "valid")
    s.do(E("usr0", {"k": "withdraw_purchased", "id": 9}), "valid")
    listing(s, "usr0", 1, [["ujunox", 2 ** 125], ["uatom", 2 ** 128 - 1 - 5 * 10 ** 15]], G(n=[["ujunox", a]]))
    bucket(s, "usr1", 1, [["ujunox", a]])
    buy(s, "usr1", 1, 1)
    s.do(E("usr0", {"k": "remove_bucket", "id": 1}), "valid")
    s.do(E("usr1", {"k": "withdraw_purchased", "id": 1}), "valid")
    bucket(s, "usr1", 2, [["uatom", 2 ** 128 - 1 - 4 * 10 ** 15]])
    s.do(E("usr1", {"k": "add_to_bucket", "id": 2}, [["uatom", 10 ** 15]]), "valid")
    # Uint128 overflow on a top-up is only reachable with amounts no honest ledger can hold: forged by a hostile token
    s.do(E(HOSTILE, {"k": "receive", "sender": "usr3", "amount": 2 ** 128 - 1, "inner": {"k": "create_bucket_cw20", "id": 7}}), "hostile")
    s.do(E(HOSTILE, {"k": "receive", "sender": "usr3", "amount": 1, "inner": {"k": "add_to_bucket_cw20", "id": 7}}), "hostile")
    s.do(E(HOSTILE, {"k": "receive", "sender": "usr3", "amount": 2 ** 128, "inner": {"k": "add_to_bucket_cw20", "id": 7}}), "hostile")
    # an amount of exactly 2^128 does not fit the message at all - also where the inner message would otherwise be fine
    # (found unexercised by tools/modelmut.py)
    s.do(E(HOSTILE, {"k": "receive", "sender": "usr3", "amount": 2 ** 128, "inner": {"k": "create_bucket_cw20", "id": 8}}), "hostile")
    s.do(E(HOSTILE, {"k": "receive", "sender": "usr3", "amount": 2 ** 128 - 1, "inner": {"k": "create_bucket_cw20", "id": 8}}), "hostile")


def queries_pages_cfg():
    return world.default_cfg(t0=1_700_000_000_999_999_999)


def queries_pages(s):
    """C16: an owner with 21 / 41 records, whitelist, listing expired 0.1 s ago."""
    ask = G(n=[["uosmo", 7]])
    for i in range(1, 42):
        s.do(E("usr0", {"k": "create_bucket", "id": i}, [["uatom", i]]), "valid")
    for i in range(1, 22):
        listing(s, "usr1", i, [["uatom", i]], ask, secs=600 + i, wl="usr2" if i % 5 == 0 else None)
    listing(s, "usr2", 30, [["uatom", 1]], ask, secs=600)
    bucket(s, "usr3", 50, [["uosmo", 7]])
    buy(s, "usr3", 30, 50)
    adv(s, 600, 100_000_000)      # listing 1 of usr1 expired 0.1 s ago (600 s + 0.1 s after its finalisation)


def queries_many_records_cfg():
    return world.default_cfg(n_cw20=1, n_cw721=1, hostile=False, traders=2, tokens_per_coll=1)


def queries_many_records(s):
    """C16: an owner with more records than twelve pages hold (262 buckets, 20 per page): pages 13, 14
    and beyond must continue the enumeration, every record exactly once, empty pages after the data."""
    for i in range(1, 263):
        s.do(E("usr0", {"k": "create_bucket", "id": i}, [["uatom", 1]]), "valid")
    listing(s, "usr1", 1, [["uatom", 1]], G(n=[["uosmo", 7]]), secs=600)


def count_truncation_cfg():
    return world.default_cfg(n_cw20=1, n_cw721=1, hostile=False, traders=2, tokens_per_coll=1, extra_denoms=["x%03d" % i for i in range(282)])


def count_truncation(s):
    """C12: the 25-asset cap with counts whose low 8 bits look legal (256 .. 281 items): asks at creation and by ChangeAsk,
    top-ups of a listing and of a bucket that would bring the record to 256 + r distinct assets."""
    xs = lambda n, a=1: [["x%03d" % i, a] for i in range(n)]
    for n in (256, 257, 281, 282):
        s.do(E("usr0", {"k": "create_listing", "id": 1, "ask": G(n=xs(n)), "wl": None}, [["uatom", 5]]), "malformed")
    s.do(E("usr0", {"k": "create_listing", "id": 1, "ask": G(n=xs(25)), "wl": None}, [["uatom", 5]]), "valid")
    for n in (256, 270, 281):
        s.do(E("usr0", {"k": "change_ask", "id": 1, "ask": G(n=xs(n, 2))}), "malformed")
    s.do(E("usr0", {"k": "add_to_listing", "id": 1}, xs(255)), "malformed")      # 1 + 255 = 256 distinct assets
    s.do(E("usr0", {"k": "add_to_listing", "id": 1}, xs(256)), "malformed")      # 257
    s.do(E("usr0", {"k": "add_to_listing", "id": 1}, xs(280)), "malformed")      # 281
    s.do(E("usr0", {"k": "add_to_listing", "id": 1}, xs(24)), "valid")           # 25
    bucket(s, "usr1", 1, [["uatom", 5]])
    s.do(E("usr1", {"k": "add_to_bucket", "id": 1}, xs(255)), "malformed")
    s.do(E("usr1", {"k": "add_to_bucket", "id": 1}, xs(256)), "malformed")
    s.do(E("usr1", {"k": "add_to_bucket", "id": 1}, xs(24)), "valid")
    s.query_here()


def odd_amounts_and_denoms_cfg():
    rich = [("usr0", "uatom", 2 ** 70), ("usr1", "uatom", 2 ** 70), ("usr0", "uosmo", 2 ** 70)]
    return world.default_cfg(rich=rich, extra_denoms=["UATOM", "Uatom", "UJUNOX"])


def odd_amounts_and_denoms(s):
    """C19: non-deposit messages carrying coins whose amounts look like nothing in a narrower integer (multiples of 2^64 / 2^32,
    two coins that sum to 2^64).  C03 / C05 / C12 / C01: denominations that differ only in letter case are different assets -
    a top-up in "UATOM" does not raise the record's "uatom", and does not meet an ask in "uatom"."""
    ask = G(n=[["uatom", 200]])
    big = ([["uatom", 2 ** 64]], [["uatom", 2 ** 65]], [["uatom", 2 ** 32]], [["uatom", 2 ** 63], ["uosmo", 2 ** 63]],
           [["uatom", 2 ** 64 + 2 ** 32]], [["uatom", 3 * 2 ** 64]])
    listing(s, "usr0", 1, [["uosmo", 5]], ask, finalize=False)
    for c in big:
        s.do(E("usr0", {"k": "change_ask", "id": 1, "ask": ask}, c), "funds_on_nondeposit")
    s.do(E("usr0", {"k": "finalize", "id": 1, "secs": 600}, big[0]), "funds_on_nondeposit")
    s.do(E("usr0", {"k": "finalize", "id": 1, "secs": 600}), "valid")
    bucket(s, "usr0", 9, [["uosmo", 1]])
    for c in big:
        s.do(E("usr0", {"k": "remove_bucket", "id": 9}, c), "funds_on_nondeposit")
    s.do(E("usr0", {"k": "remove_bucket", "id": 9}), "valid")
    # case variants of a denomination
    bucket(s, "usr1", 1, [["uatom", 200]])                     # the honest buyer
    bucket(s, "usr2", 2, [["uatom", 100]])
    s.do(E("usr2", {"k": "add_to_bucket", "id": 2}, [["UATOM", 100]]), "valid")     # another asset, not 200 uatom
    s.query_here()
    buy(s, "usr2", 1, 2)                                       # refused: 100 uatom + another asset is not 200 uatom
    s.do(E("usr0", {"k": "remove_bucket", "id": 2}), "valid")  # refused: not the seller's (nothing was sold)
    s.do(E("usr2", {"k": "add_to_bucket", "id": 2}, [["Uatom", 1], ["uatom", 1]]), "valid")
    for c in big[:2]:
        s.do(E("usr1", {"k": "buy", "lid": 1, "bid": 1}, c), "funds_on_nondeposit")
    buy(s, "usr1", 1, 1)
    s.do(E("usr1", {"k": "withdraw_purchased", "id": 1}, big[0]), "funds_on_nondeposit")
    s.do(E("usr1", {"k": "withdraw_purchased", "id": 1}), "valid")
    s.do(E("usr0", {"k": "remove_bucket", "id": 1}), "valid")
    s.do(E("usr1", {"k": "remove_bucket", "id": 1}), "valid")  # refused: sold, no longer usr1's
    s.do(E("usr2", {"k": "remove_bucket", "id": 2}), "valid")
    # the fee denomination itself in another case is not the fee denomination: no fee on it, and an ask in it is another ask
    listing(s, "usr3", 3, [["UJUNOX", 10000], ["ujunox", 10000]], G(n=[["UJUNOX", 1000], ["ujunox", 1000]]))
    bucket(s, "usr4", 3, [["ujunox", 2000]])
    buy(s, "usr4", 3, 3)                                       # refused
    bucket(s, "usr4", 4, [["ujunox", 1000], ["UJUNOX", 1000]])
    buy(s, "usr4", 3, 4)
    s.do(E("usr4", {"k": "withdraw_purchased", "id": 3}), "valid")
    s.do(E("usr3", {"k": "remove_bucket", "id": 4}), "valid")
    adv(s, 604801)
    s.do(E("usr3", {"k": "fee_cycle"}, big[0]), "funds_on_nondeposit")
    s.do(E("usr3", {"k": "delete_listing", "id": 1}, big[0]), "funds_on_nondeposit")


def odd_token_ids_cfg():
    cfg = world.default_cfg()
    k = 0
    for c in cfg["contracts"]:
        if c["kind"] == "cw721":
            if k == 0:   # COLL1: ids that differ only in case / blanks / leading zeros / unicode normal form, next to plain "7"
                c["tokens"] = [["Dragon", "usr0"], ["dragon", "usr1"], ["DRAGON", "usr2"], [" 7", "usr1"], ["7", "usr0"],
                               ["7 ", "usr2"], ["07", "usr3"], ["7\t", "usr3"], ["\u00e9", "usr0"], ["e\u0301", "usr1"]]
            k += 1
    return cfg


def odd_token_ids(s):
    """C02 / C05 / C12 / C01: cw721 token ids are arbitrary strings.  Ids that differ only in letter case, surrounding blanks,
    leading zeros or unicode normal form are different tokens: a record names the token that was deposited, a payout moves
    that token, an ask is met by that token only, and two of them in one record are not duplicates."""
    reg(s, COLL1, 100, "usr5")
    # deposits through every NFT path: the record must name exactly the token that moved
    nft_send(s, "usr1", COLL1, " 7", {"k": "create_bucket_cw721", "id": 1})
    nft_send(s, "usr0", COLL1, "7", {"k": "create_bucket_cw721", "id": 2})
    nft_send(s, "usr2", COLL1, "7 ", {"k": "create_listing_cw721", "id": 1, "ask": G(n=[["uatom", 5]]), "wl": None})
    nft_send(s, "usr3", COLL1, "07", {"k": "add_to_bucket_cw721", "id": 3})          # no such bucket: refused
    bucket(s, "usr3", 3, [["uatom", 5]])
    nft_send(s, "usr3", COLL1, "07", {"k": "add_to_bucket_cw721", "id": 3})
    nft_send(s, "usr3", COLL1, "7\t", {"k": "add_to_bucket_cw721", "id": 3})         # not a duplicate of "07" or "7"
    s.query_here()
    # payouts: each owner gets their own token back
    s.do(E("usr1", {"k": "remove_bucket", "id": 1}), "valid")
    s.do(E("usr0", {"k": "remove_bucket", "id": 2}), "valid")
    s.do(E("usr3", {"k": "remove_bucket", "id": 3}), "valid")
    s.do(E("usr2", {"k": "delete_listing", "id": 1}), "valid")
    # asks: "dragon" is met by "dragon" only
    listing(s, "usr3", 5, [["uosmo", 9]], G(f=[[COLL1, "dragon"]]))
    nft_send(s, "usr0", COLL1, "Dragon", {"k": "create_bucket_cw721", "id": 5})
    buy(s, "usr0", 5, 5)                                                             # refused: another token
    nft_send(s, "usr2", COLL1, "DRAGON", {"k": "create_bucket_cw721", "id": 6})
    buy(s, "usr2", 5, 6)                                                             # refused
    nft_send(s, "usr0", COLL1, "\u00e9", {"k": "add_to_bucket_cw721", "id": 5})
    listing(s, "usr3", 6, [["uosmo", 9]], G(f=[[COLL1, "Dragon"], [COLL1, "e\u0301"]]))
    buy(s, "usr0", 6, 5)                                                             # refused: composed vs decomposed e-acute
    nft_send(s, "usr1", COLL1, "dragon", {"k": "create_bucket_cw721", "id": 7})
    s.query_here()
    buy(s, "usr1", 5, 7)                                                             # the asked token: accepted
    s.do(E("usr1", {"k": "withdraw_purchased", "id": 5}), "valid")
    s.do(E("usr3", {"k": "remove_bucket", "id": 7}), "valid")
    # two case variants in one ask / one record are two assets, not a duplicate
    listing(s, "usr1", 8, [["uosmo", 1]], G(f=[[COLL1, "Dragon"], [COLL1, "DRAGON"]]))
    nft_send(s, "usr2", COLL1, " 7", {"k": "add_to_bucket_cw721", "id": 6})          # usr1 got " 7" back; usr2 does not own it: refused
    s.do({"t": "nft_transfer", "user": "usr0", "coll": COLL1, "token_id": "7", "to": "usr2"}, "valid")
    nft_send(s, "usr2", COLL1, "7", {"k": "add_to_bucket_cw721", "id": 6})
    s.do(E("usr0", {"k": "remove_bucket", "id": 5}), "valid")
    s.do({"t": "nft_transfer", "user": "usr0", "coll": COLL1, "token_id": "Dragon", "to": "usr2"}, "valid")
    nft_send(s, "usr2", COLL1, "Dragon", {"k": "add_to_bucket_cw721", "id": 6})
    s.do(E("usr2", {"k": "remove_bucket", "id": 6}), "valid")


SCRIPTS = {
    "traded_bucket_reused": (world.default_cfg, traded_bucket_reused, ()),
    "traded_bucket_topped_up": (world.default_cfg, traded_bucket_topped_up, ()),
    "traded_bucket_zero_second_fee": (world.default_cfg, traded_bucket_zero_second_fee, ()),
    "interleaved_collections": (world.default_cfg, interleaved_collections, ()),
    "same_id_two_owners": (world.default_cfg, same_id_two_owners, ()),
    "lifecycle_owner_misuse": (world.default_cfg, lifecycle_owner_misuse, ()),
    "integer_truncation": (world.default_cfg, integer_truncation, ()),
    "fee_boundaries": (world.default_cfg, fee_boundaries, ()),
    "royalties_both_sides": (world.default_cfg, royalties_both_sides, ()),
    "royalty_cap": (royalty_cap_cfg, royalty_cap, ()),
    "expiry_edges": (world.default_cfg, expiry_edges, ()),
    "competing_buyers": (world.default_cfg, competing_buyers, ()),
    "ids_never_reused": (world.default_cfg, ids_never_reused, ()),
    "finalize_bounds": (world.default_cfg, finalize_bounds, ()),
    "fee_cycle_week": (world.default_cfg, fee_cycle_week, ()),
    "registry_rules": (world.default_cfg, registry_rules, ()),
    "malformed_deposits": (malformed_cfg, malformed_deposits, ()),
    "coins_on_every_message": (world.default_cfg, coins_on_every_message, ()),
    "hostile_hooks": (world.default_cfg, hostile_hooks, ()),
    "hostile_freeze": (world.default_cfg, hostile_freeze, ("no_drain",)),
    "hostile_recreate": (world.default_cfg, hostile_recreate, ()),
    "hook_edge_inputs": (world.default_cfg, hook_edge_inputs, ()),
    "traded_bucket_royalty": (world.default_cfg, traded_bucket_royalty, ()),
    "royalty_many_collections": (royalty_many_collections_cfg, royalty_many_collections, ("no_drain",)),
    "nft_duplicates_via_hook": (world.default_cfg, nft_duplicates_via_hook, ("no_drain",)),
    "fee_cycle_subsecond": (fee_cycle_subsecond_cfg, fee_cycle_subsecond, ()),
    "reentrant_withdrawal": (world.default_cfg, reentrant_withdrawal, ("reentrant",)),
    "reentrant_royalty": (world.default_cfg, reentrant_royalty, ("reentrant",)),
    "reentrant_in_flight": (world.default_cfg, reentrant_in_flight, ("reentrant",)),
    "reentrant_depth_two": (world.default_cfg, reentrant_depth_two, ("reentrant",)),
    "long_lived_listings": (world.default_cfg, long_lived_listings, ()),
    "market_order": (world.default_cfg, market_order, ()),
    "big_amounts": (big_amounts_cfg, big_amounts, ()),
    "odd_token_ids": (odd_token_ids_cfg, odd_token_ids, ()),
    "odd_amounts_and_denoms": (odd_amounts_and_denoms_cfg, odd_amounts_and_denoms, ()),
    "count_truncation": (count_truncation_cfg, count_truncation, ()),
    "queries_pages": (queries_pages_cfg, queries_pages, ("all_pages",)),
    "queries_many_records": (queries_many_records_cfg, queries_many_records, ("all_pages", "no_drain")),
}
