"""Gallina literals for observations / operations, and evaluation of the step comparison by
`coqc` (vm_compute).  Nothing is interpreted here: JSON observations are mapped field by field
onto the constructors of coq/corr/CheckStep.v."""
import os
import re
import subprocess
from concurrent.futures import ThreadPoolExecutor

from .names import addr_num, denom_num, tok_num

ROOT = os.path.dirname(os.path.dirname(os.path.dirname(os.path.abspath(__file__))))
COQ = os.environ.get("FM_COQ_DIR") or os.path.join(ROOT, "coq")   # FM_COQ_DIR: tools/modelmut.py evaluates against a mutated copy of the model


def n(x):
    return str(int(x))


def lst(items):
    return "[" + "; ".join(items) + "]"


def opt(x, f):
    return "None" if x is None else "(Some %s)" % f(x)


def A(a):
    return n(addr_num(a))


def coin(c):
    return "(%s, %s)" % (n(denom_num(c[0])), n(c[1]))


def gbal(g):
    return "(mkG %s %s %s)" % (
        lst(coin(c) for c in g["native"]),
        lst("(%s, %s)" % (A(c[0]), n(c[1])) for c in g["cw20"]),
        lst("(%s, %s)" % (A(c[0]), n(tok_num(c[1]))) for c in g["nfts"]),
    )


def listing(l):
    return "(mkL %s %s %s %s %s %s %s %s %s %s)" % (
        A(l["creator"]), n(l["id"]), opt(l["fin"], n), opt(l["exp"], n), l["status"],
        opt(l["claimant"], A), opt(l["wl"], A), gbal(l["for_sale"]), gbal(l["ask"]), opt(l["fee"], coin))


def bucket(b):
    return "(mkB %s %s %s)" % (A(b["owner"]), gbal(b["funds"]), opt(b["fee"], coin))


def fee(f):
    return "(%s %s)" % (f["kind"], n(f["last"]))


def mstate(o):
    return "(mkS %s %s %s %s %s %s)" % (
        lst("((%s, %s), %s)" % (A(l["kowner"]), n(l["kid"]), listing(l)) for l in o["listings"]),
        lst("((%s, %s), %s)" % (A(b["kowner"]), n(b["kid"]), bucket(b)) for b in o["buckets"]),
        lst(n(x) for x in o["l_used"]), lst(n(x) for x in o["b_used"]), fee(o["fee"]), opt(o["registry_item"], A))


def rinfo(r):
    return "(mkR %s %s %s)" % (n(r["last_updated"]), n(r["bps"]), A(r["payout"]))


def obs(o):
    return "(mkObs %s %s %s %s %s %s %s %s %s)" % (
        n(o["time_ns"]), n(o["height"]), mstate(o),
        lst("(%s, %s)" % (A(r["coll"]), rinfo(r)) for r in o["registry"]),
        lst("(%s, %s, %s)" % (A(b[0]), n(denom_num(b[1])), n(b[2])) for b in o["bank"]),
        lst("(%s, %s, %s)" % (A(b[0]), A(b[1]), n(b[2])) for b in o["cw20"]),
        lst("(%s, %s, %s)" % (A(b[0]), n(tok_num(b[1])), A(b[2])) for b in o["nft"]),
        lst("(%s, %s)" % (A(b[0]), opt(b[1], A)) for b in o["admin"]),
        "true" if o["hostile_fail"] else "false")


KINDS = {"cw20": "KCw20", "cw721": "KCw721", "hostile": "KHostile"}


def cfg(u):
    """u: the universe dict built by world.py"""
    kinds = [(u["market"], "KMarket"), (u["registry"], "KRegistry")] + [(c["addr"], KINDS[c["kind"]]) for c in u["contracts"]]
    return "(mkCfg %s %s %s %s %s %s %s %s)" % (
        lst("(%s, %s)" % (A(a), k) for a, k in kinds), A(u["market"]), A(u["registry"]), A(u["pool"]),
        lst(A(a) for a in u["addrs"]), lst(n(denom_num(d)) for d in u["denoms"]),
        lst(A(c["addr"]) for c in u["contracts"] if c["kind"] == "cw20"),
        lst("(%s, %s)" % (A(c), n(tok_num(t))) for c, t in u["nfts"]))


def inner(m):
    if m is None:
        return "None"
    k = m["k"]
    cons = {"create_listing_cw20": "CreateListingCw20", "add_to_listing_cw20": "AddToListingCw20",
            "create_bucket_cw20": "CreateBucketCw20", "add_to_bucket_cw20": "AddToBucketCw20",
            "create_listing_cw721": "CreateListingCw721", "add_to_listing_cw721": "AddToListingCw721",
            "create_bucket_cw721": "CreateBucketCw721", "add_to_bucket_cw721": "AddToBucketCw721"}[k]
    if k.startswith("create_listing"):
        return "(Some (%s %s %s %s))" % (cons, n(m["id"]), gbal(m["ask"]), opt(m["wl"], A))
    return "(Some (%s %s))" % (cons, n(m["id"]))


def exec_msg(m):
    k = m["k"]
    if k == "fee_cycle":
        return "FeeCycle"
    if k == "receive":
        return "(Receive %s %s %s)" % (A(m["sender"]), n(m["amount"]), inner(m["inner"]))
    if k == "receive_nft":
        return "(ReceiveNft %s %s %s)" % (A(m["sender"]), n(tok_num(m["token_id"])), inner(m["inner"]))
    if k == "create_listing":
        return "(CreateListing %s %s %s)" % (n(m["id"]), gbal(m["ask"]), opt(m["wl"], A))
    if k == "add_to_listing":
        return "(AddToListing %s)" % n(m["id"])
    if k == "change_ask":
        return "(ChangeAsk %s %s)" % (n(m["id"]), gbal(m["ask"]))
    if k == "finalize":
        return "(Finalize %s %s)" % (n(m["id"]), n(m["secs"]))
    if k == "delete_listing":
        return "(DeleteListing %s)" % n(m["id"])
    if k == "create_bucket":
        return "(CreateBucket %s)" % n(m["id"])
    if k == "add_to_bucket":
        return "(AddToBucket %s)" % n(m["id"])
    if k == "remove_bucket":
        return "(RemoveBucket %s)" % n(m["id"])
    if k == "buy":
        return "(BuyListing %s %s)" % (n(m["lid"]), n(m["bid"]))
    if k == "withdraw_purchased":
        return "(WithdrawPurchased %s)" % n(m["id"])
    raise ValueError(k)


def failarg(op):
    f = op.get("fail")
    return "None" if f is None else "(Some %d%%nat)" % f


def coins(cs):
    return lst(coin(c) for c in cs)


def op(o):
    t = o["t"]
    if t == "exec":
        return "(Exec %s %s %s %s)" % (A(o["sender"]), coins(o["funds"]), exec_msg(o["msg"]), failarg(o))
    if t == "cw20_send":
        return "(Cw20Send %s %s %s %s %s)" % (A(o["user"]), A(o["token"]), n(o["amount"]), inner(o["inner"]), failarg(o))
    if t == "nft_send":
        return "(NftSend %s %s %s %s %s)" % (A(o["user"]), A(o["coll"]), n(tok_num(o["token_id"])), inner(o["inner"]), failarg(o))
    if t == "cw20_transfer":
        return "(Cw20Xfer %s %s %s %s)" % (A(o["user"]), A(o["token"]), A(o["to"]), n(o["amount"]))
    if t == "nft_transfer":
        return "(NftXfer %s %s %s %s)" % (A(o["user"]), A(o["coll"]), n(tok_num(o["token_id"])), A(o["to"]))
    if t == "bank_send":
        return "(BankXfer %s %s %s)" % (A(o["user"]), A(o["to"]), coins(o["coins"]))
    if t == "reg":
        m = o["msg"]
        if m["k"] == "register":
            r = "(Register %s %s %s)" % (A(m["coll"]), A(m["payout"]), n(m["bps"]))
        elif m["k"] == "update":
            r = "(Update %s %s %s)" % (A(m["coll"]), opt(m["payout"], A), opt(m["bps"], n))
        else:
            r = "(Remove %s)" % A(m["coll"])
        return "(RegExec %s %s)" % (A(o["sender"]), r)
    if t == "set_admin":
        return "(SetAdmin %s %s)" % (A(o["contract"]), opt(o["admin"], A))
    if t == "advance":
        return "(Advance %s %s)" % (n(o["dns"]), n(o["dh"]))
    if t == "hostile_fail":
        return "(HostileFail %s)" % ("true" if o["on"] else "false")
    raise ValueError(t)


def out_msg(m):
    k = m["kind"]
    if k == "bank":
        return "(BankSend %s %s)" % (A(m["to"]), coins(m["coins"]))
    if k == "cw20_transfer":
        return "(Cw20Transfer %s %s %s)" % (A(m["token"]), A(m["to"]), n(m["amount"]))
    if k == "nft_transfer":
        return "(NftTransfer %s %s %s)" % (A(m["coll"]), A(m["to"]), n(tok_num(m["token_id"])))
    if k == "fund_pool":
        cs = m["coins"]
        if len(cs) != 1:
            raise ValueError("fund_pool with %d coins" % len(cs))
        return "(FundPool %s %s)" % (A(m["depositor"]), coin(cs[0]))
    raise ValueError("unmodelled outgoing message: %r" % (m,))


def res(r, f):
    if "ok" in r:
        return "(Ok %s)" % f(r["ok"])
    return "Err"


def qbucket(b):
    return "(%s, %s)" % (n(b["kid"]), bucket(b))


def qobs(q):
    fee_names = {"JUNO": 0, "USDC": 1}

    def feef(v):
        return "(%d, %s, %s)" % (fee_names[v["name"]], n(denom_num(v["denom"])), n(v["next_change"]))

    def ri(v):
        return opt(v, rinfo)

    return "(mkQ %s %s %s %s %s %s %s %s)" % (
        res(q["fee"], feef),
        opt(q["royalty_addr"].get("ok"), A),
        lst("(%s, %s, %s)" % (A(e["owner"]), n(e["page"]), res(e["r"], lambda ls: lst(listing(l) for l in ls))) for e in q["by_owner"]),
        lst("(%s, %s, %s)" % (A(e["owner"]), n(e["page"]), res(e["r"], lambda bs: lst(qbucket(b) for b in bs))) for e in q["buckets"]),
        lst("(%s, %s)" % (A(e["owner"]), res(e["r"], lambda ls: lst(listing(l) for l in ls))) for e in q["whitelist"]),
        lst("(%s, %s)" % (n(e["page"]), res(e["r"], lambda ls: lst(listing(l) for l in ls))) for e in q["market"]),
        lst("(%s, %s)" % (A(e["coll"]), ri(e["r"].get("ok"))) for e in q["reg_single"] if "ok" in e["r"]),
        lst("(%s, %s)" % (lst(A(c) for c in e["batch"]), res(e["r"], lambda rs: lst(ri(r) for r in rs))) for e in q["reg_multi"]))


HEADER = "From FM Require Import CheckStep.\nFrom FM Require Import Wire.\n"


def byte_list(bs):
    return "[" + "; ".join(str(b) for b in bs) + "]"


def wire_term(m):
    """wire_ok applied to the bytes of one real fund-community-pool message."""
    cs = m["coins"]
    if len(cs) != 1 or "raw" not in m:
        raise ValueError("fund_pool message without raw payload / with %d coins" % len(cs))
    return "(wire_ok %s %s %s %s %s)" % (byte_list(cs[0][0].encode()), n(cs[0][1]), byte_list(m["depositor"].encode()),
                                          byte_list(m["type_url"].encode()), byte_list(bytes.fromhex(m["raw"])))

RESULT_RE = re.compile(r"=\s*\((\d+)(?:%N)?,\s*(\d+)(?:%N)?\)")


def run_coqc(path, timeout=1800):
    r = subprocess.run(["coqc", "-q", "-noglob", "-Q", os.path.join(COQ, "model"), "FM", "-Q", os.path.join(COQ, "corr"), "FM", path],
                       capture_output=True, text=True, timeout=timeout)
    return r.returncode, r.stdout, r.stderr


def evaluate(files, jobs=16):
    """files: list of .v paths.  Returns {case_number: mask} and a list of errors."""
    results, errors = {}, []
    with ThreadPoolExecutor(max_workers=jobs) as ex:
        for path, (rc, out, err) in zip(files, ex.map(run_coqc, files)):
            if rc != 0:
                errors.append((path, err[-2000:]))
            for m in RESULT_RE.finditer(out):
                results[int(m.group(1))] = int(m.group(2))
    return results, errors


def rop(o):
    """a call together with the program that runs if it is re-entered (model/ReentryDeep.v)"""
    return "(RNode %s %s)" % (op(o), lst(rop(x) for x in (o.get("reentry") or [])))
