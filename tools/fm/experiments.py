"""Experiments that need to drive the real code beyond a plain history: the drain (C07), fault
injection at every outgoing message position (C15), the query battery (C16 / C14)."""
from collections import Counter

from .monitors import PAYOUT_KINDS, Ctx, bmap, gb_counter, holdings, lmap, wallets
from .names import INVALID_ADDRS
from .msgs import E

NANOS = 10 ** 9


def with_faults(sess, op, tag="valid"):
    """Run a payout-bearing operation with each of its outgoing messages failing in turn, then
    without fault.  Returns the final (fault-free) step."""
    probe = dict(op)
    probe["fail"] = 0
    st = sess.do(probe, "fault")
    if st["outcome"] == "ok":
        st["tag"] = tag  # no message was emitted at all: this was the real execution
        return st
    n = st["emitted"]
    if n == 0:
        st["tag"] = tag  # refused by the handler itself, not by the fault
        return st
    for i in range(1, n):
        probe = dict(op)
        probe["fail"] = i
        sess.do(probe, "fault")
    clean = dict(op)
    clean.pop("fail", None)
    return sess.do(clean, "retry")


def is_payout_bearing(op):
    return op["t"] == "exec" and op["msg"]["k"] in (PAYOUT_KINDS | {"buy"}) and not op["funds"]


def drain(sess, ctx):
    """C07: advance past every expiration, let every entitled party cash out with one message,
    require success, an empty record store and (for honest assets) empty holdings."""
    o = sess.obs
    if o["hostile_fail"]:
        sess.do({"t": "hostile_fail", "on": False}, "drain")
    exps = [int(l["exp"]) for l in o["listings"] if l["exp"] is not None]
    now = int(o["time_ns"])
    if exps and max(exps) >= now:
        sess.do({"t": "advance", "dns": max(exps) - now + 1, "dh": 1}, "drain")
    o = sess.obs
    for l in list(o["listings"]):
        who = l["kowner"]
        if l["status"] == "Closed":
            who = l["claimant"]
            op = E(who, {"k": "withdraw_purchased", "id": int(l["id"])})
        else:
            op = E(who, {"k": "delete_listing", "id": int(l["kid"])})
        st = sess.do(op, "drain")
        if st["outcome"] != "ok":
            ctx.add("C07", "exit_refused", st["i"], "%s of listing %s (%s) by %s refused: %s" % (op["msg"]["k"], l["kid"], l["status"], who, st["err"][-200:]))
    for b in list(o["buckets"]):
        op = E(b["kowner"], {"k": "remove_bucket", "id": int(b["kid"])})
        st = sess.do(op, "drain")
        if st["outcome"] != "ok":
            ctx.add("C07", "exit_refused", st["i"], "remove_bucket %s by %s refused: %s" % (b["kid"], b["kowner"], st["err"][-200:]))
    o = sess.obs
    i = len(sess.steps) - 1
    if o["listings"] or o["buckets"]:
        ctx.add("C07", "records_remain", i, "%d listings and %d buckets remain after the drain" % (len(o["listings"]), len(o["buckets"])))
    elif "donation" not in ctx.flags:
        left = holdings(ctx, o)
        if +left:
            ctx.add("C07", "assets_remain", i, "marketplace still holds %r after every record was cashed out" % (sorted((+left).items()),))


def expected_owner_records(o, owner, kind):
    if kind == "l":
        return sorted([l for l in o["listings"] if l["kowner"] == owner], key=lambda l: int(l["kid"]))
    return sorted([b for b in o["buckets"] if b["kowner"] == owner], key=lambda b: int(b["kid"]))


def strip_l(l):
    return {k: v for k, v in l.items() if k not in ("kowner", "kid")}


def open_offer(o, l):
    return (l["status"] == "FinalizedReady" and l["claimant"] is None and l["exp"] is not None and int(o["time_ns"]) <= int(l["exp"]))


def check_queries(sess, ctx, q, i, all_pages=None):
    """C16 monitor: query answers versus the raw dump."""
    o = sess.obs
    # owner pages
    per_owner = {}
    for e in q["by_owner"]:
        per_owner.setdefault(("l", e["owner"]), {})[e["page"]] = e["r"]
    for e in q["buckets"]:
        per_owner.setdefault(("b", e["owner"]), {})[e["page"]] = e["r"]
    for (kind, owner), pages in per_owner.items():
        recs = expected_owner_records(o, owner, kind)
        for p, r in pages.items():
            if p == 0:
                continue
            if "ok" not in r:
                if owner in INVALID_ADDRS:
                    continue  # an unparsable owner address is refused, as it must be (the correspondence compares that)
                ctx.add("C16", "page_not_answered", i, "page %d of %s's %s failed: %s" % (p, owner, "listings" if kind == "l" else "buckets", list(r.values())[0][-80:]))
                continue
            exp = recs[20 * (p - 1):20 * p]
            if kind == "l":
                got = r["ok"]
                want = [strip_l(x) for x in exp]
            else:
                got = r["ok"]
                want = [{k: v for k, v in x.items() if k != "kowner"} for x in exp]
            if got != want:
                ctx.add("C16", "owner_page_wrong", i, "page %d of %s's %s: %d records, expected %d (ids %r vs %r)" % (
                    p, owner, "listings" if kind == "l" else "buckets", len(got), len(want),
                    [x.get("id", x.get("kid")) for x in got], [x.get("id", x.get("kid")) for x in want]))
    # market: union over the pages asked equals the open offers, when the pages cover the window
    answered = [e for e in q["market"] if "ok" in e["r"] and e["page"] != 0]
    for e in q["market"]:
        if "ok" not in e["r"] and e["page"] != 0:
            ctx.add("C16", "page_not_answered", i, "market page %d failed: %s" % (e["page"], list(e["r"].values())[0][-80:]))
    listed = [l for e in answered for l in e["r"]["ok"]]
    by_id = {int(l["id"]): l for l in o["listings"]}
    for l in listed:
        src = by_id.get(int(l["id"]))
        if src is None or strip_l(src) != l:
            ctx.add("C16", "market_lists_unknown", i, "market query returned a listing that is not stored as such: id %s" % l["id"])
        elif not open_offer(o, src):
            ctx.add("C16", "listed_but_unpurchasable", i, "market query lists %s which is %s / exp %s at %s" % (l["id"], src["status"], src["exp"], o["time_ns"]))
    pages_ok = sorted(set(e["page"] for e in answered))
    run = 0
    while run + 1 in pages_ok:
        run += 1
    short_tail = any(e["page"] <= run and len(e["r"]["ok"]) < 20 for e in answered)
    if all_pages or short_tail:
        # pages 1..k were all answered and one of them is not full: together they hold the whole market
        want = sorted(int(l["id"]) for l in o["listings"] if open_offer(o, l))
        got = sorted(set(int(l["id"]) for l in listed))
        if want != got and (short_tail or len(o["listings"]) <= 20 * max(all_pages)):
            ctx.add("C16", "market_incomplete", i, "market pages list %r, purchasable are %r" % (got, want))
    for e in q["whitelist"]:
        if "ok" not in e["r"]:
            if e["owner"] not in INVALID_ADDRS:
                ctx.add("C16", "page_not_answered", i, "whitelist query for %s failed" % e["owner"])
            continue
        want = sorted(int(l["id"]) for l in o["listings"] if open_offer(o, l) and l["wl"] == e["owner"])
        got = sorted(int(l["id"]) for l in e["r"]["ok"])
        if want != got:
            ctx.add("C16", "whitelist_wrong", i, "whitelist query for %s lists %r, expected %r" % (e["owner"], got, want))
        for l in e["r"]["ok"]:
            src = by_id.get(int(l["id"]))
            if src is None or strip_l(src) != l:
                ctx.add("C16", "whitelist_wrong", i, "whitelist query returned a listing that is not stored as such")
    # fee query
    f = q["fee"]
    if "ok" not in f:
        ctx.add("C16", "fee_query_failed", i, "fee query failed")
    else:
        v = f["ok"]
        want_denom = "ujunox" if o["fee"]["kind"] == "JUNO" else "uusdcx"
        if v["denom"] != want_denom or v["name"] != o["fee"]["kind"]:
            ctx.add("C16", "fee_query_denom", i, "fee query reports %s, in force is %s" % (v["denom"], want_denom))
        # before next_change a cycle is refused, after it accepted: the cycle rule is last + 604800 < now
        if int(v["next_change"]) != int(o["fee"]["last"]) + 604800:
            ctx.add("C16", "fee_query_next_change", i, "next_change %s, but a cycle is refused until %d and accepted after it"
                    % (v["next_change"], int(o["fee"]["last"]) + 604800))
    # registry lookups (C14)
    reg = {r["coll"]: {"last_updated": r["last_updated"], "bps": r["bps"], "payout": r["payout"]} for r in o["registry"]}
    for e in q["reg_single"]:
        if e["r"].get("ok", "missing") != reg.get(e["coll"]):
            ctx.add("C14", "lookup_single", i, "single lookup of %s returned %r, entry is %r" % (e["coll"], e["r"], reg.get(e["coll"])))
    for e in q["reg_multi"]:
        if not e["batch"]:
            continue
        if e["r"].get("ok", "missing") != [reg.get(c) for c in e["batch"]]:
            ctx.add("C14", "lookup_multi", i, "batched lookup of %r returned %r" % (e["batch"], e["r"]))
