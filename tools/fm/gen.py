"""State-aware random generator of operation histories (DESIGN.md §4.3).

Every random choice is drawn from the one `random.Random` handed in, so a history replays
exactly from its seed.  About 85 % of the operations are chosen from what the current records
allow (mostly valid), about 15 % from a separate malformed stream; on top of that a sample of
non-owner / hostile probes is fired at every reached state."""
from .msgs import E, G, copy_gbal

MAX_SAFE_INT = 9007199254740990
AMOUNTS = [1, 2, 33, 34, 199, 200, 201, 399, 400, 1000, 3333, 9999, 10000, 10001, 12345, 10 ** 6, 10 ** 9 + 7]
LIFETIMES = [600, 601, 3600, 86400, 1209599, 1209600]
BAD_LIFETIMES = [0, 1, 599, 1209601, 2 ** 32 + 600, 2 ** 32 + 3600, 2 ** 33 + 86400, 2 ** 63, 2 ** 64 - 1]
BPS = [10, 33, 100, 299, 300]
BAD_BPS = [0, 9, 301, 5000, 2 ** 64 - 1]
TRADERS = ["usr0", "usr1", "usr2", "usr3", "usr4"]
ADMIN = "usr5"


class View:
    """Read-only helpers over an observation."""

    def __init__(self, sess):
        self.s = sess
        self.o = sess.obs
        self.now = int(self.o["time_ns"])

    def listings(self):
        return self.o["listings"]

    def buckets(self):
        return self.o["buckets"]

    def nft_owner(self, coll, tok):
        for c, t, o, _ in self.o["nft"]:
            if c == coll and t == tok:
                return o
        return None

    def nfts_of(self, user):
        return [(c, t) for c, t, o, _ in self.o["nft"] if o == user]

    def used_l(self):
        return set(int(x) for x in self.o["l_used"])

    def used_b(self):
        return set(int(x) for x in self.o["b_used"])


def gb_items(g):
    return [("n", d, int(a)) for d, a in g["native"]] + [("c", t, int(a)) for t, a in g["cw20"]] + [("f", c, k) for c, k in g["nfts"]]


class Gen:
    def __init__(self, sess, rng, probes_per_state=0, reentry_prob=0.0):
        self.s = sess
        self.r = rng
        self.reentry_prob = reentry_prob   # re-entrant sessions: payout-bearing operations carry a program for the hostile contract
        self.pending = []  # queued plan operations: (op, tag)
        self.next_id = 1
        self.probes_per_state = probes_per_state
        self.cw20s = sess.by_kind("cw20")
        self.colls = sess.by_kind("cw721")
        self.hostiles = sess.by_kind("hostile")
        self.denoms = ["ujunox", "uusdcx", "uatom", "uosmo"]

    # ---- small pickers -------------------------------------------------
    def fresh_id(self):
        self.next_id += self.r.choice([1, 1, 1, 2, 7])
        return self.next_id

    def amount(self):
        if self.r.random() < 0.7:
            return self.r.choice(AMOUNTS)
        return self.r.randint(1, 10 ** self.r.randint(1, 11))

    def trader(self, exclude=()):
        c = [u for u in TRADERS if u not in exclude]
        return self.r.choice(c)

    def natives(self, k):
        ds = self.r.sample(self.denoms, k)
        # bias towards the fee denominations
        if k and self.r.random() < 0.6 and "ujunox" not in ds and "uusdcx" not in ds:
            ds[0] = self.r.choice(["ujunox", "uusdcx"])
        return [[d, self.amount()] for d in ds]

    def random_ask(self, v, seller):
        """An ask that somebody other than the seller can satisfy."""
        g = G()
        kinds = self.r.choice([["n"], ["n"], ["n", "n"], ["n", "c"], ["c"], ["f"], ["n", "f"], ["n", "c", "f"]])
        nn = kinds.count("n")
        g["native"] = self.natives(nn)
        if "c" in kinds and self.cw20s:
            g["cw20"] = [[self.r.choice(self.cw20s), self.amount()]]
        if "f" in kinds:
            cands = [(c, t) for c, t, o, _ in v.o["nft"] if o in TRADERS and o != seller]
            if cands:
                c, t = self.r.choice(cands)
                g["nfts"] = [[c, t]]
        if not gb_items(g):
            g["native"] = self.natives(1)
        return g

    # ---- deposit paths ---------------------------------------------------
    def deposit_ops(self, user, kind, rid, g, create, ask=None, wl=None):
        """Operations that put the assets of g into record `rid` of `user` (kind 'listing'/'bucket'),
        creating it with the first deposit when `create`."""
        ops = []
        items = []
        if g["native"]:
            items.append(("n", g["native"]))
        for c in g["cw20"]:
            items.append(("c", c))
        for f in g["nfts"]:
            items.append(("f", f))
        first = create
        for it in items:
            if kind == "listing":
                mk = {"k": "create_listing", "id": rid, "ask": ask, "wl": wl} if first else {"k": "add_to_listing", "id": rid}
            else:
                mk = {"k": "create_bucket", "id": rid} if first else {"k": "add_to_bucket", "id": rid}
            if it[0] == "n":
                ops.append(E(user, mk, it[1]))
            elif it[0] == "c":
                inner = dict(mk)
                inner["k"] = mk["k"] + "_cw20"
                ops.append({"t": "cw20_send", "user": user, "token": it[1][0], "amount": int(it[1][1]), "inner": inner})
            else:
                inner = dict(mk)
                inner["k"] = mk["k"] + "_cw721"
                ops.append({"t": "nft_send", "user": user, "coll": it[1][0], "token_id": it[1][1], "inner": inner})
            first = False
        return ops

    # ---- valid-ish operations --------------------------------------------
    def op_new_listing(self, v):
        u = self.trader()
        g = G()
        mine = v.nfts_of(u)
        shape = self.r.choice(["n", "n", "n", "nn", "nc", "c", "f", "nf", "ncf"])
        g["native"] = self.natives(shape.count("n"))
        if "c" in shape and self.cw20s:
            g["cw20"] = [[self.r.choice(self.cw20s), self.amount()]]
        if "f" in shape and mine:
            c, t = self.r.choice(mine)
            g["nfts"] = [[c, t]]
        if not gb_items(g):
            g["native"] = self.natives(1)
        ask = self.random_ask(v, u)
        wl = self.trader(exclude=[u]) if self.r.random() < 0.15 else None
        lid = self.fresh_id()
        ops = self.deposit_ops(u, "listing", lid, g, True, ask, wl)
        if self.r.random() < 0.8:
            ops.append(E(u, {"k": "finalize", "id": lid, "secs": self.r.choice(LIFETIMES)}))
        return [(o, "valid") for o in ops]

    def op_topup_listing(self, v):
        c = [l for l in v.listings() if l["status"] == "BeingPrepared" and l["kowner"] in TRADERS]
        if not c:
            return None
        l = self.r.choice(c)
        u = l["kowner"]
        g = G()
        k = self.r.choice(["n", "n", "c", "f"])
        if k == "n":
            # half of the time merge into an existing denom
            if l["for_sale"]["native"] and self.r.random() < 0.5:
                g["native"] = [[self.r.choice(l["for_sale"]["native"])[0], self.amount()]]
            else:
                g["native"] = self.natives(1)
        elif k == "c" and self.cw20s:
            g["cw20"] = [[self.r.choice(self.cw20s), self.amount()]]
        else:
            mine = v.nfts_of(u)
            if not mine:
                return None
            g["nfts"] = [list(self.r.choice(mine))]
        return [(o, "valid") for o in self.deposit_ops(u, "listing", int(l["kid"]), g, False)]

    def op_change_ask(self, v):
        c = [l for l in v.listings() if l["status"] == "BeingPrepared" and l["kowner"] in TRADERS]
        if not c:
            return None
        l = self.r.choice(c)
        return [(E(l["kowner"], {"k": "change_ask", "id": int(l["kid"]), "ask": self.random_ask(v, l["kowner"])}), "valid")]

    def op_finalize(self, v):
        c = [l for l in v.listings() if l["status"] == "BeingPrepared" and l["kowner"] in TRADERS]
        if not c:
            return None
        l = self.r.choice(c)
        return [(E(l["kowner"], {"k": "finalize", "id": int(l["kid"]), "secs": self.r.choice(LIFETIMES)}), "valid")]

    def open_listings(self, v):
        return [l for l in v.listings() if l["status"] == "FinalizedReady" and l["exp"] is not None and int(l["exp"]) >= v.now]

    def plan_bucket_for(self, v, l, buyer=None, perturb=True):
        """Build a bucket whose contents equal l's ask (sometimes perturbed), then buy."""
        if buyer is None:
            buyer = l["wl"] if (l["wl"] in TRADERS and self.r.random() < 0.9) else self.trader(exclude=[l["creator"]] if self.r.random() < 0.9 else [])
        g = copy_gbal(l["ask"])
        if any(t not in self.cw20s for t, _ in g["cw20"]) or any(c not in self.colls for c, _ in g["nfts"]):
            return None
        tag = "valid"
        if perturb and self.r.random() < 0.25:
            tag = "perturbed"
            how = self.r.choice(["plus", "minus", "drop", "extra", "permute"])
            if how in ("plus", "minus") and (g["native"] or g["cw20"]):
                vec = g["native"] if g["native"] else g["cw20"]
                i = self.r.randrange(len(vec))
                vec[i][1] = int(vec[i][1]) + (1 if how == "plus" else -1)
                if vec[i][1] <= 0:
                    vec[i][1] = 2
            elif how == "drop" and len(gb_items(g)) > 1:
                for key in ("native", "cw20", "nfts"):
                    if g[key]:
                        g[key].pop()
                        break
            elif how == "extra":
                extra = [d for d in self.denoms if d not in [x[0] for x in g["native"]]]
                if extra:
                    g["native"].append([self.r.choice(extra), self.amount()])
            else:
                for key in ("native", "cw20", "nfts"):
                    self.r.shuffle(g[key])
                tag = "valid"
        ops = []
        # the buyer needs to own the NFTs asked for
        for c, t in g["nfts"]:
            o = v.nft_owner(c, t)
            if o is None or o == self.s.market:
                return None
            if o != buyer:
                ops.append(({"t": "nft_transfer", "user": o, "coll": c, "token_id": t, "to": buyer}, "valid"))
        bid = self.fresh_id()
        ops += [(o, tag) for o in self.deposit_ops(buyer, "bucket", bid, g, True)]
        ops.append((E(buyer, {"k": "buy", "lid": int(l["id"]), "bid": bid}), tag))
        return ops

    def op_bucket_and_buy(self, v):
        c = self.open_listings(v)
        if not c:
            return None
        return self.plan_bucket_for(v, self.r.choice(c))

    def matches(self, b, l):
        return sorted(map(tuple, gb_items(b["funds"]))) == sorted(map(tuple, gb_items(l["ask"])))

    def op_buy(self, v):
        ls = v.listings()
        bs = [b for b in v.buckets() if b["kowner"] in TRADERS]
        if not ls or not bs:
            return None
        pairs = [(b, l) for b in bs for l in ls if self.matches(b, l)]
        if pairs and self.r.random() < 0.8:
            b, l = self.r.choice(pairs)
        else:
            b, l = self.r.choice(bs), self.r.choice(ls)
        return [(E(b["kowner"], {"k": "buy", "lid": int(l["id"]), "bid": int(b["kid"])}), "valid")]

    def op_withdraw(self, v):
        c = [l for l in v.listings() if l["status"] == "Closed" and l["claimant"] in TRADERS]
        if not c:
            return None
        l = self.r.choice(c)
        return [(E(l["claimant"], {"k": "withdraw_purchased", "id": int(l["id"])}), "valid")]

    def op_remove_bucket(self, v):
        c = [b for b in v.buckets() if b["kowner"] in TRADERS]
        if not c:
            return None
        traded = [b for b in c if b["fee"] is not None]
        b = self.r.choice(traded) if (traded and self.r.random() < 0.6) else self.r.choice(c)
        return [(E(b["kowner"], {"k": "remove_bucket", "id": int(b["kid"])}), "valid")]

    def op_delete_listing(self, v):
        c = [l for l in v.listings() if l["status"] != "Closed" and l["kowner"] in TRADERS]
        if not c:
            return None
        pref = [l for l in c if l["status"] == "BeingPrepared" or int(l["exp"]) <= v.now]
        l = self.r.choice(pref) if (pref and self.r.random() < 0.7) else self.r.choice(c)
        return [(E(l["kowner"], {"k": "delete_listing", "id": int(l["kid"])}), "valid")]

    def op_reuse_traded_bucket(self, v):
        """A bucket received as sale proceeds pays for another purchase."""
        c = [b for b in v.buckets() if b["kowner"] in TRADERS]
        traded = [b for b in c if b["fee"] is not None] or [b for b in c if self.r.random() < 0.3]
        if not traded:
            return None
        b = self.r.choice(traded)
        if any(t not in self.cw20s for t, _ in b["funds"]["cw20"]) or any(cc not in self.colls for cc, _ in b["funds"]["nfts"]):
            return None
        seller = self.trader(exclude=[b["kowner"]])
        lid = self.fresh_id()
        g = G(n=self.natives(1))
        ops = self.deposit_ops(seller, "listing", lid, g, True, copy_gbal(b["funds"]), None)
        ops.append(E(seller, {"k": "finalize", "id": lid, "secs": self.r.choice(LIFETIMES)}))
        if self.r.random() < 0.3:
            # top the traded bucket up first, with the ask raised accordingly
            d, a = self.r.choice(self.denoms), self.amount()
            ask = copy_gbal(b["funds"])
            for cn in ask["native"]:
                if cn[0] == d:
                    cn[1] = int(cn[1]) + a
                    break
            else:
                ask["native"].append([d, a])
            ops[0]["msg"]["ask"] = ask
            ops.append(E(b["kowner"], {"k": "add_to_bucket", "id": int(b["kid"])}, [[d, a]]))
        ops.append(E(b["kowner"], {"k": "buy", "lid": lid, "bid": int(b["kid"])}))
        return [(o, "reuse") for o in ops]

    def op_fee_cycle(self, v):
        return [(E(self.r.choice(TRADERS + [ADMIN, "usr7"]), {"k": "fee_cycle"}), "valid")]

    def op_advance(self, v):
        mode = self.r.random()
        last = int(v.o["fee"]["last"])
        if mode < 0.35:
            dns = self.r.choice([1, 10 ** 9, 5 * 10 ** 9 + self.r.randint(0, 10 ** 9), 60 * 10 ** 9, 600 * 10 ** 9])
        elif mode < 0.55:
            # around the expiration of some listing
            c = [int(l["exp"]) for l in v.listings() if l["exp"] is not None and int(l["exp"]) > v.now]
            if not c:
                dns = 3600 * 10 ** 9
            else:
                e = self.r.choice(c)
                dns = max(1, e - v.now + self.r.choice([-1, 0, 1, -10 ** 9, 10 ** 9, 10 ** 8]))
        elif mode < 0.75:
            # around the week mark of the fee cycle
            target = (last + 604800) * 10 ** 9 + self.r.choice([-10 ** 9, 0, 10 ** 9, 999_999_999, 2 * 10 ** 9])
            dns = target - v.now
            if dns <= 0:
                dns = self.r.choice([86400, 3600]) * 10 ** 9
        else:
            dns = self.r.choice([3600, 86400, 3 * 86400, 604801, 1209601]) * 10 ** 9 + self.r.randint(0, 999_999_999)
        return [({"t": "advance", "dns": dns, "dh": self.r.choice([1, 7, 50, 99, 100, 101, 500])}, "valid")]

    def op_registry(self, v):
        if not self.colls:
            return None
        coll = self.r.choice(self.colls)
        reg = {r["coll"]: r for r in v.o["registry"]}
        admin = dict((a, b) for a, b in v.o["admin"]).get(coll)
        sender = admin if (admin and self.r.random() < 0.9) else self.r.choice(TRADERS + [ADMIN])
        payout = self.r.choice(TRADERS + [ADMIN])
        if coll not in reg:
            m = {"k": "register", "coll": coll, "payout": payout, "bps": self.r.choice(BPS)}
        else:
            x = self.r.random()
            if x < 0.6:
                m = {"k": "update", "coll": coll, "payout": payout if self.r.random() < 0.5 else None,
                     "bps": self.r.choice(BPS) if self.r.random() < 0.7 else None}
            elif x < 0.85:
                m = {"k": "remove", "coll": coll}
            else:
                m = {"k": "register", "coll": coll, "payout": payout, "bps": self.r.choice(BPS)}
        return [({"t": "reg", "sender": sender, "msg": m}, "valid")]

    def op_transfer(self, v):
        u = self.trader()
        to = self.trader(exclude=[u])
        k = self.r.choice(["bank", "cw20", "nft"])
        if k == "bank":
            return [({"t": "bank_send", "user": u, "to": to, "coins": [[self.r.choice(self.denoms), self.amount()]]}, "valid")]
        if k == "cw20" and self.cw20s:
            return [({"t": "cw20_transfer", "user": u, "token": self.r.choice(self.cw20s), "to": to, "amount": self.amount()}, "valid")]
        mine = v.nfts_of(u)
        if not mine:
            return None
        c, t = self.r.choice(mine)
        return [({"t": "nft_transfer", "user": u, "coll": c, "token_id": t, "to": to}, "valid")]

    def op_set_admin(self, v):
        admins = [(a, b) for a, b in v.o["admin"] if a in self.colls and b is not None]
        if not admins:
            return None
        c, _ = self.r.choice(admins)
        new = self.r.choice([ADMIN, "usr4", "usr4", None] if self.r.random() < 0.2 else [ADMIN, "usr4"])
        return [({"t": "set_admin", "contract": c, "admin": new}, "valid")]

    # ---- malformed stream ------------------------------------------------
    def bad_ask(self, v):
        k = self.r.choice(["empty", "zero", "dup", "dupnft", "big", "badaddr", "zerocw"])
        if k == "empty":
            return G()
        if k == "zero":
            return G(n=[["ujunox", 0]])
        if k == "dup":
            return G(n=[["uatom", 5], ["ujunox", 3], ["uatom", 7]])
        if k == "dupnft":
            c = self.colls[0] if self.colls else "contract4"
            return G(f=[[c, "1"], [c, "2"], [c, "1"]])
        if k == "big":
            return G(n=[["d%02d" % i, 1 + i] for i in range(26)])
        if k == "badaddr":
            return G(c=[["x", 5]]) if self.r.random() < 0.5 else G(f=[["USR0", "1"]])
        return G(c=[[self.cw20s[0] if self.cw20s else "contract2", 0]])

    def op_malformed(self, v):
        r = self.r
        ls, bs = v.listings(), v.buckets()
        k = r.choice(["wrong_owner_l", "wrong_owner_b", "bad_id", "bad_funds", "funds_on_nondeposit", "bad_wl", "bad_ask",
                      "hostile_hook", "garbage_hook", "bad_send", "bad_finalize", "reuse_id", "bad_reg", "user_hook", "double",
                      "owner_misuse", "owner_misuse"])
        if k == "owner_misuse" and ls:
            # the record's *own* owner sends a message kind that does not fit its lifecycle state
            l = r.choice(ls)
            u, lid = l["kowner"], int(l["kid"])
            if u not in TRADERS:
                return None
            m = r.choice([{"k": "change_ask", "id": lid, "ask": self.random_ask(v, u)}, {"k": "add_to_listing", "id": lid},
                          {"k": "finalize", "id": lid, "secs": r.choice(LIFETIMES)}, {"k": "delete_listing", "id": lid},
                          {"k": "withdraw_purchased", "id": lid}])
            funds = [[r.choice(self.denoms), self.amount()]] if m["k"] == "add_to_listing" else []
            return [(E(u, m, funds), "malformed")]
        if k == "wrong_owner_l" and ls:
            l = r.choice(ls)
            u = self.trader(exclude=[l["kowner"]])
            lid = int(l["kid"])
            m = r.choice([{"k": "add_to_listing", "id": lid}, {"k": "change_ask", "id": lid, "ask": self.random_ask(v, u)},
                          {"k": "finalize", "id": lid, "secs": 600}, {"k": "delete_listing", "id": lid},
                          {"k": "withdraw_purchased", "id": lid}])
            funds = [["ujunox", 5]] if m["k"] == "add_to_listing" else []
            return [(E(u, m, funds), "malformed")]
        if k == "wrong_owner_b" and bs:
            b = r.choice(bs)
            u = self.trader(exclude=[b["kowner"]])
            bid = int(b["kid"])
            m = r.choice([{"k": "add_to_bucket", "id": bid}, {"k": "remove_bucket", "id": bid},
                          {"k": "buy", "lid": int(r.choice(ls)["id"]) if ls else 1, "bid": bid}])
            funds = [["ujunox", 5]] if m["k"] == "add_to_bucket" else []
            return [(E(u, m, funds), "malformed")]
        if k == "bad_id":
            i = r.choice([0, MAX_SAFE_INT, MAX_SAFE_INT + 1, MAX_SAFE_INT - 1, 2 ** 64 - 1, 999983])
            u = self.trader()
            m = r.choice([{"k": "create_bucket", "id": i}, {"k": "create_listing", "id": i, "ask": self.random_ask(v, u), "wl": None}])
            if r.random() < 0.3 and self.cw20s:
                inner = dict(m)
                inner["k"] += "_cw20"
                return [({"t": "cw20_send", "user": u, "token": r.choice(self.cw20s), "amount": 5, "inner": inner}, "malformed")]
            return [(E(u, m, [["uatom", 5]]), "malformed")]
        if k == "bad_funds":
            u = self.trader()
            funds = r.choice([[], [["ujunox", 0]], [["uatom", 5], ["uatom", 6]], [["ujunox", 5], ["uatom", 0]]])
            own_b = [b for b in bs if b["kowner"] == u]
            own_l = [l for l in ls if l["kowner"] == u and l["status"] == "BeingPrepared"]
            m = r.choice([{"k": "create_bucket", "id": self.fresh_id()},
                          {"k": "create_listing", "id": self.fresh_id(), "ask": self.random_ask(v, u), "wl": None}]
                         + ([{"k": "add_to_bucket", "id": int(r.choice(own_b)["kid"])}] if own_b else [])
                         + ([{"k": "add_to_listing", "id": int(r.choice(own_l)["kid"])}] if own_l else []))
            return [(E(u, m, funds), "malformed")]
        if k == "funds_on_nondeposit":
            # a message that would otherwise be perfectly fine, with coins attached
            base = r.choice([self.op_finalize, self.op_withdraw, self.op_remove_bucket, self.op_delete_listing, self.op_buy,
                             self.op_change_ask, self.op_fee_cycle])(v)
            if not base:
                return None
            op = dict(base[0][0])
            op["funds"] = r.choice([[["ujunox", 123]], [["uatom", 1]], [["ujunox", 5], ["uosmo", 6]]])
            return [(op, "funds_on_nondeposit")]
        if k == "bad_wl":
            u = self.trader()
            wl = r.choice(["x", "USR0", u])
            return [(E(u, {"k": "create_listing", "id": self.fresh_id(), "ask": self.random_ask(v, u), "wl": wl}, [["uatom", 5]]), "malformed")]
        if k == "bad_ask":
            u = self.trader()
            own_l = [l for l in ls if l["kowner"] == u and l["status"] == "BeingPrepared"]
            if own_l and r.random() < 0.5:
                return [(E(u, {"k": "change_ask", "id": int(r.choice(own_l)["kid"]), "ask": self.bad_ask(v)}), "malformed")]
            return [(E(u, {"k": "create_listing", "id": self.fresh_id(), "ask": self.bad_ask(v), "wl": None}, [["uatom", 5]]), "malformed")]
        if k == "hostile_hook" and self.hostiles:
            return self.hostile_call(v)
        if k == "garbage_hook" and self.cw20s:
            u = self.trader()
            if r.random() < 0.5:
                return [({"t": "cw20_send", "user": u, "token": r.choice(self.cw20s), "amount": 5, "inner": None}, "malformed")]
            mine = v.nfts_of(u)
            if mine:
                c, t = r.choice(mine)
                return [({"t": "nft_send", "user": u, "coll": c, "token_id": t, "inner": None}, "malformed")]
            return None
        if k == "bad_send" and self.cw20s:
            u = self.trader()
            x = r.random()
            if x < 0.4:
                return [({"t": "cw20_send", "user": u, "token": r.choice(self.cw20s), "amount": 0,
                          "inner": {"k": "create_bucket_cw20", "id": self.fresh_id()}}, "malformed")]
            if x < 0.7:
                return [({"t": "cw20_send", "user": u, "token": r.choice(self.cw20s), "amount": 2 * 10 ** 15 + 1,
                          "inner": {"k": "create_bucket_cw20", "id": self.fresh_id()}}, "malformed")]
            others = [(c, t) for c, t, o, _ in v.o["nft"] if o != u]
            if others:
                c, t = r.choice(others)
                return [({"t": "nft_send", "user": u, "coll": c, "token_id": t,
                          "inner": {"k": "create_bucket_cw721", "id": self.fresh_id()}}, "malformed")]
            return None
        if k == "bad_finalize":
            c = [l for l in ls if l["kowner"] in TRADERS]
            if not c:
                return None
            l = r.choice(c)
            return [(E(l["kowner"], {"k": "finalize", "id": int(l["kid"]), "secs": r.choice(BAD_LIFETIMES + LIFETIMES)}), "malformed")]
        if k == "reuse_id":
            used_l = sorted(v.used_l() - {0})
            used_b = sorted(v.used_b() - {0})
            u = self.trader()
            path = r.choice(["n", "c", "f"])
            if used_l and r.random() < 0.5:
                m = {"k": "create_listing", "id": r.choice(used_l), "ask": self.random_ask(v, u), "wl": None}
                kind = "listing"
            elif used_b:
                m = {"k": "create_bucket", "id": r.choice(used_b)}
                kind = "bucket"
            else:
                return None
            g = G()
            if path == "n":
                g["native"] = [["uatom", 5]]
            elif path == "c" and self.cw20s:
                g["cw20"] = [[r.choice(self.cw20s), 5]]
            else:
                mine = v.nfts_of(u)
                if not mine:
                    g["native"] = [["uatom", 5]]
                else:
                    g["nfts"] = [list(r.choice(mine))]
            return [(o, "malformed") for o in self.deposit_ops(u, kind, m["id"], g, True, m.get("ask"), None)]
        if k == "bad_reg" and self.colls:
            coll = r.choice(self.colls + ["usr3", "x"])
            sender = r.choice(TRADERS + [ADMIN])
            m = r.choice([{"k": "register", "coll": coll, "payout": r.choice(TRADERS + ["x"]), "bps": r.choice(BAD_BPS + BPS)},
                          {"k": "update", "coll": coll, "payout": r.choice([None, "x", "usr1"]), "bps": r.choice([None] + BAD_BPS)},
                          {"k": "remove", "coll": coll}])
            return [({"t": "reg", "sender": sender, "msg": m}, "malformed")]
        if k == "user_hook":
            # a plain account calling the receive entry points directly
            u = self.trader()
            if r.random() < 0.5:
                m = {"k": "receive", "sender": u, "amount": 5, "inner": {"k": "create_bucket_cw20", "id": self.fresh_id()}}
            else:
                m = {"k": "receive_nft", "sender": u, "token_id": "1", "inner": {"k": "create_bucket_cw721", "id": self.fresh_id()}}
            return [(E(u, m), "malformed")]
        if k == "double":
            # repeat a random earlier successful payout / purchase
            prev = [st["op"] for st in self.s.steps if st["outcome"] == "ok" and st["op"]["t"] == "exec"
                    and st["op"]["msg"]["k"] in ("buy", "withdraw_purchased", "remove_bucket", "delete_listing")]
            if not prev:
                return None
            return [(dict(r.choice(prev)), "malformed")]
        return None

    def hostile_call(self, v, victim_rec=None):
        """The hostile contract calls a receive hook with a forged sender."""
        r = self.r
        h = r.choice(self.hostiles)
        ls, bs = v.listings(), v.buckets()
        recs = [("listing", l) for l in ls] + [("bucket", b) for b in bs]
        hook = r.choice(["receive", "receive_nft"])
        suffix = "_cw20" if hook == "receive" else "_cw721"
        if recs and r.random() < 0.75:
            kind, rec = victim_rec or r.choice(recs)
            victim = rec["kowner"]
            rid = int(rec["kid"])
            inner = {"k": ("add_to_listing" if kind == "listing" else "add_to_bucket") + suffix, "id": rid}
            if r.random() < 0.15:
                inner = {"k": ("add_to_bucket" if kind == "listing" else "add_to_listing") + suffix, "id": rid}
            elif r.random() < 0.15:
                # a forged *create* naming an id the forged sender already holds
                inner = {"k": "create_%s%s" % (kind, suffix), "id": rid}
                if kind == "listing":
                    inner.update({"ask": self.random_ask(v, victim), "wl": None})
        else:
            victim = self.trader()
            if r.random() < 0.5:
                inner = {"k": "create_bucket" + suffix, "id": self.fresh_id()}
            else:
                inner = {"k": "create_listing" + suffix, "id": self.fresh_id(), "ask": self.random_ask(v, victim), "wl": None}
        if hook == "receive":
            m = {"k": "receive", "sender": victim, "amount": r.choice([1, 5, 10 ** 6, 1, 5, 10 ** 6, 0]), "inner": inner}
        else:
            m = {"k": "receive_nft", "sender": victim, "token_id": str(r.randint(1, 9)), "inner": inner}
        return [(E(h, m), "hostile")]

    # ---- probes ----------------------------------------------------------
    def probe_ops(self, v, k):
        """Non-owner x record x message-kind probes; all are expected to be refused."""
        r = self.r
        out = []
        ls, bs = v.listings(), v.buckets()
        recs = [("listing", l) for l in ls] + [("bucket", b) for b in bs]
        if not recs:
            return out
        for _ in range(k):
            kind, rec = r.choice(recs)
            owner = rec["kowner"]
            rid = int(rec["kid"])
            outsiders = [u for u in TRADERS + [ADMIN, "usr7"] if u != owner]
            u = r.choice(outsiders)
            x = r.random()
            if x < 0.2 and self.hostiles:
                out += [(op, "probe_hostile") for op, _ in self.hostile_call(v, (kind, rec))]
                continue
            if kind == "listing":
                choices = [E(u, {"k": "add_to_listing", "id": rid}, [["ujunox", 7]]),
                           E(u, {"k": "change_ask", "id": rid, "ask": G(n=[["ujunox", 1]])}),
                           E(u, {"k": "finalize", "id": rid, "secs": 600}),
                           E(u, {"k": "delete_listing", "id": rid})]
                if rec["claimant"] != u:
                    choices.append(E(u, {"k": "withdraw_purchased", "id": rid}))
                if self.cw20s:
                    choices.append({"t": "cw20_send", "user": u, "token": r.choice(self.cw20s), "amount": 3,
                                    "inner": {"k": "add_to_listing_cw20", "id": rid}})
                mine = v.nfts_of(u)
                if mine:
                    c, t = r.choice(mine)
                    choices.append({"t": "nft_send", "user": u, "coll": c, "token_id": t, "inner": {"k": "add_to_listing_cw721", "id": rid}})
            else:
                choices = [E(u, {"k": "add_to_bucket", "id": rid}, [["ujunox", 7]]),
                           E(u, {"k": "remove_bucket", "id": rid})]
                if ls:
                    choices.append(E(u, {"k": "buy", "lid": int(r.choice(ls)["id"]), "bid": rid}))
                if self.cw20s:
                    choices.append({"t": "cw20_send", "user": u, "token": r.choice(self.cw20s), "amount": 3,
                                    "inner": {"k": "add_to_bucket_cw20", "id": rid}})
                mine = v.nfts_of(u)
                if mine:
                    c, t = r.choice(mine)
                    choices.append({"t": "nft_send", "user": u, "coll": c, "token_id": t, "inner": {"k": "add_to_bucket_cw721", "id": rid}})
            out.append((r.choice(choices), "probe"))
        return out

    # ---- driver -----------------------------------------------------------
    WEIGHTS = [("op_new_listing", 10), ("op_topup_listing", 5), ("op_change_ask", 3), ("op_finalize", 5),
               ("op_bucket_and_buy", 14), ("op_buy", 6), ("op_withdraw", 7), ("op_remove_bucket", 5),
               ("op_delete_listing", 4), ("op_reuse_traded_bucket", 6), ("op_fee_cycle", 3), ("op_advance", 9),
               ("op_registry", 7), ("op_transfer", 2), ("op_set_admin", 1)]

    def reentry_program(self, v, depth=1):
        """What the hostile contract does when the marketplace hands it a transfer: forged hook calls, withdrawals and
        purchases of whatever is there, deposits with its own coins and honest tokens."""
        r = self.r
        h = r.choice(self.hostiles)
        ls, bs = v.listings(), v.buckets()
        prog = []
        for _ in range(r.randint(1, 4)):
            x = r.random()
            if x < 0.35:
                prog.append(self.hostile_call(v)[0][0])
            elif x < 0.5:
                prog.append(E(h, {"k": "create_bucket", "id": self.fresh_id()}, [[r.choice(self.denoms), r.choice([1, 7, 200, 10 ** 7])]]))
            elif x < 0.6 and self.cw20s:
                prog.append({"t": "cw20_send", "user": h, "token": r.choice(self.cw20s), "amount": r.choice([1, 5, 50]),
                             "inner": {"k": "create_bucket_cw20", "id": self.fresh_id()}})
            elif x < 0.75 and bs:
                prog.append(E(h, {"k": "remove_bucket", "id": int(r.choice(bs)["kid"])}))
            elif x < 0.85 and ls:
                l = r.choice(ls)
                prog.append(E(h, r.choice([{"k": "withdraw_purchased", "id": int(l["kid"])}, {"k": "delete_listing", "id": int(l["kid"])}])))
            elif x < 0.95 and ls and bs:
                prog.append(E(h, {"k": "buy", "lid": int(r.choice(ls)["kid"]), "bid": int(r.choice(bs)["kid"])}))
            else:
                prog.append(E(h, {"k": "fee_cycle"}))
        # tree programs (model/ReentryDeep.v): a payout-bearing nested call may carry the program that runs if *it* is re-entered
        if depth < 3 and r.random() < 0.4:
            for i, n in enumerate(prog):
                if n.get("t") == "exec" and n["msg"]["k"] in ("remove_bucket", "withdraw_purchased", "delete_listing", "buy") \
                        and r.random() < 0.6:
                    n = dict(n)
                    n["reentry"] = self.reentry_program(v, depth + 1)
                    prog[i] = n
        return prog

    def op_hostile_own(self, v):
        """The hostile contract builds records of its own that hold its "token" next to real assets."""
        r = self.r
        h = r.choice(self.hostiles)
        own = [b for b in v.buckets() if b["kowner"] == h]
        if own and r.random() < 0.6:
            bid = int(r.choice(own)["kid"])
            return [(r.choice([E(h, {"k": "receive", "sender": h, "amount": r.choice([1, 5]), "inner": {"k": "add_to_bucket_cw20", "id": bid}}),
                               E(h, {"k": "add_to_bucket", "id": bid}, [[r.choice(self.denoms), r.choice([3, 250])]]),
                               E(h, {"k": "remove_bucket", "id": bid})]), "hostile")]
        return [(E(h, {"k": "create_bucket", "id": self.fresh_id()}, [[r.choice(self.denoms), r.choice([5, 400])]]), "hostile")]

    def op_exit_tainted(self, v):
        """An owner cashes out a record that holds a hostile "token": the marketplace will hand the hostile contract a transfer."""
        def tainted(g):
            return any(t in self.hostiles for t, _ in g["cw20"]) or any(c in self.hostiles for c, _ in g["nfts"])
        cands = [E(b["kowner"], {"k": "remove_bucket", "id": int(b["kid"])}) for b in v.buckets() if tainted(b["funds"])]
        for l in v.listings():
            if tainted(l["for_sale"]):
                if l["status"] == "Closed":
                    cands.append(E(l["kowner"], {"k": "withdraw_purchased", "id": int(l["kid"])}))
                elif l["status"] == "BeingPrepared" or (l["exp"] and int(l["exp"]) < v.now):
                    cands.append(E(l["kowner"], {"k": "delete_listing", "id": int(l["kid"])}))
        if not cands:
            return None
        return [(self.r.choice(cands), "valid")]

    def next_ops(self):
        v = View(self.s)
        if self.pending and self.r.random() < 0.75:
            return [self.pending.pop(0)]
        if self.reentry_prob and self.hostiles and self.r.random() < 0.35:
            x = self.r.random()
            ops = self.hostile_call(v) if x < 0.4 else self.op_hostile_own(v) if x < 0.6 else self.op_exit_tainted(v)
            if ops:
                return ops
        if self.r.random() < 0.15:
            m = self.op_malformed(v)
            if m:
                return m
        names_, ws = zip(*self.WEIGHTS)
        for _ in range(10):
            f = getattr(self, self.r.choices(names_, ws)[0])
            ops = f(v)
            if ops:
                first, rest = ops[0], ops[1:]
                self.pending += rest
                return [first]
        return [({"t": "advance", "dns": 10 ** 9, "dh": 1}, "valid")]

    def run(self, n_ops, fault_prob=0.0, on_state=None):
        from .experiments import is_payout_bearing, with_faults
        done = 0
        while done < n_ops:
            for op, tag in self.next_ops():
                if self.reentry_prob and self.hostiles and is_payout_bearing(op) and self.r.random() < self.reentry_prob:
                    op = dict(op)
                    op["reentry"] = self.reentry_program(View(self.s))
                if fault_prob and is_payout_bearing(op) and self.r.random() < fault_prob:
                    with_faults(self.s, op, tag)
                else:
                    self.s.do(op, tag)
                done += 1
            if self.probes_per_state:
                for op, tag in self.probe_ops(View(self.s), self.probes_per_state):
                    self.s.do(op, tag)
            if on_state:
                on_state(done)
