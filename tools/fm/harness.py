"""Subprocess wrapper around the Rust harness (JSON lines), plus the translation of neutral
operations into the JSON the real contracts parse."""
import base64
import json
import os
import subprocess

ROOT = os.path.dirname(os.path.dirname(os.path.dirname(os.path.abspath(__file__))))
BIN = os.path.join(ROOT, ".cache", "target", "release", "fm-harness")


def ask_json(g):
    return {
        "native": [{"denom": d, "amount": str(a)} for d, a in g["native"]],
        "cw20": [{"address": t, "amount": str(a)} for t, a in g["cw20"]],
        "nfts": [{"contract_address": c, "token_id": k} for c, k in g["nfts"]],
    }


def b64(obj):
    return base64.b64encode(json.dumps(obj).encode()).decode()


def inner_json(m):
    """ReceiveMsg / ReceiveNftMsg JSON; None = a payload that does not parse."""
    if m is None:
        return {"garbage": {}}
    k = m["k"]
    if k.startswith("create_listing"):
        return {k: {"listing_id": m["id"], "create_msg": {"ask": ask_json(m["ask"]), "whitelisted_buyer": m["wl"]}}}
    if k.startswith("add_to_listing"):
        return {k: {"listing_id": m["id"]}}
    if k.startswith("create_bucket") or k.startswith("add_to_bucket"):
        return {k: {"bucket_id": m["id"]}}
    raise ValueError(k)


def exec_json(m):
    """marketplace ExecuteMsg JSON for a neutral message."""
    k = m["k"]
    if k == "fee_cycle":
        return {"fee_cycle": {}}
    if k == "receive":
        return {"receive": {"sender": m["sender"], "amount": str(m["amount"]), "msg": b64(inner_json(m["inner"]))}}
    if k == "receive_nft":
        return {"receive_nft": {"sender": m["sender"], "token_id": m["token_id"], "msg": b64(inner_json(m["inner"]))}}
    if k == "create_listing":
        return {"create_listing": {"listing_id": m["id"], "create_msg": {"ask": ask_json(m["ask"]), "whitelisted_buyer": m["wl"]}}}
    if k == "add_to_listing":
        return {"add_to_listing": {"listing_id": m["id"]}}
    if k == "change_ask":
        return {"change_ask": {"listing_id": m["id"], "new_ask": ask_json(m["ask"])}}
    if k == "finalize":
        return {"finalize": {"listing_id": m["id"], "seconds": m["secs"]}}
    if k == "delete_listing":
        return {"delete_listing": {"listing_id": m["id"]}}
    if k == "create_bucket":
        return {"create_bucket": {"bucket_id": m["id"]}}
    if k == "add_to_bucket":
        return {"add_to_bucket": {"bucket_id": m["id"]}}
    if k == "remove_bucket":
        return {"remove_bucket": {"bucket_id": m["id"]}}
    if k == "buy":
        return {"buy_listing": {"listing_id": m["lid"], "bucket_id": m["bid"]}}
    if k == "withdraw_purchased":
        return {"withdraw_purchased": {"listing_id": m["id"]}}
    raise ValueError(k)


def reg_json(m):
    k = m["k"]
    if k == "register":
        return {"register": {"nft_contract": m["coll"], "payout_addr": m["payout"], "bps": m["bps"]}}
    if k == "update":
        return {"update": {"nft_contract": m["coll"], "new_payout_addr": m["payout"], "new_bps": m["bps"]}}
    if k == "remove":
        return {"remove": {"nft_contract": m["coll"]}}
    raise ValueError(k)


def coins_json(cs):
    return [[d, str(a)] for d, a in cs]


def op_json(op):
    j = op_json1(op)
    if op.get("reentry"):
        # re-entry program of the hostile contract (model/Reentry.v): exec operations it performs during dispatch
        # (an element may carry a program of its own: the tree programs of model/ReentryDeep.v)
        j["reentry"] = [op_json(x) for x in op["reentry"]]
    return j


def op_json1(op):
    t = op["t"]
    if t == "exec":
        return {"t": "exec", "sender": op["sender"], "funds": coins_json(op["funds"]), "msg": exec_json(op["msg"])}
    if t == "cw20_send":
        return {"t": "cw20_send", "user": op["user"], "token": op["token"], "amount": str(op["amount"]), "inner": inner_json(op["inner"])}
    if t == "nft_send":
        return {"t": "nft_send", "user": op["user"], "coll": op["coll"], "token_id": op["token_id"], "inner": inner_json(op["inner"])}
    if t == "cw20_transfer":
        return {"t": t, "user": op["user"], "token": op["token"], "to": op["to"], "amount": str(op["amount"])}
    if t == "nft_transfer":
        return {"t": t, "user": op["user"], "coll": op["coll"], "token_id": op["token_id"], "to": op["to"]}
    if t == "bank_send":
        return {"t": t, "user": op["user"], "to": op["to"], "coins": coins_json(op["coins"])}
    if t == "reg":
        return {"t": "reg", "sender": op["sender"], "msg": reg_json(op["msg"])}
    if t == "set_admin":
        return {"t": t, "contract": op["contract"], "admin": op["admin"]}
    if t == "advance":
        return {"t": t, "dns": str(op["dns"]), "dh": op["dh"]}
    if t == "hostile_fail":
        return {"t": t, "on": op["on"]}
    raise ValueError(t)


class Harness:
    def __init__(self, binary=None):
        self.p = subprocess.Popen([binary or BIN], stdin=subprocess.PIPE, stdout=subprocess.PIPE, text=True, bufsize=1)

    def rq(self, d):
        self.p.stdin.write(json.dumps(d) + "\n")
        self.p.stdin.flush()
        line = self.p.stdout.readline()
        if not line:
            raise RuntimeError("harness died")
        r = json.loads(line)
        if "error" in r:
            raise RuntimeError("harness error: %s" % r["error"])
        return r

    def init(self, cfg):
        return self.rq({"cmd": "init", "cfg": cfg})

    def op(self, op):
        return self.rq({"cmd": "op", "op": op_json(op), "fail_msg": op.get("fail")})

    def queries(self, addrs, pages, colls=(), batches=()):
        return self.rq({"cmd": "queries", "addrs": list(addrs), "pages": list(pages), "colls": list(colls), "batches": [list(b) for b in batches]})

    def close(self):
        try:
            self.p.stdin.write('{"cmd":"quit"}\n')
            self.p.stdin.flush()
            self.p.stdin.close()
        except Exception:
            pass
        self.p.wait(timeout=10)
