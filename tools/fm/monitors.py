"""Property oracles over *implementation* traces (DESIGN.md §5 step 3, §6 "monitor").

Each monitor is an executable restatement of the property text over the observations the harness
took from the real code (ledgers, raw records, decoded messages, outcomes) — never over the
model.  They are the search for a failing input; they never stand in for a theorem.  A finding is
a dict {prop, clause, step, detail, sig}."""
from collections import Counter

from .names import INVALID_ADDRS

WEEK = 604800
MAX_SAFE_INT = 9007199254740990
NANOS = 10 ** 9

DEPOSIT_KINDS = {"create_listing", "add_to_listing", "create_bucket", "add_to_bucket"}
NONDEPOSIT_KINDS = {"fee_cycle", "change_ask", "finalize", "delete_listing", "remove_bucket", "buy", "withdraw_purchased"}
PAYOUT_KINDS = {"remove_bucket", "delete_listing", "withdraw_purchased"}


def gb_counter(g):
    c = Counter()
    for d, a in g["native"]:
        c[("n", d)] += int(a)
    for t, a in g["cw20"]:
        c[("c", t)] += int(a)
    for cl, k in g["nfts"]:
        c[("f", cl, k)] += 1
    return c


def fee_counter(f):
    c = Counter()
    if f is not None:
        c[("n", f[0])] += int(f[1])
    return c


def wallets(o):
    w = {}
    for a, d, x in o["bank"]:
        w.setdefault(a, Counter())[("n", d)] += int(x)
    for t, a, x in o["cw20"]:
        w.setdefault(a, Counter())[("c", t)] += int(x)
    for c, k, a, _ in o["nft"]:
        w.setdefault(a, Counter())[("f", c, k)] += 1
    return w


def lmap(o):
    return {(l["kowner"], int(l["kid"])): l for l in o["listings"]}


def bmap(o):
    return {(b["kowner"], int(b["kid"])): b for b in o["buckets"]}


def by_id(o, lid):
    for l in o["listings"]:
        if int(l["id"]) == lid:
            return l
    return None


def cdiff(a, b):
    """a - b as a signed dict without zero entries."""
    d = {}
    for k in set(a) | set(b):
        v = a.get(k, 0) - b.get(k, 0)
        if v:
            d[k] = v
    return d


def faulted(st):
    """a fault was injected into one of the operation's outgoing messages (a probe whose handler refused, or emitted nothing,
    never reached the fault: it is the real execution)"""
    return st["op"].get("fail") is not None and st.get("emitted", 0) > 0


def actor(op):
    t = op["t"]
    if t == "exec":
        return op["sender"]
    if t in ("cw20_send", "nft_send", "cw20_transfer", "nft_transfer", "bank_send"):
        return op["user"]
    if t == "reg":
        return op["sender"]
    return None


def market_msg(op):
    """(kind, message dict, deposit counter, path) of the marketplace message an op delivers, or None."""
    t = op["t"]
    if t == "exec":
        m = op["msg"]
        dep = Counter()
        for d, a in op["funds"]:
            dep[("n", d)] += int(a)
        return m["k"], m, dep, "native"
    if t == "cw20_send":
        m = op["inner"]
        if m is None:
            return "garbage", None, Counter(), "cw20"
        return m["k"][:-5], m, Counter({("c", op["token"]): int(op["amount"])}), "cw20"
    if t == "nft_send":
        m = op["inner"]
        if m is None:
            return "garbage", None, Counter(), "cw721"
        return m["k"][:-6], m, Counter({("f", op["coll"], op["token_id"]): 1}), "cw721"
    return None


class Ctx:
    def __init__(self, sess):
        self.s = sess
        self.market = sess.market
        self.pool = sess.pool
        self.hostiles = set(sess.by_kind("hostile"))
        self.cw20s = set(sess.by_kind("cw20"))
        self.colls = set(sess.by_kind("cw721"))
        self.flags = sess.flags
        self.findings = []

    def add(self, prop, clause, step, detail, sig=None):
        self.findings.append({"prop": prop, "clause": clause, "step": step, "detail": detail, "sig": sig or clause})

    def hostile_asset(self, key):
        return (key[0] in ("c", "f")) and key[1] in self.hostiles

    def honest_only(self, c):
        return Counter({k: v for k, v in c.items() if not self.hostile_asset(k)})

    def has_hostile(self, g):
        return any(self.hostile_asset(k) for k in gb_counter(g))


# --------------------------------------------------------------------------
# shared: what the property text says about a purchase
# --------------------------------------------------------------------------
def registered_rates(o, colls):
    reg = {r["coll"]: r for r in o["registry"]}
    out = []
    for c in sorted(set(colls)):
        if c in reg:
            out.append((c, int(reg[c]["bps"]), reg[c]["payout"]))
    return out


def fee_denom_name(o):
    return "ujunox" if o["fee"]["kind"] == "JUNO" else "uusdcx"


def side_after(o, g, rates):
    """Expected post-purchase content of one side, its fee coin, and its royalty payouts."""
    fd = fee_denom_name(o)
    native = [[d, int(a)] for d, a in g["native"]]
    fee = None
    for cn in native:
        if cn[0] == fd:
            f = cn[1] * 5 // 1000
            if f > 0:
                fee = [fd, f]
                cn[1] -= f
            break
    payouts = []  # (asset key, payout addr, amount)
    content = Counter()
    for d, a in native:
        rest = a
        for _, bps, pay in rates:
            p = a * bps // 10000
            if p:
                payouts.append((("n", d), pay, p))
                rest -= p
        content[("n", d)] += rest
    for t, a in g["cw20"]:
        a = int(a)
        rest = a
        for _, bps, pay in rates:
            p = a * bps // 10000
            if p:
                payouts.append((("c", t), pay, p))
                rest -= p
        content[("c", t)] += rest
    for c, k in g["nfts"]:
        content[("f", c, k)] += 1
    return content, fee, payouts


def purchase_view(ctx, o, caller, lid, bid):
    """Returns dict with: met_strict / met_loose (terms as the property states them, with the
    expiry clause strict / non-strict), and when the records exist the expected effect."""
    l = by_id(o, lid)
    b = bmap(o).get((caller, bid))
    v = {"l": l, "b": b}
    if l is None or b is None:
        v["met_strict"] = v["met_loose"] = False
        return v
    now = int(o["time_ns"])
    seller_rates = registered_rates(o, [c for c, _ in l["for_sale"]["nfts"]])  # charged to the bucket
    buyer_rates = registered_rates(o, [c for c, _ in b["funds"]["nfts"]])      # charged to the listing
    wl0 = first_reservation(ctx.s, lid, len(ctx.s.steps))
    wl = l["wl"] if wl0 is NOTSEEN else wl0
    base = (l["status"] == "FinalizedReady" and l["claimant"] is None and (wl is None or wl == caller)
            and gb_counter(b["funds"]) == gb_counter(l["ask"])
            and len(gb_counter(b["funds"])) == len(b["funds"]["native"]) + len(b["funds"]["cw20"]) + len(b["funds"]["nfts"])
            and sum(x[1] for x in seller_rates) <= 5000 and sum(x[1] for x in buyer_rates) <= 5000
            and l["exp"] is not None)
    v["met_strict"] = bool(base and now < int(l["exp"]))
    v["met_loose"] = bool(base and now <= int(l["exp"]))
    v["seller_rates"], v["buyer_rates"] = seller_rates, buyer_rates
    v["b_after"] = side_after(o, b["funds"], seller_rates)
    v["l_after"] = side_after(o, l["for_sale"], buyer_rates)
    v["hostile"] = ctx.has_hostile(b["funds"]) or ctx.has_hostile(l["for_sale"])
    return v


# --------------------------------------------------------------------------
# the monitors
# --------------------------------------------------------------------------
def owed(ctx, o):
    c = Counter()
    nft_records = Counter()
    for l in o["listings"]:
        c.update(gb_counter(l["for_sale"]))
        c.update(fee_counter(l["fee"]))
    for b in o["buckets"]:
        c.update(gb_counter(b["funds"]))
        c.update(fee_counter(b["fee"]))
    return ctx.honest_only(c)


def holdings(ctx, o):
    return ctx.honest_only(wallets(o).get(ctx.market, Counter()))


def m_c01(ctx, st):
    if "donation" in ctx.flags:
        return
    o = st["post"]
    d = cdiff(holdings(ctx, o), owed(ctx, o))
    if d:
        ctx.add("C01", "holdings_ne_obligations", st["i"], "holdings - obligations = %r" % (sorted(d.items()),))


def m_c02(ctx, st):
    op = st["op"]
    if op["t"] != "exec" or op["msg"]["k"] != "buy" or faulted(st):
        return
    if op["funds"]:
        return  # C19's domain
    o = st["pre"]
    v = purchase_view(ctx, o, op["sender"], op["msg"]["lid"], op["msg"]["bid"])
    okd = st["outcome"] == "ok"
    if v["met_strict"] and not okd and not v.get("hostile"):
        # (with a hostile "token" in the trade a refusal may be that token refusing to move: C18's domain)
        ctx.add("C02", "terms_met_but_refused", st["i"], "purchase refused although terms are met: %s" % st["err"][-160:])
    if okd and not v["met_loose"]:
        ctx.add("C02", "accepted_without_terms", st["i"], "purchase accepted although the terms are not met")
    if not okd and st["post"] != st["pre"]:
        ctx.add("C02", "refused_with_effect", st["i"], "refused purchase changed the state")


def m_refused_no_effect(ctx, st):
    if st["outcome"] != "ok" and st["post"] != st["pre"]:
        for p in ("C02", "C04", "C15", "C19"):
            ctx.add(p, "refused_with_effect", st["i"], "a refused/failed operation changed state or balances")


def m_c03(ctx, st, hist):
    op = st["op"]
    if st["outcome"] != "ok":
        if op["t"] == "exec" and op["msg"]["k"] == "withdraw_purchased" and not op["funds"] and op.get("fail") is None:
            l = lmap(st["pre"]).get((op["sender"], op["msg"]["id"]))
            if l is not None and l["claimant"] == op["sender"] and not ctx.has_hostile(l["for_sale"]) \
                    and not st["pre"].get("hostile_fail"):
                ctx.add("C03", "claim_refused", st["i"], "%s bought listing %s and is refused its goods (status %s): claimable zero times"
                        % (op["sender"], op["msg"]["id"], l["status"]))
        # the bucket side of the swap, and the buckets of buyers who lost: a bucket's holder (the seller after a sale, the
        # depositor otherwise) asks for it, nothing is attached, no fault is injected, it holds no hostile asset - refused
        if op["t"] == "exec" and op["msg"]["k"] == "remove_bucket" and not op["funds"] and op.get("fail") is None:
            b = bmap(st["pre"]).get((op["sender"], op["msg"]["id"]))
            if b is not None and not ctx.has_hostile(b["funds"]) and not st["pre"].get("hostile_fail"):
                ctx.add("C03", "bucket_claim_refused", st["i"], "%s holds bucket %s and is refused its contents: claimable zero times"
                        % (op["sender"], op["msg"]["id"]))
        return
    mm = market_msg(op)
    if mm is None:
        return
    k, m = mm[0], mm[1]
    if k == "buy" and op["t"] == "exec":
        lid, bid, buyer = m["lid"], m["bid"], op["sender"]
        hist["bought"][lid] += 1
        if hist["bought"][lid] > 1:
            ctx.add("C03", "sold_twice", st["i"], "listing %d sold %d times" % (lid, hist["bought"][lid]))
        pre_l = by_id(st["pre"], lid)
        seller = pre_l["kowner"] if pre_l else None
        lp, bp = lmap(st["post"]), bmap(st["post"])
        nl = lp.get((buyer, lid))
        if nl is None or nl["claimant"] != buyer or nl["creator"] != buyer or nl["status"] != "Closed":
            ctx.add("C03", "swap_listing_half", st["i"], "after the purchase the listing is not the buyer's claimable record")
        if seller is not None and seller != buyer and (seller, lid) in lp:
            ctx.add("C03", "swap_listing_half", st["i"], "seller still holds the sold listing")
        nb = bp.get((seller, bid))
        if nb is None or nb["owner"] != seller:
            ctx.add("C03", "swap_bucket_half", st["i"], "after the purchase the bucket is not the seller's")
        if seller != buyer and (buyer, bid) in bp:
            ctx.add("C03", "swap_bucket_half", st["i"], "buyer still holds the spent bucket")
        # losing buyers keep their buckets intact
        pre_b = bmap(st["pre"])
        for key, b in pre_b.items():
            if key != (buyer, bid) and bp.get(key) != b:
                ctx.add("C03", "loser_bucket_touched", st["i"], "bucket %r changed by somebody else's purchase" % (key,))
    elif k == "withdraw_purchased":
        hist["claimed_l"][m["id"]] += 1
        if hist["claimed_l"][m["id"]] > 1 or hist["deleted_l"][m["id"]]:
            ctx.add("C03", "claimed_twice", st["i"], "listing %d paid out more than once" % m["id"])
    elif k == "delete_listing":
        hist["deleted_l"][m["id"]] += 1
        if hist["deleted_l"][m["id"]] > 1 or hist["claimed_l"][m["id"]] or hist["bought"][m["id"]]:
            ctx.add("C03", "claimed_twice", st["i"], "listing %d deleted after being sold / paid out" % m["id"])
    elif k == "remove_bucket":
        hist["removed_b"][m["id"]] += 1
        if hist["removed_b"][m["id"]] > 1:
            ctx.add("C03", "claimed_twice", st["i"], "bucket %d paid out more than once" % m["id"])


def changed_records(pre, post):
    lp, lq = lmap(pre), lmap(post)
    bp, bq = bmap(pre), bmap(post)
    ch = []
    for k in set(lp) | set(lq):
        if lp.get(k) != lq.get(k):
            ch.append(("listing", k))
    for k in set(bp) | set(bq):
        if bp.get(k) != bq.get(k):
            ch.append(("bucket", k))
    return ch


NOTSEEN = object()


def first_reservation(sess, lid, before):
    """whitelisted buyer of listing lid as *asked for* by the message that created it (falling back to the record as first
    stored); NOTSEEN if the listing existed from the start.  No message can change a reservation afterwards."""
    for st in sess.steps[:before]:
        if by_id(st["pre"], lid) is None:
            l = by_id(st["post"], lid)
            if l is not None:
                op = st["op"]
                m = op.get("msg") if op["t"] == "exec" else op.get("inner")
                if op["t"] == "exec" and m and m.get("k") in ("receive", "receive_nft"):
                    m = m.get("inner")
                if m and m.get("k", "").startswith("create_listing") and "wl" in m and m["wl"] not in INVALID_ADDRS:
                    return m["wl"]
                return l["wl"]
    return NOTSEEN


def m_c04(ctx, st):
    op = st["op"]
    a = actor(op)
    if op["t"] == "exec" and op["msg"]["k"] in ("receive", "receive_nft") and st["outcome"] == "ok" \
            and a not in ctx.hostiles and a not in ctx.cw20s and a not in ctx.colls and a != ctx.market:
        # the hook entry points belong to token contracts: a plain account calling one directly (naming whomever as depositor)
        # acts on records without owning a token that moved
        ctx.add("C04", "hook_call_by_user_accepted", st["i"], "%s called %s directly for depositor %r and was accepted" % (a, op["msg"]["k"], op["msg"].get("sender")))
    if a is None or a in ctx.hostiles or op["t"] in ("reg",):
        return
    if st["outcome"] != "ok":
        return
    mm = market_msg(op)
    ch = changed_records(st["pre"], st["post"])
    allowed = set()
    if mm and mm[0] == "buy" and op["t"] == "exec":
        lid, bid = mm[1]["lid"], mm[1]["bid"]
        pl = by_id(st["pre"], lid)
        if pl:
            allowed |= {("listing", (pl["kowner"], lid)), ("listing", (a, lid)), ("bucket", (a, bid)), ("bucket", (pl["kowner"], bid))}
            # only a *valid* purchase may take a listing from its owner: finalized and unsold before
            expired = pl["exp"] is not None and int(pl["exp"]) < int(st["pre"]["time_ns"])
            # the reservation is the one the listing was created with: no message can change it
            wl0 = first_reservation(ctx.s, lid, st["i"])
            wl_now = pl["wl"] if wl0 is NOTSEEN else wl0
            reserved = wl_now is not None and wl_now != a
            pl = dict(pl, wl=wl_now)
            if pl["kowner"] != a and (pl["status"] != "FinalizedReady" or pl["claimant"] is not None or expired or reserved):
                ctx.add("C04", "foreign_record_taken_by_invalid_purchase", st["i"],
                        "%s bought listing %d of %s although it was %s / claimant %r%s%s" % (a, lid, pl["kowner"], pl["status"], pl["claimant"],
                                                                                            " / expired" if expired else "",
                                                                                            " / reserved for %s" % pl["wl"] if reserved else ""))
            # the proceeds are filed under (seller, bid): a record the seller already holds there must not be overwritten
            if pl["kowner"] != a and (pl["kowner"], bid) in bmap(st["pre"]):
                ctx.add("C04", "foreign_record_overwritten", st["i"], "bucket %r of the seller was overwritten by %s's purchase" % ((pl["kowner"], bid), a))
            if pl["kowner"] != a and (a, lid) in lmap(st["pre"]):
                ctx.add("C04", "foreign_record_overwritten", st["i"], "listing %r existed before %s bought listing %d" % ((a, lid), a, lid))
    for kind, key in ch:
        if key[0] != a and (kind, key) not in allowed:
            ctx.add("C04", "foreign_record_changed", st["i"], "%s %r changed by %s" % (kind, key, a))
    wp, wq = wallets(st["pre"]), wallets(st["post"])
    for acct in set(wp) | set(wq):
        if acct in (a, ctx.market):
            continue
        d = cdiff(wq.get(acct, Counter()), wp.get(acct, Counter()))
        neg = {k: v for k, v in d.items() if v < 0}
        if neg and not (op["t"] in ("cw20_transfer", "nft_transfer", "bank_send")):
            ctx.add("C04", "foreign_wallet_decreased", st["i"], "wallet of %s decreased: %r" % (acct, sorted(neg.items())))


def m_c05(ctx, st):
    op = st["op"]
    if st["outcome"] != "ok" or op.get("fail") is not None:
        return
    mm = market_msg(op)
    if mm is None:
        return
    k, m, dep, path = mm
    a = actor(op)
    if op["t"] == "exec" and op["msg"]["k"] in ("receive", "receive_nft") and any(int(x) > 0 for _, x in op["funds"]):
        # a token hook deposits exactly the token it announces: coins attached to the notification are not part of
        # any deposit, so an accepted one has moved assets that no record states (whoever the calling contract is)
        ctx.add("C05", "hook_accepted_with_coins", st["i"], "%s from %s accepted with %r attached: the coins are in no record" % (op["msg"]["k"], op["sender"], op["funds"]))
    if op["t"] == "exec" and op["msg"]["k"] == "buy":
        b = bmap(st["pre"]).get((a, op["msg"]["bid"]))
        if b is not None and b["fee"] is not None:
            paid = Counter()
            for mm2 in st["msgs"]:
                if mm2["kind"] == "fund_pool":
                    for d, x in mm2["coins"]:
                        paid[("n", d)] += int(x)
            if paid != fee_counter(b["fee"]):
                ctx.add("C05", "consumed_bucket_fee_not_paid", st["i"], "the bucket spent in this purchase carried the fee %r; the pool was sent %r" % (b["fee"], sorted(paid.items())))
    if a in ctx.hostiles:
        return
    wp, wq = wallets(st["pre"]), wallets(st["post"])

    def delta(acct):
        return cdiff(wq.get(acct, Counter()), wp.get(acct, Counter()))

    def others_unchanged(exclude):
        for acct in set(wp) | set(wq):
            if acct not in exclude and delta(acct):
                ctx.add("C05", "bystander_balance_changed", st["i"], "%s: %s changed by %r" % (k, acct, sorted(delta(acct).items())))

    if k in DEPOSIT_KINDS:
        is_l = "listing" in k
        key = (a, m["id"])
        pre_r = (lmap(st["pre"]) if is_l else bmap(st["pre"])).get(key)
        post_r = (lmap(st["post"]) if is_l else bmap(st["post"])).get(key)
        field = "for_sale" if is_l else "funds"
        before = gb_counter(pre_r[field]) if pre_r else Counter()
        if post_r is None:
            ctx.add("C05", "deposit_record_missing", st["i"], "no record %r after a successful %s" % (key, k))
            return
        after = gb_counter(post_r[field])
        if cdiff(after, before) != dict(dep):
            ctx.add("C05", "deposit_not_exact", st["i"], "%s: record grew by %r, deposit was %r" % (k, sorted(cdiff(after, before).items()), sorted(dep.items())))
        if pre_r is not None:
            # a top-up changes the content and nothing else of the record (owner, pending fee, status, ask, times, ...)
            other = [f for f in pre_r if f != field and pre_r.get(f) != post_r.get(f)]
            if other:
                ctx.add("C05", "topup_changed_other_fields", st["i"], "%s changed %r of record %r (e.g. %r -> %r)" % (k, other, key, pre_r.get(other[0]), post_r.get(other[0])))
        for kind, kk in changed_records(st["pre"], st["post"]):
            if kk != key:
                ctx.add("C05", "deposit_touched_other_record", st["i"], "%s also changed %s %r" % (k, kind, kk))
        if delta(a) != {x: -v for x, v in dep.items()}:
            ctx.add("C05", "depositor_delta", st["i"], "%s: depositor delta %r for deposit %r" % (k, sorted(delta(a).items()), sorted(dep.items())))
        if delta(ctx.market) != dict(dep):
            ctx.add("C05", "market_delta", st["i"], "%s: marketplace delta %r for deposit %r" % (k, sorted(delta(ctx.market).items()), sorted(dep.items())))
        others_unchanged({a, ctx.market})
    elif k in PAYOUT_KINDS and op["t"] == "exec":
        rid = m["id"]
        if k == "remove_bucket":
            rec = bmap(st["pre"]).get((a, rid))
            content = gb_counter(rec["funds"]) if rec else None
            gone = (a, rid) not in bmap(st["post"])
        else:
            rec = lmap(st["pre"]).get((a, rid))
            content = gb_counter(rec["for_sale"]) if rec else None
            gone = (a, rid) not in lmap(st["post"])
        if rec is None:
            ctx.add("C05", "payout_of_foreign_record", st["i"], "%s %d succeeded for %s who has no such record" % (k, rid, a))
            return
        if not gone:
            ctx.add("C05", "payout_record_kept", st["i"], "%s %d: record still present" % (k, rid))
        fee = fee_counter(rec["fee"])
        content_h = ctx.honest_only(content)
        never_traded = (k == "delete_listing") or (k == "remove_bucket" and rec["fee"] is None and False)
        exp_owner = Counter(content_h)
        exp_pool = Counter(fee)
        da, dp = Counter(delta(a)), Counter(delta(ctx.pool))
        if a == ctx.pool:
            exp_owner = exp_owner + exp_pool
            exp_pool = exp_owner
        if dict(da) != dict(exp_owner):
            ctx.add("C05", "payout_owner_delta", st["i"], "%s: owner received %r, record held %r" % (k, sorted(da.items()), sorted(exp_owner.items())))
        if dict(dp) != dict(exp_pool):
            ctx.add("C05", "payout_pool_delta", st["i"], "%s: pool received %r, recorded fee %r" % (k, sorted(dp.items()), sorted(exp_pool.items())))
        if k == "delete_listing" and (rec["fee"] is not None or dp) and a != ctx.pool:
            ctx.add("C05", "refund_with_fee", st["i"], "deleting a never-traded listing paid a fee")
        others_unchanged({a, ctx.market, ctx.pool})
        for kind, kk in changed_records(st["pre"], st["post"]):
            if kk != (a, rid):
                ctx.add("C05", "payout_touched_other_record", st["i"], "%s also changed %s %r" % (k, kind, kk))


def m_c06_c11(ctx, st):
    op = st["op"]
    if op["t"] != "exec" or op["msg"]["k"] != "buy" or st["outcome"] != "ok" or op.get("fail") is not None:
        return
    buyer, lid, bid = op["sender"], op["msg"]["lid"], op["msg"]["bid"]
    v = purchase_view(ctx, st["pre"], buyer, lid, bid)
    if v["l"] is None or v["b"] is None:
        ctx.add("C06", "purchase_of_nothing", st["i"], "purchase succeeded without listing/bucket")
        return
    seller = v["l"]["kowner"]
    (b_content, b_fee, b_pay), (l_content, l_fee, l_pay) = v["b_after"], v["l_after"]
    nl = lmap(st["post"]).get((buyer, lid))
    nb = bmap(st["post"]).get((seller, bid))
    if nl is None or nb is None:
        return  # C03 reports
    if gb_counter(nl["for_sale"]) != +l_content or nl["fee"] != (l_fee and [l_fee[0], str(l_fee[1])]):
        ctx.add("C06", "listing_side_price", st["i"], "listing side after purchase %r fee %r, expected %r fee %r"
                % (sorted(gb_counter(nl["for_sale"]).items()), nl["fee"], sorted((+l_content).items()), l_fee))
    if gb_counter(nb["funds"]) != +b_content or nb["fee"] != (b_fee and [b_fee[0], str(b_fee[1])]):
        ctx.add("C06", "bucket_side_price", st["i"], "bucket side after purchase %r fee %r, expected %r fee %r"
                % (sorted(gb_counter(nb["funds"]).items()), nb["fee"], sorted((+b_content).items()), b_fee))
    # royalty payments, as messages and as wallet deltas
    exp_msgs = Counter()
    exp_delta = {}
    for key, pay, amt in b_pay + l_pay:
        exp_msgs[(key, pay, amt)] += 1
        exp_delta.setdefault(pay, Counter())[key] += amt
    got = Counter()
    for m in st["msgs"]:
        if m["kind"] == "bank":
            for d, a in m["coins"]:
                got[(("n", d), m["to"], int(a))] += 1
        elif m["kind"] == "cw20_transfer":
            got[(("c", m["token"]), m["to"], int(m["amount"]))] += 1
        elif m["kind"] == "fund_pool":
            pass
        else:
            got[("other", repr(m), 0)] += 1
    if got != exp_msgs:
        ctx.add("C06", "royalty_messages", st["i"], "royalty messages %r, expected %r" % (sorted(got.items(), key=repr), sorted(exp_msgs.items(), key=repr)))
    # C17: one payout per non-zero (asset, collection) pair, to the right address
    pairs_got, pairs_exp = Counter(), Counter()
    for (key, to, _), n in got.items():
        pairs_got[(key, to)] += n
    for (key, to, _), n in exp_msgs.items():
        pairs_exp[(key, to)] += n
    if pairs_got != pairs_exp:
        ctx.add("C17", "payouts_not_one_per_pair", st["i"], "payouts per (asset, address) %r, expected %r"
                % (sorted(pairs_got.items(), key=repr), sorted(pairs_exp.items(), key=repr)))
    wp, wq = wallets(st["pre"]), wallets(st["post"])
    old_fee = fee_counter(v["b"]["fee"])
    for acct in set(wp) | set(wq):
        if acct == ctx.market:
            continue
        d = cdiff(wq.get(acct, Counter()), wp.get(acct, Counter()))
        e = Counter(exp_delta.get(acct, Counter()))
        if acct == ctx.pool:
            e = e + old_fee  # a fee pending on a re-used bucket may be flushed at the purchase
            if d != dict(e) and d == dict(exp_delta.get(acct, Counter())):
                continue  # ... or stay pending (C10 judges that)
        if ctx.honest_only(Counter({k: v for k, v in d.items() if v > 0})) != ctx.honest_only(e) or any(x < 0 for x in d.values()):
            which = "trader_wallet_touched" if acct in (buyer, seller) else "royalty_wallet_delta"
            ctx.add("C06", which, st["i"], "%s changed by %r at the purchase, expected %r" % (acct, sorted(d.items()), sorted(e.items())))
    # C11: at most half, never zero
    for side, g, pays in (("bucket", v["b"]["funds"], b_pay), ("listing", v["l"]["for_sale"], l_pay)):
        content, fee, _ = side_after(st["pre"], g, [])
        out = Counter()
        for key, _, amt in pays:
            out[key] += amt
        for key, a in content.items():
            if key[0] == "f":
                continue
            if 2 * out.get(key, 0) > a:
                ctx.add("C11", "more_than_half", st["i"], "%s side: %r pays %d of %d in royalties" % (side, key, out[key], a))
    for rec, field in ((nl, "for_sale"), (nb, "funds")):
        for key, a in gb_counter(rec[field]).items():
            if a == 0:
                ctx.add("C11", "reduced_to_zero", st["i"], "asset %r reduced to zero by the purchase" % (key,))
    for side, rates in (("seller", v["seller_rates"]), ("buyer", v["buyer_rates"])):
        if sum(x[1] for x in rates) > 5000:
            ctx.add("C11", "over_half_accepted", st["i"], "%s-side royalties sum to %d bps and the purchase went through" % (side, sum(x[1] for x in rates)))


def m_c11_refusal(ctx, st):
    """exactly 50 % is allowed, and every registered collection counts once however its NFTs are arranged: a purchase whose
    terms are met (which includes distinct rates summing to at most 5000 on either side) and that involves registered
    collections is not refused"""
    op = st["op"]
    if op["t"] != "exec" or op["msg"]["k"] != "buy" or st["outcome"] == "ok" or faulted(st) or op["funds"]:
        return
    v = purchase_view(ctx, st["pre"], op["sender"], op["msg"]["lid"], op["msg"]["bid"])
    if v["met_strict"] and not v.get("hostile") and (v["seller_rates"] or v["buyer_rates"]):
        ctx.add("C11", "within_cap_refused", st["i"], "purchase refused although the registered rates sum to %d / %d bps: %s"
                % (sum(x[1] for x in v["seller_rates"]), sum(x[1] for x in v["buyer_rates"]), st["err"][-120:]))


def m_c08(ctx, st, hist):
    op = st["op"]
    pre, post = st["pre"], st["post"]
    now = int(pre["time_ns"])
    lp = {int(l["id"]): l for l in pre["listings"]}
    lq = {int(l["id"]): l for l in post["listings"]}
    RANK = {"BeingPrepared": 0, "FinalizedReady": 1, "Closed": 2}
    for lid, l in lp.items():
        n = lq.get(lid)
        if n is not None and RANK[n["status"]] < RANK[l["status"]]:
            ctx.add("C08", "status_went_back", st["i"], "listing %d went from %s to %s" % (lid, l["status"], n["status"]))
        if l["status"] == "FinalizedReady":
            if n is None:
                ok_delete = (op["t"] == "exec" and op["msg"]["k"] == "delete_listing" and op["msg"]["id"] == lid
                             and op["sender"] == l["kowner"] and l["exp"] is not None and now >= int(l["exp"]))
                if not ok_delete:
                    ctx.add("C08", "offer_withdrawn_early", st["i"], "finalized listing %d disappeared (now=%d exp=%s) through %r" % (lid, now, l["exp"], op.get("msg", op)["k"] if op["t"] == "exec" else op["t"]))
            else:
                same = all(n[f] == l[f] for f in ("ask", "wl", "fin", "exp"))
                if n["status"] == "FinalizedReady":
                    same = same and n["for_sale"] == l["for_sale"] and n["kowner"] == l["kowner"]
                if not same:
                    ctx.add("C08", "offer_changed", st["i"], "terms of finalized listing %d changed" % lid)
        if l["status"] == "Closed" and n is not None and n != l:
            ctx.add("C08", "sold_listing_changed", st["i"], "sold listing %d changed" % lid)
    for lid in lq:
        if lid not in lp and hist["seen_l"].get(lid):
            ctx.add("C08", "listing_reopened", st["i"], "listing id %d came back after it was gone" % lid)
    for lid in lp:
        hist["seen_l"][lid] = True
    for lid in lq:
        hist["seen_l"][lid] = True
    # finalize accepted exactly for the legal lifetimes
    if op["t"] == "exec" and op["msg"]["k"] == "finalize" and not op["funds"] and op.get("fail") is None:
        l = lmap(pre).get((op["sender"], op["msg"]["id"]))
        secs = op["msg"]["secs"]
        should = l is not None and l["status"] == "BeingPrepared" and 600 <= secs <= 1209600
        if should != (st["outcome"] == "ok"):
            ctx.add("C08", "finalize_acceptance", st["i"], "finalize(%d s) %s, expected %s" % (secs, st["outcome"], "accepted" if should else "refused"))
        if st["outcome"] == "ok" and l is not None:
            n = lmap(post).get((op["sender"], op["msg"]["id"]))
            if (n is None or n["status"] != "FinalizedReady" or n["fin"] != str(now) or n["exp"] != str(now + secs * NANOS)
                    or any(n[f] != l[f] for f in ("ask", "wl", "for_sale", "claimant", "fee", "creator"))):
                ctx.add("C08", "finalize_effect", st["i"], "finalize did not set exactly status/finalized/expiration")


def m_c09(ctx, st, hist):
    pre, post = st["pre"], st["post"]
    for key, name in (("l_used", "listing"), ("b_used", "bucket")):
        if not set(pre[key]) <= set(post[key]):
            ctx.add("C09", "used_id_forgotten", st["i"], "%s ids %r no longer marked used" % (name, sorted(set(pre[key]) - set(post[key]))))
    ids = [int(l["id"]) for l in post["listings"]]
    if len(ids) != len(set(ids)) or any(int(l["id"]) != int(l["kid"]) for l in post["listings"]):
        ctx.add("C09", "duplicate_live_listing_id", st["i"], "live listing ids %r" % sorted(ids))
    bids = [int(b["kid"]) for b in post["buckets"]]
    if len(bids) != len(set(bids)):
        ctx.add("C09", "duplicate_live_bucket_id", st["i"], "live bucket ids %r" % sorted(bids))
    if not set(str(i) for i in ids) <= set(post["l_used"]) or not set(str(i) for i in bids) <= set(post["b_used"]):
        ctx.add("C09", "live_id_not_marked", st["i"], "a live id is not marked used")
    mm = market_msg(st["op"]) if st["op"]["t"] in ("exec", "cw20_send", "nft_send") else None
    if st["op"]["t"] == "exec" and st["op"]["msg"]["k"] in ("receive", "receive_nft") and st["op"]["msg"]["inner"]:
        inner = st["op"]["msg"]["inner"]
        mm = (inner["k"].rsplit("_", 1)[0], inner, None, "forged")
    if mm and mm[0] in ("create_listing", "create_bucket") and st["outcome"] == "ok":
        kind = "l" if mm[0] == "create_listing" else "b"
        rid = mm[1]["id"]
        if rid == 0 or rid >= MAX_SAFE_INT:
            ctx.add("C09", "illegal_id_accepted", st["i"], "id %d accepted" % rid)
        if str(rid) in pre[kind + "_used"]:
            ctx.add("C09", "used_id_accepted", st["i"], "%s id %d accepted although used before" % (mm[0], rid))
        hist["created"][(kind, rid)] += 1
        if hist["created"][(kind, rid)] > 1:
            ctx.add("C09", "id_created_twice", st["i"], "%s id %d accepted twice in one history" % (mm[0], rid))
        if str(rid) not in post[kind + "_used"]:
            ctx.add("C09", "creation_not_marked", st["i"], "%s id %d not marked used" % (mm[0], rid))


def m_c10(ctx, st, hist):
    op = st["op"]
    pre, post = st["pre"], st["post"]
    if st["outcome"] == "ok" and op["t"] == "exec" and op["msg"]["k"] == "buy":
        v = purchase_view(ctx, pre, op["sender"], op["msg"]["lid"], op["msg"]["bid"])
        if v["l"] is not None and v["b"] is not None:
            for side in ("b_after", "l_after"):
                f = v[side][1]
                if f:
                    hist["charged"][f[0]] += f[1]
    for m in st["msgs"]:
        if m["kind"] == "fund_pool" and (not m["wellformed"] or m["depositor"] != ctx.market):
            ctx.add("C10", "malformed_pool_message", st["i"], "fund-community-pool message %r" % (m,))
    pool = wallets(post).get(ctx.pool, Counter())
    pend = Counter()
    for l in post["listings"]:
        pend.update(fee_counter(l["fee"]))
    for b in post["buckets"]:
        pend.update(fee_counter(b["fee"]))
    for d in set(hist["charged"]) | set(k[1] for k in pend) | set(k[1] for k in pool if k[0] == "n"):
        lhs = pool.get(("n", d), 0) + pend.get(("n", d), 0)
        rhs = hist["pool0"].get(("n", d), 0) + hist["charged"].get(d, 0) + hist["pool_in"].get(d, 0)
        if lhs != rhs:
            ctx.add("C10", "fee_ledger", st["i"], "denom %s: pool %d + pending %d != charged so far %d" % (d, pool.get(("n", d), 0), pend.get(("n", d), 0), rhs))
            hist["pool_in"][d] += lhs - rhs  # report each discrepancy once
    # a payout carries exactly its recorded fee to the pool
    if st["outcome"] == "ok" and op["t"] == "exec" and op["msg"]["k"] in PAYOUT_KINDS and op.get("fail") is None:
        a, rid, k = op["sender"], op["msg"]["id"], op["msg"]["k"]
        rec = (bmap(pre) if k == "remove_bucket" else lmap(pre)).get((a, rid))
        if rec is not None:
            got = Counter()
            for m in st["msgs"]:
                if m["kind"] == "fund_pool":
                    for d, x in m["coins"]:
                        got[("n", d)] += int(x)
            if got != fee_counter(rec["fee"]):
                ctx.add("C10", "payout_fee_message", st["i"], "%s paid %r to the pool, recorded fee %r" % (k, sorted(got.items()), rec["fee"]))


def wf_gbal(g):
    c = gb_counter(g)
    n = len(g["native"]) + len(g["cw20"]) + len(g["nfts"])
    if n == 0:
        return "empty"
    if len(c) != n:
        return "duplicate asset"
    if any(v <= 0 for v in c.values()):
        return "zero amount"
    if any(v >= 2 ** 128 for v in c.values()):
        return "amount out of range"
    return None


def m_c12(ctx, st):
    o = st["post"]
    if o is st["pre"] and st["i"] > 0:
        pass
    for l in o["listings"]:
        key = (l["kowner"], int(l["kid"]))
        pr = wf_gbal(l["for_sale"])
        if pr:
            ctx.add("C12", "listing_goods_malformed", st["i"], "listing %r goods: %s" % (key, pr))
        pr = wf_gbal(l["ask"])
        if pr or len(gb_counter(l["ask"])) > 25:
            ctx.add("C12", "ask_malformed", st["i"], "listing %r ask: %s" % (key, pr or "more than 25 items"))
        if l["kowner"] != l["creator"] or int(l["kid"]) != int(l["id"]):
            ctx.add("C12", "listing_misfiled", st["i"], "listing %r filed under a key that is not (owner, id)" % (key,))
        s = l["status"]
        bad = None
        if s == "BeingPrepared" and (l["fin"] or l["exp"] or l["claimant"] or l["fee"]):
            bad = "preparing listing with times/buyer/fee"
        if s == "FinalizedReady":
            if not l["fin"] or not l["exp"] or l["claimant"] or l["fee"]:
                bad = "finalized listing without times or with buyer/fee"
            else:
                life = int(l["exp"]) - int(l["fin"])
                if life % NANOS or not (600 <= life // NANOS <= 1209600):
                    bad = "lifetime %d ns" % life
        if s == "Closed" and (not l["fin"] or not l["exp"] or l["claimant"] != l["creator"]):
            bad = "sold listing without times or buyer != owner"
        if l["fee"] is not None and (int(l["fee"][1]) <= 0 or s != "Closed"):
            bad = "fee on unsold listing or zero fee"
        if bad:
            ctx.add("C12", "listing_lifecycle_inconsistent", st["i"], "listing %r: %s" % (key, bad))
    for b in o["buckets"]:
        key = (b["kowner"], int(b["kid"]))
        pr = wf_gbal(b["funds"])
        if pr:
            ctx.add("C12", "bucket_malformed", st["i"], "bucket %r: %s" % (key, pr))
        if b["kowner"] != b["owner"]:
            ctx.add("C12", "bucket_misfiled", st["i"], "bucket %r owner field %s" % (key, b["owner"]))
        if b["fee"] is not None and int(b["fee"][1]) <= 0:
            ctx.add("C12", "bucket_malformed", st["i"], "bucket %r zero fee" % (key,))
    # top-ups never exceed 25 assets; payout messages are valid
    mm = market_msg(st["op"]) if st["op"]["t"] in ("exec", "cw20_send", "nft_send") else None
    if mm and st["outcome"] == "ok" and mm[0] in ("add_to_listing", "add_to_bucket"):
        a = actor(st["op"])
        rec = (lmap(o) if mm[0] == "add_to_listing" else bmap(o)).get((a, mm[1]["id"]))
        if rec is not None:
            g = rec["for_sale"] if mm[0] == "add_to_listing" else rec["funds"]
            if len(g["native"]) + len(g["cw20"]) + len(g["nfts"]) > 25:
                ctx.add("C12", "topped_up_beyond_25", st["i"], "record %r has more than 25 assets after a top-up" % ((a, mm[1]["id"]),))
    for m in st["msgs"]:
        if m["kind"] == "bank":
            ds = [d for d, _ in m["coins"]]
            if not ds or len(ds) != len(set(ds)) or any(int(a) == 0 for _, a in m["coins"]):
                ctx.add("C12", "unpayable_bank_message", st["i"], "bank send %r" % (m["coins"],))
        if m["kind"] == "cw20_transfer" and int(m["amount"]) == 0:
            ctx.add("C12", "unpayable_cw20_message", st["i"], "zero cw20 transfer")
    # acceptance of deposits: a valid deposit into an owned, editable record (or a fresh legal id) is accepted
    if mm and mm[0] in DEPOSIT_KINDS and st["op"].get("fail") is None and actor(st["op"]) not in ctx.hostiles:
        exp = deposit_should_succeed(ctx, st, mm)
        if exp is not None and exp != (st["outcome"] == "ok"):
            ctx.add("C12", "deposit_acceptance", st["i"], "%s via %s %s, expected %s" % (mm[0], mm[3], st["outcome"], "accepted" if exp else "refused"))


def valid_ask(ctx, g, valid_addr):
    if wf_gbal(g):
        return False
    if len(gb_counter(g)) > 25:
        return False
    return all(valid_addr(t) for t, _ in g["cw20"]) and all(valid_addr(c) for c, _ in g["nfts"])


def ids_created_before(sess, i, kind):
    """ids for which a creation of `kind` ('create_listing' / 'create_bucket') was accepted before step i, by any path"""
    out = set()
    for st in sess.steps[:i]:
        if st["outcome"] != "ok":
            continue
        op = st["op"]
        m = None
        if op["t"] == "exec":
            m = op["msg"]
            if m["k"] in ("receive", "receive_nft"):
                m = m.get("inner")
        elif op["t"] in ("cw20_send", "nft_send"):
            m = op.get("inner")
        if m and m.get("k", "").startswith(kind):
            out.add(m["id"])
        for n, okk in zip(op.get("reentry") or [], st.get("nested") or []):
            mm2 = n.get("msg") if n["t"] == "exec" else n.get("inner")
            if okk and mm2:
                if mm2.get("k") in ("receive", "receive_nft"):
                    mm2 = mm2.get("inner")
                if mm2 and mm2.get("k", "").startswith(kind):
                    out.add(mm2["id"])
    return out


def deposit_should_succeed(ctx, st, mm):
    """None when the property text does not decide (e.g. the depositor cannot afford it)."""
    k, m, dep, path = mm
    op, pre = st["op"], st["pre"]
    a = actor(op)
    from .names import INVALID_ADDRS
    valid_addr = lambda x: x not in INVALID_ADDRS
    # does the chain deliver the deposit at all?
    w = wallets(pre).get(a, Counter())
    if path == "native":
        funds = op["funds"]
        ds = [d for d, _ in funds]
        if not funds or any(int(x) == 0 for _, x in funds) or len(ds) != len(set(ds)):
            return False
        if any(w.get(("n", d), 0) < int(x) for d, x in funds):
            return None
    elif path == "cw20":
        if int(op["amount"]) == 0:
            return False
        if w.get(("c", op["token"]), 0) < int(op["amount"]):
            return None
    else:
        if w.get(("f", op["coll"], op["token_id"]), 0) != 1:
            return False
    rid = m["id"]
    if k in ("create_listing", "create_bucket"):
        # "fresh" is judged on the history (ids accepted for a creation so far, through any path), not on the implementation's
        # own used-id tables: a table that marks the wrong id space must not be able to excuse a refusal
        used = ids_created_before(ctx.s, st["i"], k)
        if rid == 0 or rid >= MAX_SAFE_INT or rid in used:
            return False
        if k == "create_listing":
            if not valid_ask(ctx, m["ask"], valid_addr):
                return False
            if m["wl"] is not None and (not valid_addr(m["wl"]) or m["wl"] == a):
                return False
        return True
    is_l = k == "add_to_listing"
    rec = (lmap(pre) if is_l else bmap(pre)).get((a, rid))
    if rec is None:
        return False
    if is_l and rec["status"] != "BeingPrepared":
        return False
    g = rec["for_sale"] if is_l else rec["funds"]
    after = gb_counter(g) + dep
    if any(v > 1 for kk, v in after.items() if kk[0] == "f"):
        return False
    if any(v >= 2 ** 128 for v in after.values()):
        return False
    return len(after) <= 25


def m_c13(ctx, st, hist):
    op = st["op"]
    pre, post = st["pre"], st["post"]
    cyc = op["t"] == "exec" and op["msg"]["k"] == "fee_cycle"
    el = int(pre["time_ns"]) // NANOS - hist["last_switch"]
    if pre["fee"] != post["fee"]:
        if not (cyc and st["outcome"] == "ok"):
            ctx.add("C13", "switched_without_cycle", st["i"], "fee denomination changed by %r" % (op.get("msg", op).get("k", op["t"]),))
        if pre["fee"]["kind"] == post["fee"]["kind"]:
            ctx.add("C13", "not_alternating", st["i"], "fee denomination 'switched' from %s to %s" % (pre["fee"]["kind"], post["fee"]["kind"]))
        now_s = int(pre["time_ns"]) // NANOS
        if now_s - hist["last_switch"] < WEEK:
            ctx.add("C13", "switched_too_early", st["i"], "switched %d s after the previous switch / instantiation" % (now_s - hist["last_switch"]))
        else:
            # to the nanosecond: the stored origin is rounded down to whole seconds, the elapsed time must not be rounded up
            el_ns = int(pre["time_ns"]) - last_switch_ns(ctx.s, st["i"])
            if el_ns < WEEK * NANOS:
                ctx.add("C13", "switched_too_early", st["i"], "switched %d.%09d s after the previous switch / instantiation" % (el_ns // NANOS, el_ns % NANOS))
        hist["last_switch"] = now_s
    if cyc and not op["funds"] and op.get("fail") is None:
        if el > WEEK and st["outcome"] != "ok":
            ctx.add("C13", "cycle_refused_after_week", st["i"], "cycle refused %d s after the last switch" % el)
        if el < WEEK and st["outcome"] == "ok":
            ctx.add("C13", "switched_too_early", st["i"], "cycle accepted %d s after the last switch" % el)
        if st["outcome"] == "ok" and changed_records(pre, post):
            ctx.add("C13", "cycle_touched_records", st["i"], "fee cycle changed records")
    if st["outcome"] == "ok" and op["t"] == "exec" and op["msg"]["k"] == "buy":
        fd = fee_denom_name(pre)
        buyer, lid, bid = op["sender"], op["msg"]["lid"], op["msg"]["bid"]
        pl = by_id(pre, lid)
        nl = lmap(post).get((buyer, lid))
        nb = bmap(post).get((pl["kowner"], bid)) if pl else None
        for rec in (nl, nb):
            if rec is not None and rec["fee"] is not None and rec["fee"][0] != fd:
                ctx.add("C13", "charged_in_wrong_denom", st["i"], "fee recorded in %s while %s is in force" % (rec["fee"][0], fd))
    elif st["outcome"] == "ok":
        # a recorded fee is unaffected by anything but its own purchase / payout
        fp = {("l", k): v["fee"] for k, v in lmap(pre).items()}
        fp.update({("b", k): v["fee"] for k, v in bmap(pre).items()})
        fq = {("l", k): v["fee"] for k, v in lmap(post).items()}
        fq.update({("b", k): v["fee"] for k, v in bmap(post).items()})
        for k, f in fp.items():
            if k in fq and fq[k] != f:
                ctx.add("C13", "recorded_fee_changed", st["i"], "pending fee of %r changed from %r to %r" % (k, f, fq[k]))
                ctx.add("C17", "recorded_fee_altered", st["i"], "the fee split recorded on %r (%r) was altered to %r by %s: fee + remainder no longer add up to what was paid"
                        % (k, f, fq[k], op.get("msg", op).get("k", op["t"]) if isinstance(op.get("msg", op), dict) else op["t"]))

    if st["outcome"] == "ok" and op["t"] == "exec" and op.get("fail") is None and op["msg"]["k"] in PAYOUT_KINDS | {"buy"}:
        # a recorded fee leaves for the pool in the denomination it was recorded in, whatever is in force now
        k, a = op["msg"]["k"], op["sender"]
        if k == "buy":
            rec = bmap(pre).get((a, op["msg"]["bid"]))
        else:
            rec = (bmap(pre) if k == "remove_bucket" else lmap(pre)).get((a, op["msg"]["id"]))
        if rec is not None:
            got = set(d for m in st["msgs"] if m["kind"] == "fund_pool" for d, x in m["coins"] if int(x) > 0)
            exp = set(d for (_, d), x in fee_counter(rec["fee"]).items() if x > 0)
            if got != exp:
                ctx.add("C13", "recorded_fee_paid_in_other_denom", st["i"],
                        "%s sent %r to the pool, the fee was recorded as %r" % (k, sorted(got), rec["fee"]))

def m_c14(ctx, st):
    op = st["op"]
    pre, post = st["pre"], st["post"]
    rp = {r["coll"]: r for r in pre["registry"]}
    rq = {r["coll"]: r for r in post["registry"]}
    for c, r in rq.items():
        if not (10 <= int(r["bps"]) <= 300):
            ctx.add("C14", "rate_out_of_bounds", st["i"], "entry %s has %s bps" % (c, r["bps"]))
    if op["t"] != "reg":
        if rp != rq:
            ctx.add("C14", "registry_changed_by_other_message", st["i"], "registry changed by %s" % op["t"])
        return
    from .names import INVALID_ADDRS
    m = op["msg"]
    c = m["coll"]
    admins = dict((a, b) for a, b in pre["admin"])
    is_admin = c in admins and admins[c] is not None and admins[c] == op["sender"]
    h = int(pre["height"])
    valid = lambda x: x not in INVALID_ADDRS
    e = rp.get(c)
    cooled = e is not None and int(e["last_updated"]) + 100 <= h
    if m["k"] == "register":
        should = is_admin and valid(c) and valid(m["payout"]) and 10 <= m["bps"] <= 300 and e is None
        new = {"coll": c, "last_updated": str(h), "bps": str(m["bps"]), "payout": m["payout"]}
    elif m["k"] == "update":
        should = (is_admin and valid(c) and cooled and (m["bps"] is None or 10 <= m["bps"] <= 300)
                  and (m["payout"] is None or valid(m["payout"])))
        new = e and {"coll": c, "last_updated": str(h), "bps": str(m["bps"] if m["bps"] is not None else e["bps"]),
                     "payout": m["payout"] if m["payout"] is not None else e["payout"]}
    else:
        should = is_admin and valid(c) and cooled
        new = None
    okd = st["outcome"] == "ok"
    if okd and not is_admin:
        ctx.add("C14", "changed_by_non_admin", st["i"], "%s of %s by %s who is not its admin" % (m["k"], c, op["sender"]))
    if okd and m["k"] in ("update", "remove") and not cooled:
        ctx.add("C14", "cooldown_ignored", st["i"], "%s of %s %d blocks after the last change" % (m["k"], c, h - int(e["last_updated"]) if e else -1))
    if should != okd:
        ctx.add("C14", "acceptance", st["i"], "%s %r %s, expected %s" % (m["k"], m, st["outcome"], "accepted" if should else "refused"))
    if okd:
        expect = dict(rp)
        if new is None:
            expect.pop(c, None)
        else:
            expect[c] = new
        if expect != rq:
            ctx.add("C14", "effect", st["i"], "registry after %s is %r, expected %r" % (m["k"], rq, expect))
    elif rp != rq:
        ctx.add("C14", "refused_with_effect", st["i"], "refused registry message changed the registry")


def m_c15(ctx, st):
    for m in st["msgs"]:
        if m.get("reply_on") != "never" or m.get("gas_limit") is not None or m.get("kind") == "other":
            ctx.add("C15", "message_not_fire_and_forget", st["i"], "outgoing message %r" % (m,))
    if st["op"].get("fail") is not None and st["tag"] == "fault":
        if st["outcome"] == "ok" or st["post"] != st["pre"]:
            ctx.add("C15", "fault_had_effect", st["i"], "operation with failing message #%d: outcome %s, state %s"
                    % (st["op"]["fail"], st["outcome"], "changed" if st["post"] != st["pre"] else "unchanged"))
    if st["tag"] == "retry" and st["outcome"] != "ok":
        ctx.add("C15", "retry_failed", st["i"], "operation failed once the fault was gone: %s" % st["err"][-160:])


def m_c18(ctx, st):
    op = st["op"]
    if actor(op) not in ctx.hostiles or op["t"] != "exec":
        return
    pre, post = st["pre"], st["post"]
    h = op["sender"]
    for kind, key in changed_records(pre, post):
        if key[0] == h:
            continue
        m = op["msg"]
        before = (lmap(pre) if kind == "listing" else bmap(pre)).get(key)
        after = (lmap(post) if kind == "listing" else bmap(post)).get(key)
        sig = None
        if m["k"] in ("receive", "receive_nft") and m["inner"] is not None and m["sender"] == key[0]:
            ik = m["inner"]["k"]
            if before is None and ik.startswith("create_"):
                # a record *created* in somebody's name holding only hostile-issued junk: nobody's escrow is altered
                continue
            if before is not None and after is not None and ik.startswith("add_to_") and m["inner"]["id"] == key[1]:
                field = "for_sale" if kind == "listing" else "funds"
                grown = cdiff(gb_counter(after[field]), gb_counter(before[field]))
                rest_same = all(after[f] == before[f] for f in after if f != field)
                only_hostile_added = bool(grown) and all(v > 0 and ctx.hostile_asset(k) for k, v in grown.items())
                state = "bucket" if kind == "bucket" else before["status"]
                if rest_same and only_hostile_added and state in ("bucket", "BeingPrepared"):
                    sig = "forged_topup:%s:%s" % (m["k"], "bucket" if kind == "bucket" else "preparing_listing")
        if sig:
            ctx.add("C18", "forged_topup", st["i"], "hostile %s added its own token to %s %r of %s via %s" % (h, kind, key, key[0], m["k"]), sig)
        else:
            ctx.add("C18", "victim_record_changed", st["i"], "hostile %s changed %s %r through %r" % (h, kind, key, m["k"]))
    wp, wq = wallets(pre), wallets(post)
    for acct in set(wp) | set(wq):
        if acct == h or acct == ctx.market:
            continue  # (the contract's own deposits and payouts move the marketplace's holdings: C01 judges those)
        d = cdiff(wq.get(acct, Counter()), wp.get(acct, Counter()))
        if ctx.honest_only(Counter({k: abs(v) for k, v in d.items()})):
            ctx.add("C18", "honest_asset_moved", st["i"], "hostile call moved honest assets of %s: %r" % (acct, sorted(d.items())))


def m_c19(ctx, st):
    op = st["op"]
    if op["t"] != "exec":
        return
    k = op["msg"]["k"]
    a = op["sender"]          # user account or contract (a contract forwards the coins attached to the callback)
    wp, wq = wallets(st["pre"]), wallets(st["post"])
    d = cdiff(wq.get(a, Counter()), wp.get(a, Counter()))
    if st["outcome"] != "ok":
        if d:
            ctx.add("C19", "refused_but_debited", st["i"], "refused %s changed the sender's assets by %r" % (k, sorted(d.items())))
        return
    if k in NONDEPOSIT_KINDS or k in ("receive", "receive_nft"):
        if op["funds"] and any(int(x) > 0 for _, x in op["funds"]):
            ctx.add("C19", "coins_absorbed", st["i"], "%s accepted with %r attached" % (k, op["funds"]))
        if any(v < 0 for v in d.values()):
            ctx.add("C19", "non_deposit_debited_sender", st["i"], "%s reduced its sender's assets: %r" % (k, sorted(d.items())))


def last_switch_ns(sess, i):
    """Exact block time (ns) of the last switch of the fee denomination before step i, or of the instantiation."""
    for st in reversed(sess.steps[:i]):
        if st["pre"]["fee"] != st["post"]["fee"]:
            return int(st["pre"]["time_ns"])
    o = sess.obs0
    t = int(o["time_ns"])
    return t if t // NANOS == int(o["fee"]["last"]) else int(o["fee"]["last"]) * NANOS


def new_hist(sess):
    return {"bought": Counter(), "claimed_l": Counter(), "deleted_l": Counter(), "removed_b": Counter(),
            "seen_l": {}, "created": Counter(), "charged": Counter(), "pool_in": Counter(),
            "pool0": wallets(sess.obs0).get(sess.pool, Counter()),
            "last_switch": int(sess.obs0["fee"]["last"])}


def m_reentrant(ctx, st):
    """Transaction-level judgements on a transaction with re-entry, from the outcomes of the nested calls
    (reported by the hostile contract's reply handler)."""
    op = st["op"]
    if st["outcome"] != "ok" or not op.get("reentry") or st.get("nested") is None:
        return
    calls = [op] + [n for n, okk in zip(op["reentry"], st["nested"]) if okk]
    # C03: each record is claimable exactly once - also within one transaction
    exits = Counter()
    for c in calls:
        if c["t"] == "exec" and c["msg"]["k"] in PAYOUT_KINDS:
            exits[(c["msg"]["k"], c["sender"], c["msg"]["id"])] += 1
    for key, n in exits.items():
        if n > 1:
            ctx.add("C03", "claimed_twice_in_one_transaction", st["i"],
                    "%s of record %s by %s went through %d times in one transaction (the second time from inside the delivery of the first payout)" % (key[0], key[2], key[1], n))
    # C07 / C03: a record that was cashed out is gone afterwards
    post = st["post"]
    for (k, sender, rid), n in exits.items():
        still = (bmap(post) if k == "remove_bucket" else lmap(post)).get((sender, rid))
        if still is not None:
            ctx.add("C07", "paid_out_record_still_stored", st["i"], "%s of %s by %s went through, yet the record is still stored: it can be claimed again or blocks" % (k, rid, sender))
            ctx.add("C03", "paid_out_record_still_stored", st["i"], "%s of %s by %s went through, yet the record is still stored" % (k, rid, sender))


def m_c16_cycle(ctx, st):
    """C16: a cycle attempt before the next-change time the fee query reports is refused, one after it is accepted.  The
    reported time is the stored origin + one week (the query battery checks that the query says exactly that)."""
    op = st["op"]
    if op["t"] != "exec" or op["msg"]["k"] != "fee_cycle" or op["funds"] or op.get("fail") is not None:
        return
    now_s = int(st["pre"]["time_ns"]) // NANOS
    nxt = int(st["pre"]["fee"]["last"]) + WEEK
    if now_s < nxt and st["outcome"] == "ok":
        ctx.add("C16", "cycle_accepted_before_next_change", st["i"], "cycle accepted at %d although the fee query reports next_change %d" % (now_s, nxt))
    if now_s > nxt and st["outcome"] != "ok":
        ctx.add("C16", "cycle_refused_after_next_change", st["i"], "cycle refused at %d although the fee query reports next_change %d" % (now_s, nxt))


def m_c16_listed(ctx, st):
    """C16: a listed item is never already unpurchasable - a purchase attempted in the very state in which the market
    query listed the item, with a bucket that matches the ask, is not refused."""
    seen = getattr(ctx.s, "market_seen", None)
    op = st["op"]
    if not seen or op["t"] != "exec" or op["msg"]["k"] != "buy" or st["outcome"] == "ok" or op.get("fail") is not None or op["funds"]:
        return
    listed = seen.get(st["i"] - 1)
    if listed is None or op["msg"]["lid"] not in listed:
        return
    v = purchase_view(ctx, st["pre"], op["sender"], op["msg"]["lid"], op["msg"]["bid"])
    l, b = v["l"], v["b"]
    if l is None or b is None or gb_counter(b["funds"]) != gb_counter(l["ask"]) or (l["wl"] is not None and l["wl"] != op["sender"]):
        return
    if any(sum(x[1] for x in rates) > 5000 for rates in (v["seller_rates"], v["buyer_rates"])):
        return
    ctx.add("C16", "listed_but_purchase_refused", st["i"],
            "the market query listed %s at %s, and a purchase with a matching bucket in that same state was refused: %s" % (op["msg"]["lid"], st["pre"]["time_ns"], st["err"][-120:]))


def run_all(sess, ctx=None):
    ctx = ctx or Ctx(sess)
    hist = new_hist(sess)
    for st in sess.steps:
        if "reentrant" in ctx.flags:
            # a transaction may contain nested marketplace calls made by a hostile contract during dispatch: the
            # per-operation monitors (one call, its own messages) do not apply; what is judged at the transaction
            # boundary is the backing of the escrow, the well-formedness of the records and all-or-nothing;
            # everything else is judged by the correspondence with model/Reentry.v
            m_c01(ctx, st)
            m_refused_no_effect(ctx, st)
            m_c12(ctx, st)
            m_reentrant(ctx, st)
            continue
        if st["op"]["t"] == "bank_send" and st["op"]["to"] == ctx.pool and st["outcome"] == "ok":
            for d, a in st["op"]["coins"]:
                hist["pool_in"][d] += int(a)
        m_c01(ctx, st)
        m_c02(ctx, st)
        m_refused_no_effect(ctx, st)
        m_c03(ctx, st, hist)
        m_c04(ctx, st)
        m_c05(ctx, st)
        m_c06_c11(ctx, st)
        m_c11_refusal(ctx, st)
        m_c08(ctx, st, hist)
        m_c09(ctx, st, hist)
        m_c10(ctx, st, hist)
        m_c12(ctx, st)
        m_c13(ctx, st, hist)
        m_c14(ctx, st)
        m_c15(ctx, st)
        m_c18(ctx, st)
        m_c19(ctx, st)
        m_c16_listed(ctx, st)
        m_c16_cycle(ctx, st)
    return ctx.findings
