"""Constructors for neutral operations."""
import copy


def G(n=(), c=(), f=()):
    return {"native": [list(x) for x in n], "cw20": [list(x) for x in c], "nfts": [list(x) for x in f]}


def copy_gbal(g):
    return {"native": [[d, int(a)] for d, a in g["native"]], "cw20": [[t, int(a)] for t, a in g["cw20"]],
            "nfts": [[c, k] for c, k in g["nfts"]]}


def E(sender, msg, funds=(), fail=None):
    op = {"t": "exec", "sender": sender, "funds": [[d, int(a)] for d, a in funds], "msg": copy.deepcopy(msg)}
    if fail is not None:
        op["fail"] = fail
    return op
