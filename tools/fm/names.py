"""Name <-> number table shared by the harness side (names) and the Coq side (numbers).

Addresses: usr0..usr7 -> 0..7, cpool -> 9, contractK -> 10+K (the byte order of these names under
cw-storage-plus' length-prefixed keys is the numeric order, which the paged queries rely on);
invalid addresses -> >= 1000.  Denominations: ujunox 0, uusdcx 1, uatom 2, uosmo 3, dNN -> 10+NN, xNNN -> 200+NNN.
NFT token ids are decimal strings, or one of the ODD_TOKENS below: cw721 token ids are arbitrary
strings, and ids that differ only in letter case, surrounding blanks or leading zeros are different
tokens (distinct numbers on the Coq side)."""

USERS = ["usr%d" % i for i in range(8)]
POOL = "cpool"
INVALID_ADDRS = {"x": 1000, "USR0": 1001, "": 1002, "Contract2": 1003}
# "UATOM", "Uatom", "uatom " are different bank denominations from "uatom" (case / blank variants, like the odd token ids)
BASE_DENOMS = {"ujunox": 0, "uusdcx": 1, "uatom": 2, "uosmo": 3, "UATOM": 4, "Uatom": 5, "UJUNOX": 6}


def addr_num(name):
    if name in INVALID_ADDRS:
        return INVALID_ADDRS[name]
    if name.startswith("usr") and name[3:].isdigit() and len(name) == 4:
        return int(name[3:])
    if name == POOL:
        return 9
    if name.startswith("contract") and name[8:].isdigit():
        k = int(name[8:])
        assert k < 90, name
        return 10 + k
    raise ValueError("address outside the universe: %r" % (name,))


def addr_sort_key(name):
    """cw-storage-plus key order: 2-byte length prefix, then bytes."""
    return (len(name.encode()), name.encode())


def denom_num(d):
    if d in BASE_DENOMS:
        return BASE_DENOMS[d]
    if len(d) == 3 and d[0] == "d" and d[1:].isdigit():
        return 10 + int(d[1:])
    if len(d) == 4 and d[0] == "x" and d[1:].isdigit():
        return 200 + int(d[1:])
    raise ValueError("denom outside the universe: %r" % (d,))


ODD_TOKENS = {"Dragon": 100001, "dragon": 100002, "DRAGON": 100003, " 7": 100004, "7 ": 100005, "07": 100006,
              "7\t": 100007, "\u00e9": 100008, "e\u0301": 100009, "": 100010}


def tok_num(t):
    if t in ODD_TOKENS:
        return ODD_TOKENS[t]
    assert t.isdigit() and str(int(t)) == t, t
    return int(t)


def check_order(names):
    """The numeric order of valid addresses must be their storage key order."""
    valid = [n for n in names if n not in INVALID_ADDRS]
    a = sorted(valid, key=addr_num)
    b = sorted(valid, key=addr_sort_key)
    assert a == b, (a, b)
