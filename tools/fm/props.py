"""Per-property projections (DESIGN.md §4.2): which components of the step comparison
(bits of `check_step`, coq/corr/CheckStep.v) a property's theorems depend on, and on which steps."""
from .monitors import DEPOSIT_KINDS, PAYOUT_KINDS

OUTCOME, L_SKEL, L_FULL, B_SKEL, B_FULL, L_USED, B_USED, FEE, REGITEM, REGISTRY = range(10)
LEDGER_OTHERS, LEDGER_SELF, MSGS, TOTALS, PENDING, POOL, OFFER, MSG_TOTALS, CONTENTS, ENV, WFBIT, NESTED = range(10, 22)

COMPONENT_NAMES = ["outcome", "listing keys/owner/claimant/status", "listings (all fields)", "bucket keys/owner",
                   "buckets (all fields)", "used listing ids", "used bucket ids", "fee item", "registry item", "registry entries",
                   "ledgers of everybody but the marketplace", "the marketplace's own ledger rows", "outgoing messages (multiset)",
                   "per-asset owed totals + recorded NFTs", "pending fees", "community-pool ledger",
                   "offer tuple (status, goods, ask, whitelist, times)", "per-asset totals of outgoing messages",
                   "record contents", "clock / admin table", "well-formedness verdict", "outcomes of the re-entrant calls"]

Q_FEE, Q_OWNER, Q_BUCKETS, Q_WL, Q_MARKET, Q_ROYADDR, Q_SINGLE, Q_MULTI = range(8)
QUERY_NAMES = ["fee query", "listings by owner", "buckets by owner", "whitelist query", "market query", "royalty address",
               "registry single lookup", "registry batched lookup"]


def m(*bits):
    r = 0
    for b in bits:
        r |= 1 << b
    return r


ALL_STATE = m(L_FULL, B_FULL, L_USED, B_USED, FEE, REGISTRY, LEDGER_OTHERS, LEDGER_SELF)


REENTRANT_PROPS = {
    # what a transaction with re-entry (model/Reentry.v) is compared on, for the properties that have a theorem about it
    "C01": (TOTALS, LEDGER_SELF, MSG_TOTALS, NESTED),
    "C03": (OUTCOME, L_SKEL, B_SKEL, NESTED),
    "C04": (L_FULL, B_FULL, LEDGER_OTHERS, NESTED),
    "C07": (OUTCOME, L_SKEL, B_SKEL, LEDGER_SELF, NESTED),
    "C08": (OFFER, L_SKEL, NESTED),
    "C09": (L_USED, B_USED, NESTED),
    "C10": (PENDING, POOL, NESTED),
    "C12": (L_FULL, B_FULL, NESTED),
    "C15": (OUTCOME, NESTED) + (L_FULL, B_FULL, L_USED, B_USED, FEE, REGISTRY, LEDGER_OTHERS, LEDGER_SELF),
    "C18": (OUTCOME, L_FULL, B_FULL, LEDGER_OTHERS, LEDGER_SELF, NESTED),
}


def step_mask(prop, d):
    """Components compared for property `prop` on a step with descriptor d (runner.step_desc)."""
    if "reentry" in d["f"]:
        return m(*REENTRANT_PROPS[prop]) if prop in REENTRANT_PROPS else 0
    return step_mask1(prop, d)


def step_mask1(prop, d):
    k, mk, tag, f = d["k"], d["mk"], d["tag"], d["f"]
    fault = "fault" in f
    hostile = "hostile_sender" in f or tag in ("hostile", "probe_hostile")
    if prop == "C01":
        return m(TOTALS, LEDGER_SELF, MSG_TOTALS)
    if prop == "C02":
        if mk == "buy" and "exact_expiry" not in f and "funds" not in f and not fault and not hostile:
            return m(OUTCOME, L_SKEL, B_SKEL)
        return 0
    if prop == "C03":
        if mk in ("buy", "withdraw_purchased", "delete_listing", "remove_bucket") and "exact_expiry" not in f and not fault:
            return m(OUTCOME, L_SKEL, B_SKEL)
        return m(L_SKEL, B_SKEL)
    if prop == "C04":
        if tag in ("probe", "malformed") and not hostile:
            return m(OUTCOME, L_FULL, B_FULL, LEDGER_OTHERS)
        return 0
    if prop == "C05":
        if (mk in DEPOSIT_KINDS or mk in PAYOUT_KINDS) and not fault and not hostile and "exact_expiry" not in f:
            return m(CONTENTS, LEDGER_OTHERS, LEDGER_SELF, POOL, L_SKEL, B_SKEL)
        return 0
    if prop == "C06":
        if mk == "buy" and not fault and "exact_expiry" not in f:
            return m(L_FULL, B_FULL, MSGS, LEDGER_OTHERS)
        return 0
    if prop == "C07":
        if tag == "drain":
            return m(OUTCOME, L_SKEL, B_SKEL)
        if mk in PAYOUT_KINDS and not fault and "exact_expiry" not in f and not hostile:
            return m(OUTCOME)
        return 0
    if prop == "C08":
        if mk in ("finalize", "change_ask", "add_to_listing", "delete_listing") and "exact_expiry" not in f and "funds" not in f:
            return m(OUTCOME, OFFER)
        return m(OFFER) if mk != "buy" else 0
    if prop == "C09":
        if mk in ("create_listing", "create_bucket"):
            return m(OUTCOME, L_USED, B_USED, L_SKEL, B_SKEL)
        return m(L_USED, B_USED)
    if prop == "C10":
        return m(PENDING, POOL)
    if prop == "C11":
        if mk == "buy" and not fault and "exact_expiry" not in f and "funds" not in f:
            return m(OUTCOME, MSG_TOTALS)
        return 0
    if prop == "C12":
        if mk in DEPOSIT_KINDS or mk == "change_ask":
            return m(OUTCOME, WFBIT) if "funds" not in f or mk in DEPOSIT_KINDS else m(WFBIT)
        return m(WFBIT)
    if prop == "C13":
        if mk == "fee_cycle":
            return m(OUTCOME, FEE) if ("exact_week" not in f and "funds" not in f) else 0
        return m(FEE)
    if prop == "C14":
        if k == "reg":
            return m(OUTCOME, REGISTRY)
        return m(REGISTRY)
    if prop == "C15":
        if fault or tag == "retry":
            return m(OUTCOME) | ALL_STATE
        return 0
    if prop == "C16":
        return 0
    if prop == "C17":
        return 0
    if prop == "C18":
        if hostile:
            return m(OUTCOME, L_FULL, B_FULL, LEDGER_OTHERS, LEDGER_SELF)
        return 0
    if prop == "C19":
        if "funds" in f and k in ("fee_cycle", "change_ask", "finalize", "delete_listing", "remove_bucket", "buy", "withdraw_purchased", "receive", "receive_nft"):
            return m(OUTCOME, LEDGER_OTHERS, LEDGER_SELF)
        return 0
    return 0


def query_mask(prop):
    if prop == "C16":
        return m(Q_FEE, Q_OWNER, Q_BUCKETS, Q_WL, Q_MARKET, Q_ROYADDR)
    if prop == "C14":
        return m(Q_SINGLE, Q_MULTI)
    return 0


def names_of(mask, table):
    return [table[i] for i in range(len(table)) if mask >> i & 1]
