"""Direct calls of the public pure functions `calc_fee_coin`, `GenericBalance::royalties`,
`genbal_cmp` on boundary-dense inputs: real code vs. closed-form oracle (monitor) vs. model (Coq)."""
import os
import random
import time
import traceback
from collections import Counter

from . import emit
from .harness import Harness

U128 = 2 ** 128
BOUNDARY = [1, 2, 33, 34, 99, 100, 101, 199, 200, 201, 399, 400, 401, 999, 1000, 9999, 10000, 10001, 333333, 2 ** 32, 2 ** 64 - 1, 2 ** 64,
            2 ** 64 + 1, 2 ** 100, 2 ** 127 - 1, 2 ** 127, 2 ** 128 - 2, 2 ** 128 - 1]
RATES = [10, 11, 33, 100, 150, 299, 300]
DENOMS = ["ujunox", "uusdcx", "uatom", "uosmo"]
TOKENS = ["contract2", "contract3"]
PAYOUTS = ["usr0", "usr1", "usr5"]


def amount(r):
    x = r.random()
    if x < 0.45:
        return r.choice(BOUNDARY)
    if x < 0.6:
        b = r.choice(RATES)
        return max(1, (10000 // b) * r.randint(1, 50) + r.choice([-1, 0, 1]))
    if x < 0.75:
        return max(1, 200 * r.randint(1, 10 ** 6) + r.choice([-1, 0, 1]))
    if x < 0.9:
        return max(1, 2 ** r.randint(1, 127) + r.choice([-1, 0, 1]))
    return r.randint(1, U128 - 1)


def gbal(r):
    nn = r.choice([0, 1, 1, 2, 3, 4])
    nc = r.choice([0, 0, 1, 2])
    g = {"native": [[d, amount(r)] for d in r.sample(DENOMS, nn)],
         "cw20": [[t, amount(r)] for t in r.sample(TOKENS, nc)],
         "nfts": [["contract4", str(k)] for k in r.sample(range(1, 9), r.choice([0, 0, 1, 3]))]}
    if not g["native"] and not g["cw20"] and not g["nfts"]:
        g["native"] = [["ujunox", amount(r)]]
    return g


def cap_boundary_rates(r):
    """Rate lists of legal rates whose sum sits at the 50 % cap: exactly 5000, one legal step below and above."""
    target = r.choice([5000, 5000, 5000, 4990, 5010, 4999, 5001])
    n = r.choice([17, 18, 20, 25])
    base = [300] * (target // 300)
    rest = target - sum(base)
    while rest and rest < 10:          # the last entry must be a legal rate too
        base[-1] -= 10
        rest += 10
    bps = base + ([rest] if rest else [])
    while len(bps) < n and max(bps) >= 20:
        i = bps.index(max(bps))
        half = bps[i] // 2
        if half < 10:
            break
        bps[i] -= half
        bps.append(half)
    r.shuffle(bps)
    return [{"bps": b, "payout": r.choice(PAYOUTS), "last_updated": r.randint(1, 9999)} for b in bps[:25]]


def rates(r):
    if r.random() < 0.08:
        return cap_boundary_rates(r)
    n = r.choice([0, 1, 1, 2, 3, 5, 16, 17, 18, 25])
    rs = []
    for _ in range(n):
        if r.random() < 0.15:
            rs.append(None)
        else:
            rs.append({"bps": r.choice(RATES if r.random() < 0.6 else [300]), "payout": r.choice(PAYOUTS), "last_updated": r.randint(1, 9999)})
    return rs


def to_h(g):
    return {"native": [[d, str(a)] for d, a in g["native"]], "cw20": [[t, str(a)] for t, a in g["cw20"]], "nfts": g["nfts"]}


def oracle_fee(kind, g, res, findings, i):
    fd = "ujunox" if kind == "JUNO" else "uusdcx"
    if "ok" not in res:
        findings.append({"prop": "C17", "clause": "fee_split_aborted", "step": i, "detail": "calc_fee_coin failed/panicked on %r" % (g,), "sig": "fee_split_aborted"})
        return
    fee, bal = res["ok"]["fee"], res["ok"]["bal"]
    before = Counter({d: a for d, a in g["native"]})
    after = Counter({d: int(a) for d, a in bal["native"]})
    f = before.get(fd, 0) * 5 // 1000
    exp_fee = [fd, str(f)] if f > 0 else None
    exp_after = Counter(before)
    exp_after[fd] -= f
    bad = None
    if fee != exp_fee:
        bad = "fee %r, expected %r (floor of 0.5 %% of %d)" % (fee, exp_fee, before.get(fd, 0))
    elif +after != +exp_after or len(bal["native"]) != len(g["native"]):
        bad = "native amounts after the split %r, expected %r" % (sorted(after.items()), sorted((+exp_after).items()))
    elif bal["cw20"] != [[t, str(a)] for t, a in g["cw20"]] or bal["nfts"] != g["nfts"]:
        bad = "cw20 / NFT entries changed by the fee split"
    if bad:
        findings.append({"prop": "C17", "clause": "fee_split_wrong", "step": i, "detail": bad, "sig": "fee_split_wrong"})


def oracle_roy(g, rs, res, findings, i):
    regs = [x for x in rs if x is not None]
    total = sum(x["bps"] for x in regs)
    if total > 5000:
        if "err" not in res:
            findings.append({"prop": "C11", "clause": "over_half_accepted", "step": i, "detail": "royalties of %d bps accepted (direct call)" % total, "sig": "over_half_accepted"})
        return
    if "ok" not in res:
        findings.append({"prop": "C17", "clause": "royalty_split_aborted", "step": i, "detail": "royalties failed/panicked with %d bps on %r: %r" % (total, g, res), "sig": "royalty_split_aborted"})
        if total <= 5000 and "err" in res:
            findings.append({"prop": "C11", "clause": "exactly_half_refused", "step": i, "detail": "royalties of %d bps refused (direct call)" % total, "sig": "exactly_half_refused"})
        return
    out = res["ok"]
    exp_msgs = Counter()
    bad = None
    for vec, kind in (("native", "bank"), ("cw20", "cw20_transfer")):
        got = out["bal"][vec]
        if [k for k, _ in got] != [k for k, _ in g[vec]]:
            bad = "%s keys changed" % vec
            break
        for (k, a), (_, b) in zip(g[vec], got):
            paid = 0
            for x in regs:
                p = a * x["bps"] // 10000
                if p:
                    exp_msgs[(kind, k, x["payout"], p)] += 1
                    paid += p
            if int(b) + paid != a:
                bad = "%s %s: remainder %s + payouts %d != original %d" % (vec, k, b, paid, a)
            if 2 * paid > a:
                findings.append({"prop": "C11", "clause": "more_than_half", "step": i, "detail": "%s: %d of %d paid in royalties" % (k, paid, a), "sig": "more_than_half"})
            if int(b) == 0 and a > 0:
                findings.append({"prop": "C11", "clause": "reduced_to_zero", "step": i, "detail": "%s: reduced to zero" % k, "sig": "reduced_to_zero"})
    got_msgs = Counter()
    for m in out["msgs"]:
        if m["kind"] == "bank" and len(m["coins"]) == 1:
            got_msgs[("bank", m["coins"][0][0], m["to"], int(m["coins"][0][1]))] += 1
        elif m["kind"] == "cw20_transfer":
            got_msgs[("cw20_transfer", m["token"], m["to"], int(m["amount"]))] += 1
        else:
            got_msgs[("other", repr(m), "", 0)] += 1
    if not bad and got_msgs != exp_msgs:
        bad = "payout messages %r, expected %r" % (sorted(got_msgs.items()), sorted(exp_msgs.items()))
    if not bad and out["bal"]["nfts"] != g["nfts"]:
        bad = "NFTs changed by the royalty split"
    if not bad and int(out["bps"]) != total:
        bad = "reported bps %s, expected %d" % (out["bps"], total)
    if bad:
        findings.append({"prop": "C17", "clause": "royalty_split_wrong", "step": i, "detail": bad, "sig": "royalty_split_wrong"})


def cres(res, f):
    return "(Ok %s)" % f(res["ok"]) if "ok" in res else "Err"


def hg(b):
    return {"native": [[d, int(a)] for d, a in b["native"]], "cw20": [[t, int(a)] for t, a in b["cw20"]], "nfts": b["nfts"]}


def hmsg(m):
    return emit.out_msg(m)


def run_pure(job):
    """job: dict(name, seed, n, outdir, sweep=False)."""
    t0 = time.time()
    out = {"name": job["name"], "kind": "pure", "seed": job["seed"], "error": None, "findings": [], "masks": {}, "samples": []}
    h = None
    try:
        h = Harness(job.get("binary"))
        r = random.Random(job["seed"])
        lines = [emit.HEADER]
        n_cases = 0
        kinds = Counter()
        inputs = []
        for i in range(job["n"]):
            x = r.random()
            if x < 0.4:
                kind = r.choice(["JUNO", "USDC"])
                g = gbal(r)
                if r.random() < 0.7 and not any(d == ("ujunox" if kind == "JUNO" else "uusdcx") for d, _ in g["native"]):
                    g["native"].append(["ujunox" if kind == "JUNO" else "uusdcx", amount(r)])
                    r.shuffle(g["native"])
                res = h.rq({"cmd": "calc_fee", "fee_kind": kind, "bal": to_h(g)})
                oracle_fee(kind, g, res, out["findings"], i)
                lines.append("Eval vm_compute in (%d, if check_calc_fee %s %s %s then 0 else 1)." % (
                    i, "true" if kind == "USDC" else "false", emit.gbal(g),
                    cres(res, lambda v: "(%s, %s)" % (emit.opt(v["fee"], emit.coin), emit.gbal(hg(v["bal"]))))))
                kinds["calc_fee_coin"] += 1
                inputs.append(("calc_fee_coin", kind, g))
            elif x < 0.85:
                g = gbal(r)
                rs = rates(r)
                res = h.rq({"cmd": "royalties", "bal": to_h(g), "rs": [None if v is None else {"bps": str(v["bps"]), "payout": v["payout"], "last_updated": str(v["last_updated"])} for v in rs]})
                oracle_roy(g, rs, res, out["findings"], i)
                lines.append("Eval vm_compute in (%d, if check_royalties %s %s %s then 0 else 1)." % (
                    i, emit.gbal(g), emit.lst(emit.opt(v, lambda q: "(mkR %d %d %s)" % (q["last_updated"], q["bps"], emit.A(q["payout"]))) for v in rs),
                    cres(res, lambda v: "(%s, %s, %s)" % (emit.lst(hmsg(m) for m in v["msgs"]), v["bps"], emit.gbal(hg(v["bal"]))))))
                kinds["royalties"] += 1
                inputs.append(("royalties", g, rs))
            else:
                g1 = gbal(r)
                g2 = {k: [list(e) for e in v] for k, v in g1.items()}
                how = r.choice(["same", "permute", "plus", "drop", "extra", "dup"])
                if how == "permute":
                    for k in g2:
                        r.shuffle(g2[k])
                elif how == "plus" and (g2["native"] or g2["cw20"]):
                    vec = g2["native"] or g2["cw20"]
                    vec[0][1] += 1
                elif how == "drop":
                    for k in g2:
                        if g2[k]:
                            g2[k].pop()
                            break
                elif how == "extra":
                    g2["native"].append(["d07", 5])
                elif how == "dup" and g2["native"]:
                    g2["native"].append(list(g2["native"][0]))
                res = h.rq({"cmd": "genbal_cmp", "one": to_h(g1), "two": to_h(g2)})
                from .monitors import gb_counter
                same = gb_counter(g1) == gb_counter(g2) and all(len(g1[k]) == len(g2[k]) for k in g1)
                if res.get("ok") != same and how != "dup":
                    out["findings"].append({"prop": "C02", "clause": "genbal_cmp_wrong", "step": i, "detail": "genbal_cmp(%r, %r) = %r" % (g1, g2, res), "sig": "genbal_cmp_wrong"})
                lines.append("Eval vm_compute in (%d, if check_genbal_cmp %s %s %s then 0 else 1)." % (
                    i, emit.gbal(g1), emit.gbal(g2), "true" if res.get("ok") else "false"))
                kinds["genbal_cmp"] += 1
                inputs.append(("genbal_cmp", g1, g2))
            n_cases += 1
        path = os.path.join(job["outdir"], "pure_%s.v" % job["name"])
        with open(path, "w") as f:
            f.write("\n".join(lines) + "\n")
        rc, so, se = emit.run_coqc(path)
        masks = {int(m.group(1)): int(m.group(2)) for m in emit.RESULT_RE.finditer(so)}
        out["coq_rc"] = rc
        out["coq_err"] = se[-1500:] if rc != 0 else ""
        out["masks"] = {k: v for k, v in masks.items() if v}
        out["evaluated"] = len(masks)
        out["kinds"] = dict(kinds)
        out["n"] = n_cases
        out["samples"] = [repr(x) for x in inputs[:3]]
        out["bad_inputs"] = {k: repr(inputs[k]) for k in list(out["masks"])[:5]}
        for fnd in out["findings"][:5]:
            fnd["input"] = repr(inputs[fnd["step"]])
        for f in (path, path[:-2] + ".vo", path[:-2] + ".glob", path[:-2] + ".vok", path[:-2] + ".vos", os.path.join(job["outdir"], ".pure_%s.aux" % job["name"])):
            if os.path.exists(f):
                os.remove(f)
    except Exception:
        out["error"] = traceback.format_exc()
    finally:
        if h is not None:
            h.close()
    out["wall"] = time.time() - t0
    return out


def sweep(job):
    """Thorough tier, C17: exhaustive amounts lo..hi x every rate multiset over a small alphabet up
    to the cap, real code vs. closed form (a search for a failing input, not a proof)."""
    out = {"name": job["name"], "kind": "sweep", "error": None, "findings": [], "evaluated": 0}
    h = None
    try:
        h = Harness(job.get("binary"))
        alphabet = [10, 33, 100, 299, 300]
        ratesets = [[], [10], [33], [300], [299, 300], [10, 33, 100], [300] * 16 + [100, 100], [300] * 16 + [200], [300] * 17, [33] * 25]
        for a in range(job["lo"], job["hi"]):
            g = {"native": [["ujunox", a], ["uatom", a]], "cw20": [["contract2", a]], "nfts": []}
            if a == 0:
                continue
            for kind in ("JUNO", "USDC"):
                res = h.rq({"cmd": "calc_fee", "fee_kind": kind, "bal": to_h(g)})
                oracle_fee(kind, g, res, out["findings"], a)
                out["evaluated"] += 1
            for rs in ratesets:
                rsx = [{"bps": b, "payout": "usr5", "last_updated": 1} for b in rs]
                res = h.rq({"cmd": "royalties", "bal": to_h(g), "rs": [{"bps": str(b), "payout": "usr5", "last_updated": "1"} for b in rs]})
                oracle_roy(g, rsx, res, out["findings"], a)
                out["evaluated"] += 1
            if len(out["findings"]) > 20:
                break
    except Exception:
        out["error"] = traceback.format_exc()
    finally:
        if h is not None:
            h.close()
    return out
