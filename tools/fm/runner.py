"""Executes histories on the real code (corpus scripts and generated ones), runs the monitors,
evaluates the step comparison in Coq, and returns per-history summaries."""
import os
import random
import time
import traceback
from collections import Counter

from . import cases, corpus, emit, experiments, gen, monitors, world
from .harness import Harness

QUERY_PAGES_QUICK = (1, 2, 12, 13, 14, 255)


def op_kind(op):
    if op["t"] == "exec":
        return op["msg"]["k"]
    return op["t"]


def step_desc(sess, st):
    """What the driver needs to know about a step to apply the per-property projections."""
    op = st["op"]
    k = op_kind(op)
    flags = []
    mm = monitors.market_msg(op) if op["t"] in ("exec", "cw20_send", "nft_send") else None
    mk = mm[0] if mm else None
    now = int(st["pre"]["time_ns"])
    if mk in ("buy", "delete_listing") and op["t"] == "exec":
        lid = op["msg"]["lid"] if mk == "buy" else op["msg"]["id"]
        l = monitors.by_id(st["pre"], lid)
        if l is not None and l["exp"] is not None and int(l["exp"]) == now:
            flags.append("exact_expiry")
    if mk == "fee_cycle" and now // 10 ** 9 == int(st["pre"]["fee"]["last"]) + 604800 \
            and now - monitors.last_switch_ns(sess, st["i"]) >= 604800 * 10 ** 9:
        # the one instant the property leaves open: a whole week has elapsed, not more than a week in whole seconds
        flags.append("exact_week")
    if op["t"] == "exec" and op["funds"]:
        flags.append("funds")
    if op["t"] == "exec" and op["sender"] in sess.by_kind("hostile"):
        flags.append("hostile_sender")
    if op.get("fail") is not None:
        flags.append("fault")
    if op.get("reentry"):
        flags.append("reentry")
    return {"k": k, "mk": mk, "tag": st["tag"], "o": st["outcome"], "f": flags}


def purchase_stats(sess):
    c = Counter()
    for st in sess.steps:
        op = st["op"]
        if op["t"] == "exec" and op["msg"]["k"] == "buy" and st["outcome"] == "ok":
            c["purchases"] += 1
            b = monitors.bmap(st["pre"]).get((op["sender"], op["msg"]["bid"]))
            if b and b["fee"] is not None:
                c["purchases_with_traded_bucket"] += 1
            buyer = op["sender"]
            nl = monitors.lmap(st["post"]).get((buyer, op["msg"]["lid"]))
            if nl and nl["fee"] is not None:
                c["purchases_with_fee"] += 1
            if any(m["kind"] in ("bank", "cw20_transfer") for m in st["msgs"]):
                c["purchases_with_royalty"] += 1
    for st in sess.steps:
        if st["op"].get("reentry"):
            c["operations_with_reentry_program"] += 1
            if any(x.get("reentry") for x in st["op"]["reentry"]):
                c["operations_with_nested_programs"] += 1              # tree programs (model/ReentryDeep.v), compared by check_tstep
            if st["market_calls"] > 1:
                c["reentrant_transactions"] += 1                       # the hostile contract was handed a transfer and called back
                c["nested_marketplace_calls"] += st["market_calls"] - 1
                if st["outcome"] != "ok":
                    c["reentrant_transactions_reverted"] += 1
    c["max_records"] = max([len(st["post"]["listings"]) + len(st["post"]["buckets"]) for st in sess.steps] or [0])
    return c


def run_job(job):
    """job: dict(name, kind='corpus'|'gen', seed, n_ops, probes, fault_prob, q_every, outdir)."""
    t0 = time.time()
    out = {"name": job["name"], "kind": job["kind"], "seed": job.get("seed"), "error": None}
    h = None
    try:
        h = Harness(job.get("binary"))
        flags = set()
        qsteps = {}
        if job["kind"] == "corpus":
            cfgf, script, flags = corpus.SCRIPTS[job["name"]]
            sess = world.Session(cfgf(), h, name=job["name"], flags=flags)
            ctx = monitors.Ctx(sess)
            sess.market_seen = {}

            def on_query():
                i = len(sess.steps) - 1
                q = sess.queries(pages=QUERY_PAGES_QUICK, batches=[])
                experiments.check_queries(sess, ctx, q, i)
                qsteps[i] = q
                # what the market query listed in this state (C16: listed => purchasable, judged by the next purchase attempt)
                sess.market_seen[i] = set(int(l["id"]) for e in q["market"] if "ok" in e["r"] for l in e["r"]["ok"])

            sess.on_query = on_query
            script(sess)
            sess.on_query = None
            pages = tuple(range(0, 256)) if "all_pages" in flags else QUERY_PAGES_QUICK
            q = sess.queries(pages=pages, batches=[sess.by_kind("cw721"), sess.by_kind("cw721")[:1] + ["usr0"], []])
            experiments.check_queries(sess, ctx, q, len(sess.steps) - 1, all_pages=pages if "all_pages" in flags else None)
            qsteps[len(sess.steps) - 1] = q
        else:
            rng = random.Random(job["seed"])
            flags = set(job.get("flags", ()))
            sess = world.Session(world.default_cfg(t0=world.T0 + rng.randrange(0, 10 ** 9)), h, name=job["name"], flags=flags)
            ctx = monitors.Ctx(sess)
            if "reentrant" in flags:
                # the hostile contract gets coins and honest tokens of its own to play with
                hs = sess.by_kind("hostile")
                for hc in hs:
                    sess.do({"t": "bank_send", "user": "usr0", "to": hc, "coins": [["ujunox", 5000], ["uatom", 300], ["uusdcx", 900]]}, "valid")
                    for t in sess.by_kind("cw20"):
                        sess.do({"t": "cw20_transfer", "user": "usr1", "token": t, "to": hc, "amount": 400}, "valid")
            g = gen.Gen(sess, rng, probes_per_state=job.get("probes", 0), reentry_prob=0.5 if "reentrant" in flags else 0.0)
            q_every = job.get("q_every", 0)

            def on_state(done):
                if q_every and done % q_every == 0:
                    colls = sess.by_kind("cw721")
                    batch = [rng.choice(colls + ["usr1"]) for _ in range(rng.randint(1, 4))]
                    q = sess.queries(pages=(1, 2, 13, rng.randint(1, 255)), batches=[batch])
                    experiments.check_queries(sess, ctx, q, len(sess.steps) - 1)
                    qsteps[len(sess.steps) - 1] = q

            g.run(job["n_ops"], fault_prob=job.get("fault_prob", 0.0), on_state=on_state)
        if "no_drain" not in flags:
            experiments.drain(sess, ctx)
        monitors.run_all(sess, ctx)
        out["findings"] = ctx.findings
        out["n_steps"] = len(sess.steps)
        out["desc"] = [step_desc(sess, st) for st in sess.steps]
        out["stats"] = dict(purchase_stats(sess))
        # model side
        path = os.path.join(job["outdir"], "cases_%s.v" % job["name"])
        skipped = cases.emit_session(sess, path, qsteps)
        rc, so, se = emit.run_coqc(path)
        masks = {int(m.group(1)): int(m.group(2)) for m in emit.RESULT_RE.finditer(so)}
        out["coq_rc"] = rc
        out["coq_err"] = se[-1500:] if rc != 0 else ""
        out["masks"] = {k: v for k, v in masks.items() if v}
        out["evaluated"] = sorted(masks.keys())
        out["skipped"] = skipped
        out["qsteps"] = sorted(qsteps.keys())
        need_ops = bool(out["findings"] or out["masks"] or skipped or rc != 0) or job.get("keep_ops")
        out["ops"] = sess.ops if need_ops else None
        out["cfg"] = sess.cfg if need_ops else None
        out["sample_ops"] = sess.ops[:6]
        out["errs"] = {st["i"]: st["err"][-300:] for st in sess.steps if st["i"] in out["masks"]}
        for f in (path, path[:-2] + ".vo", path[:-2] + ".glob", path[:-2] + ".vok", path[:-2] + ".vos"):
            if os.path.exists(f) and not job.get("keep_cases"):
                os.remove(f)
        aux = os.path.join(job["outdir"], ".cases_%s.aux" % job["name"])
        if os.path.exists(aux):
            os.remove(aux)
    except Exception:
        out["error"] = traceback.format_exc()
    finally:
        if h is not None:
            h.close()
    out["wall"] = time.time() - t0
    return out


def replay(cfg, ops, flags=(), binary=None):
    """Re-execute a script on the real code; returns the session (caller closes it)."""
    h = Harness(binary)
    sess = world.Session(cfg, h, flags=flags)
    for op in ops:
        sess.do(op, op.get("_tag"))
    return sess
