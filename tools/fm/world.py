"""Universe configuration and a recording session on top of the harness."""
import json

from . import names
from .harness import Harness

T0 = 1_700_000_000_123_456_789
H0 = 5000
BIG = 10 ** 15


def default_cfg(n_cw20=2, n_cw721=3, hostile=True, t0=T0, h0=H0, traders=5, tokens_per_coll=6, rich=None, extra_denoms=()):
    users = list(names.USERS)
    bank = []
    for i in range(traders):
        for d in ["ujunox", "uusdcx", "uatom", "uosmo"] + list(extra_denoms):
            bank.append(["usr%d" % i, d, str(BIG)])
    if rich:
        for u, d, a in rich:
            bank = [b for b in bank if not (b[0] == u and b[1] == d)]
            bank.append([u, d, str(a)])
    contracts = []
    for i in range(n_cw20):
        contracts.append({"kind": "cw20", "balances": [["usr%d" % u, str(BIG)] for u in range(traders)]})
    for i in range(n_cw721):
        # last collection has no admin (cannot be registered); the others are administered by usr5
        adm = None if (i == n_cw721 - 1 and n_cw721 >= 3) else "usr5"
        toks = [[str(k + 1), "usr%d" % (k % traders)] for k in range(tokens_per_coll)]
        contracts.append({"kind": "cw721", "admin": adm, "tokens": toks})
    if hostile:
        contracts.append({"kind": "hostile", "admin": None})
    return {"t0_ns": str(t0), "height": h0, "users": users, "deployer": "usr7", "pool": names.POOL,
            "bank": bank, "contracts": contracts}


class Session:
    """Runs operations on the real code and records (pre, op, outcome, msgs, post) steps."""

    def __init__(self, cfg, harness=None, name="", flags=()):
        self.h = harness or Harness()
        self.cfg = cfg
        self.name = name
        self.flags = set(flags)
        r = self.h.init(cfg)
        t = r["addrs"]
        self.market = t["market"]
        self.registry = t["registry"]
        self.pool = t["pool"]
        self.contracts = t["contracts"]
        self.setup_msgs = t["setup_msgs"]
        self.obs = r["obs"]
        self.obs0 = r["obs"]
        self.steps = []
        self.ops = []
        denoms = {"ujunox", "uusdcx"}
        for b in cfg["bank"]:
            denoms.add(b[1])
        self.denoms = denoms
        nfts = []
        k = 2
        for c in cfg["contracts"]:
            if c["kind"] == "cw721":
                for tk in c.get("tokens", []):
                    nfts.append(("contract%d" % k, tk[0]))
            k += 1
        self.nfts = nfts
        self.addrs = list(cfg["users"]) + [self.pool, self.market, self.registry] + [c["addr"] for c in self.contracts]
        names.check_order(self.addrs)

    def by_kind(self, kind):
        return [c["addr"] for c in self.contracts if c["kind"] == kind]

    def universe(self):
        return {"market": self.market, "registry": self.registry, "pool": self.pool, "contracts": self.contracts,
                "addrs": self.addrs, "denoms": sorted(self.denoms, key=names.denom_num), "nfts": self.nfts}

    def note_denoms(self, op):
        for key in ("funds", "coins"):
            for c in op.get(key, []) or []:
                self.denoms.add(c[0])

    def do(self, op, tag=None):
        self.note_denoms(op)
        r = self.h.op(op)
        step = {"i": len(self.steps), "pre": self.obs, "op": op, "outcome": r["outcome"], "err": r["err"],
                "msgs": r["msgs"], "post": r["obs"], "tag": tag, "market_calls": r["market_calls"], "emitted": r.get("emitted", 0), "nested": r.get("nested")}
        if op.get("reentry") and any(x.get("reentry") for x in op["reentry"]):
            step["nested"] = None    # deep mode: the harness does not report the outcomes of the individual nested calls
        if r["obs"] == self.obs:
            step["post"] = self.obs  # share the object
        self.obs = step["post"]
        self.steps.append(step)
        self.ops.append(op)
        return step

    def query_here(self):
        """A corpus script asks for the query battery at this point (the runner installs the hook)."""
        if getattr(self, "on_query", None):
            self.on_query()

    def queries(self, addrs=None, pages=(1, 2, 12, 13, 14, 255), colls=None, batches=()):
        # the owner / whitelist queries validate the address they are given: an unparsable one is part of the battery
        # (found unexercised by tools/modelmut.py)
        addrs = addrs if addrs is not None else [a for a in self.cfg["users"][:6]] + ["x"]
        colls = colls if colls is not None else self.by_kind("cw721")
        return self.h.queries(addrs, pages, colls, batches)

    def close(self):
        self.h.close()


def obs_key(o):
    return json.dumps(o, sort_keys=True)
