#!/usr/bin/env python3
"""tools/harmless.py — false-alarm test: apply each behaviour-preserving refactor under harmless/ to /repo in turn, run ALL registered
quick checks, expect silence; restore /repo.  Not a registered check.  Writes harmless/results.json."""
import glob, json, os, subprocess, sys
ROOT = "/verif"
st = subprocess.run(["git", "-C", "/repo", "status", "--short"], capture_output=True, text=True).stdout
if any(not l.startswith("??") for l in st.splitlines()):
    sys.exit("/repo not clean")
props = [c["property_id"] for c in json.load(open(os.path.join(ROOT, "MANIFEST.json")))["checks"]]
res = {}
for d in sorted(glob.glob(os.path.join(ROOT, "harmless", "h*.diff"))):
    name = os.path.basename(d)
    subprocess.run(["git", "-C", "/repo", "apply", d], check=True)
    alarms = {}
    try:
        for p in props:
            r = subprocess.run(["./check", p, "--tier", "quick"], cwd=ROOT, capture_output=True, text=True)
            v = [l for l in r.stdout.splitlines() if l.startswith("VIOLATION") or l.startswith("  #")]
            if r.returncode != 0 or v:
                alarms[p] = v[:4]
    finally:
        subprocess.run(["git", "-C", "/repo", "checkout", "--", "."], check=True)
    res[name] = alarms
    print(name, "alarms:", json.dumps(alarms)[:600], flush=True)
json.dump(res, open(os.path.join(ROOT, "harmless", "results.json"), "w"), indent=1)
