#!/usr/bin/env python3
"""Regenerates MANIFEST.json: a property is claimed once coq/props/<id>.v exists."""
import json
import os

ROOT = os.path.dirname(os.path.dirname(os.path.abspath(__file__)))
props = [json.loads(l) for l in open(os.path.join(ROOT, "properties.jsonl"))]
NOTES = json.load(open(os.path.join(ROOT, "tools", "levels.json")))
checks, na = [], []
for p in props:
    pid = p["id"]
    if not os.path.exists(os.path.join(ROOT, "coq", "props", pid + ".v")):
        na.append({"property_id": pid, "reason": "theorems for this property are not written yet (correspondence and monitors already run; see DESIGN.md §6 %s)" % pid})
        continue
    n = NOTES.get(pid, {})
    checks.append({
        "property_id": pid,
        "quick_cmd": "./check %s --tier quick" % pid,
        "thorough_cmd": "./check %s --tier thorough" % pid,
        "evidence_file": "/verif/evidence/%s.json" % pid,
        "replay_cmd_template": "./check replay {path}",
        "engine": "rocq-model+correspondence",
        "level_claimed": {"category": "proof", "text": n.get("text", "Theorems about an executable Gallina model (coq/props/%s.v), tied to the code by step-wise correspondence." % pid),
                          "design_ref": "DESIGN.md §6 %s (plan), §11.3, §11.6, §11.7 (as built)" % pid},
        "level_note": n.get("note", "Trusted: Coq 8.16.1 kernel + VM; the hand-written model (checked by correspondence on every run, not proved faithful); the Rust harness / cw-multi-test 0.16.5 / cw20-base / cw721-base as stand-ins for the chain; chain assumptions of DESIGN.md §8."),
        "technique": "machine-checked proof in Rocq (Coq 8.16) over a hand-written executable model + step-wise differential correspondence (vm_compute) with the real contracts"})
m = {"version": 1, "setup_cmd": "./check setup",
     "hooks": {"guard": "fuzion_market_verif",
               "enable": "RUSTFLAGS=\"--cfg fuzion_market_verif\" (declared; no hook is needed: every handler is reachable through the public entry points and state is read from raw contract storage)",
               "baseline_off_cmd": "cd /repo && cargo test --workspace --no-fail-fast --offline", "source_commits": [], "add_only": True},
     "engines": [{"name": "rocq-model+correspondence", "path": "/verif/check", "serves_properties": [c["property_id"] for c in checks],
                  "kind_free_text": "Coq 8.16 proofs over a hand-written executable model; correspondence by vm_compute against the real contracts under cw-multi-test; Python monitors search the real code for failing inputs"}],
     "checks": checks,
     "notes": "Genuine defects repaired by fix: commits in /repo: 9f8b8fe (C19), 5a855f3 (C01/C10/C07), 0a4cefa (C16). C18 (forged-sender receive hooks) is a known finding: known_findings.json, DESIGN.md §7.",
     "not_applicable": na}
json.dump(m, open(os.path.join(ROOT, "MANIFEST.json"), "w"), indent=1)
print("claimed:", [c["property_id"] for c in checks])
